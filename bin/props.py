"""Per-property configuration of bin/check."""

TRUSTED_BASE = [
    "Coq 8.16.1 kernel (coqc), incl. the vm_compute reduction machine used in Examples and finite sweeps; no native_compute",
    "no axioms: Print Assumptions under every property theorem reports 'Closed under the global context'",
    "extraction: Require Extraction + ExtrOcamlBasic only (bool/option/unit/list/prod/sumbool/sumor mapped to OCaml, andb/orb inlined); N, Z, positive, ascii, string stay extracted inductives; no Extract Constant of my own",
    "OCaml 4.13.1 compiler and ocaml/driver.ml (hex codec, line parser, int->N/Z conversion)",
    "Go harness (harness/*.go: request builders, response canonicalisation, generators) and bin/check (python)",
    "correspondence is differential testing on generated inputs: the theorem is about the hand-written Gallina model; model = code only on the compared observables of the explored cases",
    "go2coq (go2coq/*.go, unverified): translates range.go Range/parseRangeHeader, error.go Status + constants, validation.go ValidateBucketName from /repo's working tree into Gallina on every run of C11 / C09 / C17; trusted in it: the translation scheme, the result-adapter and struct tables, the http.Status* table; coq/Base/GoLib.v: the Gallina meaning given to len, slicing, strings.HasPrefix/Split/TrimSpace/Index, strconv.ParseInt, regexp MatchString (not interpreted: the regexp text is pinned to the one the hand-compiled matcher was written for), net.ParseIP (IPv4 branch)",
    "modelled not verified: Go stdlib (strings, strconv.ParseInt, regexp as used, net.ParseIP, fmt), net/http request parsing, encoding/xml, goskiplist, bbolt, afero, sync primitives",
]

NOT_APPLICABLE = []
HOOK_COMMITS = ["cc1e0d5"]

PROPS = {
    "C11": {
        "title": "Range reads return exactly the requested bytes or InvalidRange",
        "gen": {"out": "RangeGen", "go": "range.go (ObjectRangeRequest.Range, parseRangeHeader)",
                "theorems": ["C11_gen_range_is_model", "C11_gen_parser_is_model", "C11_gen_range_correct", "C11_gen_no_other_failure", "C11_gen_parser_output_wellformed"]},
        "harness": "c11",
        "model": "Model/Range.v get_range (parseRangeHeader + ObjectRangeRequest.Range + backend slicing, int64 wrap explicit)",
        "rule": "GET with a Range header on objects of size 0..6 (quick) / 0..24 (thorough), 100 and 4097, on all six backend "
                "instances; headers: all first/last/suffix in -1..n+2 in the three forms, int64/uint32 boundary values in every "
                "position, whitespace/sign/unit/multi-range variants, seeded token soup. distinct_nontrivial = distinct "
                "(backend, header, size) whose header reaches the arithmetic (parses as a single range). Malformed headers whose junk after 'bytes=' consists of the unit's own letters or '=' (bytes==1-2, bytes=bytes=1-2, bytes=e1-2 ...). On the real-directory fs backends six ranged reads are each the first read after the metadata records were wiped and the store reopened. Headers with a comma and a foreign or missing unit. Three ranged reads per backend are held open while twelve 40 KB writes commit, then read. Two sevenths of the requests carry a precondition next to the Range header (If-None-Match with an entity tag the object does not have, If-Modified-Since with an old date): it changes nothing. While a ranged read is held open other clients make 24 ranged reads of their own. Two held ranged reads during which the object itself is overwritten.",
        "explanation": "Theorems: for every header string and every object below 2^63 bytes the modelled handler answers exactly "
                       "what the wrap-free spec says and never slices out of bounds. Tie: every run the Go handlers built from "
                       "/repo and the extracted model are evaluated on the same (header, object) cases and status, S3 code, "
                       "Content-Range, Content-Length and body are compared; the extracted spec is evaluated on the "
                       "implementation's output as the failing-input search.",
        "assumptions": ["object sizes below 2^63", "headers as net/http hands them to the handler (no transport trimming)"],
    },
    "C17": {
        "title": "Bucket names are accepted exactly when they satisfy the documented S3 rules",
        "gen": {"out": "NameGen", "go": "validation.go (ValidateBucketName, bucketNamePattern)",
                "theorems": ["C17_gen_validator_is_model", "C17_gen_regexp_text_pinned", "C17_gen_validator_eq_spec", "C17_gen_create_iff", "C17_gen_refused_creates_nothing"]},
        "harness": "c17",
        "model": "Model/BucketName.v validate (regexp matcher, net.ParseIP dotted-quad branch, per-label regexp) and create_bucket",
        "rule": "ValidateBucketName called directly on every string of length <= 5 (quick) / 6 (thorough) over {a,z,0,9,-,.,A,_}, on "
                "lengths 1..70 of valid characters, IPv4/IPv6-looking names and seeded random strings; PUT /<name> through the "
                "HTTP API on memory, bolt and multi-bucket fs (MemMapFs and real directory) for all strings up to length 4/3/3/2 "
                "(quick) plus the special and random names and duplicates, with ListBuckets compared to the set of accepted names "
                "every 500 requests. distinct_nontrivial = distinct accepted names (direct) + distinct (backend, name) created. The same corpus is sent (GET /<name>, and reads, sub-resources and uploads under invalid names) to servers with the auto-bucket option on memory, bolt and fs: a bucket comes to exist on first use exactly when its name is valid, and the bucket list is compared. A deleted bucket is addressed again (a multipart upload started before the delete is completed after it, an upload, a copy): it must not be listed again. Names of several lines (aaa\\n, \\naaa, aaa\\nA_, aaa.\\nbbb ...) and other white space / control characters around and inside valid names. Uploads, copies and multipart uploads with keys that spell paths out of their bucket (../zzz-sideways/x, ../../zzz-up/x ...) followed by the bucket list: buckets come to exist through create-bucket only. The special names include well-known probe / console / sub-resource names (healthz, metrics, api, admin, uploads, versions ...). Create-bucket requests carrying the optional S3 headers (object lock, ACL, grants, ownership) and a location document.",
        "explanation": "Theorem: the modelled validator equals the documented rule on every byte string of any length (no bound); "
                       "create succeeds iff valid and absent, a refusal creates nothing. Tie: the real ValidateBucketName and the "
                       "real create-bucket handlers are run on the same names as the extracted validator/spec and compared "
                       "(decision, status, S3 code, bucket listing).",
        "assumptions": ["'formatted as an IP address' is read as 'parses under Go net.ParseIP' (the documented mechanism)"],
    },
    "C02": {
        "title": "Every operation sequence follows S3 bucket/object semantics on every backend",
        "harness": "c02",
        "model": "Model/Handlers.v step over Model/Mem.v (bucket map, sorted object map, put/get/head/delete/multi-delete/copy, ensureBucketExists/auto-bucket)",
        "rule": "all operation sequences of length 3 (quick) / 4 (thorough) over an 18-symbol alphabet (create/delete bucket, put two bodies, "
                "get, head, delete, multi-delete, copy incl. self-copy and cross-bucket copy, head bucket) on the memory backend with and "
                "without auto-bucket, each followed by a probe (list buckets, list objects, get every key); plus seeded random sequences "
                "of 40 (quick) / 60 (thorough) operations over 2 buckets x 4 keys x 3 bodies on all six backend instances with and "
                "without auto-bucket. distinct_nontrivial = distinct sequences executed. The two buckets are named bkt and bkt2 (one name begins with the other); on the fs backends keys below an object and keys that are directories of other keys are read, deleted and copied from (never written: NoSuchKey everywhere); every fourth memory history runs the backend with versioning support switched off. Every third random history ends with c02Nesting (outside the model): an upload below an existing object, or onto a name that holds other keys, may be refused or stored, but the object acknowledged first keeps reading as written. Metadata sets include headers sent with an empty value. A third of the copies of the random histories (self-copies included) carry metadata of their own. On the fs backends every fifth upload or copy goes to a key above or below a stored key: the extracted fs_put_refused (Model/FsPut.v) on the model's live keys predicts the refusal (400 InvalidArgument, state unchanged) or the store.",
        "explanation": "Theorems: the modelled handlers satisfy the S3 laws for every reachable state and every operation sequence "
                       "(read-your-writes, frame, idempotent delete, bucket lifecycle, copy). Tie: every response of every sequence "
                       "(status, S3 code, body, ETag, bucket list, key list) produced by the Go handlers built from /repo is compared "
                       "with the extracted model stepping through the same sequence; the same reference machine is used for all "
                       "backends, so agreement with it is agreement between backends.",
        "assumptions": ["fs backends are driven on the conflict-free key domain (no key is a path-prefix of another key)"],
        "timeout": {"quick": 900, "thorough": 3000},
    },
    "C05": {
        "title": "Versioning never loses history and always serves the newest remaining version",
        "harness": "c05",
        "model": "Model/Mem.v bucket_put / bucket_rm / bucket_rm_version / get_object_version + Model/Handlers.v",
        "rule": "memory backend. Exhaustive: bucket Enabled, one put, then every sequence of length 4 (quick) / 5 (thorough) over an "
                "11-symbol alphabet (put, delete, delete-version of the 1st / 2nd / newest id issued, enable, suspend, get, head by id, "
                "multi-delete with a version, put of another key), followed by a probe that GETs and HEADs every key with every id ever "
                "issued; plus seeded random histories of 30/40 ops over three keys starting never-versioned. Version ids are compared "
                "through a bijection built on first sight (model issue rank <-> implementation string). distinct_nontrivial = distinct "
                "sequences executed. Every third suspension is sent as a versioning document that does not mention the status. A twelfth of the operations are copies (onto itself with new metadata, with and without the REPLACE directive, and onto another key). The status word of versioning documents is spelt in varying case and with surrounding blanks; documents whose status is a stem, another word or junk are refused and change nothing.",
        "explanation": "Theorems over the version-stack model: fresh ids, archived versions retrievable until deleted, plain delete adds "
                       "a marker, delete-version removes just that version and promotes the newest remaining one, writes while suspended "
                       "never destroy versions created while enabled, no reachable state has a nil current version. Tie: each response "
                       "of each history (status, code, body, ETag, version-id header via the bijection, delete-marker header) from the Go "
                       "handlers vs the extracted model.",
        "assumptions": ["version ids are compared up to the order-preserving bijection issue-rank <-> id string"],
        "timeout": {"quick": 900, "thorough": 3000},
    },
    "C03": {
        "title": "Listings are the exact, sorted, correctly grouped view of the live keys",
        "extra_property_files": ["C03_fs"],
        "harness": "c03",
        "model": "Model/Prefix.v prefix_match + Model/Mem.v scan/list_bucket (unpaginated)",
        "rule": "per backend: key sets = all subsets of size <= 2 of the 18 keys over {a,b,/} (length <= 3, not starting/ending with "
                "'/'), seeded subsets of size 3..6 and five 'rich' sets (a-x a/x a.x, UTF-8, nested directories); for each set every "
                "prefix over {a,b,/} of length <= 3 not starting with '/', delimiter absent and '/' (and 'b' on memory/bolt), V1 or "
                "V2; the memory backend runs versioned with a delete-marked ghost key; every set is deleted again and the bucket "
                "re-listed. fs backends: conflict-free sets only. distinct_nontrivial = distinct (backend, key set, prefix, delimiter). A rich set of names a directory walk may treat specially (segments beginning with a dot, a blank, a tilde; ending with a dot); every rich set runs on every backend also in the quick tier. On the real-directory fs backends every tenth set ends with uploads the file system refuses half way; on every backend ghost keys are stored and deleted before the listings. Half of the undelimited listings send an explicit empty delimiter= parameter. On the fs backends every second key set tries uploads one and two levels below a stored object (refused; outside the model); every fs listing is also compared, contents and common prefixes in order, with fs_list of the extracted Model/FsList.v on the directory tree of the live keys. On the memory backend every third key set deletes two delete-marked ghost keys once more while versioning is suspended. On the memory backend every fourth key set removes the current version of a key with three versions by its id (the newest remaining one is listed) and of a key whose newest remaining version is a delete marker (hidden again). c03Unclean: on the key-value backends u/v u//v u///v u/./w u/w u/../x x with distinct sizes, listed V1/V2 under six prefix/delimiter combinations, path-style and through host-bucket-base / host-bucket servers, before and after two deletes. A rich key set of base64-sensitive keys; on the memory backend V2 walks (1 and 2 entries a page) over every rich set, every other one handing the server's token back verbatim. Two of the V2 walks start from a start-after that is resent next to every continuation token. On the memory backend, listings that start behind the last key (marker, start-after, continuation token).",
        "explanation": "Theorems: Prefix.Match equals the declarative classification (string prefix, first delimiter after it) for "
                       "every key/prefix/delimiter in the property's domain, and the unpaginated listing is exactly filter+group of the "
                       "sorted live keys. Tie: ListObjects responses (keys in order, sizes, ETags, common prefixes) of the Go handlers "
                       "vs the extracted model on every case.",
        "assumptions": ["keys neither start nor end with the delimiter; prefixes do not start with it (the property's quantifier)"],
        "timeout": {"quick": 900, "thorough": 3000},
    },
    "C04": {
        "title": "Paginated listing visits every key exactly once and terminates",
        "harness": "c04",
        "model": "Model/Mem.v list_bucket: sm_after (Seek + skip marker), scan with max-keys, skip_group, NextMarker/IsTruncated; fallback in Model/Handlers.v",
        "rule": "memory backend: C03 key sets (with a delete-marked key) x prefixes x delimiter {none,/,b} x every max-keys 1..n+1: "
                "full walks following the server's continuation (V1 NextMarker or last key, V2 continuation token) checked by the "
                "walk oracle (page bound, strictly ascending, each common prefix once, concatenation = unpaginated, last page not "
                "truncated, termination) and page-by-page against the model; single pages from arbitrary markers incl. start-after; "
                "bolt/fs: fallback with WithUnimplementedPageError on/off. distinct_nontrivial = distinct walks. Key sets in which a key ends with the delimiter (next to keys below it) are walked too; keys beginning with the delimiter are the known finding D32. c04EncodedKeys: keys containing '+', '%41', '%2F', '%25' walked for every page size with and without encoding-type=url. c04SuspendedDeletes: keys hidden inside groups by deletes made while versioning is suspended. Every third walk opens with its marker parameter present and empty (marker= / start-after= / continuation-token=). Every other V2 walk hands the server's continuation token back exactly as it came.",
        "explanation": "Theorems about the paging loop of the model (bound, progress, completeness of the walk by induction on the sorted "
                       "key list). Tie: every page of every walk from the Go handlers vs the extracted model, plus a model-independent "
                       "walk oracle evaluated on the implementation's pages.",
        "assumptions": ["page sizes >= 1 for walks"],
        "timeout": {"quick": 900, "thorough": 3000},
    },
    "C06": {
        "title": "Completing a multipart upload stores exactly the listed parts, once, or nothing",
        "harness": "c06",
        "model": "Model/Uploader.v (create_upload, upload_part, complete_upload with check_parts / ints_sorted, abort_upload) over Model/Mem.v",
        "rule": "per backend: seeded histories of 30 (quick) / 40 (thorough) operations: initiate (with and without metadata), "
                "upload-part with part numbers in {1..4, 7, 9999, 10000, 10001, 0, -1} incl. re-uploads and empty bodies, complete with "
                "the full ascending list / a subset / a permutation / an unknown number / a wrong ETag / a duplicate / unquoted ETags / "
                "an empty list, abort, get, list-parts, list-uploads over two keys with several simultaneous uploads; final probe "
                "GET/HEAD of every key and listing of every pending upload. distinct_nontrivial = distinct successful completes. c06CompleteOverlap (every backend): the backend write of a complete is held open while an abort, a part upload or a second complete of the same upload arrives; both finish, exactly one of complete / abort takes effect. One in six part uploads of a history is a refused (re-)upload (digest of other bytes, more bytes than declared). c06EmptyUploadID: part upload, part listing, complete and abort with an empty uploadId are refused and leave the object of that key alone. Half of the histories run on keys with a '%' that is no escape and a blank (50%off, sales/growth 100%.csv, a%zz, p%/q%2). A third of the initiations with metadata give a header with an empty value. A fifth of the part uploads carry Content-Type: application/x-www-form-urlencoded. One in ten multipart requests addresses a live upload by another spelling of its id (leading zeros, sign, blanks).",
        "explanation": "Theorems over the uploader model: an accepted complete stores exactly the concatenation of the latest upload of "
                       "each listed part with the composite ETag and the initiation metadata and removes the upload; a rejected "
                       "complete and an abort leave object and pending upload state as required. Tie: every response (status, code, "
                       "part ETag, composite ETag, later GET body/ETag/metadata, listings) from the Go handlers vs the extracted model, "
                       "with an independent MD5 (OCaml Digest).",
        "assumptions": ["upload ids are compared through a bijection built on first sight"],
        "timeout": {"quick": 900, "thorough": 3000},
    },
    "C14": {
        "title": "Multipart bookkeeping listings are exact and page completely",
        "harness": "c14",
        "model": "Model/Uploader.v list_parts, list_uploads (scan_uploads, take_uploads, next_entry)",
        "rule": "memory backend: seeded histories (initiate over up to 6 keys incl. keys sharing 'b/' and the key 'b', upload-part with "
                "gaps {1,2,3,5,8,13,40}, abort, complete); then for every pending upload ListParts walks for every max-parts 1..n+1 "
                "following NextPartNumberMarker and single pages from markers {0,1,2,4,13,14,41,42,10^6}; ListMultipartUploads walks "
                "for every max-uploads 1..n+1 over six prefix/delimiter combinations following (NextKeyMarker, NextUploadIdMarker); "
                "each walk is checked by a model-independent oracle (bound, every entry once, concatenation = unpaginated, each common "
                "prefix once) and page by page against the model. distinct_nontrivial = distinct walks. A fixed history lists uploads whose groups are not neighbours in key order (/a/x, /b/x, a/y) unpaginated against the model. Every eighth history uses keys with white space at either end. Every second history ends by aborting what is left and listing the uploads of the bucket. A sixth of the part uploads spell the part number as a client may (010, 008, +3, 00013 decimal; 0x10, 0b11, 0o17, 1_0, 1e1, ' 5' name no part). A third of the uploads to a held part number are re-uploads the server refuses (digest of other bytes / more bytes than declared), followed by a part listing. An eighth of the part operations use the upload id through the key of another upload. ListParts with part-number markers beyond int64 (2^63 .. 10^40): refused or empty. Upload listings from key markers behind the last upload (made up, and handed out before the uploads behind them were aborted): empty and final; a truncated page has to have something on it.",
        "explanation": "Theorems over the uploader model's listings (exactness w.r.t. the pending uploads / held parts, paging). Tie: "
                       "every page from the Go handlers vs the extracted model plus the walk oracle on the implementation's pages.",
        "assumptions": [],
        "timeout": {"quick": 900, "thorough": 3000},
    },
    "C12": {
        "title": "aws-chunked streaming uploads decode to the payload however they arrive",
        "harness": "c12",
        "model": "Model/Chunk.v cread (chunkedReader.Read state machine over a fragmenting inner reader), read_full/drain consumers, encode",
        "rule": "decoder driven directly (verif-tagged export): payload lengths {0,1,2,15..17,100,600,4095..4097,32767..32769,65539 (+200000 "
                "thorough)} x chunk-size patterns ({1},{2,3},{16},{100,1,7},{4096},{70000},{65536,1},{10^6}) x transport read schedules "
                "(uncapped, one byte at a time, halves, seeded random, 1000-byte reads, mixed) x EOF with/without data x consumers "
                "ReadAll(exact / short / long declared size) and copy loops with buffers 1,2,7,512,32768; truncated and malformed "
                "framings; then PUT with the streaming framing on all six backends with the same fragmentations, GET after each, "
                "declared decoded length off by one and negative. distinct_nontrivial = distinct (payload length, chunking, schedule, "
                "consumer) with a non-empty payload. aws-chunked part uploads and whole-object uploads are also sent with a Content-MD5: of their payload (accepted) and of other bytes (refused). Every other stream spells its chunk sizes with upper-case hex digits. Streaming uploads with 1500..2100 bytes of user metadata: what is stored is the payload or nothing. Odd-numbered chunked part uploads carry a form Content-Type.",
        "explanation": "Theorem: for every payload, every chunking, every transport fragmentation and every consumer buffer schedule the "
                       "modelled decoder returns exactly the payload. Tie: the real chunkedReader (driven directly and through PUT) vs "
                       "the extracted state machine on the same streams and schedules; spec oracle: decoded bytes = payload, wrong "
                       "declared length refused.",
        "assumptions": ["chunk signatures are not verified by the decoder (by design); malformed = what the framing grammar can observe"],
        "timeout": {"quick": 900, "thorough": 3000},
    },
    "C16": {
        "title": "Path-style and virtual-host-style addressing reach the same bucket and key",
        "harness": "c16",
        "model": "Model/Routing.v route (split_path, rewrite, host_bucket, match_bucket / effective_path)",
        "rule": "400 (quick) / 6000 (thorough) seeded logical requests over the routed surface (bucket create/head/delete, object "
                "put/get/range/head/delete, list V1/V2, versions, location, versioning, multi-delete, copy, multipart initiate / part / "
                "list-parts / abort, unknown methods; 2 buckets x 6 keys incl. spaces, UTF-8, dots, nesting), each sent to 11 twin "
                "memory-backed servers with identical histories: path-style; host-bucket; host-bucket-base with one base and with two "
                "bases (first / second base, configured with stray dots and a port); fall-backs (localhost, the base itself, a "
                "multi-label prefix, an unrelated host); path-style with an extra leading and with a trailing slash. A recording "
                "backend wrapper reports the bucket/key each handler addressed. distinct_nontrivial = distinct (variant, method, "
                "sub-resource, bucket, key). Keys named like their bucket (bkt, bkt/k, bkt.s3.example.com/k) are in the pool. Twins for every order and combination of the two host options, host-bucket named explicitly off included. c16Concurrent: 16 x 1500 simultaneous host-style requests for 4 buckets to one server (bases, and plain host-bucket). Twins whose configured bases include <bucket>.<another base>. Four twins whose host-base option is given twice (the later list replaces the earlier; an empty list switches the bases off, alone and before host-bucket). Four twins whose bases begin with the letters of a URL scheme (test.example, host.example:9000, play.example, p.example, http.example). A quarter of the uploads have an empty body. Creates include valid names of several labels, addressed path-style through a fallback host. Fallback twins for hosts with dots around <bucket>.<base> (root dot, leading dot, two root dots).",
        "explanation": "Theorems: the routed (bucket, object) of a host-style request equals that of the path-style request for every "
                       "bucket label, key path and base list; unmatched hosts fall back unchanged; extra slashes do not change the "
                       "address. Tie: recorded backend addresses of the Go handlers vs the extracted router; spec oracle: canonical "
                       "response equals the path-style twin's response.",
        "assumptions": ["Location of CompleteMultipartUpload, request ids and timestamps are excluded from the response comparison"],
    },
    "C13": {
        "title": "Version listings show each version once, flag the true latest, page completely",
        "harness": "c13",
        "model": "Model/MemVersions.v list_versions / scan_versions / take_versions / obj_versions over Model/Mem.v",
        "rule": "memory backend: 60 (quick) / 800 (thorough) seeded histories as in C05 (never-versioned, enabled from the start, mixed "
                "enable/suspend; puts, deletes, delete-version, multi-delete) over 2..5 keys incl. keys sharing 'p/'; then "
                "ListObjectVersions unpaginated (followed by an unqualified GET of every key, so IsLatest is checked against what a read "
                "resolves to), walks for max-keys 1..n+1 over four prefix/delimiter combinations following (NextKeyMarker, "
                "NextVersionIdMarker) checked by a model-independent oracle (bound, every entry once, concatenation = unpaginated) and "
                "page by page against the model, and single pages from marker pairs naming existing versions. distinct_nontrivial = "
                "distinct walks. Every fifth history opens with deletes made while versioning is suspended over enabled-era versions; once versioning has ever been enabled every entry of the full listing is read back by the id it is listed with. Every fourth history has keys containing '+', a blank and '%20'. The marker pairs naming existing versions are also sent under five prefix / delimiter combinations (the marker's key inside, outside or grouped by the prefix). Every third suspension is sent as a versioning document that does not mention the status. Every fourth history has a key that begins with the delimiter (unpaginated grouped listings only). The histories with a leading-delimiter key also hold a key equal to a prefix and list with prefix p and delimiter /. Markers behind the last key (made up, and handed out before the keys behind them were removed); every truncated listing has to name a key marker to go on from. Every second leading-delimiter history holds another group between that key and its plain twins.",
        "explanation": "Theorems over the version-listing model (exactness w.r.t. the stored versions, one IsLatest per key = the "
                       "current version, paging). Tie: every page from the Go handlers vs the extracted model, version ids through "
                       "the bijection, plus the walk oracle on the implementation's pages.",
        "assumptions": ["entries of one key are listed in ascending version-id order (oldest first), as the implementation does; the property fixes no order within a key"],
        "timeout": {"quick": 900, "thorough": 3000},
    },
    "C08": {
        "title": "Corrupt or short uploads are rejected and never change stored state",
        "harness": "c08",
        "model": "Model/PutPath.v put_request / part_request (validation order of createObject and putMultipartUploadPart, metadataHeaders size, hashingReader digest test, ReadAll declared-length test, base64 decoding) over Model/Mem.v and Model/Uploader.v",
        "rule": "per backend x integrity check on/off, metadata limit 300: PUT over an existing object and over an absent key with "
                "Content-MD5 in {absent, good, wrong, malformed, 5-byte digest, unpadded, empty header} x declared length {exact, short "
                "by 1, long by 1}; missing / non-numeric / negative / empty Content-Length; empty body with a declared length; body "
                "reader failing after every k in 0..len; keys of 1023/1024/1025 bytes; metadata totalling limit-1/limit/limit+1; the "
                "same digest x length matrix, bad part numbers and failing readers for upload-part; after each request a snapshot "
                "(GET+HEAD of the previous object incl. metadata, GET of the absent key, bucket listing, ListParts of the pending "
                "upload) is compared with the model, whose state is unchanged by a rejected request. distinct_nontrivial = distinct "
                "(backend, integrity, target, digest kind, length delta / failure point). Uploads the backend itself refuses (a path segment longer than a file name on real directories) are rejected uploads too: listings with and without delimiter and the other object are compared before and after, and the refused key must afterwards read as NoSuchKey and delete quietly. Key-limit cases in multi-byte characters: 512 / 513 two-byte, 342 three-byte, 257 four-byte characters (the limit counts bytes). An aws-chunked part with the Content-MD5 of its payload (accepted), of its framed bytes and of other bytes (refused, the held part unchanged). Multipart initiates with metadata totalling limit-1 / limit / limit+1 / limit+100. Bodies ending in LF / CRLF / CRLFCRLF with the declared length leaving exactly the line terminators out, with and without the digest of the bytes sent, plain and aws-chunked. Uploads to keys well inside the limit whose segments take 230 / 240 bytes in 115 / 80 multi-byte characters (accepted everywhere). Browser-form uploads with 400 / 900 / 1600 bytes of metadata against the configured limit of 300. Uploads without Content-Length that carry X-Amz-Decoded-Content-Length (plain and framed bodies). An aws-chunked part re-sent with other bytes under the first digest and cut short at every point of the framed stream.",
        "explanation": "Theorems: the modelled upload path accepts iff the digest (when checked) matches the bytes received and the "
                       "declared length equals the body length; every rejection — for every reader failure point k — returns the state "
                       "unchanged. Tie: responses and before/after snapshots of the Go handlers on all six backends vs the extracted "
                       "model; the accept/reject decision is the property-level observable, the precise error code a model-level one.",
        "assumptions": ["requests are driven in-process: the body reader is not limited to Content-Length bytes as a real net/http server would do"],
        "timeout": {"quick": 900, "thorough": 3000},
    },
    "C10": {
        "title": "Buckets and keys are independent namespaces; internals are not addressable",
        "extra_property_files": ["C10_fs"],
        "harness": "c10",
        "model": "Model/Mem.v + Model/Handlers.v (keys are opaque byte strings; unknown buckets answer NoSuchBucket) for memory and bolt; model-free frame oracle for every backend",
        "rule": "per backend: 6 (quick) / 60 (thorough) seeded histories of 40/60 operations (put, delete, get, copy, multi-delete, "
                "create/delete bucket, list) addressed to three buckets and to the names _meta, '.', '..', metadata, with 25 hostile keys "
                "(.., ../bkb/a, ../../buckets_evil/x, a//b, ./a, a/./b, a/../n, leading dots, backslash, %2e%2e, names of internal files "
                "and buckets, keys that are path-prefixes of other keys, UTF-8, a 254-byte segment). After every operation a snapshot of "
                "every probe (HEAD + listing of 7 bucket names, GET of every hostile key in each, the bucket list and, for real-directory "
                "backends, every file on disk classified by bucket root) is compared with the snapshot before by the frame oracle: "
                "only entries of the addressed (bucket, key) may change, a refused operation may change nothing, no file may appear "
                "outside the addressed bucket's roots. Memory and bolt are additionally stepped against the model. "
                "distinct_nontrivial = distinct (backend, bucket, key, status). Buckets bkc2 and bkc.x (names beginning with the name of bucket bkc) hold objects while the empty bucket bkc is created and deleted; the snapshot also records the common prefixes of a delimiter listing and, on real directories, the directories on disk; copies are also attempted from source buckets . .. buckets metadata _meta ./<bucket> spelling the path to a stored object (must be refused); every history ends with a force-delete (x-minio-force-delete) of a bucket that holds keys named like other buckets, under the frame oracle only. On memory and bolt the creation date is part of a bucket's list entry in the snapshot. The snapshot holds every pending multipart upload with its parts; uploads are started and their ids then used through another key of the bucket (refused, nothing changes). A third of the listings carry prefixes that spell paths to other buckets; everything listed must be a key written to the addressed bucket under that prefix. Listing completeness: for prefixes cut from stored keys, and at the end of every history for the beginning of every held key with and without delimiter, every key held under the prefix is shown or lies under a shown common prefix; the key-value backends hold /lead next to lead. c02Nesting at the end of every history: an upload above or below a stored key is refused or stored, never at the cost of the key that was there, and what is served is listed. Every history opens by storing n.tmp n~ n.part n.new .n.tmp n.bak .n.swp and then uploads n. A fifth of the uploads go through the browser form; every history opens with a form upload of /lead. A second host-style variant on a plain host-bucket server (frame oracle only); every history deletes a key below the zero-byte object, uploads a key whose first segment is its bucket's name, and ends with twelve hostile-prefix listings per bucket. Memory-backend histories end with every version of one key of a versioned bucket removed by id: the key next to it stays listed and readable.",
        "explanation": "Theorems: frame laws of the model (an operation addressed to (bucket, key) changes no other (bucket, key); keys "
                       "that differ as byte strings are different objects; an unknown bucket name is never served). Tie: model "
                       "comparison on the opaque-key backends; the model-free frame oracle (extracted from Coq) on the observations "
                       "of all six backends incl. the on-disk tree.",
        "assumptions": ["fs backends may refuse a key; a refusal must leave everything unchanged"],
        "timeout": {"quick": 900, "thorough": 3000},
    },
    "C15": {
        "title": "Acknowledged state of the persistent backends survives restart",
        "harness": "c15",
        "model": "Model/Mem.v state = the persistent component, Model/Uploader.v ustate = the volatile component dropped by a restart; Model/CrashDirs.v: the directory side of the same writes (MkdirAll before the create, the pruning loop of the delete; phantoms = directories no key lies below); Model/Crash.v: PutObject / DeleteObject of the fs backends as sequences of state-changing file-system calls, loadMeta's freshness rule, a kill = a prefix of the sequence (optionally half of a write)",
        "rule": "(a) bolt file, multi-bucket fs and single-bucket fs with an on-disk metadata store, each on a real temp directory: 10 (quick) "
                "/ 120 (thorough) seeded C02-style histories (plus puts of random binary bodies with metadata, keys with spaces and "
                "UTF-8) interleaved with 1..3 in-process restarts; before and after every restart the full probe (bucket list, listings, "
                "GET and HEAD of every key with metadata) is compared with the model. (b) the real server command built from "
                "/repo/cmd/gofakes3 (-backend bolt | fs with -fs.meta | directfs with -directfs.meta), requests over TCP: 3 (25 thorough) "
                "histories per backend in which every restart is SIGKILL + a new process, and 3 (60) kill rounds per backend: acknowledged "
                "puts (0..64 KiB, metadata) / overwrites / deletes, then SIGKILL with one more write in flight (half of its body sent, or "
                "0..3 ms after issue); afterwards the probe must equal the model state with or without that write. (c) crash points on "
                "both fs backends: for put new key / overwrite longer, shorter, same length, dropping metadata / delete (nested, top level) "
                "/ copy over existing, to a new key / multi-delete / create-bucket, a wrapping file system kills the request immediately "
                "before each state-changing call and half way through each file write; the calls logged must equal the model's sequence "
                "and a new backend on what is left must answer exactly as the Coq crash model predicts for that call index. "
                "distinct_nontrivial = distinct (backend, history, restart) + distinct crash points. After every crash point the delimiter listing of the next process is compared with its plain listing: a common prefix without a key is a violation (known finding D34 where it is the directory of the killed upload). The crash points also carry the directory model's view (coq/Model/CrashDirs.v): the directory-changing calls logged must be the model's, and the common prefixes without a key that the next process lists must be the set the model predicts for that call index. After the crash points of create-bucket the bucket is (re)created, written, read, listed, emptied and deleted in the next process. Before each in-process restart an object with metadata values that are not valid UTF-8 is uploaded; HEAD before and after the restart must agree. c15BoltSnapshots: for put / overwrite (bodies below and above a bolt page) / copy / multipart complete / create-bucket on bolt, a copy of the database file taken at the instant the backend asks its time source for the time (what kill -9 leaves there) is opened by a new backend: it shows the state before or after the request, entire. Before each restart an object whose key is not valid UTF-8 (a Latin-1 file name) is uploaded with metadata; GET before and after the restart must agree.",
        "explanation": "Theorems: every observable of the object API is a function of the persistent state alone (clean restart); for the fs "
                       "backends' call sequences: an uninterrupted PutObject is the abstract put, at EVERY crash point every other key answers "
                       "as before, DeleteObject is crash-atomic, every crash state of PutObject is one of a listed set, the invariant is kept "
                       "and the next PUT repairs the key — and PutObject is NOT crash-atomic (C15_fs_put_not_crash_atomic_refuted = known "
                       "finding D31). Tie: in-process restarts, the real binary under SIGKILL, and per-call-index prediction of the post-crash "
                       "state. PARTIAL: that the page cache outlives the process and that one write/unlink is atomic w.r.t. SIGKILL is the "
                       "OS's; bbolt's transaction atomicity is trusted (one model step) and only exercised by the random kills. Directory side (CrashDirs.v): uninterrupted put and delete keep every directory above a key, at every crash point of either the directories without a key are ancestors of the in-flight key and no other key's file is touched, a complete PUT of the key repairs it, and both leave empty directories when killed (refuted atomicity, known finding D34); the check compares the phantom common prefixes of the next process's listing with the model's prediction for the crash point.",
        "trusted_extra": ["harness/crashfs.go (file-system wrapper that stops a request at a chosen call) and harness/extserver.go (TCP forwarder to the server process built from /repo/cmd/gofakes3, SIGKILL restarts)"],
        "assumptions": ["a kill falls between two file-system calls or inside a write (harness/crashfs.go); data handed to the kernel survives the process",
                        "bbolt Update transactions are atomic and durable (trusted, not modelled)"],
        "timeout": {"quick": 900, "thorough": 3000},
    },
    "C01": {
        "title": "Stored objects come back byte-for-byte with matching size, ETag and metadata",
        "harness": "c01",
        "model": "Model/Handlers.v step (OPut / OGet / OHead / OCopy / OList) over Model/Mem.v; ETag = quoted hex MD5 computed by the checker (OCaml Digest), independent of Go's crypto/md5",
        "rule": "per backend x integrity check on/off: random-byte bodies of 0,1,2,63..65,4095..4097,32767..32769 bytes (and 1 MiB+1; also "
                "5 MiB+3 in the thorough tier) x 8 keys (spaces, '+', UTF-8, '?', '&', literal %41%2F, ';' ',', a 401-byte nested key) x 3 "
                "metadata sets (none; Content-Type + x-amz-meta; Content-Type + Content-Encoding + Content-Disposition + a 900-byte "
                "value), uploaded by PUT (with and without Content-MD5), browser-form POST, copy, and Backend.PutObject; each followed "
                "by GET and HEAD over HTTP (and through the Backend API) and a listing of the key; later operations on other keys, "
                "then the same reads again. distinct_nontrivial = distinct (backend, integrity, upload path, size, key). Copies are made inside the bucket and, every third one, from a second bucket that holds an object of the destination's name (which must stay what it is). On the key-value backends the twin-key groups include keys that differ by leading or doubled slashes (lead, /lead, //lead). Two keys carry white space at their ends (blank-padded; a tab and a trailing blank). heldRead: an object opened through Backend.GetObject is read after its key was overwritten; the bytes are those its size and hash describe. apiPutReusedBuffer: Go-API uploads from a buffer the caller refills afterwards. On every second store the twin-key groups are written and read virtual-host style (host-bucket / host-bucket-base server on the same backend). recycledBucketPut: an upload whose body is held back while its empty bucket is deleted and created again; if acknowledged it is readable. The same bytes uploaded again to a key under other metadata (PUT, form POST, aws-chunked, Go API, copy onto itself; also an empty body); keys whose segments take 230 and 240 bytes in 115 and 80 characters. apiPutReusedMap: one metadata map handed to Backend.PutObject for two uploads and changed afterwards; the stored objects keep what each call was given. heldRead makes the overwrite plus eight 40 KB uploads and their deletes while its read is open. Eleven Content-Type spellings that are valid but not canonical (and upper-case Content-Disposition / Content-Encoding values) uploaded by PUT, form POST and Go API. Two metadata sets carry a form Content-Type (application/x-www-form-urlencoded, multipart/form-data). Every history ends with keys uploaded one and two levels below (and above) an acknowledged object. One metadata set holds values that are not UTF-8 (Latin-1 bytes, 0xff), uploaded by PUT, the Go API and copy.",
        "explanation": "Theorems: read-your-writes with the exact body and the metadata sent (C01_roundtrip), HEAD/GET agreement, "
                       "stability under operations on other keys (frame), listing entry = current version. Tie: the responses of the Go "
                       "handlers and of the Go Backend API vs the extracted model, with length and MD5 recomputed by the checker.",
        "assumptions": ["metadata: every header sent with the upload must come back unchanged (headers carried over from an overwritten object are allowed in addition)"],
        "timeout": {"quick": 900, "thorough": 3000},
    },
    "C09": {
        "hang_is_violation": True,   # the statement itself rules out a request that blocks for ever
        "title": "Every request gets a well-formed answer; no panic, hang or wedged state",
        "gen": {"out": "ErrorsGen", "go": "error.go (ErrorCode.Status, the ErrorCode constants)",
                "theorems": ["C09_gen_status_is_model", "C09_gen_status_table_sane"]},
        "harness": "c09",
        "model": "Model/Errors.v status table; Model/Handlers.v step, Model/Uploader.v, Model/MemVersions.v, Model/Range.v, Model/Chunk.v (each with explicit panic outcomes where the Go code can index / slice / dereference nil)",
        "rule": "350 (quick) / 20000 (thorough) grammar-generated requests per configuration (memory: default, auto-bucket, no-versioning, "
                "host-bucket, unimplemented-page error; other backends: default and auto-bucket in the quick tier) against stores "
                "holding objects, versions with a delete marker and a pending multipart upload: method x path (bucket pool incl. "
                "nosuch . .. _meta, hostile keys) x up to 3 of 26 query parameters with valid / absurd / overflowing / non-numeric "
                "values x body (hostile XML for multi-delete, complete, versioning; malformed XML; random bytes; multipart forms with "
                "missing or duplicate parts; aws-chunked incl. truncated with hostile decoded lengths) x hostile headers (Range, "
                "Content-MD5, X-Amz-Copy-Source, Content-Length, conditionals, force-delete, oversized metadata). Every request runs "
                "under recover() and a 5 s deadline; every 25 requests a canary sequence on a fresh bucket and on the fuzzed bucket is "
                "compared with the model. distinct_nontrivial = distinct (backend, config, status, code, method, header count). The corpus and the fuzz pool hold keys of 200-210 bytes in 2-, 3- and 4-byte characters (written, read, listed, deleted). The versioned store holds delete markers between live keys of a group, last in a group and as a group of their own; the corpus pages object listings over them (max-keys 1..6 x 11 prefix / delimiter / marker combinations). Signed, huge, non-hexadecimal and empty aws-chunked chunk-size fields, as an object and as a part. Completes naming every part number 0..6, 10000, 10001, alone and after a valid first entry. A sixth configuration: a server with host-bucket bases addressed path-style; the canary on a fresh bucket carries a multipart upload from initiate to complete. On servers without a versioned backend the corpus sends versioning documents without a Status element. Every run ends with Minio's force-delete of buckets that hold objects followed by requests that must still be answered. Two more configurations: the request-time check switched on (default limit; undated requests are stamped with the server's own time, the grammar sends dates at, around and far beyond the limit, malformed ones too) on mem and bolt, and the CORS wrapper (WithInsecureCORS; every request names an Origin) on mem and the single-bucket fs backend. The corpus reads an existing object under 18 spellings of an entity tag in If-None-Match / If-Match and 9 spellings of a date in If-Modified-Since / If-Unmodified-Since. The corpus asks objects of known size for ranges exactly on, one before and one after their end.",
        "explanation": "Theorems: no reachable state makes a modelled handler panic (object API, range, uploader complete/list with any "
                       "part number or marker, version listing), an error leaves the state unchanged, and the status of an error equals "
                       "the table entry of its code. Tie: model-free response oracle (extracted from Coq) on every response of the Go "
                       "handlers + canary sequences against the model. PARTIAL: panics inside encoding/xml, mime/multipart, bbolt, "
                       "afero and blocking on I/O cannot be exhibited by the model; the deadline and recover() in the harness observe them.",
        "assumptions": ["declared lengths above 1 MiB are not sent to the live process (ReadAll preallocates the declared size)"],
        "timeout": {"quick": 900, "thorough": 3000},
    },
    "C07": {
        "hang_is_violation": True,   # the statement itself rules out a request that blocks for ever
        "title": "Concurrent clients see linearizable, race-free behaviour",
        "harness": "c07",
        "model": "Model/Conc.v: every request = Pre (no lock: body read) / Commit (under the backend lock: whole effect + capture of the response) / Post (no lock: streaming) sections over Model/Handlers.v step; schedules = arbitrary interleavings; Model/Uploader.v for the multipart rounds",
        "rule": "per backend: (a) forced interleavings through gated I/O — a PUT whose body reader blocks (slow uploader) while a GET of the "
                "same key, a PUT of another key and a listing issued by other clients must complete and see the old object; a GET whose "
                "ResponseWriter blocks (slow reader) overlapped by an overwrite and by a delete must deliver in full the 50-70 KB object it "
                "captured; a CompleteMultipartUpload whose backend write is held open while a part upload, a second complete, an abort and "
                "a part listing of the same upload arrive (both must finish; a sequential explanation must exist); (b) rounds of 2, 4, 6 and "
                "16 simultaneous requests (put with unique bodies, get, head, delete, copy over 1..4 keys; memory backend also versioned) and "
                "rounds of 2..5 simultaneous multipart requests (part upload / complete / abort / list-parts / get over 2..3 pending uploads) "
                "— 25 rounds x 2 repetitions per shape in the quick tier, 60 x 12 in the thorough tier — each accepted iff some sequential "
                "order of its requests reproduces every observed response on the model; sequential probes between rounds; (c) 16 clients x "
                "40 simultaneous versioned PUTs: ids pairwise distinct, each id serves exactly its upload; (d) the workload (reduced) in a "
                "binary built with -race: a report with a conflicting access in /repo code is a violation. Watchdogs report hangs. "
                "distinct_nontrivial = distinct (backend, versioned, round). c07CopyStorm (every backend, also under the race detector): 8 clients copy one object carrying an ACL, user metadata and a content type to keys of their own while others GET / HEAD it; the source must read exactly as uploaded throughout and every copy is the source without its ACL. c07AutoBucketFirstUse (memory, bolt, fs): with the auto-bucket option six first requests for a bucket are held until all have found it absent; every one is served. Rounds with a cross-key operation include two-key multi-object deletes; c07MultiDeleteStorm (8 clients multi-deleting keys of their own while others read and list, every backend, memory also versioned); c07MetaStorm (40 rounds x 4 simultaneous PUTs of one key with metadata headers of their own: known finding D35 when a header is lost). The copy storm also copies onto keys that other clients overwrite: every copy's answer carries the ETag of its (never written) source. c07RequestIDs: 16 clients x 2500 (mem) / 800 (bolt) simultaneous cheap requests, every response with a request id of its own. The harness ends the run after two HANG reports. c07PruneRace: on the multi-bucket fs backend (MemMapFs behind a gated afero.Fs) the removal of the directory emptied by DELETE d/k1 is held open while PUT d/k2 arrives: the acknowledged upload is served and listed afterwards.",
        "explanation": "Theorems: for every number of clients, every program and EVERY schedule of the section model, the shared state and "
                       "each client's responses equal those of the sequential execution of the operations in Commit order, which respects "
                       "program order; Post delivers exactly what Commit captured (no torn reads). Tie: forced interleavings and "
                       "concurrent rounds on the real handlers, checked for linearizability against the extracted sequential model; the race "
                       "detector for unsynchronised accesses. PARTIAL: sync.RWMutex atomicity and the Go memory model are assumed; the race "
                       "detector and the rounds only see the interleavings that occur in a run.",
        "trusted_extra": ["Go race detector (go build -race) on the reduced C07 workload; the linearizability search loop in ocaml/driver.ml"],
        "assumptions": ["requests of one round are treated as mutually concurrent (no finer real-time order is recorded), which can only accept more histories",
                        "Go race detector: absence of a report is not a proof of race freedom"],
        "timeout": {"quick": 1200, "thorough": 3600},
    },
}

# properties whose check is not built yet are listed so the manifest stays honest
for _i in range(1, 18):
    _pid = "C%02d" % _i
    if _pid not in PROPS:
        NOT_APPLICABLE.append({"property_id": _pid,
                               "reason": "check not built yet (work in progress); the technique applies, see DESIGN.md section 6"})
