"""Per-property configuration of bin/check."""

TRUSTED_BASE = [
    "Coq 8.16.1 kernel (coqc), incl. the vm_compute reduction machine used in Examples and finite sweeps; no native_compute",
    "no axioms: Print Assumptions under every property theorem reports 'Closed under the global context'",
    "extraction: Require Extraction + ExtrOcamlBasic only (bool/option/unit/list/prod/sumbool/sumor mapped to OCaml, andb/orb inlined); N, Z, positive, ascii, string stay extracted inductives; no Extract Constant of my own",
    "OCaml 4.13.1 compiler and ocaml/driver.ml (hex codec, line parser, int->N/Z conversion)",
    "Go harness (harness/*.go: request builders, response canonicalisation, generators) and bin/check (python)",
    "correspondence is differential testing on generated inputs: the theorem is about the hand-written Gallina model; model = code only on the compared observables of the explored cases",
    "modelled not verified: Go stdlib (strings, strconv.ParseInt, regexp as used, net.ParseIP, fmt), net/http request parsing, encoding/xml, goskiplist, bbolt, afero, sync primitives",
]

NOT_APPLICABLE = []
HOOK_COMMITS = []

PROPS = {
    "C11": {
        "title": "Range reads return exactly the requested bytes or InvalidRange",
        "harness": "c11",
        "model": "Model/Range.v get_range (parseRangeHeader + ObjectRangeRequest.Range + backend slicing, int64 wrap explicit)",
        "rule": "GET with a Range header on objects of size 0..6 (quick) / 0..24 (thorough), 100 and 4097, on all six backend "
                "instances; headers: all first/last/suffix in -1..n+2 in the three forms, int64/uint32 boundary values in every "
                "position, whitespace/sign/unit/multi-range variants, seeded token soup. distinct_nontrivial = distinct "
                "(backend, header, size) whose header reaches the arithmetic (parses as a single range).",
        "explanation": "Theorems: for every header string and every object below 2^63 bytes the modelled handler answers exactly "
                       "what the wrap-free spec says and never slices out of bounds. Tie: every run the Go handlers built from "
                       "/repo and the extracted model are evaluated on the same (header, object) cases and status, S3 code, "
                       "Content-Range, Content-Length and body are compared; the extracted spec is evaluated on the "
                       "implementation's output as the failing-input search.",
        "assumptions": ["object sizes below 2^63", "headers as net/http hands them to the handler (no transport trimming)"],
    },
    "C17": {
        "title": "Bucket names are accepted exactly when they satisfy the documented S3 rules",
        "harness": "c17",
        "model": "Model/BucketName.v validate (regexp matcher, net.ParseIP dotted-quad branch, per-label regexp) and create_bucket",
        "rule": "ValidateBucketName called directly on every string of length <= 5 (quick) / 6 (thorough) over {a,z,0,9,-,.,A,_}, on "
                "lengths 1..70 of valid characters, IPv4/IPv6-looking names and seeded random strings; PUT /<name> through the "
                "HTTP API on memory, bolt and multi-bucket fs (MemMapFs and real directory) for all strings up to length 4/3/3/2 "
                "(quick) plus the special and random names and duplicates, with ListBuckets compared to the set of accepted names "
                "every 500 requests. distinct_nontrivial = distinct accepted names (direct) + distinct (backend, name) created.",
        "explanation": "Theorem: the modelled validator equals the documented rule on every byte string of any length (no bound); "
                       "create succeeds iff valid and absent, a refusal creates nothing. Tie: the real ValidateBucketName and the "
                       "real create-bucket handlers are run on the same names as the extracted validator/spec and compared "
                       "(decision, status, S3 code, bucket listing).",
        "assumptions": ["'formatted as an IP address' is read as 'parses under Go net.ParseIP' (the documented mechanism)"],
    },
}

# properties whose check is not built yet are listed so the manifest stays honest
for _i in range(1, 18):
    _pid = "C%02d" % _i
    if _pid not in PROPS:
        NOT_APPLICABLE.append({"property_id": _pid,
                               "reason": "check not built yet (work in progress); the technique applies, see DESIGN.md section 6"})
