(* Correspondence glue for operation histories: steps the model alongside the observed
   implementation responses.  Mismatch tags: "S:" = an observable the property itself
   determines (status class, S3 code, body, ETag, listing contents) — a spec failure;
   "M:" = an ancillary observable only the model fixes (header presence etc.). *)
From GF Require Import Base.Lit Base.Int64 Model.Mem Model.Handlers Model.Uploader Model.Chunk Model.MemVersions Model.PutPath Model.MemWalk Model.CrashDirs Model.FsList Model.FsPut Extract.Checks.
Open Scope string_scope.
Open Scope list_scope.
Open Scope Z_scope.

Definition hexdigit (n : N) : N := if (n <? 10)%N then (48 + n)%N else (87 + n)%N.
Fixpoint hex_of (b : list N) : list N :=
  match b with
  | [] => []
  | x :: b' => hexdigit (x / 16)%N :: hexdigit (x mod 16)%N :: hex_of b'
  end.
Definition etag_of (md5 : list N -> list N) (body : list N) : list N :=
  34%N :: hex_of (md5 body) ++ [34%N].

Record obs := {
  ob_status : Z; ob_code : list N; ob_panic : bool;
  ob_body : list N; ob_etag : list N; ob_cl : list N;
  ob_vid : list N;                 (* x-amz-version-id as sent by the implementation; [] = absent *)
  ob_delmarker : list N;           (* x-amz-delete-marker header value *)
  ob_meta : list (list N * list N);
  ob_names : list (list N);        (* bucket names / deleted keys / common prefixes *)
  ob_contents : list (list N * (Z * list N));   (* key, size, etag *)
  ob_truncated : bool;
  ob_next : list N;                (* NextMarker / decoded NextContinuationToken *)
  ob_versions : list (list N * (bool * bool));   (* per listed version: id string, is delete marker, IsLatest *)
}.

Inductive hop :=
| HCreateBucket (b : list N) | HDeleteBucket (b : list N) | HHeadBucket (b : list N) | HListBuckets
| HPut (b k body : list N) (m : meta)
| HGet (b k : list N) (vid : list N) | HHead (b k : list N) (vid : list N)
| HDelete (b k : list N) | HDeleteVersion (b k vid : list N)
| HMultiDelete (b : list N) (ks : list (list N * list N))
| HCopy (sb sk b k : list N) (m : meta)
| HSetVersioning (b : list N) (enable : bool)
| HList (b pre : list N) (delim : option N) (marker : list N) (has_marker : bool) (maxkeys : Z) (v2 : bool)
| HInitiate (b k : list N) (m : meta)
| HUploadPart (b k uid : list N) (pn : Z) (body : list N)
| HComplete (b k uid : list N) (parts : list (Z * list N))
| HAbort (b k uid : list N)
| HListParts (b k uid : list N) (marker limit : Z)
| HListUploads (b pre : list N) (delim : option N) (key_marker id_marker : list N) (limit : Z)
| HChunkedPut (b k stream : list N) (sched : list Z) (eofw : bool) (declared : Z) (payload : list N) (m : meta)
| HListVersions (b pre : list N) (delim : option N) (km vm : list N) (maxkeys : Z)
| HPutRaw (b k : list N) (h : headers) (body : list N) (fail_after : option Z) (integrity : bool) (meta_limit : Z)
| HPartRaw (b k uid pn_text : list N) (h : headers) (body : list N) (fail_after : option Z) (integrity : bool).

Record hstate := { hs_model : state; hs_tbl : list (N * list N);
                   hs_up : ustate; hs_utbl : list (N * list N);
                   hs_fs : bool (* fs backend: streams the body into the file *) }.
Definition hinit : hstate := {| hs_model := init; hs_tbl := []; hs_up := uinit; hs_utbl := []; hs_fs := false |}.
Definition hinit_fs (fs : bool) : hstate := {| hs_model := init; hs_tbl := []; hs_up := uinit; hs_utbl := []; hs_fs := fs |}.
Definition with_model (hs : hstate) (s : state) : hstate :=
  {| hs_model := s; hs_tbl := hs_tbl hs; hs_up := hs_up hs; hs_utbl := hs_utbl hs; hs_fs := hs_fs hs |}.

(* version id translation: implementation string <-> model rank *)
Fixpoint tbl_id (t : list (N * list N)) (s : list N) : option N :=
  match t with [] => None | (i, s') :: t' => if beq s s' then Some i else tbl_id t' s end.
Fixpoint tbl_str (t : list (N * list N)) (i : N) : option (list N) :=
  match t with [] => None | (i', s) :: t' => if N.eqb i i' then Some s else tbl_str t' i end.
Definition vid_in (t : list (N * list N)) (s : list N) : option N :=
  match s with [] => None | _ => Some (match tbl_id t s with Some i => i | None => 0%N end) end.

(* bind model id i to implementation string s; result: new table, consistent? *)
Definition bind (t : list (N * list N)) (i : N) (s : list N) : list (N * list N) * bool :=
  match tbl_str t i, tbl_id t s with
  | Some s', _ => (t, beq s s')
  | None, Some _ => (t, false)              (* string already names another version *)
  | None, None => ((i, s) :: t, true)
  end.

Definition status_of (e : err) : Z :=
  match e with
  | ENoSuchBucket | ENoSuchKey | ENoSuchVersion => 404
  | EBucketAlreadyExists | EBucketNotEmpty => 409
  | EInvalidBucketName | EInvalidArgument => 400
  | ENotImplemented => 501
  | EInternal | EPanic => 500
  end.
Definition code_of (e : err) : list N :=
  match e with
  | ENoSuchBucket => B "NoSuchBucket" | ENoSuchKey => B "NoSuchKey" | ENoSuchVersion => B "NoSuchVersion"
  | EBucketAlreadyExists => B "BucketAlreadyExists" | EBucketNotEmpty => B "BucketNotEmpty"
  | EInvalidBucketName => B "InvalidBucketName" | EInvalidArgument => B "InvalidArgument"
  | ENotImplemented => B "NotImplemented" | EInternal => B "InternalError" | EPanic => B "PANIC"
  end.

Definition exp_err (e : err) (ob : obs) (is_head : bool) : list (list N) :=
  match e with
  | EPanic => expect (ob_panic ob) "S:model-panics"
  | _ => expect (negb (ob_panic ob)) "S:panic" ++ expect (ob_status ob =? status_of e) "S:status" ++
         (if is_head then [] else expect (beq (ob_code ob) (code_of e)) "S:code")
  end.

Definition exp_ok (ob : obs) : list (list N) :=
  expect (negb (ob_panic ob)) "S:panic" ++ expect (ok_status (ob_status ob)) "S:status".

Fixpoint meta_sub (m : meta) (o : list (list N * list N)) : bool :=
  match m with
  | [] => true
  | (k, v) :: m' =>
      existsb (fun kv => beq (fst kv) k && beq (snd kv) v) o && meta_sub m' o
  end.

(* the converse for user metadata: an x-amz-meta-* header in the answer is one the model object
   carries (sent with its upload, or carried over from the object it replaced) *)
Definition user_meta_from (m : meta) (o : list (list N * list N)) : bool :=
  forallb (fun kv => negb (prefixb (B "X-Amz-Meta-") (fst kv)) ||
                     existsb (fun mkv => beq (fst mkv) (fst kv) && beq (snd mkv) (snd kv)) m) o.

Fixpoint list_eqb (a b : list (list N)) : bool :=
  match a, b with
  | [], [] => true
  | x :: a', y :: b' => beq x y && list_eqb a' b'
  | _, _ => false
  end.

Fixpoint contents_eqb (md5 : list N -> list N) (a : list (list N * list N))
    (b : list (list N * (Z * list N))) : bool :=
  match a, b with
  | [], [] => true
  | (k, body) :: a', (k', (sz, et)) :: b' =>
      beq k k' && (sz =? blen body) && beq et (etag_of md5 body) && contents_eqb md5 a' b'
  | _, _ => false
  end.

(* each exactly once, order not prescribed by the property *)
Definition same_set (a b : list (list N)) : bool :=
  Nat.eqb (length a) (length b) && forallb (fun x => existsb (beq x) b) a && forallb (fun x => existsb (beq x) a) b.

Definition to_op (t : list (N * list N)) (o : hop) : op :=
  match o with
  | HCreateBucket b => OCreateBucket b | HDeleteBucket b => ODeleteBucket b
  | HHeadBucket b => OHeadBucket b | HListBuckets => OListBuckets
  | HPut b k body m => OPut b k body m
  | HGet b k v => OGet b k (vid_in t v) | HHead b k v => OHead b k (vid_in t v)
  | HDelete b k => ODelete b k
  | HDeleteVersion b k v => ODeleteVersion b k (match vid_in t v with Some i => i | None => 0%N end)
  | HMultiDelete b ks => OMultiDelete b (map (fun kv => (fst kv, vid_in t (snd kv))) ks)
  | HCopy sb sk b k m => OCopy sb sk b k m
  | HSetVersioning b e => OSetVersioning b e
  | HList b pre d mk hm mx _ => OList b pre d mk hm mx
  | _ => OListBuckets       (* uploader operations are stepped by [up_step] *)
  end.

Definition is_head_op (o : hop) : bool := match o with HHead _ _ _ | HHeadBucket _ => true | _ => false end.

(* expected version-id header: bind on first sight *)
Definition check_vid (t : list (N * list N)) (exp : option N) (ob : obs) : list (N * list N) * list (list N) :=
  match exp with
  | None => (t, expect (beq (ob_vid ob) []) "M:unexpected-version-id-header")
  | Some i =>
      match ob_vid ob with
      | [] => (t, [B "M:missing-version-id-header"])
      | s => let '(t', ok) := bind t i s in (t', expect ok "S:version-id-not-the-expected-version")
      end
  end.

(* The filesystem backends cannot hold every key: an upload (PUT, copy destination) whose key is not a
   clean path, is a directory of stored keys or lies below a stored object is refused with
   InvalidArgument and changes nothing (Model/FsPut.v fs_put_refused, proved to be exactly the keys a
   directory tree cannot take: Properties/C10_fs.v). The bucket a refused first use made stays. *)
Definition fs_refuses (c : config) (hs : hstate) (o : hop) : option state :=
  if hs_fs hs then
    match o with
    | HPut b k _ _ | HCopy _ _ b k _ =>
        match ensure_bucket c (hs_model hs) b with
        | (s1, None) =>
            match get_bucket s1 b with
            | Some bk => match fs_put_refused (live_keys (b_objs bk)) k with Some _ => Some s1 | None => None end
            | None => None
            end
        | _ => None
        end
    | _ => None
    end
  else None.

Definition obj_step (md5 : list N -> list N) (c : config) (hs : hstate) (o : hop) (ob : obs)
  : hstate * list (list N) :=
  let t := hs_tbl hs in
  let '(s0, r0) := step c (hs_model hs) (to_op t o) in
  let '(s', r) := match r0, fs_refuses c hs o with
                  | RErr _, _ => (s0, r0)            (* refused before the backend is asked to store *)
                  | _, Some s1 => (s1, RErr EInvalidArgument)
                  | _, None => (s0, r0)
                  end in
  let mk t' := {| hs_model := s'; hs_tbl := t'; hs_up := hs_up hs; hs_utbl := hs_utbl hs; hs_fs := hs_fs hs |} in
  match r with
  | RErr e => (mk t, exp_err e ob (is_head_op o))
  | ROk => (mk t, exp_ok ob)
  | RNames l => (mk t, exp_ok ob ++ expect (list_eqb l (ob_names ob)) "S:bucket-list")
  | RPut vid =>
      let body := match o with HPut _ _ b _ => b | _ => [] end in
      let '(t', vm) := check_vid t vid ob in
      (mk t', exp_ok ob ++ expect (beq (ob_etag ob) (etag_of md5 body)) "S:put-etag" ++ vm)
  | RObj v sv =>
      let plain_head := match o with HHead _ _ [] => true | _ => false end in
      let '(t', vm) := if plain_head then
                         (* s3mem's HeadObject does not mask the generated id; other backends
                            have none: bind it when present, never demand it *)
                         match ob_vid ob with [] => (t, []) | _ => check_vid t (Some (vd_vid v)) ob end
                       else if sv then check_vid t (Some (vd_vid v)) ob
                       else check_vid t None ob in
      (mk t', exp_ok ob ++
         (if is_head_op o then expect (beq (ob_body ob) []) "S:head-has-body"
          else expect (beq (ob_body ob) (vd_body v)) "S:body") ++
         expect (beq (ob_etag ob) (etag_of md5 (vd_body v))) "S:etag" ++
         expect (beq (ob_cl ob) (dec (blen (vd_body v)))) "S:content-length" ++
         expect (meta_sub (vd_meta v) (ob_meta ob)) "S:metadata" ++
         expect (user_meta_from (vd_meta v) (ob_meta ob)) "S:metadata-of-another-object" ++ vm)
  | RMarker i =>
      let '(t', vm) := check_vid t (Some i) ob in
      (mk t', expect (negb (ob_panic ob)) "S:panic" ++ expect (ob_status ob =? 404) "S:status" ++
              expect (beq (ob_delmarker ob) (B "true")) "M:delete-marker-header" ++ vm)
  | RDel mkr vid =>
      let '(t', vm) := check_vid t vid ob in
      (mk t', exp_ok ob ++ expect (beq (ob_delmarker ob) (if mkr then B "true" else B "false")) "M:delete-marker-header" ++ vm)
  | RMulti ks => (mk t, exp_ok ob ++ expect (list_eqb ks (ob_names ob)) "M:deleted-list")
  | RCopy body => (mk t, exp_ok ob ++ expect (beq (ob_etag ob) (etag_of md5 body)) "S:copy-etag")
  | RList lr =>
      (* the filesystem backends list by their own algorithm (one ReadDir, or a Walk that is sorted
         afterwards): Model/FsList.v run on the directory tree of the live keys predicts their answer,
         the order of the common prefixes (directory-name order) included *)
      let fs_ms :=
        match o with
        | HList b pre d _ false _ _ =>
            if hs_fs hs && negb (lr_truncated lr) && (ob_status ob =? 200) then
              match get_bucket s' b with
              | Some bk =>
                  let keys := live_keys (b_objs bk) in
                  let pre_ok := match d, pre with Some dl, c :: _ => negb (N.eqb c dl) | _, _ => true end in
                  if fs_storable keys && pre_ok then
                    match fs_list (tree_of keys) pre d with
                    | Some (cs, ps) =>
                        expect (list_eqb cs (map fst (ob_contents ob))) "M:fs-listing-model-contents" ++
                        expect (list_eqb ps (ob_names ob)) "M:fs-listing-model-common-prefixes-in-directory-order"
                    | None => [B "M:fs-listing-model-readdir-error"]
                    end
                  else []
              | None => []
              end
            else []
        | _ => []
        end in
      let v2 := match o with HList _ _ _ _ _ _ v2 => v2 | _ => false end in
      let has_delim := match o with HList _ _ (Some _) _ _ _ _ => true | _ => false end in
      (mk t, exp_ok ob ++
         expect (contents_eqb md5 (lr_contents lr) (ob_contents ob)) "S:list-contents" ++
         expect (same_set (lr_prefixes lr) (ob_names ob)) "S:list-common-prefixes" ++
         expect (Bool.eqb (lr_truncated lr) (ob_truncated ob)) "M:is-truncated" ++
         (if v2 || has_delim then expect (beq (lr_next lr) (ob_next ob)) "M:next-marker" else []) ++ fs_ms)
  end.

(* ---- C04 walk oracle: purely over observations --------------------------------- *)
Record page_obs := { pg_keys : list (list N); pg_prefixes : list (list N); pg_truncated : bool }.

Fixpoint strictly_ascending (l : list (list N)) : bool :=
  match l with
  | a :: ((b :: _) as l') => bltb a b && strictly_ascending l'
  | _ => true
  end.
Fixpoint nodupb (l : list (list N)) : bool :=
  match l with [] => true | x :: l' => negb (existsb (beq x) l') && nodupb l' end.

Definition walk_check (maxkeys : Z) (pages : list page_obs) (full : page_obs) (terminated : bool)
  : list (list N) :=
  let keys := flat_map pg_keys pages in
  let pres := flat_map pg_prefixes pages in
  expect terminated "walk-did-not-terminate" ++
  expect (forallb (fun p => Z.of_nat (length (pg_keys p) + length (pg_prefixes p)) <=? maxkeys) pages) "page-exceeds-max-keys" ++
  expect (strictly_ascending keys) "keys-not-strictly-ascending" ++
  expect (nodupb pres) "common-prefix-repeated" ++
  expect (list_eqb keys (pg_keys full)) "pages-differ-from-unpaginated-keys" ++
  expect (list_eqb pres (pg_prefixes full)) "pages-differ-from-unpaginated-prefixes" ++
  expect (match rev pages with p :: _ => negb (pg_truncated p) | [] => true end) "last-page-truncated".

(* ---- multipart uploads ------------------------------------------------------------ *)
Definition ustatus_of (e : uerr) : Z * list N :=
  match e with
  | UNoSuchUpload => (404, B "NoSuchUpload")
  | UInvalidPart => (400, B "InvalidPart")
  | UInvalidPartOrder => (400, B "InvalidPartOrder")
  | UNoSuchBucket => (404, B "NoSuchBucket")
  | UMissingContentLength => (411, B "MissingContentLength")
  | UPanic => (500, B "PANIC")
  | UBackend e => (status_of e, code_of e)
  end.
Definition exp_uerr (e : uerr) (ob : obs) : list (list N) :=
  match e with
  | UPanic => expect (ob_panic ob) "S:model-panics"
  | _ => expect (negb (ob_panic ob)) "S:panic" ++ expect (ob_status ob =? fst (ustatus_of e)) "S:status" ++
         expect (beq (ob_code ob) (snd (ustatus_of e))) "S:code"
  end.

Definition uid_in (t : list (N * list N)) (s : list N) : N :=
  match tbl_id t s with Some i => i | None => 0%N end.

Fixpoint parts_eqb (a : list (nat * part)) (b : list (list N * (Z * list N))) : bool :=
  match a, b with
  | [], [] => true
  | (n, p) :: a', (k, (sz, et)) :: b' =>
      beq k (dec (Z.of_nat n)) && (sz =? blen (pt_body p)) && beq et (pt_etag p) && parts_eqb a' b'
  | _, _ => false
  end.

Fixpoint uploads_eqb (t : list (N * list N)) (a : list (list N * N)) (b : list (list N * (Z * list N))) : bool :=
  match a, b with
  | [], [] => true
  | (k, i) :: a', (k', (_, idstr)) :: b' =>
      beq k k' && (match tbl_str t i with Some s => beq s idstr | None => false end) && uploads_eqb t a' b'
  | _, _ => false
  end.

Definition up_step (md5 : list N -> list N) (c : config) (hs : hstate) (o : hop) (ob : obs)
  : hstate * list (list N) :=
  let ut := hs_utbl hs in
  let u := hs_up hs in
  let s := hs_model hs in
  let mk s' u' ut' := {| hs_model := s'; hs_tbl := hs_tbl hs; hs_up := u'; hs_utbl := ut'; hs_fs := hs_fs hs |} in
  match o with
  | HInitiate b k m =>
      match ensure_bucket c s b with
      | (s1, Some e) => (mk s1 u ut, exp_err e ob false)
      | (s1, None) =>
          let '(u', id) := create_upload u b k m in
          let '(ut', ok) := bind ut id (ob_next ob) in
          (mk s1 u' ut', exp_ok ob ++ expect (negb (beq (ob_next ob) [])) "S:no-upload-id" ++ expect ok "S:upload-id-not-fresh")
      end
  | HUploadPart b k uid pn body =>
      match upload_part md5 hex_of u b k (uid_in ut uid) pn body with
      | (u', (Some e, _)) => (mk s u' ut, exp_uerr e ob)
      | (u', (None, et)) => (mk s u' ut, exp_ok ob ++ expect (beq (ob_etag ob) et) "S:part-etag")
      end
  | HComplete b k uid parts =>
      match complete_upload md5 hex_of u s b k (uid_in ut uid) parts with
      | (u', s', (Some e, _)) => (mk s' u' ut, exp_uerr e ob)
      | (u', s', (None, et)) => (mk s' u' ut, exp_ok ob ++ expect (beq (ob_etag ob) et) "S:complete-etag")
      end
  | HAbort b k uid =>
      match abort_upload u b k (uid_in ut uid) with
      | (u', Some e) => (mk s u' ut, exp_uerr e ob)
      | (u', None) => (mk s u' ut, exp_ok ob)
      end
  | HListParts b k uid marker limit =>
      match ensure_bucket c s b with
      | (s1, Some e) => (mk s1 u ut, exp_err e ob false)
      | (s1, None) =>
          match list_parts u b k (uid_in ut uid) marker limit with
          | inl (Some e) => (mk s1 u ut, exp_uerr e ob)
          | inl None => (mk s1 u ut, [])
          | inr r => (mk s1 u ut, exp_ok ob ++
                        expect (parts_eqb (pr_parts r) (ob_contents ob)) "S:parts" ++
                        expect (Bool.eqb (pr_truncated r) (ob_truncated ob)) "M:is-truncated" ++
                        (if pr_truncated r then expect (beq (ob_next ob) (dec (Z.of_nat (pr_next r)))) "M:next-part-number-marker" else []))
          end
      end
  | HListUploads b pre d km im limit =>
      match ensure_bucket c s b with
      | (s1, Some e) => (mk s1 u ut, exp_err e ob false)
      | (s1, None) =>
          let idm := match im with [] => None | _ => Some (uid_in ut im) end in
          match list_uploads u b pre d km idm limit with
          | inl (Some e) => (mk s1 u ut, exp_uerr e ob)
          | inl None => (mk s1 u ut, [])
          | inr r => (mk s1 u ut, exp_ok ob ++
                        expect (uploads_eqb ut (ur_uploads r) (ob_contents ob)) "S:uploads" ++
                        expect (same_set (ur_prefixes r) (ob_names ob)) "S:upload-common-prefixes" ++
                        expect (negb (ob_truncated ob) || (limit =? 0) ||
                                match ob_contents ob, ob_names ob with [], [] => false | _, _ => true end)
                               "S:truncated-page-with-nothing-on-it" ++
                        expect (Bool.eqb (ur_truncated r) (ob_truncated ob)) "M:is-truncated" ++
                        (if ur_truncated r then
                           expect (beq (ob_next ob) (ur_next_key r)) "M:next-key-marker" ++
                           expect (match tbl_str ut (ur_next_id r) with Some s => beq s (ob_vid ob) | None => false end) "M:next-upload-id-marker"
                         else []))
          end
      end
  | _ => (hs, [])
  end.

(* PUT with STREAMING-AWS4-HMAC-SHA256-PAYLOAD framing *)
Definition chunked_put_step (md5 : list N -> list N) (c : config) (hs : hstate) (o : hop) (ob : obs)
  : hstate * list (list N) :=
  match o with
  | HChunkedPut b k stream sched eofw declared payload m =>
      let spec := if declared =? blen payload then [] else expect (negb (ok_status (ob_status ob))) "S:wrong-declared-length-accepted" in
      match ensure_bucket c (hs_model hs) b with
      | (s1, Some e) => (with_model hs s1, exp_err e ob false)
      | (s1, None) =>
          if declared <? 0 then (with_model hs s1, expect (negb (ob_panic ob)) "S:panic" ++ expect (ob_status ob =? 400) "S:status") else
          let r := mk_reader stream sched eofw in
          (* every backend reads the body with ReadAll(reader, declared) before storing *)
          match decode_readall r declared with
          | DOk p =>
              match put_object s1 b k p (carry_meta s1 b k m) with
              | (s2, _) => (with_model hs s2, exp_ok ob ++ expect (beq (ob_etag ob) (etag_of md5 p)) "S:put-etag" ++ spec)
              end
          | _ => (with_model hs s1, expect (negb (ob_panic ob)) "S:panic" ++
                                    expect (negb (ok_status (ob_status ob))) "S:malformed-or-wrong-length-accepted")
          end
      end
  | _ => (hs, [])
  end.

(* ListObjectVersions: entries compared in order; version ids through the bijection *)
Fixpoint ventries_check (md5 : list N -> list N) (show : bool) (t : list (N * list N))
    (es : list ventry) (cs : list (list N * (Z * list N))) (vs : list (list N * (bool * bool)))
  : list (N * list N) * list (list N) :=
  match es, cs, vs with
  | [], [], [] => (t, [])
  | e :: es', (k, (sz, et)) :: cs', (idstr, (mk, latest)) :: vs' =>
      let '(t1, idm) := if show then (let '(t', ok) := bind t (ve_vid e) idstr in (t', expect ok "S:version-id-of-entry"))
                        else (t, expect (beq idstr (B "null")) "S:never-versioned-id-not-null") in
      let m := expect (beq (ve_key e) k) "S:version-entry-key" ++
               expect (Bool.eqb (ve_marker e) mk) "S:version-entry-kind" ++
               expect (Bool.eqb (ve_latest e) latest) "S:is-latest" ++
               (if ve_marker e then [] else
                  expect (sz =? blen (ve_body e)) "S:version-size" ++ expect (beq et (etag_of md5 (ve_body e))) "S:version-etag") ++ idm in
      let '(t2, ms) := ventries_check md5 show t1 es' cs' vs' in (t2, m ++ ms)
  | _, _, _ => (t, [B "S:version-entry-count"])
  end.

Definition versions_step (md5 : list N -> list N) (c : config) (hs : hstate) (o : hop) (ob : obs)
  : hstate * list (list N) :=
  match o with
  | HListVersions b pre d km vm maxkeys =>
      if negb (cfg_versioned c) then (hs, exp_err ENotImplemented ob false) else
      match ensure_bucket c (hs_model hs) b with
      | (s1, Some e) => (with_model hs s1, exp_err e ob false)
      | (s1, None) =>
          let vmo := match vm with [] => None | _ => Some (match tbl_id (hs_tbl hs) vm with Some i => i | None => 0%N end) end in
          match list_versions s1 b pre d km vmo maxkeys with
          | VLNoBucket => (with_model hs s1, exp_err ENoSuchBucket ob false)
          | VLOk r show =>
              let '(t', ms) := ventries_check md5 show (hs_tbl hs) (vl_entries r) (ob_contents ob) (ob_versions ob) in
              ({| hs_model := s1; hs_tbl := t'; hs_up := hs_up hs; hs_utbl := hs_utbl hs; hs_fs := hs_fs hs |},
               exp_ok ob ++ ms ++
               expect (same_set (vl_prefixes r) (ob_names ob)) "S:version-common-prefixes" ++
               expect (negb (ob_truncated ob) || negb (beq (ob_next ob) [])) "S:truncated-without-a-key-marker-to-go-on-from" ++
               expect (Bool.eqb (vl_truncated r) (ob_truncated ob)) "M:is-truncated" ++
               (if vl_truncated r then
                  expect (beq (ob_next ob) (vl_next_key r)) "M:next-key-marker" ++
                  (if show then expect (match tbl_str t' (vl_next_vid r) with Some s => beq s (ob_vid ob) | None => false end) "M:next-version-id-marker" else [])
                else expect (beq (ob_next ob) []) "M:next-key-marker-on-final-page"))
          end
      end
  | _ => (hs, [])
  end.

(* raw uploads (C08) *)
Definition pstatus_of (e : perr) : Z * list N :=
  match e with
  | PNoSuchBucket => (404, B "NoSuchBucket") | PMetadataTooLarge => (400, B "MetadataTooLarge")
  | PMissingContentLength => (411, B "MissingContentLength") | PBadRequestNoCode => (400, [])
  | PKeyTooLong => (400, B "KeyTooLongError") | PInvalidDigest => (400, B "InvalidDigest")
  | PBadDigest => (400, B "BadDigest") | PIncompleteBody => (400, B "IncompleteBody")
  | PInternal => (500, B "InternalError") | PInvalidPart => (400, B "InvalidPart")
  | PNoSuchUpload => (404, B "NoSuchUpload")
  end.
(* a rejection is the property-level fact; the precise code is model-level *)
Definition exp_perr (e : perr) (ob : obs) : list (list N) :=
  expect (negb (ob_panic ob)) "S:panic" ++ expect (negb (ok_status (ob_status ob))) "S:rejected-upload-accepted" ++
  expect (ob_status ob =? fst (pstatus_of e)) "M:status" ++ expect (beq (ob_code ob) (snd (pstatus_of e))) "M:code".

Definition tracked_of (h : headers) : meta :=
  filter (fun kv => prefixb (B "X-Amz-Meta-") (fst kv) || beq (fst kv) (B "Content-Type") ||
                    beq (fst kv) (B "Content-Disposition") || beq (fst kv) (B "Content-Encoding")) h.

Definition raw_step (md5 : list N -> list N) (c : config) (hs : hstate) (o : hop) (ob : obs)
  : hstate * list (list N) :=
  match o with
  | HPutRaw b k h body fa integrity ml =>
      match put_request md5 c integrity ml (hs_model hs) b k h {| br_data := body; br_fail_after := fa |} (tracked_of h) with
      | (s', inl e) => (with_model hs s', exp_perr e ob)
      | (s', inr (recv, vid)) =>
          let '(t', vm) := check_vid (hs_tbl hs) vid ob in
          ({| hs_model := s'; hs_tbl := t'; hs_up := hs_up hs; hs_utbl := hs_utbl hs; hs_fs := hs_fs hs |},
           expect (negb (ob_panic ob)) "S:panic" ++ expect (ok_status (ob_status ob)) "S:valid-upload-refused" ++
           expect (beq (ob_etag ob) (etag_of md5 recv)) "S:put-etag" ++ vm)
      end
  | HPartRaw b k uid pn h body fa integrity =>
      match part_request md5 hex_of integrity (hs_up hs) b k (uid_in (hs_utbl hs) uid) pn h {| br_data := body; br_fail_after := fa |} with
      | (u', inl e) => ({| hs_model := hs_model hs; hs_tbl := hs_tbl hs; hs_up := u'; hs_utbl := hs_utbl hs; hs_fs := hs_fs hs |}, exp_perr e ob)
      | (u', inr et) => ({| hs_model := hs_model hs; hs_tbl := hs_tbl hs; hs_up := u'; hs_utbl := hs_utbl hs; hs_fs := hs_fs hs |},
                         expect (negb (ob_panic ob)) "S:panic" ++ expect (ok_status (ob_status ob)) "S:valid-upload-refused" ++
                         expect (beq (ob_etag ob) et) "S:part-etag")
      end
  | _ => (hs, [])
  end.

Definition hist_step (md5 : list N -> list N) (c : config) (hs : hstate) (o : hop) (ob : obs)
  : hstate * list (list N) :=
  match o with
  | HPutRaw _ _ _ _ _ _ _ | HPartRaw _ _ _ _ _ _ _ _ => raw_step md5 c hs o ob
  | HListVersions _ _ _ _ _ _ => versions_step md5 c hs o ob
  | HChunkedPut _ _ _ _ _ _ _ _ => chunked_put_step md5 c hs o ob
  | HInitiate _ _ _ | HUploadPart _ _ _ _ _ | HComplete _ _ _ _ | HAbort _ _ _
  | HListParts _ _ _ _ _ | HListUploads _ _ _ _ _ _ => up_step md5 c hs o ob
  | _ => obj_step md5 c hs o ob
  end.

(* walk oracle for upload / part listings: every entry once, concatenation = unpaged *)
Definition entries_walk_check (limit : Z) (pages : list (list (list N))) (pre_pages : list (list (list N)))
    (full : list (list N)) (full_pre : list (list N)) (terminated : bool) : list (list N) :=
  expect terminated "walk-did-not-terminate" ++
  expect (forallb (fun p => Z.of_nat (length p) <=? limit) pages) "page-exceeds-limit" ++
  expect (list_eqb (concat pages) full) "pages-differ-from-unpaginated-entries" ++
  expect (nodupb (concat pre_pages)) "common-prefix-repeated" ++
  expect (same_set (concat pre_pages) full_pre) "pages-differ-from-unpaginated-prefixes".
