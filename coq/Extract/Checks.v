(* Correspondence glue: for each property, a function from (case input, observed
   implementation output) to a pair (model mismatches, spec failures).  These are the
   definitions the extracted driver runs; no theorem depends on them. *)
From GF Require Import Base.Lit Base.Int64 Model.Range Spec.RangeSpec Model.BucketName Spec.NameSpec Proofs.NameProofs.
Open Scope string_scope.
Open Scope list_scope.
Open Scope Z_scope.

Definition expect (ok : bool) (what : string) : list bytes := if ok then [] else [B what].

Definition content_range_text (f l n : Z) : bytes :=
  B "bytes " ++ dec f ++ B "-" ++ dec l ++ B "/" ++ dec n.

Definition ok_status (s : Z) : bool := (200 <=? s) && (s <=? 299).

(* C11 --------------------------------------------------------------------- *)
Definition c11_model (hdr data : bytes) (status : Z) (code cr cl body : bytes) (panicked : bool)
  : list bytes :=
  match get_range hdr data with
  | AWhole => expect (negb panicked) "panic" ++ expect (ok_status status) "status" ++
              expect (beq body data) "body" ++
              expect (beq cl (dec (blen data))) "content-length" ++ expect (beq cr []) "content-range"
  | A416 => expect (negb panicked) "panic" ++ expect (status =? 416) "status" ++
            expect (beq code (B "InvalidRange")) "code"
  | A501 => expect (negb panicked) "panic" ++ expect (status =? 501) "status" ++
            expect (beq code (B "NotImplemented")) "code"
  | APartial f l b =>
      expect (negb panicked) "panic" ++ expect (ok_status status) "status" ++
      expect (beq body b) "body" ++ expect (beq cl (dec (blen b))) "content-length" ++
      expect (beq cr (content_range_text f l (blen data))) "content-range"
  | APanic => expect panicked "model-panics-impl-does-not"
  end.

(* spec oracle: only for headers that are a single syntactically valid range *)
Definition c11_spec (hdr data : bytes) (status : Z) (code cr cl body : bytes) (panicked : bool)
  : list bytes :=
  if panicked then [B "panic"] else
  match parse_range_header hdr with
  | HReq r =>
      match answer (form_of_req r) data with
      | S416 => expect ((status =? 416) && beq code (B "InvalidRange")) "expected-416-InvalidRange"
      | SPartial f l b =>
          expect (ok_status status) "expected-success" ++
          expect (beq body b) "body-not-requested-bytes" ++
          expect (beq cl (dec (l - f + 1))) "content-length" ++
          expect (beq cr (content_range_text f l (blen data))) "content-range"
      end
  | HInvalid => expect ((status =? 416) && beq code (B "InvalidRange")) "malformed-must-be-416"
  | HNone => expect (ok_status status && beq body data) "no-range-whole-body"
  | HNotImplemented => expect (negb (ok_status status) || beq body data) "multi-range"
  end.

(* C17 --------------------------------------------------------------------- *)
Definition c17_direct_model (name : bytes) (accepted : bool) : list bytes :=
  expect (Bool.eqb (validate name) accepted) "validate".
Definition c17_direct_spec (name : bytes) (accepted : bool) : list bytes :=
  expect (Bool.eqb (valid name) accepted) "documented-rule".

(* PUT /<name>: returns new model state and mismatches *)
Definition c17_put_model (existing : list bytes) (name : bytes) (status : Z) (code : bytes)
  : list bytes * list bytes :=
  let '(st', ok) := name_create existing name in
  (st',
   if ok then expect (status =? 200) "status"
   else if validate name
        then expect ((status =? 409) && beq code (B "BucketAlreadyExists")) "expected-409-BucketAlreadyExists"
        else expect ((status =? 400) && beq code (B "InvalidBucketName")) "expected-400-InvalidBucketName").

Definition c17_put_spec (existing : list bytes) (name : bytes) (status : Z) (code : bytes) : list bytes :=
  if valid name then
    if existsb (beq name) existing then expect (negb (ok_status status)) "duplicate-accepted"
    else expect (ok_status status) "valid-name-refused"
  else expect ((status =? 400) && beq code (B "InvalidBucketName")) "invalid-name-not-refused-with-InvalidBucketName".

(* GET /<name> on a server with the auto-bucket option: the bucket is made on first use, under the
   same name rule as create-bucket (gofakes3.go ensureBucketExists) *)
Definition c17_touch_model (existing : list bytes) (name : bytes) (status : Z) (code : bytes)
  : list bytes * list bytes :=
  if validate name
  then ((if existsb (beq name) existing then existing else name :: existing), expect (status =? 200) "status")
  else (existing, expect ((status =? 400) && beq code (B "InvalidBucketName")) "expected-400-InvalidBucketName").

Definition c17_touch_spec (existing : list bytes) (name : bytes) (status : Z) (code : bytes) : list bytes :=
  if valid name then expect (ok_status status) "valid-name-refused"
  else expect (negb (ok_status status)) "invalid-name-served".

Fixpoint subset (a b : list bytes) : bool :=
  match a with [] => true | x :: a' => existsb (beq x) b && subset a' b end.
Definition c17_list_check (existing listed : list bytes) : list bytes :=
  expect (subset listed existing) "lists-a-bucket-never-created" ++
  expect (subset existing listed) "created-bucket-not-listed".

(* C12 (direct decoder) ------------------------------------------------------ *)
From GF Require Import Model.Chunk.

Definition mk_reader (stream : bytes) (sched : list Z) (eofw : bool) : reader :=
  {| rd_buf := stream; rd_sched := sched; rd_eof_with_data := eofw |}.

(* consumer = ReadAll(reader, size): impl_ok, impl_bytes *)
Definition c12_readall_model (stream : bytes) (sched : list Z) (eofw : bool) (size : Z)
    (impl_ok : bool) (impl_bytes : bytes) : list bytes :=
  match decode_readall (mk_reader stream sched eofw) size with
  | DOk p => expect impl_ok "accepted" ++ expect (beq p impl_bytes) "decoded-bytes"
  | _ => expect (negb impl_ok) "rejected"
  end.

(* spec: the stream is encode(chunks) of [payload]; accepted iff declared size = |payload|,
   and then the bytes are the payload *)
Definition c12_readall_spec (payload : bytes) (size : Z) (impl_ok : bool) (impl_bytes : bytes) : list bytes :=
  if size =? blen payload
  then expect impl_ok "well-formed-stream-rejected" ++ expect (beq impl_bytes payload) "decoded-differs-from-payload"
  else expect (negb impl_ok) "wrong-declared-length-accepted".

Definition c12_copy_model (stream : bytes) (sched : list Z) (eofw : bool) (bufsz : Z) (impl_bytes : bytes)
  : list bytes :=
  expect (beq (decode_copy (mk_reader stream sched eofw) bufsz) impl_bytes) "decoded-bytes".

Definition c12_copy_spec (payload : bytes) (impl_bytes : bytes) : list bytes :=
  expect (beq impl_bytes payload) "decoded-differs-from-payload".

(* C16 ----------------------------------------------------------------------- *)
From GF Require Import Model.Routing.
Definition c16_model (mode : host_mode) (host path lb lk : bytes) (rb rk : list bytes) : list bytes :=
  let '(b, o) := route mode host path in
  expect (beq b lb && beq o lk) "model-route-differs-from-logical-address" ++
  expect (forallb (beq b) rb) "backend-bucket" ++ expect (forallb (beq o) rk) "backend-key".
Definition c16_spec (lb lk : bytes) (same : bool) (rb rk : list bytes) : list bytes :=
  expect same "answer-differs-from-path-style" ++
  expect (forallb (beq lb) rb) "wrong-bucket-addressed" ++ expect (forallb (beq lk) rk) "wrong-key-addressed".

(* C10 frame oracle (model-free): snapshots are lists (label, value); an operation addressed to
   (bucket, key) may only change entries whose label is in [allowed]; a refused operation may
   change nothing *)
Fixpoint snap_get (l : bytes) (s : list (bytes * bytes)) : option bytes :=
  match s with [] => None | (l', v) :: s' => if beq l l' then Some v else snap_get l s' end.

Definition opt_beq (a b : option bytes) : bool :=
  match a, b with Some x, Some y => beq x y | None, None => true | _, _ => false end.

Definition changed_labels (before after : list (bytes * bytes)) : list bytes :=
  filter (fun l => negb (opt_beq (snap_get l before) (snap_get l after)))
         (map fst before ++ filter (fun l => match snap_get l before with None => true | Some _ => false end) (map fst after)).

Definition frame_check (allowed_prefixes : list bytes) (refused : bool) (before after : list (bytes * bytes))
  : list bytes :=
  let ch := changed_labels before after in
  let bad := filter (fun l => refused || negb (existsb (fun p => prefixb p l) allowed_prefixes)) ch in
  match bad with
  | [] => []
  | l :: _ => [B "changed-outside-addressed:" ++ l]
  end.

(* C09: every response is well formed (model-free oracle) ----------------------- *)
From GF Require Import Model.Errors.
Definition c09_response_ok (status : Z) (code : bytes) (panicked hung is_head : bool) (body_len : Z)
    (body_is_error_doc : bool) : list bytes :=
  expect (negb panicked) "panic" ++ expect (negb hung) "no-answer-within-deadline" ++
  expect ((100 <=? status) && (status <=? 599)) "status-out-of-range" ++
  (if (400 <=? status) && negb is_head && (0 <? body_len) then
     expect body_is_error_doc "error-body-is-not-an-S3-error-document" ++
     (if body_is_error_doc then expect (status =? status_of_code code) "status-inconsistent-with-code" else [])
   else []).
(* (a body written for a HEAD request is dropped by net/http and cannot be observed in-process) *)
