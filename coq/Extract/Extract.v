From Coq Require Extraction.
From Coq Require Import ExtrOcamlBasic.
From GF Require Import Base.Lit Extract.Checks.
Extraction Language OCaml.
Extraction "model.ml" B c11_model c11_spec.
