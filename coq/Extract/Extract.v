From Coq Require Extraction.
From Coq Require Import ExtrOcamlBasic.
From GF Require Import Base.Lit Extract.Checks Extract.HistCheck Extract.CrashCheck Model.Handlers.
Extraction Language OCaml.
Extraction "model.ml" B c11_model c11_spec c17_direct_model c17_direct_spec c17_put_model c17_put_spec c17_touch_model c17_touch_spec c17_list_check
  c09_response_ok frame_check c16_model c16_spec c12_readall_model c12_readall_spec c12_copy_model c12_copy_spec hinit hinit_fs with_model hist_step walk_check etag_of entries_walk_check crash_calls crash_state crash_dir_calls crash_phantoms.
