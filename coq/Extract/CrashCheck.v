(* Executable glue between the history checker and the crash model of the filesystem backends:
   given the abstract state before an in-flight write and the state the write would have
   produced, the file-system calls the write consists of and the abstract state a kill at the
   n-th call leaves behind. *)
From Coq Require Import List NArith ZArith Bool.
From GF Require Import Base.Bytes Base.Lit Base.SortedMap Model.Mem Model.Crash Model.CrashDirs.
Import ListNotations.

Definition live_objects (s : state) (b : bytes) : list (bytes * (bytes * umeta)) :=
  match get_bucket s b with
  | None => []
  | Some bk =>
      flat_map (fun ko : bytes * obj =>
                  match o_data (snd ko) with
                  | Some v => if vd_marker v then [] else [(fst ko, (vd_body v, vd_meta v))]
                  | None => []
                  end) (b_objs bk)
  end.

Definition crash_target (after : state) (b k : bytes) : option (bytes * umeta) :=
  match get_object after b k with
  | OObj v _ => if vd_marker v then None else Some (vd_body v, vd_meta v)
  | OErr _ => None
  end.

Section WithMD5.
Variable md5 : bytes -> bytes.

Definition crash_ops (before after : state) (b k : bytes) : list fsop :=
  let d := disk_of md5 (live_objects before b) in
  match crash_target after b k with
  | Some (body, u) => put_ops md5 d k body u
  | None => del_ops d k
  end.

Definition crash_calls (before after : state) (b k : bytes) : list bytes :=
  map op_name (crash_ops before after b k).

(* the abstract state after a kill at call n (0-based: the first n calls happened; partial: the
   process died inside call n) *)
Definition crash_state (before after : state) (b k : bytes) (n : nat) (partial : bool) : state :=
  let d := disk_of md5 (live_objects before b) in
  match observe md5 (run_ops d (crash_prefix (crash_ops before after b k) n partial)) k with
  | None => fst (delete_object before b k)
  | Some (body, _, u) => fst (put_object before b k body u)
  end.
End WithMD5.

(* the directory side (Model/CrashDirs.v): the directory-changing calls of the same write and the
   common prefixes without a key that a kill after the first n of them leaves in the bucket's
   delimiter listing *)
Definition crash_dops (before after : state) (b k : bytes) : list dop :=
  let t := tree_of (map fst (live_objects before b)) in
  match crash_target after b k with
  | Some _ => put_dops t k
  | None => del_dops t k
  end.

Definition crash_dir_calls (before after : state) (b k : bytes) : list bytes :=
  map dop_name (crash_dops before after b k).

Definition crash_phantoms (before after : state) (b k : bytes) (n : nat) : list bytes :=
  phantom_prefixes (run_dops (tree_of (map fst (live_objects before b))) (firstn n (crash_dops before after b k))).
