(* TASK T4.  Multipart bookkeeping listings (property C14) over Model/Uploader.v:
   ListParts is exact and pages completely; ListMultipartUploads (unpaginated) is exact.
   Statements fixed in content; add helper lemmas freely. *)
From GF Require Import Base.Bytes Base.SortedMap Model.Prefix Model.Mem Model.Handlers Model.Uploader
  Proofs.BytesFacts Proofs.SortedMapFacts.
From Coq Require Import Lia ZifyBool ZifyNat ZifyN Sorted List Arith.
Open Scope Z_scope.

(* ---- parts ---- *)

(* the held parts of an upload with their true numbers, ascending *)
Definition held_parts (mpu : upload) : list (nat * part) := parts_from 0 (up_parts mpu).

Lemma parts_from_spec idx l n p :
  In (n, p) (parts_from idx l) <-> (idx <= n)%nat /\ nth_error l (n - idx) = Some (Some p).
Proof.
  revert idx. induction l as [|x l IH]; intros idx.
  - cbn [parts_from In]. split; [intros []|]. intros [_ H]. destruct (n - idx)%nat; discriminate H.
  - destruct x as [q|]; cbn [parts_from In]; rewrite IH.
    + split.
      * intros [H|[H1 H2]].
        -- inversion H; subst. split; [lia|]. replace (n - n)%nat with O by lia. reflexivity.
        -- split; [lia|]. replace (n - idx)%nat with (S (n - S idx)) by lia. exact H2.
      * intros [H1 H2]. destruct (Nat.eq_dec idx n) as [E|E].
        -- subst. replace (n - n)%nat with O in H2 by lia. cbn in H2. inversion H2. now left.
        -- right. split; [lia|]. replace (n - idx)%nat with (S (n - S idx)) in H2 by lia. exact H2.
    + split.
      * intros [H1 H2]. split; [lia|]. replace (n - idx)%nat with (S (n - S idx)) by lia. exact H2.
      * intros [H1 H2]. destruct (Nat.eq_dec idx n) as [E|E].
        -- subst. replace (n - n)%nat with O in H2 by lia. cbn in H2. discriminate H2.
        -- split; [lia|]. replace (n - idx)%nat with (S (n - S idx)) in H2 by lia. exact H2.
Qed.

(* every listed index lies within [idx, idx + length l) *)
Lemma parts_from_bounds idx l np :
  In np (parts_from idx l) -> (idx <= fst np < idx + length l)%nat.
Proof.
  destruct np as [n p]. rewrite parts_from_spec. intros [H1 H2]. cbn [fst].
  assert (n - idx < length l)%nat by (apply nth_error_Some; rewrite H2; discriminate). lia.
Qed.

Definition idx_lt (a b : nat * part) : Prop := (fst a < fst b)%nat.

Lemma parts_from_ss idx l : StronglySorted idx_lt (parts_from idx l).
Proof.
  revert idx. induction l as [|x l IH]; intros idx; cbn [parts_from].
  - constructor.
  - destruct x as [q|]; [|apply IH]. constructor; [apply IH|].
    apply Forall_forall. intros np H. apply parts_from_bounds in H. unfold idx_lt. cbn [fst]. lia.
Qed.

Lemma ss_split {A} (R : A -> A -> Prop) pre x tl :
  StronglySorted R (pre ++ x :: tl) -> Forall (fun a => R a x) pre /\ Forall (R x) tl.
Proof.
  induction pre as [|y pre IH]; cbn [app]; intros H; inversion H as [|? ? Hs Hf]; subst.
  - split; [constructor|assumption].
  - destruct (IH Hs) as [H1 H2]. split; [|exact H2]. constructor; [|exact H1].
    rewrite Forall_forall in Hf. apply Hf. apply in_or_app. right. now left.
Qed.

Lemma ss_filter {A} (R : A -> A -> Prop) f l :
  StronglySorted R l -> StronglySorted R (filter f l).
Proof.
  induction l as [|x l IH]; intros H; cbn [filter]; [constructor|].
  inversion H as [|? ? Hs Hf]; subst. destruct (f x); [|now apply IH].
  constructor; [now apply IH|]. rewrite Forall_forall in *. intros y Hy.
  apply filter_In in Hy. apply Hf. tauto.
Qed.

Lemma parts_from_ascending idx l :
  forall a b rest, (exists pre, parts_from idx l = pre ++ a :: b :: rest) -> (fst a < fst b)%nat.
Proof.
  intros a b rest [pre H]. pose proof (parts_from_ss idx l) as S. rewrite H in S.
  apply ss_split in S. destruct S as [_ S]. inversion S; subst. assumption.
Qed.

Lemma filter_all_true {A} (f : A -> bool) l : (forall x, In x l -> f x = true) -> filter f l = l.
Proof.
  induction l as [|x l IH]; intros H; cbn [filter]; [reflexivity|].
  rewrite (H x (or_introl eq_refl)). f_equal. apply IH. intros y Hy. apply H. now right.
Qed.

Lemma filter_all_false {A} (f : A -> bool) l : (forall x, In x l -> f x = false) -> filter f l = [].
Proof.
  induction l as [|x l IH]; intros H; cbn [filter]; [reflexivity|].
  rewrite (H x (or_introl eq_refl)). apply IH. intros y Hy. apply H. now right.
Qed.

Lemma filter_filter_imp {A} (f g : A -> bool) l :
  (forall x, f x = true -> g x = true) -> filter f (filter g l) = filter f l.
Proof.
  intros H. induction l as [|x l IH]; cbn [filter]; [reflexivity|].
  destruct (g x) eqn:G; cbn [filter].
  - rewrite IH. reflexivity.
  - destruct (f x) eqn:F; [|exact IH]. rewrite (H x F) in G. discriminate G.
Qed.

(* skipping to (a clamped) marker = filtering the numbered parts by number >= marker *)
Lemma parts_from_skipn l : forall m idx,
  parts_from (idx + Nat.min m (length l)) (skipn (Nat.min m (length l)) l)
  = filter (fun np => Nat.leb (idx + m) (fst np)) (parts_from idx l).
Proof.
  induction l as [|x l IH]; intros m idx.
  - cbn [length]. rewrite Nat.min_0_r. reflexivity.
  - destruct m as [|m].
    + cbn [Nat.min skipn]. rewrite Nat.add_0_r. symmetry. apply filter_all_true.
      intros np H. apply parts_from_bounds in H. apply Nat.leb_le. lia.
    + cbn [length Nat.min skipn]. replace (idx + S (Nat.min m (length l)))%nat with (S idx + Nat.min m (length l))%nat by lia.
      rewrite IH. destruct x as [q|]; cbn [parts_from filter fst].
      * replace (Nat.leb (idx + S m) idx) with false by (symmetry; apply Nat.leb_gt; lia).
        apply filter_ext. intros np. f_equal. lia.
      * apply filter_ext. intros np. f_equal. lia.
Qed.

(* the marker is clamped to the length of the part slice before it leaves Z *)
Lemma clamp_eq marker n : Z.to_nat (Z.min marker (Z.of_nat n)) = Nat.min (Z.to_nat marker) n.
Proof. rewrite Z2Nat.inj_min, Nat2Z.id. reflexivity. Qed.

(* unpaginated (marker 0, limit above the number of parts): exactly the held parts *)
Lemma list_parts_exact u b k id mpu limit :
  get_upload u b k id = Some mpu -> Z.of_nat (length (held_parts mpu)) <= limit ->
  list_parts u b k id 0 limit = inr {| pr_parts := held_parts mpu; pr_truncated := false; pr_next := 0 |}.
Proof.
  intros G L. unfold list_parts. rewrite G. rewrite clamp_eq. cbn [Z.to_nat Nat.min skipn]. fold (held_parts mpu).
  rewrite skipn_all2 by lia. rewrite firstn_all2 by lia. reflexivity.
Qed.

(* any numeric marker, including one beyond the highest part, is answered: the parts with
   number >= marker, at most [limit] of them; truncated iff more remain, and then pr_next is the
   number of the first part not returned *)
Lemma list_parts_page u b k id mpu marker limit :
  get_upload u b k id = Some mpu -> 0 <= marker -> 0 <= limit ->
  exists r, list_parts u b k id marker limit = inr r /\
    let rest := filter (fun np => Nat.leb (Z.to_nat marker) (fst np)) (held_parts mpu) in
    pr_parts r = firstn (Z.to_nat limit) rest /\
    (pr_truncated r = false -> skipn (Z.to_nat limit) rest = []) /\
    (pr_truncated r = true -> exists p tl, skipn (Z.to_nat limit) rest = (pr_next r, p) :: tl).
Proof.
  intros G Hm Hl. unfold list_parts. rewrite G. rewrite clamp_eq. cbv zeta.
  pose proof (parts_from_skipn (up_parts mpu) (Z.to_nat marker) 0) as E.
  cbn [Nat.add] in E. rewrite E. fold (held_parts mpu).
  set (rest := filter _ (held_parts mpu)).
  destruct (skipn (Z.to_nat limit) rest) as [|[n p] tl] eqn:S; eexists; (split; [reflexivity|]); cbn [pr_parts pr_truncated pr_next].
  - split; [reflexivity|]. split; [reflexivity|discriminate].
  - split; [reflexivity|]. split; [discriminate|]. intros _. exists p, tl. reflexivity.
Qed.

(* following the marker the server returns visits every held part exactly once *)
Fixpoint parts_walk (fuel : nat) (u : ustate) (b k : list N) (id : N) (marker limit : Z) : option (list (nat * part)) :=
  match fuel with
  | O => None
  | S f =>
      match list_parts u b k id marker limit with
      | inr r => if pr_truncated r
                 then match parts_walk f u b k id (Z.of_nat (pr_next r)) limit with
                      | Some rest => Some (pr_parts r ++ rest)
                      | None => None
                      end
                 else Some (pr_parts r)
      | inl _ => None
      end
  end.

Lemma parts_walk_from u b k id mpu limit :
  get_upload u b k id = Some mpu -> 1 <= limit ->
  forall fuel marker,
    let rest := filter (fun np => Nat.leb (Z.to_nat marker) (fst np)) (held_parts mpu) in
    0 <= marker -> (length rest < fuel)%nat ->
    parts_walk fuel u b k id marker limit = Some rest.
Proof.
  intros G L. induction fuel as [|f IH]; intros marker rest Hm Hf; [lia|].
  cbn [parts_walk].
  destruct (list_parts_page u b k id mpu marker limit G Hm ltac:(lia)) as [r [E [P [T1 T2]]]].
  fold rest in P, T1, T2. rewrite E.
  destruct (pr_truncated r) eqn:T.
  - destruct (T2 eq_refl) as [p [tl S]].
    assert (Hss : StronglySorted idx_lt rest) by (apply ss_filter, parts_from_ss).
    pose proof (firstn_skipn (Z.to_nat limit) rest) as FS. rewrite S in FS.
    assert (Hin : In (pr_next r, p) rest) by (rewrite <- FS; apply in_or_app; right; now left).
    apply filter_In in Hin. destruct Hin as [_ Hge]. cbn [fst] in Hge. apply Nat.leb_le in Hge.
    assert (R' : filter (fun np => Nat.leb (Z.to_nat (Z.of_nat (pr_next r))) (fst np)) (held_parts mpu)
                 = (pr_next r, p) :: tl).
    { rewrite Nat2Z.id.
      rewrite <- (filter_filter_imp _ (fun np => Nat.leb (Z.to_nat marker) (fst np))).
      2:{ intros x Hx. apply Nat.leb_le in Hx. apply Nat.leb_le. lia. }
      fold rest. rewrite <- FS in Hss |- *. apply ss_split in Hss. destruct Hss as [H1 H2].
      rewrite filter_app. rewrite filter_all_false.
      2:{ intros x Hx. rewrite Forall_forall in H1. apply H1 in Hx. unfold idx_lt in Hx. cbn [fst] in Hx.
          apply Nat.leb_gt. exact Hx. }
      cbn [app]. apply filter_all_true. intros x [Hx|Hx].
      - subst x. apply Nat.leb_refl.
      - rewrite Forall_forall in H2. apply H2 in Hx. unfold idx_lt in Hx. cbn [fst] in Hx.
        apply Nat.leb_le. lia. }
    assert (Hlen : length rest = (length (firstn (Z.to_nat limit) rest) + length ((pr_next r, p) :: tl))%nat)
      by (rewrite <- FS at 1; apply app_length).
    assert (Hfl : (1 <= length (firstn (Z.to_nat limit) rest))%nat).
    { rewrite firstn_length. cbn [length] in Hlen. rewrite firstn_length in Hlen. lia. }
    rewrite (IH (Z.of_nat (pr_next r))).
    + rewrite R', P. f_equal. exact FS.
    + lia.
    + rewrite R'. lia.
  - rewrite P. f_equal. rewrite <- (firstn_skipn (Z.to_nat limit) rest) at 2.
    rewrite (T1 eq_refl). symmetry; apply app_nil_r.
Qed.

Theorem parts_walk_complete u b k id mpu limit :
  get_upload u b k id = Some mpu -> 1 <= limit ->
  parts_walk (S (length (held_parts mpu))) u b k id 0 limit = Some (held_parts mpu).
Proof.
  intros G L. pose proof (parts_walk_from u b k id mpu limit G L (S (length (held_parts mpu))) 0) as H.
  cbv zeta in H. cbn [Z.to_nat] in H. rewrite filter_all_true in H by (intros; reflexivity).
  apply H; lia.
Qed.

(* ---- uploads (unpaginated) ---- *)

(* every pending upload of the bucket, ordered by key then by initiation: the index flattened *)
Definition index_entries (items : list (list N * list N)) : list (list N * N) :=
  flat_map (fun kv => map (fun i => (fst kv, i)) (snd kv)) items.

(* with no marker and a limit above the number of uploads, the listing is exactly the pending
   uploads whose key classifies as a Content, in index order, plus each common prefix once *)
Lemma take_uploads_all k limit : forall ids cnt acc,
  cnt + Z.of_nat (length ids) < limit ->
  take_uploads k ids cnt limit acc
  = (acc ++ map (fun i => (k, i)) ids, cnt + Z.of_nat (length ids), None, false).
Proof.
  induction ids as [|i ids IH]; intros cnt acc H; cbn [take_uploads map length].
  - rewrite app_nil_r. replace (cnt + Z.of_nat 0) with cnt by lia. reflexivity.
  - cbn [length] in H. destruct (limit <=? cnt + 1) eqn:E; [lia|].
    rewrite IH by lia. rewrite <- app_assoc. cbn [app].
    replace (cnt + 1 + Z.of_nat (length ids)) with (cnt + Z.of_nat (S (length ids))) by lia. reflexivity.
Qed.

Lemma NoDup_snoc {A} (l : list A) x : NoDup l -> ~ In x l -> NoDup (l ++ [x]).
Proof.
  induction l as [|y l IH]; intros Hn Hx; cbn [app].
  - constructor; [intros []|constructor].
  - inversion Hn as [|? ? Hy Hn']; subst. constructor.
    + rewrite in_app_iff. cbn [In]. intros [H|[H|[]]]; [exact (Hy H)|]. apply Hx. now left.
    + apply IH; [exact Hn'|]. intros H. apply Hx. now right.
Qed.

Lemma index_entries_cons k ids items :
  index_entries ((k, ids) :: items) = map (fun i => (k, i)) ids ++ index_entries items.
Proof. reflexivity. Qed.

Lemma scan_uploads_all pre delim limit : forall items cnt acc seen,
  cnt + Z.of_nat (length (index_entries items)) < limit ->
  let r := scan_uploads pre delim limit items None cnt acc seen in
  ur_uploads r = acc ++ index_entries (filter (fun kv => mr_eqb (prefix_match pre delim (fst kv)) MContent) items) /\
  ur_truncated r = false /\
  (forall p, In p (ur_prefixes r) <->
     In p seen \/ exists k ids, In (k, ids) items /\ prefix_match pre delim k = MCommon p) /\
  (NoDup seen -> NoDup (ur_prefixes r)).
Proof.
  induction items as [|[k ids] rest IH]; intros cnt acc seen H.
  - cbn. rewrite app_nil_r. split; [reflexivity|]. split; [reflexivity|]. split; [|tauto].
    intros p. split; [tauto|]. intros [Hp|[k [ids [[] _]]]]. exact Hp.
  - rewrite index_entries_cons, app_length, map_length in H.
    cbn [scan_uploads filter fst].
    destruct (prefix_match pre delim k) as [| |q] eqn:M; cbn [mr_eqb].
    + (* NoMatch *)
      specialize (IH cnt acc seen ltac:(lia)). cbv zeta in IH |- *.
      destruct IH as [I1 [I2 [I3 I4]]]. repeat split; try assumption.
      * intros Hp. apply I3 in Hp. destruct Hp as [Hp|[k' [ids' [Hin Hk]]]]; [now left|].
        right. exists k', ids'. split; [now right|exact Hk].
      * intros [Hp|[k' [ids' [[Hin|Hin] Hk]]]]; apply I3.
        -- now left.
        -- inversion Hin; subst. rewrite M in Hk. discriminate Hk.
        -- right. exists k', ids'. split; assumption.
    + (* MContent *)
      rewrite take_uploads_all by lia.
      specialize (IH (cnt + Z.of_nat (length ids)) (acc ++ map (fun i => (k, i)) ids) seen ltac:(lia)).
      cbv zeta in IH |- *. destruct IH as [I1 [I2 [I3 I4]]].
      rewrite index_entries_cons, app_assoc. repeat split; try assumption.
      * intros Hp. apply I3 in Hp. destruct Hp as [Hp|[k' [ids' [Hin Hk]]]]; [now left|].
        right. exists k', ids'. split; [now right|exact Hk].
      * intros [Hp|[k' [ids' [[Hin|Hin] Hk]]]]; apply I3.
        -- now left.
        -- inversion Hin; subst. rewrite M in Hk. discriminate Hk.
        -- right. exists k', ids'. split; assumption.
    + (* MCommon q *)
      set (seen' := if existsb (beq q) seen then seen else seen ++ [q]).
      assert (Hs : forall p, In p seen' <-> In p seen \/ p = q).
      { intros p. unfold seen'. destruct (existsb (beq q) seen) eqn:X.
        - apply existsb_exists in X. destruct X as [x [Hx Hb]]. apply beq_eq in Hb. subst x.
          split; [tauto|]. intros [Hp|Hp]; [exact Hp|subst; exact Hx].
        - rewrite in_app_iff. cbn [In]. split; intros [Hp|Hp]; try tauto.
          + destruct Hp as [Hp|[]]. right. now symmetry.
          + right. left. now symmetry. }
      assert (Hn : NoDup seen -> NoDup seen').
      { intros Hnd. unfold seen'. destruct (existsb (beq q) seen) eqn:X; [exact Hnd|].
        apply NoDup_snoc; [exact Hnd|]. intros Hq.
        assert (existsb (beq q) seen = true) as Y
          by (apply existsb_exists; exists q; split; [exact Hq|apply beq_refl]).
        rewrite Y in X. discriminate X. }
      specialize (IH cnt acc seen' ltac:(lia)). cbv zeta in IH |- *.
      destruct IH as [I1 [I2 [I3 I4]]]. repeat split; try assumption.
      * intros Hp. apply I3 in Hp. destruct Hp as [Hp|[k' [ids' [Hin Hk]]]].
        -- apply Hs in Hp. destruct Hp as [Hp|Hp]; [now left|]. subst p.
           right. exists k, ids. split; [now left|exact M].
        -- right. exists k', ids'. split; [now right|exact Hk].
      * intros [Hp|[k' [ids' [[Hin|Hin] Hk]]]]; apply I3.
        -- left. apply Hs. now left.
        -- inversion Hin; subst. rewrite M in Hk. inversion Hk; subst. left. apply Hs. now right.
        -- right. exists k', ids'. split; assumption.
      * intros Hnd. apply I4, Hn, Hnd.
Qed.

Theorem list_uploads_exact pre delim items limit :
  Z.of_nat (length (index_entries items)) < limit ->
  Forall (fun kv => snd kv <> []) items ->
  let r := scan_uploads pre delim limit items None 0 [] [] in
  ur_uploads r = index_entries (filter (fun kv => mr_eqb (prefix_match pre delim (fst kv)) MContent) items) /\
  ur_truncated r = false /\
  (forall p, In p (ur_prefixes r) <-> exists k ids, In (k, ids) items /\ prefix_match pre delim k = MCommon p) /\
  NoDup (ur_prefixes r).
Proof.
  intros H _. pose proof (scan_uploads_all pre delim limit items 0 [] [] ltac:(lia)) as S.
  cbv zeta in S |- *. destruct S as [S1 [S2 [S3 S4]]]. repeat split; try assumption.
  - intros Hp. apply S3 in Hp. destruct Hp as [[]|Hp]. exact Hp.
  - intros Hp. apply S3. now right.
  - apply S4. constructor.
Qed.

Print Assumptions parts_walk_complete.
Print Assumptions list_uploads_exact.

(* a key marker behind every key that has a pending upload (made up, or handed out before the uploads
   behind it were aborted or completed): the seek finds nothing; the page is empty and final *)
Lemma sm_seek_behind_all {V} (k : list N) (m : list (list N * V)) :
  (forall kv, In kv m -> bltb (fst kv) k = true) -> sm_seek k m = [].
Proof.
  induction m as [|[k' v'] m IH]; intros H; cbn [sm_seek]; [reflexivity|].
  pose proof (H (k', v') (or_introl eq_refl)) as Hk. cbn [fst] in Hk. rewrite Hk. apply IH.
  intros kv Hi. apply H. right. exact Hi.
Qed.

Lemma list_uploads_marker_behind_every_key u b bu pre delim km idm limit :
  sm_get b (u_buckets u) = Some bu -> km <> [] ->
  (forall kv, In kv (bu_index bu) -> bltb (fst kv) km = true) ->
  exists r, list_uploads u b pre delim km idm limit = inr r /\
    ur_uploads r = [] /\ ur_prefixes r = [] /\ ur_truncated r = false.
Proof.
  intros Hb Hk Hall. unfold list_uploads. rewrite Hb. destruct km as [|c km']; [contradiction|].
  rewrite (sm_seek_behind_all (c :: km') (bu_index bu) Hall). eexists. split; [reflexivity|].
  cbn. auto.
Qed.
