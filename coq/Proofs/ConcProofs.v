(* TASK T8.  Linearizability of the section-interleaving model (property C07) of
   Model/Conc.v.  Statements fixed in content; add helper lemmas freely. *)
From GF Require Import Base.Bytes Model.Mem Model.Handlers Model.Conc.
From Coq Require Import Lia List Arith.
Import ListNotations.

(* a client that has delivered all the responses of its completed operations and is between
   operations *)
Definition fresh (cl : client) : Prop := cl_phase cl = PPre /\ cl_captured cl = None /\ cl_results cl = [].

(* ---------------------------------------------------------------------------------------- *)
(* Helpers                                                                                    *)

(* the responses the client has been or is about to be handed: delivered ones plus the one
   captured by a Commit whose Post has not run yet *)
Definition full_results (cl : client) : list resp :=
  match cl_todo cl, cl_phase cl with
  | _ :: _, PPost => cl_results cl ++ match cl_captured cl with Some r => [r] | None => [] end
  | _, _ => cl_results cl
  end.

(* the operations of the client's program that have not been committed yet *)
Definition remaining (cl : client) : list op :=
  match cl_todo cl, cl_phase cl with
  | _ :: rest, PPost => rest
  | t, _ => t
  end.

Lemma fresh_full_results cl : fresh cl -> full_results cl = [].
Proof.
  intros (Hp & _ & Hr). unfold full_results. rewrite Hp, Hr. destruct (cl_todo cl); reflexivity.
Qed.

Lemma fresh_remaining cl : fresh cl -> remaining cl = cl_todo cl.
Proof.
  intros (Hp & _ & _). unfold remaining. rewrite Hp. destruct (cl_todo cl); reflexivity.
Qed.

(* what one section does, in terms of [full_results] / [remaining] / the shared state *)
Lemma section_spec c s cl s' cl' com :
  section c s cl = (s', cl', com) ->
  s' = match com with Some o => fst (step c s o) | None => s end /\
  full_results cl' = full_results cl ++ match com with Some o => [snd (step c s o)] | None => [] end /\
  remaining cl = match com with Some o => [o] | None => [] end ++ remaining cl'.
Proof.
  unfold section, full_results, remaining.
  destruct cl as [todo ph cap res]; cbn [cl_todo cl_phase cl_captured cl_results].
  destruct todo as [|o rest].
  - intros H; inversion H; subst. cbn [cl_todo cl_phase cl_captured cl_results].
    rewrite app_nil_r. auto.
  - destruct ph.
    + intros H; inversion H; subst. cbn [cl_todo cl_phase cl_captured cl_results].
      rewrite app_nil_r. auto.
    + destruct (step c s o) as [s2 r] eqn:E. intros H; inversion H; subst.
      cbn [cl_todo cl_phase cl_captured cl_results]. rewrite E. cbn [fst snd app]. auto.
    + intros H; inversion H; subst. cbn [cl_todo cl_phase cl_captured cl_results].
      rewrite app_nil_r. cbn [app]. destruct rest; auto.
Qed.

Lemma set_nth_client_length i cl l : length (set_nth_client i cl l) = length l.
Proof.
  revert i; induction l as [|x l IH]; intros [|i]; cbn; auto.
Qed.

Lemma nth_error_set_nth_client_eq i cl l x :
  nth_error l i = Some x -> nth_error (set_nth_client i cl l) i = Some cl.
Proof.
  revert i; induction l as [|y l IH]; intros [|i]; cbn; intros H; try discriminate; auto.
Qed.

Lemma nth_error_set_nth_client_neq i j cl l :
  i <> j -> nth_error (set_nth_client i cl l) j = nth_error l j.
Proof.
  revert i j; induction l as [|y l IH]; intros [|i] [|j] H; cbn; auto; congruence.
Qed.

Lemma run_log_app c s l1 l2 :
  run_log c s (l1 ++ l2) =
  (fst (run_log c (fst (run_log c s l1)) l2),
   snd (run_log c s l1) ++ snd (run_log c (fst (run_log c s l1)) l2)).
Proof.
  revert s; induction l1 as [|[i o] l1 IH]; intros s.
  - cbn [app run_log fst snd]. destruct (run_log c s l2); reflexivity.
  - cbn [app run_log]. destruct (step c s o) as [s' r]. rewrite IH.
    destruct (run_log c s' l1) as [s'' rs]. reflexivity.
Qed.

Lemma run_log_cons c s i o log :
  run_log c s ((i, o) :: log) =
  (fst (run_log c (fst (step c s o)) log),
   (i, snd (step c s o)) :: snd (run_log c (fst (step c s o)) log)).
Proof.
  cbn [run_log]. destruct (step c s o) as [s' r]. cbn [fst snd].
  destruct (run_log c s' log); reflexivity.
Qed.

Lemma results_of_cons_eq i r rs : results_of i ((i, r) :: rs) = r :: results_of i rs.
Proof. unfold results_of. cbn [filter fst]. rewrite Nat.eqb_refl. reflexivity. Qed.

Lemma results_of_cons_neq i j r rs : j <> i -> results_of i ((j, r) :: rs) = results_of i rs.
Proof.
  intros H. unfold results_of. cbn [filter fst].
  apply Nat.eqb_neq in H. rewrite H. reflexivity.
Qed.

Lemma results_of_app i l1 l2 : results_of i (l1 ++ l2) = results_of i l1 ++ results_of i l2.
Proof. unfold results_of. rewrite filter_app, map_app. reflexivity. Qed.

(* (1), function form *)
Lemma run_sched_state c sched : forall s cls s1 cls1 log,
  run_sched c s cls sched = (s1, cls1, log) -> fst (run_log c s log) = s1.
Proof.
  induction sched as [|j sched IH]; intros s cls s1 cls1 log H.
  - cbn in H. inversion H; subst. reflexivity.
  - cbn [run_sched] in H. destruct (nth_error cls j) as [clj|] eqn:Ej.
    + destruct (section c s clj) as [[s' clj'] com] eqn:Es.
      destruct (run_sched c s' (set_nth_client j clj' cls) sched) as [[s2 cls2] log2] eqn:Er.
      inversion H; subst; clear H.
      apply section_spec in Es. destruct Es as (Hs & _ & _).
      apply IH in Er. destruct com as [o|].
      * rewrite run_log_cons. cbn [fst]. subst s'. exact Er.
      * subst s'. exact Er.
    + eapply IH; eauto.
Qed.

(* the per-client invariant, from an arbitrary starting configuration *)
Lemma run_sched_client c sched : forall s cls s1 cls1 log i cl,
  run_sched c s cls sched = (s1, cls1, log) -> nth_error cls i = Some cl ->
  exists cl1, nth_error cls1 i = Some cl1 /\
    full_results cl1 = full_results cl ++ results_of i (snd (run_log c s log)) /\
    remaining cl = map snd (filter (fun io => Nat.eqb (fst io) i) log) ++ remaining cl1.
Proof.
  induction sched as [|j sched IH]; intros s cls s1 cls1 log i cl H Hcl.
  - cbn in H. inversion H; subst. exists cl. cbn. rewrite app_nil_r. auto.
  - cbn [run_sched] in H. destruct (nth_error cls j) as [clj|] eqn:Ej.
    + destruct (section c s clj) as [[s' clj'] com] eqn:Es.
      destruct (run_sched c s' (set_nth_client j clj' cls) sched) as [[s2 cls2] log2] eqn:Er.
      inversion H; subst; clear H.
      apply section_spec in Es. destruct Es as (Hs & Hf & Hr).
      destruct (Nat.eq_dec j i) as [Hji|Hji].
      * subst j. rewrite Hcl in Ej. inversion Ej; subst clj; clear Ej.
        destruct (IH _ _ _ _ _ i clj' Er (nth_error_set_nth_client_eq i clj' cls cl Hcl))
          as (cl1 & Hn & Hf1 & Hr1).
        exists cl1. split; [exact Hn|]. destruct com as [o|].
        -- rewrite run_log_cons. cbn [snd]. rewrite results_of_cons_eq. subst s'.
           cbn [filter fst]. rewrite Nat.eqb_refl. cbn [map snd].
           rewrite Hf1, Hf, Hr, Hr1. rewrite <- app_assoc. cbn [app]. auto.
        -- subst s'. rewrite Hf1, Hf, Hr, Hr1. rewrite app_nil_r. cbn [app]. auto.
      * assert (Hn' : nth_error (set_nth_client j clj' cls) i = Some cl).
        { rewrite nth_error_set_nth_client_neq by exact Hji. exact Hcl. }
        destruct (IH _ _ _ _ _ i cl Er Hn') as (cl1 & Hn & Hf1 & Hr1).
        exists cl1. split; [exact Hn|]. destruct com as [o|].
        -- rewrite run_log_cons. cbn [snd]. rewrite results_of_cons_neq by exact Hji. subst s'.
           cbn [filter fst]. apply Nat.eqb_neq in Hji. rewrite Hji. auto.
        -- subst s'. auto.
    + eapply IH; eauto.
Qed.

(* ---------------------------------------------------------------------------------------- *)

(* (1) For EVERY number of clients, every program per client and EVERY schedule: the shared state
   reached is the one obtained by executing the committed operations one after the other in the
   order of their Commit sections (the linearization order) ... *)
Theorem interleaved_state_is_sequential c s cls sched :
  let '(s1, cls1, log) := run_sched c s cls sched in
  fst (run_log c s log) = s1.
Proof.
  destruct (run_sched c s cls sched) as [[s1 cls1] log] eqn:E.
  eapply run_sched_state; eauto.
Qed.

(* (2) ... and every client receives, for the operations it completed, exactly the responses that
   sequential execution gives it (in program order).  A client may have one more committed
   operation whose response has not been delivered yet (its Post section has not run). *)
Theorem interleaved_results_are_sequential c s cls sched i cl cl1 :
  Forall fresh cls -> nth_error cls i = Some cl ->
  let '(s1, cls1, log) := run_sched c s cls sched in
  nth_error cls1 i = Some cl1 ->
  let seq := results_of i (snd (run_log c s log)) in
  cl_results cl1 = seq \/
  (exists r, cl_phase cl1 = PPost /\ cl_captured cl1 = Some r /\ seq = cl_results cl1 ++ [r]).
Proof.
  intros Hfr Hcl.
  destruct (run_sched c s cls sched) as [[s1 cls1] log] eqn:E.
  intros Hcl1 seq. subst seq.
  destruct (run_sched_client c sched _ _ _ _ _ i cl E Hcl) as (cl1' & Hn & Hf & _).
  rewrite Hcl1 in Hn. inversion Hn; subst cl1'; clear Hn.
  assert (Hfresh : fresh cl).
  { rewrite Forall_forall in Hfr. apply Hfr. eapply nth_error_In; eauto. }
  rewrite (fresh_full_results _ Hfresh) in Hf. cbn [app] in Hf. rewrite <- Hf.
  unfold full_results. destruct (cl_todo cl1) as [|o rest].
  - left; reflexivity.
  - destruct (cl_phase cl1) eqn:Ep; try (left; reflexivity).
    destruct (cl_captured cl1) as [r|] eqn:Ec.
    + right. exists r. auto.
    + left. rewrite app_nil_r. reflexivity.
Qed.

(* (3) the linearization order respects program order: the operations of one client appear in
   the commit log in the order the client issued them *)
Theorem log_respects_program_order c s cls sched i cl :
  Forall fresh cls -> nth_error cls i = Some cl ->
  let '(s1, cls1, log) := run_sched c s cls sched in
  exists rest, cl_todo cl = map snd (filter (fun io => Nat.eqb (fst io) i) log) ++ rest.
Proof.
  intros Hfr Hcl.
  destruct (run_sched c s cls sched) as [[s1 cls1] log] eqn:E.
  destruct (run_sched_client c sched _ _ _ _ _ i cl E Hcl) as (cl1 & _ & _ & Hr).
  assert (Hfresh : fresh cl).
  { rewrite Forall_forall in Hfr. apply Hfr. eapply nth_error_In; eauto. }
  rewrite (fresh_remaining _ Hfresh) in Hr.
  exists (remaining cl1). exact Hr.
Qed.

(* (4) reads are never torn: what a client is handed for a GET is one version record of the
   model — a body together with its own metadata — never a mixture (the response of the Commit
   section is delivered unchanged by Post) *)
Theorem delivered_is_captured c s cl o rest r :
  cl_todo cl = o :: rest -> cl_phase cl = PPost -> cl_captured cl = Some r ->
  let '(s1, cl1, committed) := section c s cl in
  s1 = s /\ committed = None /\ cl_results cl1 = cl_results cl ++ [r] /\ cl_todo cl1 = rest.
Proof.
  intros Ht Hp Hc. unfold section. rewrite Ht, Hp, Hc.
  cbn [cl_results cl_todo]. auto.
Qed.

(* (5) only the Commit section touches the shared state *)
Theorem only_commit_touches_state c s cl :
  cl_phase cl <> PCommit -> let '(s1, _, committed) := section c s cl in s1 = s /\ committed = None.
Proof.
  intros Hp. unfold section. destruct (cl_todo cl) as [|o rest]; [auto|].
  destruct (cl_phase cl); [auto|congruence|auto].
Qed.

Print Assumptions interleaved_state_is_sequential.
Print Assumptions interleaved_results_are_sequential.
Print Assumptions log_respects_program_order.
Print Assumptions delivered_is_captured.
Print Assumptions only_commit_touches_state.
