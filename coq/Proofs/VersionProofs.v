(* TASK C.  Versioning laws (property C05) of the memory-backend model.  Statements are fixed
   (add helper lemmas freely; strengthen, never weaken).  [Inv] is defined in MemInvDef.v; its
   preservation by [step] is proved in MemInv.v by someone else — take [Inv s] as a hypothesis. *)
From GF Require Import Base.Bytes Base.SortedMap Model.Mem Model.BucketName Model.Handlers
  Proofs.BytesFacts Proofs.SortedMapFacts Proofs.MemProofs Proofs.MemInvDef.

(* the operations that delete the specific version (b,k,id) *)
Definition deletes_version (o : op) (b k : list N) (id : N) : Prop :=
  match o with
  | ODeleteVersion b' k' id' => b' = b /\ k' = k /\ id' = id
  | OMultiDelete b' ks => b' = b /\ In (k, Some id) ks
  | _ => False
  end.

(* (a) A version created while versioning was Enabled stays retrievable by id, with exactly
   its own bytes and metadata, through EVERY operation — puts, plain deletes, suspension,
   writes while suspended, deletes of other versions — except the deletion of that version. *)
Lemma version_survives c s o b k id v sv :
  Inv s -> get_object_version s b k id = OObj v sv -> vd_null v = false ->
  ~ deletes_version o b k id ->
  exists sv', get_object_version (fst (step c s o)) b k id = OObj v sv'.
Proof.
Admitted.

(* (b) every upload into an Enabled bucket gets an id greater than every id stored anywhere
   before (hence fresh and unique), and is retrievable under that id *)
Lemma put_fresh_id c s b k body m s1 id :
  Inv s -> step c s (OPut b k body m) = (s1, RPut (Some id)) ->
  (forall b' k' id' v sv, get_object_version s b' k' id' = OObj v sv -> (id' < id)%N) /\
  exists v sv, get_object_version s1 b k id = OObj v sv /\ vd_body v = body /\ vd_meta v = m /\
               vd_null v = false /\ vd_marker v = false.
Proof.
Admitted.

(* (c) in an Enabled bucket a plain delete of an existing key only adds a delete marker: the
   key then reads NoSuchKey *)
Lemma plain_delete_adds_marker c s b k bk o0 :
  Inv s -> get_bucket s b = Some bk -> b_ver bk = VEnabled -> sm_get k (b_objs bk) = Some o0 ->
  exists s1 id, step c s (ODelete b k) = (s1, RDel true (Some id)) /\
                get_object s1 b k = OErr ENoSuchKey /\
                exists mk sv, get_object_version s1 b k id = OObj mk sv /\ vd_marker mk = true.
Proof.
Admitted.

(* (d) deleting a specific version removes just that version: it is gone, every other version
   of every key that was retrievable still is, unchanged *)
Lemma delete_version_only_that c s b k id :
  Inv s -> cfg_versioned c = true -> get_bucket s b <> None ->
  let s1 := fst (step c s (ODeleteVersion b k id)) in
  (forall v sv, get_object_version s1 b k id <> OObj v sv) /\
  (forall b' k' id' v sv, (b', k', id') <> (b, k, id) ->
      get_object_version s b' k' id' = OObj v sv -> get_object_version s1 b' k' id' = OObj v sv).
Proof.
Admitted.

(* (e) an unqualified read serves the most recently created remaining version: every version
   retrievable by id is no newer than the current one, and the unqualified read answers with
   the current one, or NoSuchKey when it is a delete marker *)
Lemma unqualified_is_newest s b k bk o :
  Inv s -> get_bucket s b = Some bk -> sm_get k (b_objs bk) = Some o ->
  exists cur, o_data o = Some cur /\
    (forall id v sv, get_object_version s b k id = OObj v sv -> (vd_vid v <= vd_vid cur)%N) /\
    (vd_marker cur = false -> exists sv, get_object s b k = OObj cur sv) /\
    (vd_marker cur = true -> get_object s b k = OErr ENoSuchKey).
Proof.
Admitted.

Print Assumptions version_survives.
