(* TASK C.  Versioning laws (property C05) of the memory-backend model.  Statements are fixed
   (add helper lemmas freely; strengthen, never weaken).  [Inv] is defined in MemInvDef.v; its
   preservation by [step] is proved in MemInv.v by someone else — take [Inv s] as a hypothesis. *)
From GF Require Import Base.Bytes Base.SortedMap Model.Mem Model.BucketName Model.Handlers
  Proofs.BytesFacts Proofs.SortedMapFacts Proofs.MemProofs Proofs.MemInvDef.

(* the operations that delete the specific version (b,k,id) *)
Definition deletes_version (o : op) (b k : list N) (id : N) : Prop :=
  match o with
  | ODeleteVersion b' k' id' => b' = b /\ k' = k /\ id' = id
  | OMultiDelete b' ks => b' = b /\ In (k, Some id) ks
  | _ => False
  end.
From Coq Require Import Lia ZifyBool ZifyN.
Local Open Scope N_scope.

(* ---------- association-list membership ---------- *)
Section MapIn.
Context {V : Type}.

Lemma get_in k (v : V) m : sm_get k m = Some v -> In (k, v) m.
Proof.
  induction m as [|[k2 v2] m IH]; cbn; [discriminate|].
  destruct (beq k k2) eqn:E.
  - intros H. inversion H; subst. apply beq_eq in E. subst. left. reflexivity.
  - intros H. right. apply IH. exact H.
Qed.

Lemma in_set k (v : V) m k' v' : In (k', v') (sm_set k v m) -> (k', v') = (k, v) \/ In (k', v') m.
Proof.
  induction m as [|[k2 v2] m IH]; cbn.
  - intros [H|[]]. left. symmetry. exact H.
  - destruct (beq k k2) eqn:E; cbn.
    + intros [H|H]; [left; symmetry; exact H|right; right; exact H].
    + destruct (bltb k k2); cbn.
      * intros [H|H]; [left; symmetry; exact H|right; exact H].
      * intros [H|H]; [right; left; exact H|].
        destruct (IH H) as [H1|H1]; [left; exact H1|right; right; exact H1].
Qed.

Lemma in_del k m k' (v' : V) : In (k', v') (sm_del k m) -> In (k', v') m.
Proof.
  induction m as [|[k2 v2] m IH]; cbn; [trivial|].
  destruct (beq k k2); cbn.
  - intros H. right. exact H.
  - intros [H|H]; [left; exact H|right; apply IH; exact H].
Qed.
End MapIn.

(* ---------- version lists ---------- *)
Fixpoint vsorted (l : list vdata) : Prop :=
  match l with
  | [] => True
  | v :: l' => Forall (fun w => vd_vid v < vd_vid w) l' /\ vsorted l'
  end.
Definition vbelow (top : N) (l : list vdata) : Prop := Forall (fun v => vd_vid v < top) l.

Lemma vers_ok_iff top l : vers_ok top l <-> vbelow top l /\ vsorted l.
Proof.
  unfold vbelow. induction l as [|v l IH]; cbn [vers_ok vsorted].
  - split; [intros _; split; [constructor|exact I]|trivial].
  - split.
    + intros (H1 & H2 & H3). apply IH in H3. destruct H3 as [H3 H4].
      split; [constructor; assumption|]. split; [|exact H4].
      destruct l as [|w l']; [constructor|]. cbn [vsorted] in H4. destruct H4 as [H4 H5].
      constructor; [exact H2|]. eapply Forall_impl; [|exact H4]. cbn beta. intros a Ha. lia.
    + intros (H1 & H2 & H3). apply Forall_cons_iff in H1 as [H1a H1b]. split; [exact H1a|]. split.
      * destruct l as [|w l']; [exact I|]. apply Forall_cons_iff in H2 as [H2a H2b]. exact H2a.
      * apply IH. split; assumption.
Qed.

Lemma vers_ok_weaken top top' l : top <= top' -> vers_ok top l -> vers_ok top' l.
Proof.
  intros Hle H. apply vers_ok_iff in H as [H1 H2]. apply vers_ok_iff. split; [|exact H2].
  unfold vbelow in *. eapply Forall_impl; [|exact H1]. cbn beta. intros a Ha. lia.
Qed.

Lemma vers_ok_in top l v : vers_ok top l -> In v l -> vd_vid v < top.
Proof.
  intros H Hin. apply vers_ok_iff in H as [H1 _]. unfold vbelow in H1.
  rewrite Forall_forall in H1. apply H1. exact Hin.
Qed.

Lemma vers_get_insert id v l :
  vers_get id (vers_insert v l) = if N.eqb id (vd_vid v) then Some v else vers_get id l.
Proof.
  induction l as [|w l IH]; cbn [vers_insert vers_get].
  - reflexivity.
  - destruct (N.eqb (vd_vid v) (vd_vid w)) eqn:E1; cbn [vers_get].
    + apply N.eqb_eq in E1. rewrite <- E1. destruct (N.eqb id (vd_vid v)); reflexivity.
    + destruct (N.ltb (vd_vid v) (vd_vid w)); cbn [vers_get].
      * reflexivity.
      * rewrite IH. destruct (N.eqb id (vd_vid w)) eqn:E2; [|reflexivity].
        destruct (N.eqb id (vd_vid v)) eqn:E3; [|reflexivity].
        apply N.eqb_eq in E2, E3. apply N.eqb_neq in E1. congruence.
Qed.

Lemma vers_get_del_neq id id' l : id <> id' -> vers_get id (vers_del id' l) = vers_get id l.
Proof.
  intros Hne. induction l as [|w l IH]; cbn [vers_del vers_get]; [reflexivity|].
  destruct (N.eqb id' (vd_vid w)) eqn:E1.
  - apply N.eqb_eq in E1. destruct (N.eqb id (vd_vid w)) eqn:E2; [|reflexivity].
    apply N.eqb_eq in E2. congruence.
  - cbn [vers_get]. rewrite IH. reflexivity.
Qed.

Lemma vers_get_in id l v : vers_get id l = Some v -> In v l /\ vd_vid v = id.
Proof.
  induction l as [|w l IH]; cbn [vers_get]; [discriminate|].
  destruct (N.eqb id (vd_vid w)) eqn:E.
  - intros H. inversion H; subst. apply N.eqb_eq in E. split; [left; reflexivity|symmetry; exact E].
  - intros H. destruct (IH H) as [H1 H2]. split; [right; exact H1|exact H2].
Qed.

Lemma vers_get_none id l : (forall w, In w l -> vd_vid w <> id) -> vers_get id l = None.
Proof.
  induction l as [|w l IH]; cbn [vers_get]; [reflexivity|]. intros H.
  destruct (N.eqb id (vd_vid w)) eqn:E.
  - apply N.eqb_eq in E. exfalso. apply (H w); [left; reflexivity|symmetry; exact E].
  - apply IH. intros x Hx. apply H. right. exact Hx.
Qed.

Lemma vers_get_app id l1 l2 :
  vers_get id (l1 ++ l2) = match vers_get id l1 with Some v => Some v | None => vers_get id l2 end.
Proof.
  induction l1 as [|w l1 IH]; cbn [app vers_get]; [reflexivity|].
  destruct (N.eqb id (vd_vid w)); [reflexivity|exact IH].
Qed.

Lemma in_vers_del id l w : In w (vers_del id l) -> In w l.
Proof.
  induction l as [|x l IH]; cbn [vers_del]; [trivial|].
  destruct (N.eqb id (vd_vid x)).
  - intros H. right. exact H.
  - intros [H|H]; [left; exact H|right; apply IH; exact H].
Qed.

Lemma forall_vers_del (P : vdata -> Prop) id l : Forall P l -> Forall P (vers_del id l).
Proof.
  rewrite !Forall_forall. intros H x Hx. apply H. eapply in_vers_del. exact Hx.
Qed.

Lemma vsorted_del id l : vsorted l -> vsorted (vers_del id l).
Proof.
  induction l as [|x l IH]; cbn [vers_del vsorted]; [trivial|]. intros [H1 H2].
  destruct (N.eqb id (vd_vid x)); [exact H2|]. cbn [vsorted].
  split; [apply forall_vers_del; exact H1|apply IH; exact H2].
Qed.

Lemma vers_ok_del top id l : vers_ok top l -> vers_ok top (vers_del id l).
Proof.
  intros H. apply vers_ok_iff in H as [H1 H2]. apply vers_ok_iff.
  split; [apply forall_vers_del; exact H1|apply vsorted_del; exact H2].
Qed.

Lemma vers_get_del_eq id l : vsorted l -> vers_get id (vers_del id l) = None.
Proof.
  induction l as [|x l IH]; cbn [vers_del vsorted]; [reflexivity|]. intros [H1 H2].
  destruct (N.eqb id (vd_vid x)) eqn:E.
  - apply N.eqb_eq in E. apply vers_get_none. rewrite Forall_forall in H1.
    intros w Hw. specialize (H1 w Hw). lia.
  - cbn [vers_get]. rewrite E. apply IH. exact H2.
Qed.

Lemma vsorted_app l x :
  vsorted (l ++ [x]) <-> vsorted l /\ Forall (fun v => vd_vid v < vd_vid x) l.
Proof.
  induction l as [|v l IH]; cbn [app vsorted].
  - split; [intros _; split; [exact I|constructor]|intros _; split; [constructor|exact I]].
  - rewrite Forall_app, IH. split.
    + intros ((H1 & H2) & H3 & H4). apply Forall_cons_iff in H2 as [H2 _].
      split; [split; assumption|]. constructor; assumption.
    + intros ((H1 & H2) & H3). apply Forall_cons_iff in H3 as [H3 H4].
      split; [split; [exact H1|]|split; assumption]. constructor; [exact H3|constructor].
Qed.

Lemma vers_ok_snoc top l x :
  vers_ok top (l ++ [x]) <-> vers_ok (vd_vid x) l /\ vbelow top l /\ vd_vid x < top.
Proof.
  rewrite !vers_ok_iff. unfold vbelow. rewrite Forall_app, vsorted_app. split.
  - intros ((H1 & H2) & H3 & H4). apply Forall_cons_iff in H2 as [H2 _]. repeat split; assumption.
  - intros ((H1 & H2) & H3 & H4). repeat split; try assumption. constructor; [exact H4|constructor].
Qed.

Lemma vers_insert_top v l : vbelow (vd_vid v) l -> vers_insert v l = l ++ [v].
Proof.
  unfold vbelow. induction l as [|w l IH]; intros H; cbn [vers_insert app]; [reflexivity|].
  apply Forall_cons_iff in H as [H1 H2].
  destruct (N.eqb (vd_vid v) (vd_vid w)) eqn:E1; [apply N.eqb_eq in E1; lia|].
  destruct (N.ltb (vd_vid v) (vd_vid w)) eqn:E2; [apply N.ltb_lt in E2; lia|].
  rewrite IH by exact H2. reflexivity.
Qed.

Lemma vers_last_spec l :
  (l = [] /\ vers_last l = None) \/
  exists l' nv, l = l' ++ [nv] /\ vers_last l = Some nv /\ vers_but_last l = l'.
Proof.
  destruct l as [|a l0]; [left; split; reflexivity|right].
  destruct (@exists_last _ (a :: l0)) as (l' & nv & E); [discriminate|].
  rewrite E. exists l', nv. split; [reflexivity|].
  unfold vers_last, vers_but_last. rewrite map_app. cbn [map].
  rewrite last_last, removelast_last. split; reflexivity.
Qed.

(* ---------- object level ---------- *)
Definition obj_ver (o : obj) (id : N) : obj_result :=
  match o_data o with
  | Some cur => if N.eqb (vd_vid cur) id then OObj cur true
                else match vers_get id (o_vers o) with
                     | None => OErr ENoSuchVersion
                     | Some v => OObj v true
                     end
  | None => match vers_get id (o_vers o) with
            | None => OErr ENoSuchVersion
            | Some v => OObj v true
            end
  end.

Definition bver (bk : bucket) (k : list N) (id : N) : obj_result :=
  match sm_get k (b_objs bk) with
  | None => OErr ENoSuchKey
  | Some o => obj_ver o id
  end.

Lemma gov_bver s b k id :
  get_object_version s b k id =
  match get_bucket s b with None => OErr ENoSuchBucket | Some bk => bver bk k id end.
Proof. reflexivity. Qed.

Lemma obj_ver_sv o id v sv : obj_ver o id = OObj v sv -> sv = true.
Proof.
  unfold obj_ver. destruct (o_data o) as [cur|].
  - destruct (N.eqb (vd_vid cur) id); [intros H; inversion H; reflexivity|].
    destruct (vers_get id (o_vers o)); [intros H; inversion H; reflexivity|discriminate].
  - destruct (vers_get id (o_vers o)); [intros H; inversion H; reflexivity|discriminate].
Qed.

Lemma bver_sv bk k id v sv : bver bk k id = OObj v sv -> sv = true.
Proof.
  unfold bver. destruct (sm_get k (b_objs bk)); [apply obj_ver_sv|discriminate].
Qed.

Lemma gov_sv s b k id v sv : get_object_version s b k id = OObj v sv -> sv = true.
Proof.
  rewrite gov_bver. destruct (get_bucket s b); [apply bver_sv|discriminate].
Qed.

(* what a successful lookup by id means, for a well-formed object *)
Lemma obj_ver_cases next o id v sv :
  obj_ok next o -> obj_ver o id = OObj v sv ->
  sv = true /\ vd_vid v = id /\ vd_vid v <= next /\ 0 < vd_vid v /\
  exists cur, o_data o = Some cur /\ vd_vid v <= vd_vid cur /\
    (v = cur \/ (vd_vid cur <> id /\ vers_get id (o_vers o) = Some v /\ In v (o_vers o) /\
                 vd_vid v < vd_vid cur)).
Proof.
  intros (cur & Hd & Hle & Hpos & Hok & Hfa) H. pose proof (obj_ver_sv _ _ _ _ H) as Hsv.
  unfold obj_ver in H. rewrite Hd in H.
  destruct (N.eqb (vd_vid cur) id) eqn:E.
  - inversion H; subst. apply N.eqb_eq in E.
    repeat split; try assumption. exists v. split; [exact Hd|]. split; [lia|left; reflexivity].
  - destruct (vers_get id (o_vers o)) as [w|] eqn:Eg; [|discriminate]. inversion H; subst.
    apply N.eqb_neq in E. destruct (vers_get_in _ _ _ Eg) as [Hin Hid].
    pose proof (vers_ok_in _ _ _ Hok Hin) as Hlt.
    rewrite Forall_forall in Hfa. specialize (Hfa _ Hin). cbn beta in Hfa.
    split; [reflexivity|]. split; [exact Hid|]. split; [lia|]. split; [exact Hfa|].
    exists cur. split; [exact Hd|]. split; [lia|]. right. repeat split; assumption.
Qed.

(* the object written by bucket_put *)
Definition put_obj (en : bool) (item : vdata) (o : obj) : obj :=
  {| o_data := Some item;
     o_vers := match o_data o with
               | Some cur => if en || negb (vd_null cur) then vers_insert cur (o_vers o)
                             else o_vers o
               | None => o_vers o
               end |}.

Definition put_item (bk : bucket) (next : N) (marker : bool) (body : list N) (m : meta) : vdata :=
  {| vd_vid := next + 1; vd_null := negb (is_enabled (b_ver bk)); vd_marker := marker;
     vd_body := body; vd_meta := m |}.

Definition empty_obj : obj := {| o_data := None; o_vers := [] |}.

Lemma bucket_put_eq bk next k marker body m :
  bucket_put bk next k marker body m =
  ({| b_ver := b_ver bk;
      b_objs := sm_set k (put_obj (is_enabled (b_ver bk)) (put_item bk next marker body m)
                            (match sm_get k (b_objs bk) with Some o => o | None => empty_obj end))
                      (b_objs bk) |}, next + 1, next + 1).
Proof. reflexivity. Qed.

Lemma put_obj_ok next en item o :
  obj_ok next o \/ o = empty_obj -> vd_vid item = next + 1 ->
  obj_ok (next + 1) (put_obj en item o).
Proof.
  intros Ho Hid. exists item. cbn [put_obj o_data o_vers]. rewrite Hid.
  split; [reflexivity|]. split; [lia|]. split; [lia|].
  destruct Ho as [(cur & Hd & Hle & Hpos & Hok & Hfa)| ->].
  - rewrite Hd. destruct (en || negb (vd_null cur)).
    + rewrite vers_insert_top by (apply vers_ok_iff in Hok; apply Hok). split.
      * apply vers_ok_snoc. split; [exact Hok|]. split; [|lia].
        apply vers_ok_iff in Hok as [Hb _]. unfold vbelow in *.
        eapply Forall_impl; [|exact Hb]. cbn beta. intros a Ha. lia.
      * apply Forall_app. split; [exact Hfa|]. constructor; [exact Hpos|constructor].
    + split; [|exact Hfa]. eapply vers_ok_weaken; [|exact Hok]. lia.
  - cbn. split; [exact I|constructor].
Qed.

Lemma obj_ver_put next en item o id v sv :
  obj_ok next o -> obj_ver o id = OObj v sv -> vd_null v = false -> vd_vid item = next + 1 ->
  obj_ver (put_obj en item o) id = OObj v true.
Proof.
  intros Ho H Hn Hid.
  destruct (obj_ver_cases _ _ _ _ _ Ho H) as (_ & Hv & Hle & _ & cur & Hd & _ & Hc).
  unfold obj_ver, put_obj. cbn [o_data o_vers]. rewrite Hd.
  assert (E : N.eqb (vd_vid item) id = false) by (apply N.eqb_neq; lia). rewrite E.
  destruct Hc as [<- | (Hne & Hg & _ & _)].
  - rewrite Hn. rewrite orb_true_r. rewrite vers_get_insert.
    rewrite (proj2 (N.eqb_eq id (vd_vid v))) by (symmetry; exact Hv). reflexivity.
  - destruct (en || negb (vd_null cur)).
    + rewrite vers_get_insert. rewrite (proj2 (N.eqb_neq id (vd_vid cur))) by congruence.
      rewrite Hg. reflexivity.
    + rewrite Hg. reflexivity.
Qed.

(* the object left by drop_current *)
Definition drop_obj (o : obj) (nv : vdata) : obj :=
  {| o_data := Some nv; o_vers := vers_but_last (o_vers o) |}.

Lemma drop_obj_ok next o nv :
  obj_ok next o -> vers_last (o_vers o) = Some nv -> obj_ok next (drop_obj o nv).
Proof.
  intros (cur & Hd & Hle & Hpos & Hok & Hfa) Hl.
  destruct (vers_last_spec (o_vers o)) as [[_ Hn]|(l' & nv' & El & Hl' & Hbl)]; [congruence|].
  assert (nv' = nv) by congruence. subst nv'.
  exists nv. unfold drop_obj. cbn [o_data o_vers]. rewrite Hbl. rewrite El in Hok, Hfa.
  apply vers_ok_snoc in Hok as (Hok1 & Hok2 & Hok3).
  apply Forall_app in Hfa as [Hfa1 Hfa2]. apply Forall_cons_iff in Hfa2 as [Hfa2 _].
  split; [reflexivity|]. split; [lia|]. split; [exact Hfa2|]. split; assumption.
Qed.

Lemma obj_ver_drop next o id v sv :
  obj_ok next o -> obj_ver o id = OObj v sv -> (forall cur, o_data o = Some cur -> v <> cur) ->
  exists nv, vers_last (o_vers o) = Some nv /\ obj_ver (drop_obj o nv) id = OObj v true.
Proof.
  intros Ho H Hne.
  destruct (obj_ver_cases _ _ _ _ _ Ho H) as (_ & Hv & _ & _ & cur & Hd & _ & Hc).
  destruct Hc as [-> | (Hne' & Hg & Hin & Hlt)]; [exfalso; apply (Hne cur Hd); reflexivity|].
  destruct Ho as (cur' & Hd' & _ & _ & Hok & _).
  destruct (vers_last_spec (o_vers o)) as [[Hn _]|(l' & nv & El & Hl & Hbl)].
  - rewrite Hn in Hin. destruct Hin.
  - exists nv. split; [exact Hl|]. unfold obj_ver, drop_obj. cbn [o_data o_vers]. rewrite Hbl.
    rewrite El in Hok, Hg. apply vers_ok_snoc in Hok as (Hok1 & _ & _).
    rewrite vers_get_app in Hg. destruct (vers_get id l') as [w|] eqn:Eg.
    + inversion Hg; subst w. destruct (vers_get_in _ _ _ Eg) as [Hin' _].
      pose proof (vers_ok_in _ _ _ Hok1 Hin') as Hlt'.
      rewrite (proj2 (N.eqb_neq (vd_vid nv) id)) by lia. reflexivity.
    + cbn [vers_get] in Hg. destruct (N.eqb id (vd_vid nv)) eqn:E; [|discriminate].
      inversion Hg; subst v. rewrite N.eqb_sym, E. reflexivity.
Qed.

(* after dropping the current version [cur], the id of [cur] is gone *)
Lemma obj_ver_drop_gone next o cur nv v sv :
  obj_ok next o -> o_data o = Some cur -> vers_last (o_vers o) = Some nv ->
  obj_ver (drop_obj o nv) (vd_vid cur) <> OObj v sv.
Proof.
  intros Ho Hd Hl H. pose proof (drop_obj_ok _ _ _ Ho Hl) as Ho'.
  destruct (obj_ver_cases _ _ _ _ _ Ho' H) as (_ & Hv & _ & _ & cur' & Hd' & _ & Hc).
  destruct Ho as (cur0 & Hd0 & _ & _ & Hok & _). assert (cur0 = cur) by congruence. subst cur0.
  destruct (vers_last_spec (o_vers o)) as [[_ Hn]|(l' & nv' & El & Hl' & Hbl)]; [congruence|].
  assert (nv' = nv) by congruence. subst nv'.
  unfold drop_obj in Hd', Hc. cbn [o_data o_vers] in Hd', Hc. rewrite Hbl in Hc.
  rewrite El in Hok. apply vers_ok_snoc in Hok as (Hok1 & Hok2 & Hok3).
  inversion Hd'; subst cur'.
  destruct Hc as [-> | (_ & _ & Hin & _)]; [lia|].
  unfold vbelow in Hok2. rewrite Forall_forall in Hok2. specialize (Hok2 _ Hin). cbn beta in Hok2. lia.
Qed.

(* the object left by deleting an archived version *)
Definition del_obj (o : obj) (id : N) : obj :=
  {| o_data := o_data o; o_vers := vers_del id (o_vers o) |}.

Lemma del_obj_ok next o id : obj_ok next o -> obj_ok next (del_obj o id).
Proof.
  intros (cur & Hd & Hle & Hpos & Hok & Hfa). exists cur. unfold del_obj. cbn [o_data o_vers].
  split; [exact Hd|]. split; [exact Hle|]. split; [exact Hpos|].
  split; [apply vers_ok_del; exact Hok|apply forall_vers_del; exact Hfa].
Qed.

Lemma obj_ver_del_neq o id id' : id <> id' -> obj_ver (del_obj o id') id = obj_ver o id.
Proof.
  intros Hne. unfold obj_ver, del_obj. cbn [o_data o_vers].
  rewrite vers_get_del_neq by exact Hne. reflexivity.
Qed.

Lemma obj_ver_del_eq next o id cur :
  obj_ok next o -> o_data o = Some cur -> vd_vid cur <> id ->
  obj_ver (del_obj o id) id = OErr ENoSuchVersion.
Proof.
  intros (cur' & Hd' & _ & _ & Hok & _) Hd Hne. unfold obj_ver, del_obj. cbn [o_data o_vers].
  rewrite Hd. rewrite (proj2 (N.eqb_neq _ _) Hne).
  rewrite vers_get_del_eq; [reflexivity|]. apply vers_ok_iff in Hok. apply Hok.
Qed.

(* ---------- bucket level: well-formedness ---------- *)
Lemma obj_ok_mono next n o : next <= n -> obj_ok next o -> obj_ok n o.
Proof.
  intros Hle (cur & Hd & Hc & Hrest). exists cur. split; [exact Hd|]. split; [lia|exact Hrest].
Qed.

Lemma bucket_ok_mono next n bk : next <= n -> bucket_ok next bk -> bucket_ok n bk.
Proof.
  intros Hle (Hs & Ho & Hnv). split; [exact Hs|]. split; [|exact Hnv].
  intros k o Hin. eapply obj_ok_mono; [exact Hle|]. eapply Ho. exact Hin.
Qed.

Lemma bucket_obj_ok next bk k o : bucket_ok next bk -> sm_get k (b_objs bk) = Some o -> obj_ok next o.
Proof. intros (_ & Ho & _) Hg. eapply Ho. apply get_in. exact Hg. Qed.

Lemma bucket_put_ok next bk k marker body m :
  bucket_ok next bk -> bucket_ok (next + 1) (fst (fst (bucket_put bk next k marker body m))).
Proof.
  intros (Hs & Ho & Hnv). rewrite bucket_put_eq. cbn [fst]. split; [|split].
  - cbn [b_objs]. apply sorted_set. exact Hs.
  - cbn [b_objs]. intros k' o' Hin. apply in_set in Hin as [E|Hin].
    + inversion E; subst. apply put_obj_ok; [|reflexivity].
      destruct (sm_get k (b_objs bk)) as [o|] eqn:Eg; [left|right; reflexivity].
      eapply Ho. apply get_in. exact Eg.
    + eapply obj_ok_mono; [|eapply Ho; exact Hin]. lia.
  - unfold never_versioned_ok. cbn [b_ver b_objs]. intros Hv k' o' Hin.
    apply in_set in Hin as [E|Hin]; [|exact (Hnv Hv k' o' Hin)].
    inversion E; subst. unfold put_item. rewrite Hv. cbn [is_enabled put_obj o_vers o_data orb negb].
    split.
    + destruct (sm_get k (b_objs bk)) as [o|] eqn:Eg; [|reflexivity].
      destruct (Hnv Hv k o (get_in _ _ _ Eg)) as [Hvers Hnull].
      destruct (o_data o) as [cur|] eqn:Ed; [|exact Hvers].
      rewrite (Hnull cur eq_refl). cbn [negb]. exact Hvers.
    + intros cur Hc. inversion Hc; subst. reflexivity.
Qed.

Lemma drop_current_eq bk k o :
  drop_current bk k o =
  match vers_last (o_vers o) with
  | Some nv => {| b_ver := b_ver bk; b_objs := sm_set k (drop_obj o nv) (b_objs bk) |}
  | None => {| b_ver := b_ver bk; b_objs := sm_del k (b_objs bk) |}
  end.
Proof. reflexivity. Qed.

Lemma drop_current_ok next bk k o :
  bucket_ok next bk -> sm_get k (b_objs bk) = Some o -> bucket_ok next (drop_current bk k o).
Proof.
  intros (Hs & Ho & Hnv) Hg. rewrite drop_current_eq.
  destruct (vers_last (o_vers o)) as [nv|] eqn:El.
  - split; [|split]; cbn [b_objs b_ver].
    + apply sorted_set. exact Hs.
    + intros k' o' Hin. apply in_set in Hin as [E|Hin]; [|eapply Ho; exact Hin].
      inversion E; subst. apply drop_obj_ok; [|exact El]. eapply Ho. apply get_in. exact Hg.
    + intros Hv k' o' Hin. cbn [b_ver b_objs] in *.
      apply in_set in Hin as [E|Hin]; [|exact (Hnv Hv k' o' Hin)].
      exfalso. destruct (Hnv Hv k o (get_in _ _ _ Hg)) as [Hvers _]. rewrite Hvers in El. discriminate.
  - split; [|split]; cbn [b_objs b_ver].
    + apply sorted_del. exact Hs.
    + intros k' o' Hin. apply in_del in Hin. eapply Ho. exact Hin.
    + intros Hv k' o' Hin. cbn [b_ver b_objs] in *. apply in_del in Hin. exact (Hnv Hv k' o' Hin).
Qed.

Definition rm_keep (bk : bucket) (o : obj) : bool :=
  match b_ver bk, o_data o with
  | VEnabled, _ => true
  | VSuspended, Some cur => negb (vd_null cur)
  | _, _ => false
  end.

Lemma bucket_rm_eq bk next k o :
  sm_get k (b_objs bk) = Some o ->
  bucket_rm bk next k =
  if rm_keep bk o
  then (fst (fst (bucket_put bk next k true [] [])), next + 1,
        (true, if is_enabled (b_ver bk) then Some (next + 1) else None))
  else (drop_current bk k o, next, (false, None)).
Proof. intros Hg. unfold bucket_rm. rewrite Hg. reflexivity. Qed.

Lemma rm_keep_false next bk k o cur :
  bucket_ok next bk -> sm_get k (b_objs bk) = Some o -> rm_keep bk o = false ->
  o_data o = Some cur -> vd_null cur = true.
Proof.
  intros (_ & _ & Hnv) Hg Hk Hd. unfold rm_keep in Hk. destruct (b_ver bk) eqn:Ev.
  - destruct (Hnv Ev k o (get_in _ _ _ Hg)) as [_ Hnull]. apply Hnull. exact Hd.
  - discriminate.
  - rewrite Hd in Hk. destruct (vd_null cur); [reflexivity|discriminate].
Qed.

Lemma bucket_rm_ok next bk k :
  bucket_ok next bk ->
  bucket_ok (snd (fst (bucket_rm bk next k))) (fst (fst (bucket_rm bk next k))) /\
  next <= snd (fst (bucket_rm bk next k)).
Proof.
  intros Hok. destruct (sm_get k (b_objs bk)) as [o|] eqn:Eg.
  - rewrite (bucket_rm_eq _ _ _ _ Eg). destruct (rm_keep bk o); cbn [fst snd].
    + split; [apply bucket_put_ok; exact Hok|lia].
    + split; [eapply drop_current_ok; eassumption|lia].
  - unfold bucket_rm. rewrite Eg. cbn [fst snd]. split; [exact Hok|lia].
Qed.

Lemma bucket_rm_version_eq bk k id o cur :
  sm_get k (b_objs bk) = Some o -> o_data o = Some cur ->
  bucket_rm_version bk k id =
  if N.eqb (vd_vid cur) id then (drop_current bk k o, (vd_marker cur, Some id))
  else match vers_get id (o_vers o) with
       | None => (bk, (false, None))
       | Some v => ({| b_ver := b_ver bk; b_objs := sm_set k (del_obj o id) (b_objs bk) |},
                    (vd_marker v, Some id))
       end.
Proof. intros Hg Hd. unfold bucket_rm_version, del_obj. rewrite Hg, Hd. reflexivity. Qed.

Lemma bucket_rm_version_ok next bk k id :
  bucket_ok next bk -> bucket_ok next (fst (bucket_rm_version bk k id)).
Proof.
  intros Hok. destruct (sm_get k (b_objs bk)) as [o|] eqn:Eg.
  2:{ unfold bucket_rm_version. rewrite Eg. exact Hok. }
  pose proof (bucket_obj_ok _ _ _ _ Hok Eg) as Ho. destruct Ho as (cur & Hd & _).
  pose proof (bucket_obj_ok _ _ _ _ Hok Eg) as Ho.
  rewrite (bucket_rm_version_eq _ _ _ _ _ Eg Hd).
  destruct (N.eqb (vd_vid cur) id); cbn [fst].
  - eapply drop_current_ok; eassumption.
  - destruct (vers_get id (o_vers o)) as [w|] eqn:Egv; cbn [fst]; [|exact Hok].
    destruct Hok as (Hs & Hobjs & Hnv). split; [|split]; cbn [b_objs b_ver].
    + apply sorted_set. exact Hs.
    + intros k' o' Hin. apply in_set in Hin as [E|Hin]; [|eapply Hobjs; exact Hin].
      inversion E; subst. apply del_obj_ok. exact Ho.
    + intros Hv k' o' Hin. cbn [b_ver b_objs] in *.
      apply in_set in Hin as [E|Hin]; [|exact (Hnv Hv k' o' Hin)].
      exfalso. destruct (Hnv Hv k o (get_in _ _ _ Eg)) as [Hvers _]. rewrite Hvers in Egv. discriminate.
Qed.

(* ---------- bucket level: lookups by version id ---------- *)
Lemma bucket_put_survives next bk k' marker body m k id v sv :
  bucket_ok next bk -> bver bk k id = OObj v sv -> vd_null v = false ->
  bver (fst (fst (bucket_put bk next k' marker body m))) k id = OObj v true.
Proof.
  intros Hok H Hn. pose proof (bver_sv _ _ _ _ _ H) as ->. rewrite bucket_put_eq. cbn [fst].
  unfold bver in *. cbn [b_objs]. destruct (beq k k') eqn:E.
  - apply beq_eq in E. subst k'. rewrite get_set_eq.
    destruct (sm_get k (b_objs bk)) as [o|] eqn:Eg; [|discriminate].
    eapply obj_ver_put; [eapply bucket_obj_ok; eassumption|exact H|exact Hn|reflexivity].
  - apply beq_neq in E. rewrite get_set_neq by exact E. exact H.
Qed.

Lemma bver_drop_other bk k' o k id : k <> k' -> bver (drop_current bk k' o) k id = bver bk k id.
Proof.
  intros Hne. rewrite drop_current_eq. unfold bver.
  destruct (vers_last (o_vers o)); cbn [b_objs];
    [rewrite get_set_neq by exact Hne|rewrite get_del_neq by exact Hne]; reflexivity.
Qed.

Lemma bver_drop_same next bk k o id v sv :
  bucket_ok next bk -> sm_get k (b_objs bk) = Some o -> obj_ver o id = OObj v sv ->
  (forall cur, o_data o = Some cur -> v <> cur) ->
  bver (drop_current bk k o) k id = OObj v true.
Proof.
  intros Hok Hg H Hne.
  destruct (obj_ver_drop next o id v sv) as (nv & Hl & Hv);
    [eapply bucket_obj_ok; eassumption|exact H|exact Hne|].
  rewrite drop_current_eq, Hl. unfold bver. cbn [b_objs]. rewrite get_set_eq. exact Hv.
Qed.

Lemma bucket_rm_survives next bk k' k id v sv :
  bucket_ok next bk -> bver bk k id = OObj v sv -> vd_null v = false ->
  bver (fst (fst (bucket_rm bk next k'))) k id = OObj v true.
Proof.
  intros Hok H Hn. pose proof (bver_sv _ _ _ _ _ H) as ->.
  destruct (sm_get k' (b_objs bk)) as [o'|] eqn:Eg'.
  2:{ unfold bucket_rm. rewrite Eg'. exact H. }
  rewrite (bucket_rm_eq _ _ _ _ Eg'). destruct (rm_keep bk o') eqn:Ek; cbn [fst].
  - eapply bucket_put_survives; eassumption.
  - destruct (beq k k') eqn:E.
    + apply beq_eq in E. subst k'. unfold bver in H. rewrite Eg' in H.
      eapply bver_drop_same; [exact Hok|exact Eg'|exact H|].
      intros cur Hd ->. rewrite (rm_keep_false _ _ _ _ _ Hok Eg' Ek Hd) in Hn. discriminate.
    + apply beq_neq in E. rewrite bver_drop_other by exact E. exact H.
Qed.

Lemma bucket_rm_version_survives next bk k' id' k id v sv :
  bucket_ok next bk -> bver bk k id = OObj v sv -> (k', id') <> (k, id) ->
  bver (fst (bucket_rm_version bk k' id')) k id = OObj v true.
Proof.
  intros Hok H Hne. pose proof (bver_sv _ _ _ _ _ H) as ->.
  destruct (sm_get k' (b_objs bk)) as [o'|] eqn:Eg'.
  2:{ unfold bucket_rm_version. rewrite Eg'. exact H. }
  pose proof (bucket_obj_ok _ _ _ _ Hok Eg') as Ho'. destruct (Ho') as (cur & Hd & _).
  rewrite (bucket_rm_version_eq _ _ _ _ _ Eg' Hd).
  destruct (beq k k') eqn:E.
  - apply beq_eq in E. subst k'. assert (Hid : id <> id') by (intros ->; apply Hne; reflexivity).
    unfold bver in H. rewrite Eg' in H.
    destruct (N.eqb (vd_vid cur) id') eqn:Ec; cbn [fst].
    + eapply bver_drop_same; [exact Hok|exact Eg'|exact H|].
      intros cur' Hd' ->. assert (cur' = cur) by congruence. subst cur'.
      destruct (obj_ver_cases _ _ _ _ _ Ho' H) as (_ & Hv & _). apply N.eqb_eq in Ec. congruence.
    + destruct (vers_get id' (o_vers o')); cbn [fst]; [|unfold bver; rewrite Eg'; exact H].
      unfold bver. cbn [b_objs]. rewrite get_set_eq. rewrite obj_ver_del_neq by exact Hid. exact H.
  - apply beq_neq in E. destruct (N.eqb (vd_vid cur) id'); cbn [fst].
    + rewrite bver_drop_other by exact E. exact H.
    + destruct (vers_get id' (o_vers o')); cbn [fst]; [|exact H].
      unfold bver in *. cbn [b_objs]. rewrite get_set_neq by exact E. exact H.
Qed.

Lemma bucket_rm_version_gone next bk k id v sv :
  bucket_ok next bk -> bver (fst (bucket_rm_version bk k id)) k id <> OObj v sv.
Proof.
  intros Hok. destruct (sm_get k (b_objs bk)) as [o|] eqn:Eg.
  2:{ unfold bucket_rm_version, bver. rewrite Eg. cbn [fst]. rewrite Eg. discriminate. }
  pose proof (bucket_obj_ok _ _ _ _ Hok Eg) as Ho. destruct (Ho) as (cur & Hd & _).
  rewrite (bucket_rm_version_eq _ _ _ _ _ Eg Hd).
  destruct (N.eqb (vd_vid cur) id) eqn:Ec; cbn [fst].
  - apply N.eqb_eq in Ec. subst id. rewrite drop_current_eq.
    destruct (vers_last (o_vers o)) as [nv|] eqn:El; unfold bver; cbn [b_objs].
    + rewrite get_set_eq. eapply obj_ver_drop_gone; eassumption.
    + rewrite get_del_eq by apply Hok. discriminate.
  - apply N.eqb_neq in Ec. destruct (vers_get id (o_vers o)) as [w|] eqn:Egv; cbn [fst]; unfold bver.
    + cbn [b_objs]. rewrite get_set_eq. rewrite (obj_ver_del_eq next o id cur Ho Hd Ec). discriminate.
    + rewrite Eg. unfold obj_ver. rewrite Hd. rewrite (proj2 (N.eqb_neq _ _) Ec). rewrite Egv.
      discriminate.
Qed.

(* ---------- state level ---------- *)
Lemma gov_set_same bs n b bk' k id :
  get_object_version {| st_buckets := sm_set b bk' bs; st_next := n |} b k id = bver bk' k id.
Proof. rewrite gov_bver. unfold get_bucket. cbn [st_buckets]. rewrite get_set_eq. reflexivity. Qed.

Lemma gov_ext s s' b k id :
  get_bucket s' b = get_bucket s b -> get_object_version s' b k id = get_object_version s b k id.
Proof. intros H. rewrite !gov_bver, H. reflexivity. Qed.

Lemma gov_set_other s n b bk' b0 k id :
  b0 <> b ->
  get_object_version {| st_buckets := sm_set b bk' (st_buckets s); st_next := n |} b0 k id =
  get_object_version s b0 k id.
Proof.
  intros Hne. apply gov_ext. unfold get_bucket. cbn [st_buckets]. apply get_set_neq. exact Hne.
Qed.

Lemma gov_del_other s n b b0 k id :
  b0 <> b ->
  get_object_version {| st_buckets := sm_del b (st_buckets s); st_next := n |} b0 k id =
  get_object_version s b0 k id.
Proof.
  intros Hne. apply gov_ext. unfold get_bucket. cbn [st_buckets]. apply get_del_neq. exact Hne.
Qed.

Lemma gov_bucket s b k id v sv : get_object_version s b k id = OObj v sv -> get_bucket s b <> None.
Proof. rewrite gov_bver. destruct (get_bucket s b); discriminate. Qed.

Lemma inv_bucket s b bk : Inv s -> get_bucket s b = Some bk -> bucket_ok (st_next s) bk.
Proof. intros [_ H] Hg. eapply H. apply get_in. exact Hg. Qed.

Lemma inv_set s b bk' n :
  Inv s -> st_next s <= n -> bucket_ok n bk' ->
  Inv {| st_buckets := sm_set b bk' (st_buckets s); st_next := n |}.
Proof.
  intros [Hs Hb] Hle Hok. split; cbn [st_buckets st_next].
  - apply sorted_set. exact Hs.
  - intros b0 bk0 Hin. apply in_set in Hin as [E|Hin].
    + inversion E; subst. exact Hok.
    + eapply bucket_ok_mono; [exact Hle|]. eapply Hb. exact Hin.
Qed.

(* under the invariant a version found by id carries that id, which is positive and at most
   the counter *)
Lemma gov_id s b k id v sv :
  Inv s -> get_object_version s b k id = OObj v sv -> vd_vid v = id /\ id <= st_next s /\ 0 < id.
Proof.
  intros HI H. rewrite gov_bver in H. destruct (get_bucket s b) as [bk|] eqn:Eb; [|discriminate].
  unfold bver in H. destruct (sm_get k (b_objs bk)) as [o|] eqn:Eg; [|discriminate].
  pose proof (bucket_obj_ok _ _ _ _ (inv_bucket _ _ _ HI Eb) Eg) as Ho.
  destruct (obj_ver_cases _ _ _ _ _ Ho H) as (_ & Hv & Hle & Hpos & _). subst id. auto.
Qed.

Lemma put_object_eq s b k body m :
  put_object s b k body m =
  match get_bucket s b with
  | None => (s, (Some ENoSuchBucket, None))
  | Some bk =>
      ({| st_buckets := sm_set b (fst (fst (bucket_put bk (st_next s) k false body m))) (st_buckets s);
          st_next := st_next s + 1 |},
       (None, match b_ver bk with VEnabled => Some (st_next s + 1) | _ => None end))
  end.
Proof. reflexivity. Qed.

Lemma delete_object_eq s b k :
  delete_object s b k =
  match get_bucket s b with
  | None => (s, (Some ENoSuchBucket, (false, None)))
  | Some bk =>
      ({| st_buckets := sm_set b (fst (fst (bucket_rm bk (st_next s) k))) (st_buckets s);
          st_next := snd (fst (bucket_rm bk (st_next s) k)) |},
       (None, snd (bucket_rm bk (st_next s) k)))
  end.
Proof.
  unfold delete_object. destruct (get_bucket s b) as [bk|]; [|reflexivity].
  destruct (bucket_rm bk (st_next s) k) as [[bk' n'] r]. reflexivity.
Qed.

Lemma delete_object_version_eq s b k id :
  delete_object_version s b k id =
  match get_bucket s b with
  | None => (s, (Some ENoSuchBucket, (false, None)))
  | Some bk =>
      ({| st_buckets := sm_set b (fst (bucket_rm_version bk k id)) (st_buckets s);
          st_next := st_next s |},
       (None, snd (bucket_rm_version bk k id)))
  end.
Proof.
  unfold delete_object_version. destruct (get_bucket s b) as [bk|]; [|reflexivity].
  destruct (bucket_rm_version bk k id) as [bk' r]. reflexivity.
Qed.

(* preservation of the invariant by the backend calls *)
Lemma put_object_inv' s b k body m : Inv s -> Inv (fst (put_object s b k body m)).
Proof.
  intros HI. rewrite put_object_eq. destruct (get_bucket s b) as [bk|] eqn:Eb; [|exact HI].
  cbn [fst]. apply inv_set; [exact HI|lia|]. apply bucket_put_ok. eapply inv_bucket; eassumption.
Qed.

Lemma delete_object_inv' s b k : Inv s -> Inv (fst (delete_object s b k)).
Proof.
  intros HI. rewrite delete_object_eq. destruct (get_bucket s b) as [bk|] eqn:Eb; [|exact HI].
  cbn [fst]. destruct (bucket_rm_ok (st_next s) bk k (inv_bucket _ _ _ HI Eb)) as [H1 H2].
  apply inv_set; assumption.
Qed.

Lemma delete_object_version_inv' s b k id : Inv s -> Inv (fst (delete_object_version s b k id)).
Proof.
  intros HI. rewrite delete_object_version_eq. destruct (get_bucket s b) as [bk|] eqn:Eb; [|exact HI].
  cbn [fst]. apply inv_set; [exact HI|lia|]. apply bucket_rm_version_ok. eapply inv_bucket; eassumption.
Qed.

Lemma delete_multi_inv' b ks : forall s, Inv s -> Inv (delete_multi s b ks).
Proof.
  induction ks as [|[k [id|]] ks IH]; intros s HI; cbn [delete_multi].
  - exact HI.
  - apply IH. apply delete_object_version_inv'. exact HI.
  - apply IH. apply delete_object_inv'. exact HI.
Qed.

Lemma set_versioning_inv' s b en : Inv s -> Inv (fst (set_versioning s b en)).
Proof.
  intros HI. unfold set_versioning. destruct (get_bucket s b) as [bk|] eqn:Eb; [|exact HI].
  cbn [fst]. unfold set_bucket. apply inv_set; [exact HI|lia|].
  destruct (inv_bucket _ _ _ HI Eb) as (Hs & Ho & Hnv). split; [exact Hs|]. split; [exact Ho|].
  unfold never_versioned_ok. cbn [b_ver b_objs]. intros Hv. apply Hnv.
  destruct en; [discriminate|]. destruct (b_ver bk); [reflexivity|discriminate|discriminate].
Qed.

Lemma ensure_bucket_spec c s b' s1 r :
  ensure_bucket c s b' = (s1, r) -> Inv s ->
  Inv s1 /\ st_next s1 = st_next s /\
  (forall b, get_bucket s b <> None -> get_bucket s1 b = get_bucket s b).
Proof.
  unfold ensure_bucket. intros H HI. destruct (get_bucket s b') as [bk|] eqn:Eb.
  - inversion H; subst. auto.
  - destruct (cfg_auto_bucket c).
    + destruct (validate b'); [|inversion H; subst; auto].
      unfold create_bucket in H. rewrite Eb in H. cbn [fst] in H. inversion H; subst. clear H.
      unfold set_bucket. split; [|split].
      * apply inv_set; [exact HI|lia|]. split; [exact I|]. split.
        -- intros k o [].
        -- intros _ k o [].
      * reflexivity.
      * intros b Hb. unfold get_bucket. cbn [st_buckets]. apply get_set_neq.
        intros ->. apply Hb. exact Eb.
    + inversion H; subst. auto.
Qed.

Lemma ensure_bucket_gov c s b' s1 r b k id v sv :
  ensure_bucket c s b' = (s1, r) -> Inv s ->
  get_object_version s b k id = OObj v sv -> get_object_version s1 b k id = OObj v sv.
Proof.
  intros He HI Hg. destruct (ensure_bucket_spec _ _ _ _ _ He HI) as (_ & _ & Hb).
  rewrite <- Hg. apply gov_ext. apply Hb. eapply gov_bucket. exact Hg.
Qed.

(* ---------- survival of a version through the backend calls ---------- *)
Lemma put_object_survives s b' k' body m b k id v sv :
  Inv s -> get_object_version s b k id = OObj v sv -> vd_null v = false ->
  get_object_version (fst (put_object s b' k' body m)) b k id = OObj v true.
Proof.
  intros HI Hg Hn. pose proof (gov_sv _ _ _ _ _ _ Hg) as ->. rewrite put_object_eq.
  destruct (get_bucket s b') as [bk|] eqn:Eb; [|exact Hg]. cbn [fst].
  destruct (beq b b') eqn:E.
  - apply beq_eq in E. subst b'. rewrite gov_set_same. rewrite gov_bver, Eb in Hg.
    eapply bucket_put_survives; [eapply inv_bucket; eassumption|exact Hg|exact Hn].
  - apply beq_neq in E. rewrite gov_set_other by exact E. exact Hg.
Qed.

Lemma delete_object_survives s b' k' b k id v sv :
  Inv s -> get_object_version s b k id = OObj v sv -> vd_null v = false ->
  get_object_version (fst (delete_object s b' k')) b k id = OObj v true.
Proof.
  intros HI Hg Hn. pose proof (gov_sv _ _ _ _ _ _ Hg) as ->. rewrite delete_object_eq.
  destruct (get_bucket s b') as [bk|] eqn:Eb; [|exact Hg]. cbn [fst].
  destruct (beq b b') eqn:E.
  - apply beq_eq in E. subst b'. rewrite gov_set_same. rewrite gov_bver, Eb in Hg.
    eapply bucket_rm_survives; [eapply inv_bucket; eassumption|exact Hg|exact Hn].
  - apply beq_neq in E. rewrite gov_set_other by exact E. exact Hg.
Qed.

(* deleting one version keeps every other version (null or not) *)
Lemma delete_object_version_survives s b' k' id' b k id v sv :
  Inv s -> get_object_version s b k id = OObj v sv -> (b', k', id') <> (b, k, id) ->
  get_object_version (fst (delete_object_version s b' k' id')) b k id = OObj v true.
Proof.
  intros HI Hg Hne. pose proof (gov_sv _ _ _ _ _ _ Hg) as ->. rewrite delete_object_version_eq.
  destruct (get_bucket s b') as [bk|] eqn:Eb; [|exact Hg]. cbn [fst].
  destruct (beq b b') eqn:E.
  - apply beq_eq in E. subst b'. rewrite gov_set_same. rewrite gov_bver, Eb in Hg.
    eapply bucket_rm_version_survives; [eapply inv_bucket; eassumption|exact Hg|].
    intros E. inversion E; subst. apply Hne. reflexivity.
  - apply beq_neq in E. rewrite gov_set_other by exact E. exact Hg.
Qed.

Lemma delete_multi_survives b' ks b k id v :
  forall s sv, Inv s -> get_object_version s b k id = OObj v sv -> vd_null v = false ->
  (b' = b -> ~ In (k, Some id) ks) ->
  get_object_version (delete_multi s b' ks) b k id = OObj v true.
Proof.
  induction ks as [|[k1 [id1|]] ks IH]; intros s sv HI Hg Hn Hnin; cbn [delete_multi].
  - pose proof (gov_sv _ _ _ _ _ _ Hg) as ->. exact Hg.
  - eapply IH; [apply delete_object_version_inv'; exact HI| |exact Hn|].
    + eapply delete_object_version_survives; [exact HI|exact Hg|].
      intros E. inversion E; subst. apply Hnin; [reflexivity|left; reflexivity].
    + intros Eb Hin. apply (Hnin Eb). right. exact Hin.
  - eapply IH; [apply delete_object_inv'; exact HI| |exact Hn|].
    + eapply delete_object_survives; [exact HI|exact Hg|exact Hn].
    + intros Eb Hin. apply (Hnin Eb). right. exact Hin.
Qed.

Lemma set_versioning_gov s b' en b k id :
  get_object_version (fst (set_versioning s b' en)) b k id = get_object_version s b k id.
Proof.
  unfold set_versioning. destruct (get_bucket s b') as [bk|] eqn:Eb; [|reflexivity].
  cbn [fst]. unfold set_bucket. destruct (beq b b') eqn:E.
  - apply beq_eq in E. subst b'. rewrite gov_set_same. rewrite gov_bver, Eb. reflexivity.
  - apply beq_neq in E. apply gov_set_other. exact E.
Qed.

(* ---------- the laws ---------- *)

(* strong form of (a): the flag is [true] *)
Lemma version_survives_strong c s o b k id v sv :
  Inv s -> get_object_version s b k id = OObj v sv -> vd_null v = false ->
  ~ deletes_version o b k id ->
  get_object_version (fst (step c s o)) b k id = OObj v true.
Proof.
  intros HI Hg Hn Hnd. pose proof (gov_sv _ _ _ _ _ _ Hg) as ->.
  pose proof (gov_bucket _ _ _ _ _ _ Hg) as Hb.
  destruct o as [b0|b0|b0| |b0 k0 body m|b0 k0 vid|b0 k0 vid|b0 k0|b0 k0 id0|b0 ks|sb sk b0 k0|b0 en
                |b0 pre delim marker hm mk]; cbn [step].
  - (* OCreateBucket *)
    destruct (negb (validate b0)); [exact Hg|]. unfold create_bucket.
    destruct (get_bucket s b0) as [bk0|] eqn:E0; cbn [fst]; [exact Hg|].
    unfold set_bucket. rewrite gov_set_other; [exact Hg|]. intros ->. apply Hb. exact E0.
  - (* ODeleteBucket *)
    destruct (ensure_bucket c s b0) as [s1 [e|]] eqn:Ee;
      pose proof (ensure_bucket_gov _ _ _ _ _ _ _ _ _ _ Ee HI Hg) as Hg1; [exact Hg1|].
    unfold delete_bucket. destruct (get_bucket s1 b0) as [bk0|] eqn:E0; cbn [fst]; [|exact Hg1].
    destruct (b_objs bk0) as [|p l] eqn:Eo; cbn [fst]; [|exact Hg1].
    rewrite gov_del_other; [exact Hg1|]. intros ->.
    rewrite gov_bver, E0 in Hg1. unfold bver in Hg1. rewrite Eo in Hg1. discriminate.
  - (* OHeadBucket *)
    destruct (ensure_bucket c s b0) as [s1 [e|]] eqn:Ee;
      pose proof (ensure_bucket_gov _ _ _ _ _ _ _ _ _ _ Ee HI Hg) as Hg1; exact Hg1.
  - (* OListBuckets *) exact Hg.
  - (* OPut *)
    destruct (ensure_bucket c s b0) as [s1 [e|]] eqn:Ee;
      pose proof (ensure_bucket_gov _ _ _ _ _ _ _ _ _ _ Ee HI Hg) as Hg1; [exact Hg1|].
    destruct (ensure_bucket_spec _ _ _ _ _ Ee HI) as (HI1 & _ & _).
    pose proof (put_object_survives s1 b0 k0 body (carry_meta s1 b0 k0 m) _ _ _ _ _ HI1 Hg1 Hn) as Hs.
    destruct (put_object s1 b0 k0 body (carry_meta s1 b0 k0 m)) as [s2 [[e|] vid]]; exact Hs.
  - (* OGet *)
    destruct (ensure_bucket c s b0) as [s1 [e|]] eqn:Ee;
      pose proof (ensure_bucket_gov _ _ _ _ _ _ _ _ _ _ Ee HI Hg) as Hg1; [exact Hg1|].
    destruct vid as [id0|].
    + destruct (negb (cfg_versioned c)); [exact Hg1|].
      destruct (get_object_version s1 b0 k0 id0) as [e|v0 sv0]; [exact Hg1|].
      destruct (vd_marker v0); exact Hg1.
    + destruct (get_object s1 b0 k0); exact Hg1.
  - (* OHead *)
    destruct (ensure_bucket c s b0) as [s1 [e|]] eqn:Ee;
      pose proof (ensure_bucket_gov _ _ _ _ _ _ _ _ _ _ Ee HI Hg) as Hg1; [exact Hg1|].
    destruct vid as [id0|].
    + destruct (negb (cfg_versioned c)); [exact Hg1|].
      destruct (get_object_version s1 b0 k0 id0) as [e|v0 sv0]; [exact Hg1|].
      destruct (vd_marker v0); exact Hg1.
    + destruct (get_object s1 b0 k0); exact Hg1.
  - (* ODelete *)
    destruct (ensure_bucket c s b0) as [s1 [e|]] eqn:Ee;
      pose proof (ensure_bucket_gov _ _ _ _ _ _ _ _ _ _ Ee HI Hg) as Hg1; [exact Hg1|].
    destruct (ensure_bucket_spec _ _ _ _ _ Ee HI) as (HI1 & _ & _).
    pose proof (delete_object_survives s1 b0 k0 _ _ _ _ _ HI1 Hg1 Hn) as Hs.
    destruct (delete_object s1 b0 k0) as [s2 [[e|] [mk vid]]]; exact Hs.
  - (* ODeleteVersion *)
    destruct (negb (cfg_versioned c)); [exact Hg|].
    destruct (ensure_bucket c s b0) as [s1 [e|]] eqn:Ee;
      pose proof (ensure_bucket_gov _ _ _ _ _ _ _ _ _ _ Ee HI Hg) as Hg1; [exact Hg1|].
    destruct (ensure_bucket_spec _ _ _ _ _ Ee HI) as (HI1 & _ & _).
    assert (Hne : (b0, k0, id0) <> (b, k, id)).
    { intros E. inversion E; subst. apply Hnd. cbn. auto. }
    pose proof (delete_object_version_survives s1 b0 k0 id0 _ _ _ _ _ HI1 Hg1 Hne) as Hs.
    destruct (delete_object_version s1 b0 k0 id0) as [s2 [[e|] [mk vid]]]; exact Hs.
  - (* OMultiDelete *)
    destruct (ensure_bucket c s b0) as [s1 [e|]] eqn:Ee;
      pose proof (ensure_bucket_gov _ _ _ _ _ _ _ _ _ _ Ee HI Hg) as Hg1; [exact Hg1|].
    destruct (ensure_bucket_spec _ _ _ _ _ Ee HI) as (HI1 & _ & _).
    cbn [fst]. eapply delete_multi_survives; [exact HI1|exact Hg1|exact Hn|].
    intros -> Hin. destruct (cfg_versioned c).
    + apply Hnd. cbn. auto.
    + apply in_map_iff in Hin as (x & Hx & _). discriminate Hx.
  - (* OCopy *)
    destruct (ensure_bucket c s b0) as [s1 [e|]] eqn:Ee;
      pose proof (ensure_bucket_gov _ _ _ _ _ _ _ _ _ _ Ee HI Hg) as Hg1; [exact Hg1|].
    destruct (ensure_bucket_spec _ _ _ _ _ Ee HI) as (HI1 & _ & _).
    destruct (get_object s1 sb sk) as [e|v0 sv0]; [exact Hg1|].
    pose proof (put_object_survives s1 b0 k0 (vd_body v0) (carry_meta s1 b0 k0 (merge_meta m (vd_meta v0))) _ _ _ _ _ HI1 Hg1 Hn) as Hs.
    destruct (put_object s1 b0 k0 (vd_body v0) (carry_meta s1 b0 k0 (merge_meta m (vd_meta v0)))) as [s2 [[e|] vid]]; exact Hs.
  - (* OSetVersioning *)
    destruct (ensure_bucket c s b0) as [s1 [e|]] eqn:Ee;
      pose proof (ensure_bucket_gov _ _ _ _ _ _ _ _ _ _ Ee HI Hg) as Hg1; [exact Hg1|].
    destruct (negb (cfg_versioned c)); [exact Hg1|].
    pose proof (set_versioning_gov s1 b0 en b k id) as Hs.
    destruct (set_versioning s1 b0 en) as [s2 [e|]]; cbn [fst] in *; rewrite Hs; exact Hg1.
  - (* OList *)
    destruct (ensure_bucket c s b0) as [s1 [e|]] eqn:Ee;
      pose proof (ensure_bucket_gov _ _ _ _ _ _ _ _ _ _ Ee HI Hg) as Hg1; [exact Hg1|].
    cbv zeta.
    destruct ((hm || negb (beq marker []) || negb (mk =? 0)%Z) && negb (cfg_pages c) && cfg_fail_unimpl_page c);
      [exact Hg1|].
    destruct (if (hm || negb (beq marker []) || negb (mk =? 0)%Z) && negb (cfg_pages c) then ([], 0%Z) else (marker, mk))
      as [marker' mk'].
    destruct (list_bucket s1 b0 pre delim marker' mk'); exact Hg1.
Qed.

(* (a) A version created while versioning was Enabled stays retrievable by id, with exactly
   its own bytes and metadata, through EVERY operation — puts, plain deletes, suspension,
   writes while suspended, deletes of other versions — except the deletion of that version. *)
Lemma version_survives c s o b k id v sv :
  Inv s -> get_object_version s b k id = OObj v sv -> vd_null v = false ->
  ~ deletes_version o b k id ->
  exists sv', get_object_version (fst (step c s o)) b k id = OObj v sv'.
Proof.
  intros HI Hg Hn Hnd. exists true. eapply version_survives_strong; eassumption.
Qed.

(* (b) every upload into an Enabled bucket gets an id greater than every id stored anywhere
   before (hence fresh and unique), and is retrievable under that id *)
Lemma put_fresh_id c s b k body m s1 id :
  Inv s -> step c s (OPut b k body m) = (s1, RPut (Some id)) ->
  (forall b' k' id' v sv, get_object_version s b' k' id' = OObj v sv -> (id' < id)%N) /\
  exists v sv, get_object_version s1 b k id = OObj v sv /\ vd_body v = body /\
               vd_meta v = carry_meta (fst (ensure_bucket c s b)) b k m /\
               (forall kv, In kv m -> In kv (vd_meta v)) /\
               vd_null v = false /\ vd_marker v = false.
Proof.
  intros HI H. cbn [step] in H.
  destruct (ensure_bucket c s b) as [s0 [e|]] eqn:Ee; [discriminate|].
  destruct (ensure_bucket_spec _ _ _ _ _ Ee HI) as (HI0 & Hn0 & _).
  rewrite put_object_eq in H. destruct (get_bucket s0 b) as [bk|] eqn:Eb; [|discriminate].
  destruct (b_ver bk) eqn:Ev; try discriminate. injection H as Hs Hid. subst s1 id. split.
  - intros b' k' id' v sv Hg. destruct (gov_id _ _ _ _ _ _ HI Hg) as (_ & Hle & _). lia.
  - rewrite gov_set_same. unfold bver. cbn [b_objs]. rewrite get_set_eq.
    unfold obj_ver. cbn [o_data vd_vid]. rewrite N.eqb_refl.
    eexists _, _. split; [reflexivity|]. cbn [vd_body vd_meta vd_null vd_marker fst]. rewrite Ev.
    split; [reflexivity|]. split; [reflexivity|]. split; [|split; reflexivity].
    intros kv Hin. apply carry_meta_keeps. exact Hin.
Qed.

(* (c) in an Enabled bucket a plain delete of an existing key only adds a delete marker: the
   key then reads NoSuchKey *)
Lemma plain_delete_adds_marker c s b k bk o0 :
  Inv s -> get_bucket s b = Some bk -> b_ver bk = VEnabled -> sm_get k (b_objs bk) = Some o0 ->
  exists s1 id, step c s (ODelete b k) = (s1, RDel true (Some id)) /\
                get_object s1 b k = OErr ENoSuchKey /\
                exists mk sv, get_object_version s1 b k id = OObj mk sv /\ vd_marker mk = true.
Proof.
  intros HI Hb Hv Hg.
  assert (Hstep : step c s (ODelete b k) =
    ({| st_buckets := sm_set b (fst (fst (bucket_put bk (st_next s) k true [] []))) (st_buckets s);
        st_next := st_next s + 1 |}, RDel true (Some (st_next s + 1)))).
  { cbn [step]. unfold ensure_bucket. rewrite Hb. rewrite delete_object_eq, Hb.
    rewrite (bucket_rm_eq _ _ _ _ Hg). unfold rm_keep. rewrite Hv. cbn [fst snd is_enabled].
    reflexivity. }
  eexists _, _. split; [exact Hstep|]. split.
  - unfold get_object, get_bucket. cbn [st_buckets]. rewrite get_set_eq.
    rewrite bucket_put_eq. cbn [fst b_objs b_ver]. rewrite get_set_eq. reflexivity.
  - rewrite gov_set_same, bucket_put_eq. cbn [fst]. unfold bver. cbn [b_objs]. rewrite get_set_eq.
    unfold obj_ver, put_obj. cbn [o_data put_item vd_vid]. rewrite N.eqb_refl.
    eexists _, _. split; reflexivity.
Qed.

(* (d) deleting a specific version removes just that version: it is gone, every other version
   of every key that was retrievable still is, unchanged *)
Lemma delete_version_only_that c s b k id :
  Inv s -> cfg_versioned c = true -> get_bucket s b <> None ->
  let s1 := fst (step c s (ODeleteVersion b k id)) in
  (forall v sv, get_object_version s1 b k id <> OObj v sv) /\
  (forall b' k' id' v sv, (b', k', id') <> (b, k, id) ->
      get_object_version s b' k' id' = OObj v sv -> get_object_version s1 b' k' id' = OObj v sv).
Proof.
  intros HI Hc Hb. cbv zeta.
  assert (E : fst (step c s (ODeleteVersion b k id)) = fst (delete_object_version s b k id)).
  { cbn [step]. rewrite Hc. cbn [negb]. unfold ensure_bucket.
    destruct (get_bucket s b) as [bk|] eqn:Eb; [|contradiction].
    destruct (delete_object_version s b k id) as [s2 [[e|] [mk vid]]]; reflexivity. }
  rewrite E. split.
  - intros v sv. rewrite delete_object_version_eq.
    destruct (get_bucket s b) as [bk|] eqn:Eb; [|contradiction]. cbn [fst].
    rewrite gov_set_same. eapply bucket_rm_version_gone. eapply inv_bucket; eassumption.
  - intros b' k' id' v sv Hne Hg. pose proof (gov_sv _ _ _ _ _ _ Hg) as ->.
    eapply delete_object_version_survives; [exact HI|exact Hg|].
    intros E'. apply Hne. symmetry. exact E'.
Qed.

(* (e) an unqualified read serves the most recently created remaining version: every version
   retrievable by id is no newer than the current one, and the unqualified read answers with
   the current one, or NoSuchKey when it is a delete marker *)
Lemma unqualified_is_newest s b k bk o :
  Inv s -> get_bucket s b = Some bk -> sm_get k (b_objs bk) = Some o ->
  exists cur, o_data o = Some cur /\
    (forall id v sv, get_object_version s b k id = OObj v sv -> (vd_vid v <= vd_vid cur)%N) /\
    (vd_marker cur = false -> exists sv, get_object s b k = OObj cur sv) /\
    (vd_marker cur = true -> get_object s b k = OErr ENoSuchKey).
Proof.
  intros HI Hb Hg. pose proof (bucket_obj_ok _ _ _ _ (inv_bucket _ _ _ HI Hb) Hg) as Ho.
  destruct (Ho) as (cur & Hd & _). exists cur. split; [exact Hd|]. split; [|split].
  - intros id v sv H. rewrite gov_bver, Hb in H. unfold bver in H. rewrite Hg in H.
    destruct (obj_ver_cases _ _ _ _ _ Ho H) as (_ & _ & _ & _ & cur' & Hd' & Hle & _).
    assert (cur' = cur) by congruence. subst cur'. exact Hle.
  - intros Hm. unfold get_object. rewrite Hb, Hg, Hd, Hm. eexists. reflexivity.
  - intros Hm. unfold get_object. rewrite Hb, Hg, Hd, Hm. reflexivity.
Qed.

Print Assumptions version_survives.
Print Assumptions put_fresh_id.
Print Assumptions plain_delete_adds_marker.
Print Assumptions delete_version_only_that.
Print Assumptions unqualified_is_newest.
