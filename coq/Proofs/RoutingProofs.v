(* TASK T5.  Virtual-host routing equals path-style routing (property C16) over
   Model/Routing.v.  Statements fixed in content; add helper lemmas freely. *)
From GF Require Import Base.Bytes Model.Routing Proofs.BytesFacts.
From Coq Require Import Lia.

(* a bucket label as it appears in a Host header: non-empty, no '.', no '/' *)
Definition label (b : list N) : Prop := b <> [] /\ ~ In dotc b /\ ~ In slash b.

(* ---------- cut ---------- *)

Lemma cut_app d a b : ~ In d a -> cut d (a ++ d :: b) = (a, Some b).
Proof.
  induction a as [|c a IH]; intros H; cbn [app cut].
  - rewrite N.eqb_refl. reflexivity.
  - destruct (N.eqb c d) eqn:E.
    + apply N.eqb_eq in E. exfalso. apply H. left. exact E.
    + rewrite IH.
      * reflexivity.
      * intros Hi. apply H. right. exact Hi.
Qed.

Lemma cut_none d a : ~ In d a -> cut d a = (a, None).
Proof.
  induction a as [|c a IH]; intros H; cbn [cut].
  - reflexivity.
  - destruct (N.eqb c d) eqn:E.
    + apply N.eqb_eq in E. exfalso. apply H. left. exact E.
    + rewrite IH.
      * reflexivity.
      * intros Hi. apply H. right. exact Hi.
Qed.

(* the text before the first d is unique *)
Lemma cut_unique (d : N) (a b x y : list N) :
  a ++ d :: x = b ++ d :: y -> ~ In d a -> ~ In d b -> a = b.
Proof.
  intros H Ha Hb.
  pose proof (cut_app d a x Ha) as E1.
  pose proof (cut_app d b y Hb) as E2.
  rewrite H in E1. rewrite E1 in E2.
  injection E2 as Ea _. exact Ea.
Qed.

(* ---------- trim ---------- *)

Lemma trim_left_repeat d n s : trim_left d (repeat d n ++ s) = trim_left d s.
Proof.
  induction n as [|n IH]; cbn [repeat app trim_left].
  - reflexivity.
  - rewrite N.eqb_refl. exact IH.
Qed.

Lemma repeat_snoc (d : N) n : repeat d n ++ [d] = d :: repeat d n.
Proof.
  induction n as [|n IH]; cbn [repeat app].
  - reflexivity.
  - rewrite IH. reflexivity.
Qed.

Lemma rev_repeat (d : N) n : rev (repeat d n) = repeat d n.
Proof.
  induction n as [|n IH]; cbn [repeat rev].
  - reflexivity.
  - rewrite IH. apply repeat_snoc.
Qed.

Lemma trim_left_all d n : trim_left d (repeat d n) = [].
Proof.
  rewrite <- (app_nil_r (repeat d n)), trim_left_repeat. reflexivity.
Qed.

Lemma trim_right_repeat d s m : trim_right d (s ++ repeat d m) = trim_right d s.
Proof.
  unfold trim_right. rewrite rev_app_distr, rev_repeat, trim_left_repeat. reflexivity.
Qed.

Lemma trim_app_repeat d s m : trim d (s ++ repeat d m) = trim d s.
Proof.
  unfold trim. induction s as [|c s IH]; cbn [app trim_left].
  - rewrite trim_left_all. reflexivity.
  - destruct (N.eqb c d) eqn:E.
    + exact IH.
    + change (c :: s ++ repeat d m) with ((c :: s) ++ repeat d m).
      apply trim_right_repeat.
Qed.

Lemma trim_repeat d n m s : trim d (repeat d n ++ s ++ repeat d m) = trim d s.
Proof.
  transitivity (trim d (s ++ repeat d m)).
  - unfold trim. rewrite trim_left_repeat. reflexivity.
  - apply trim_app_repeat.
Qed.

(* ---------- prefix / suffix ---------- *)

Lemma prefixb_exists a : forall b, prefixb a b = true -> exists c, b = a ++ c.
Proof.
  induction a as [|x a IH]; intros b H.
  - exists b. reflexivity.
  - destruct b as [|y b]; cbn [prefixb] in H.
    + discriminate.
    + apply andb_prop in H. destruct H as [H1 H2].
      apply N.eqb_eq in H1. subst y.
      destruct (IH b H2) as [c Hc]. exists c. rewrite Hc. reflexivity.
Qed.

Lemma prefixb_app_self a c : prefixb a (a ++ c) = true.
Proof.
  induction a as [|x a IH]; cbn [app prefixb].
  - reflexivity.
  - rewrite N.eqb_refl, IH. reflexivity.
Qed.

Lemma suffixb_app x p : suffixb x (p ++ x) = true.
Proof.
  unfold suffixb. rewrite rev_app_distr. apply prefixb_app_self.
Qed.

Lemma suffixb_exists x s : suffixb x s = true -> exists p, s = p ++ x.
Proof.
  unfold suffixb. intros H. apply prefixb_exists in H. destruct H as [c Hc].
  exists (rev c).
  rewrite <- (rev_involutive s), Hc, rev_app_distr, rev_involutive. reflexivity.
Qed.

Lemma strip_suffix_app suf p : strip_suffix suf (p ++ suf) = Some p.
Proof.
  unfold strip_suffix. rewrite suffixb_app. f_equal.
  rewrite app_length.
  replace (length p + length suf - length suf)%nat with (length p) by lia.
  rewrite firstn_app.
  replace (length p - length p)%nat with 0%nat by lia.
  rewrite firstn_all. cbn [firstn]. apply app_nil_r.
Qed.

Lemma strip_suffix_inv suf s p : strip_suffix suf s = Some p -> s = p ++ suf.
Proof.
  intros H.
  assert (E : suffixb suf s = true).
  { unfold strip_suffix in H. destruct (suffixb suf s); [reflexivity | discriminate]. }
  apply suffixb_exists in E. destruct E as [q Hq].
  rewrite Hq in H. rewrite strip_suffix_app in H.
  injection H as H. rewrite Hq, H. reflexivity.
Qed.

(* ---------- mem_byte ---------- *)

Lemma mem_byte_false d b : mem_byte d b = false <-> ~ In d b.
Proof.
  unfold mem_byte. induction b as [|c b IH]; cbn [existsb In].
  - split; [intros _ H; exact H | reflexivity].
  - destruct IH as [IH1 IH2]. split.
    + intros H. apply orb_false_iff in H. destruct H as [H1 H2].
      apply N.eqb_neq in H1.
      intros [E | E].
      * apply H1. symmetry. exact E.
      * exact (IH1 H2 E).
    + intros H. apply orb_false_iff. split.
      * apply N.eqb_neq. intros E. apply H. left. symmetry. exact E.
      * apply IH2. intros E. apply H. right. exact E.
Qed.

Lemma mem_byte_true d b : In d b -> mem_byte d b = true.
Proof.
  intros H. destruct (mem_byte d b) eqn:E.
  - reflexivity.
  - apply mem_byte_false in E. contradiction.
Qed.

(* ---------- routing ---------- *)

(* extra slashes before the bucket or at the end of the path do not change the address *)
Theorem extra_slashes n m path :
  split_path (repeat slash n ++ path ++ repeat slash m) = split_path path.
Proof.
  unfold split_path. rewrite trim_repeat. reflexivity.
Qed.

Lemma host_bucket_app bucket base :
  ~ In dotc bucket -> host_bucket (bucket ++ dotc :: base) = bucket.
Proof.
  intros H. unfold host_bucket. rewrite cut_app by exact H. reflexivity.
Qed.

(* the rewritten path "/"+bucket(+p) addresses the same thing as "/bucket/rest" *)
Lemma split_path_rewrite bucket rest :
  split_path (rewrite bucket (slash :: rest)) = split_path (slash :: bucket ++ slash :: rest).
Proof.
  unfold rewrite. destruct rest as [|r rest].
  - rewrite beq_refl.
    change (slash :: bucket ++ []) with (repeat slash 1 ++ bucket ++ repeat slash 0).
    change (slash :: bucket ++ [slash]) with (repeat slash 1 ++ bucket ++ repeat slash 1).
    rewrite !extra_slashes. reflexivity.
  - destruct (beq (slash :: r :: rest) [slash]) eqn:E.
    + apply beq_eq in E. discriminate.
    + reflexivity.
Qed.

(* WithHostBucket *)
Theorem host_bucket_eq_path bucket base rest :
  label bucket ->
  route HostBucket (bucket ++ dotc :: base) (slash :: rest) = route HostNone [] (slash :: bucket ++ slash :: rest).
Proof.
  intros [_ [Hd _]]. unfold route. cbn [effective_path].
  rewrite host_bucket_app by exact Hd. apply split_path_rewrite.
Qed.

(* what a match means: the host is "<b>.<trimmed configured base>" with b a non-empty dot-free label *)
Theorem match_bucket_sound bases host b :
  match_bucket bases host = Some b ->
  exists base, In base bases /\ host = b ++ dotc :: trim dotc base /\ ~ In dotc b /\ b <> [].
Proof.
  induction bases as [|base0 bases IH]; cbn [match_bucket]; intros H.
  - discriminate.
  - assert (Hrec : match_bucket bases host = Some b ->
                   exists base, In base (base0 :: bases) /\
                                host = b ++ dotc :: trim dotc base /\ ~ In dotc b /\ b <> []).
    { intros H'. destruct (IH H') as [base [Hin Hrest]].
      exists base. split; [right; exact Hin | exact Hrest]. }
    destruct (strip_suffix (dotc :: trim dotc base0) host) as [b'|] eqn:Es.
    + destruct (mem_byte dotc b') eqn:Em.
      * exact (Hrec H).
      * destruct b' as [|c b'].
        -- exact (Hrec H).
        -- injection H as H. subst b.
           exists base0. split; [left; reflexivity|]. split; [|split].
           ++ apply strip_suffix_inv. exact Es.
           ++ apply mem_byte_false. exact Em.
           ++ discriminate.
    + exact (Hrec H).
Qed.

(* completeness: a host "<non-empty dot-free b>.<trimmed configured base>" matches with bucket b *)
Lemma match_bucket_complete bases base bucket :
  ~ In dotc bucket -> bucket <> [] -> In base bases ->
  match_bucket bases (bucket ++ dotc :: trim dotc base) = Some bucket.
Proof.
  intros Hd Hne. induction bases as [|base0 bases IH]; intros Hin.
  - destruct Hin.
  - cbn [match_bucket]. destruct Hin as [Heq | Hin].
    + subst base0. rewrite strip_suffix_app.
      apply mem_byte_false in Hd. rewrite Hd.
      destruct bucket as [|c bucket]; [contradiction | reflexivity].
    + destruct (strip_suffix (dotc :: trim dotc base0) (bucket ++ dotc :: trim dotc base))
        as [b'|] eqn:Es.
      * destruct (mem_byte dotc b') eqn:Em.
        -- exact (IH Hin).
        -- apply strip_suffix_inv in Es. apply mem_byte_false in Em.
           assert (Eb : b' = bucket)
             by exact (cut_unique dotc b' bucket _ _ (eq_sym Es) Em Hd).
           rewrite Eb.
           destruct bucket as [|c bucket]; [contradiction | reflexivity].
      * exact (IH Hin).
Qed.

(* no match: every way of reading the host as "<b>.<trimmed configured base>" leaves a b that
   has a '.' or is empty *)
Lemma match_bucket_none bases host :
  (forall base b, In base bases -> host = b ++ dotc :: trim dotc base -> In dotc b \/ b = []) ->
  match_bucket bases host = None.
Proof.
  induction bases as [|base0 bases IH]; intros H; cbn [match_bucket].
  - reflexivity.
  - assert (Hrec : match_bucket bases host = None).
    { apply IH. intros base b Hin Hh. apply (H base b); [right; exact Hin | exact Hh]. }
    destruct (strip_suffix (dotc :: trim dotc base0) host) as [b'|] eqn:Es.
    + apply strip_suffix_inv in Es.
      destruct (mem_byte dotc b') eqn:Em.
      * exact Hrec.
      * destruct b' as [|c b'].
        -- exact Hrec.
        -- exfalso. apply mem_byte_false in Em.
           destruct (H base0 (c :: b') (or_introl eq_refl) Es) as [Hi | He].
           ++ exact (Em Hi).
           ++ discriminate He.
    + exact Hrec.
Qed.

(* the converse of match_bucket_none, so the hypothesis above is exactly "no match" *)
Lemma match_bucket_none_inv bases host :
  match_bucket bases host = None ->
  forall base b, In base bases -> host = b ++ dotc :: trim dotc base -> In dotc b \/ b = [].
Proof.
  intros Hn base b Hin Hh.
  destruct (mem_byte dotc b) eqn:Em.
  - left. destruct (in_dec N.eq_dec dotc b) as [Hi | Hni]; [exact Hi|].
    apply mem_byte_false in Hni. rewrite Hni in Em. discriminate.
  - apply mem_byte_false in Em.
    destruct b as [|c b]; [right; reflexivity|].
    exfalso.
    assert (Hne : c :: b <> []) by discriminate.
    pose proof (match_bucket_complete bases base (c :: b) Em Hne Hin) as Hm.
    rewrite <- Hh, Hn in Hm. discriminate.
Qed.

(* the earlier, stronger-hypothesis form: every candidate prefix has a '.' *)
Lemma match_bucket_none_dotted bases host :
  (forall base b, In base bases -> host = b ++ dotc :: trim dotc base -> In dotc b) ->
  match_bucket bases host = None.
Proof.
  intros H. apply match_bucket_none. intros base b Hin Hh. left. exact (H base b Hin Hh).
Qed.

(* a host that starts with '.' never yields a bucket, whatever the bases are: the prefix left in
   front of any base is empty or itself starts with '.' *)
Lemma match_bucket_leading_dot bases s : match_bucket bases (dotc :: s) = None.
Proof.
  apply match_bucket_none. intros base b _ Hh.
  destruct b as [|c b].
  - right. reflexivity.
  - left. cbn [app] in Hh. injection Hh as Hc _. left. symmetry. exact Hc.
Qed.

(* the empty-label host ".<base>": no bucket, for every configured list of bases (no side
   condition about the other bases is needed) *)
Corollary match_bucket_empty_label bases base :
  match_bucket bases (dotc :: trim dotc base) = None.
Proof. apply match_bucket_leading_dot. Qed.

(* WithHostBucketBase *)
Theorem host_base_eq_path bases base bucket rest :
  label bucket -> In base bases ->
  route (HostBases bases) (bucket ++ dotc :: trim dotc base) (slash :: rest)
  = route HostNone [] (slash :: bucket ++ slash :: rest).
Proof.
  intros [Hne [Hd _]] Hin. unfold route.
  pose proof (match_bucket_complete bases base bucket Hd Hne Hin) as Hm.
  destruct bases as [|base0 bases].
  - destruct Hin.
  - cbn [effective_path]. rewrite Hm. apply split_path_rewrite.
Qed.

Lemma route_no_match bases host path :
  match_bucket bases host = None ->
  route (HostBases bases) host path = route HostNone host path.
Proof.
  intros Hm. unfold route.
  destruct bases as [|base0 bases].
  - reflexivity.
  - cbn [effective_path]. rewrite Hm. reflexivity.
Qed.

(* hosts that are not "<single non-empty label>.<base>" fall back to path-style, path unchanged *)
Theorem host_base_fallback bases host path :
  (forall base b, In base bases -> host = b ++ dotc :: trim dotc base -> In dotc b \/ b = []) ->
  route (HostBases bases) host path = route HostNone host path.
Proof.
  intros H. apply route_no_match. exact (match_bucket_none bases host H).
Qed.

(* the earlier form of the fallback theorem (every candidate prefix has a '.') *)
Corollary host_base_fallback_dotted bases host path :
  (forall base b, In base bases -> host = b ++ dotc :: trim dotc base -> In dotc b) ->
  route (HostBases bases) host path = route HostNone host path.
Proof.
  intros H. apply route_no_match. exact (match_bucket_none_dotted bases host H).
Qed.

(* the empty-label host ".<base>" is served path-style, path unchanged, whatever else is configured *)
Theorem host_base_empty_label bases base path :
  route (HostBases bases) (dotc :: trim dotc base) path
  = route HostNone (dotc :: trim dotc base) path.
Proof. apply route_no_match. apply match_bucket_empty_label. Qed.

Print Assumptions host_bucket_eq_path.
Print Assumptions host_base_eq_path.
Print Assumptions match_bucket_sound.
Print Assumptions match_bucket_none_inv.
Print Assumptions host_base_fallback.
Print Assumptions host_base_empty_label.
Print Assumptions extra_slashes.
