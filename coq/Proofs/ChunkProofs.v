(* TASK T2.  The aws-chunked decoder of Model/Chunk.v returns exactly the payload for every
   payload, every chunking, every transport fragmentation schedule and both consumers
   (property C12).  Statements fixed in content; add helper lemmas/invariants freely. *)
From GF Require Import Base.Bytes Model.Chunk.
From Coq Require Import Lia ZifyBool ZifyNat ZifyN.
Open Scope Z_scope.

Definition mk (stream : list N) (sched : list Z) (eofw : bool) : reader :=
  {| rd_buf := stream; rd_sched := sched; rd_eof_with_data := eofw |}.

(* the per-chunk trailer the decoder skips blindly: "chunk-signature=" + 64 bytes = 80 bytes,
   followed by CRLF (header_skip = 82) *)
Definition sig_ok (sig : list N) : Prop := length sig = 80%nat.

Definition chunks_ok (cs : list (list N)) : Prop :=
  Forall (fun c => c <> [] /\ blen c < 2 ^ 62) cs.

(* ------------------------------------------------------------------ *)
(* list helpers                                                        *)
(* ------------------------------------------------------------------ *)

Lemma blen_app (a b : list N) : blen (a ++ b) = blen a + blen b.
Proof. unfold blen. rewrite app_length. lia. Qed.

Lemma blen_nonneg (a : list N) : 0 <= blen a.
Proof. unfold blen. lia. Qed.

Lemma blen_0 (a : list N) : blen a = 0 -> a = [].
Proof. unfold blen. destruct a as [|x a]; [reflexivity | cbn [length]; lia]. Qed.

Lemma firstn_app_ge {A} (a l : list A) n :
  (length a <= n)%nat -> firstn n (a ++ l) = a ++ firstn (n - length a) l.
Proof. intros H. rewrite firstn_app. rewrite firstn_all2 by exact H. reflexivity. Qed.

Lemma skipn_app_ge {A} (a l : list A) n :
  (length a <= n)%nat -> skipn n (a ++ l) = skipn (n - length a) l.
Proof. intros H. rewrite skipn_app. rewrite skipn_all2 by exact H. reflexivity. Qed.

Lemma rev_append_app {A} (a b acc : list A) :
  rev_append (a ++ b) acc = rev_append b (rev_append a acc).
Proof. revert acc. induction a as [|x a IH]; intros acc; cbn [app rev_append]; auto. Qed.

(* ------------------------------------------------------------------ *)
(* the inner reader                                                    *)
(* ------------------------------------------------------------------ *)

Lemma take_upto_spec l : forall n,
  take_upto l n = (firstn (Z.to_nat n) l, skipn (Z.to_nat n) l).
Proof.
  induction l as [|x l IH]; intros n.
  - cbn [take_upto]. rewrite firstn_nil, skipn_nil. reflexivity.
  - cbn [take_upto]. destruct (n <=? 0) eqn:E.
    + replace (Z.to_nat n) with 0%nat by lia. reflexivity.
    + rewrite IH. replace (Z.to_nat n) with (S (Z.to_nat (n - 1))) by lia. reflexivity.
Qed.

Definition rcap (want : Z) (sched : list Z) : Z :=
  match sched with [] => want | c :: _ => Z.min want (Z.max c 1) end.

Definition inner_res (n : nat) (buf : list N) (sched : list Z) (eofw : bool)
  : list N * rerr * reader :=
  (firstn n buf,
   match skipn n buf with [] => if eofw then REOF else RNone | _ => RNone end,
   mk (skipn n buf) (tl sched) eofw).

Lemma rcap_bounds want sched : 1 <= want -> 1 <= rcap want sched <= want.
Proof. intros H. unfold rcap. destruct sched; lia. Qed.

Lemma inner_read_ne want buf sched eofw :
  buf <> [] ->
  inner_read want (mk buf sched eofw) = inner_res (Z.to_nat (rcap want sched)) buf sched eofw.
Proof.
  intros H. unfold inner_read, inner_res, rcap, mk. cbn [rd_buf rd_sched rd_eof_with_data].
  destruct buf as [|b buf]; [congruence|].
  rewrite take_upto_spec. reflexivity.
Qed.

(* a read of at most [blen pre] bytes from a buffer [pre ++ rest] returns a non-empty prefix
   of [pre], whatever the schedule *)
Lemma inner_read_prefix k pre rest sched eofw :
  1 <= k <= blen pre ->
  exists out pre' sched' e,
    inner_read k (mk (pre ++ rest) sched eofw) = (out, e, mk (pre' ++ rest) sched' eofw)
    /\ pre = out ++ pre' /\ out <> [] /\ blen out <= k
    /\ (pre' ++ rest <> [] -> e = RNone).
Proof.
  intros Hk.
  assert (Hne : pre ++ rest <> []).
  { destruct pre; [unfold blen in Hk; cbn [length] in Hk; lia | discriminate]. }
  rewrite (inner_read_ne k _ sched eofw Hne).
  pose proof (rcap_bounds k sched (proj1 Hk)) as Hc.
  set (n := Z.to_nat (rcap k sched)).
  assert (Hn : (1 <= n <= length pre)%nat) by (unfold blen in Hk; lia).
  unfold inner_res.
  assert (Hf : firstn n (pre ++ rest) = firstn n pre).
  { rewrite firstn_app. replace (n - length pre)%nat with 0%nat by lia.
    cbn [firstn]. apply app_nil_r. }
  assert (Hs : skipn n (pre ++ rest) = skipn n pre ++ rest).
  { rewrite skipn_app. replace (n - length pre)%nat with 0%nat by lia. reflexivity. }
  rewrite Hf, Hs.
  exists (firstn n pre), (skipn n pre), (tl sched).
  eexists. split; [reflexivity|].
  split; [symmetry; apply firstn_skipn|].
  split.
  { intros E. apply (f_equal (@length N)) in E. rewrite firstn_length in E. cbn [length] in E. lia. }
  split.
  { unfold blen. rewrite firstn_length. lia. }
  intros Hne'. destruct (skipn n pre ++ rest); [congruence | reflexivity].
Qed.

Lemma inner_read_one c rest sched eofw :
  exists e, inner_read 1 (mk (c :: rest) sched eofw) = ([c], e, mk rest (tl sched) eofw).
Proof.
  rewrite inner_read_ne by discriminate.
  replace (Z.to_nat (rcap 1 sched)) with 1%nat by (unfold rcap; destruct sched; lia).
  unfold inner_res. cbn [firstn skipn]. eexists. reflexivity.
Qed.

(* ------------------------------------------------------------------ *)
(* discard                                                             *)
(* ------------------------------------------------------------------ *)

Lemma discard_eq fuel k r :
  discard fuel k r =
  if k <=? 0 then (true, r) else
  match fuel with
  | O => (false, r)
  | S f =>
      let '(out, e, r') := inner_read k r in
      let got := blen out in
      if got =? k then (true, r')
      else match e with
           | RNone => if got =? 0 then (false, r') else discard f (k - got) r'
           | _ => (false, r')
           end
  end.
Proof. destruct fuel; reflexivity. Qed.

(* skipping k available bytes succeeds with fuel >= k and removes exactly those bytes *)
Lemma discard_spec : forall fuel k pre rest sched eofw,
  blen pre = k -> (Z.to_nat k <= fuel)%nat ->
  exists sched', discard fuel k (mk (pre ++ rest) sched eofw) = (true, mk rest sched' eofw).
Proof.
  induction fuel as [|f IH]; intros k pre rest sched eofw Hk Hf; rewrite discard_eq.
  - assert (k = 0) by (pose proof (blen_nonneg pre); lia). subst k.
    rewrite (blen_0 pre H). exists sched. reflexivity.
  - destruct (k <=? 0) eqn:E.
    + assert (blen pre = 0) by (pose proof (blen_nonneg pre); lia).
      rewrite (blen_0 pre H). exists sched. reflexivity.
    + destruct (inner_read_prefix k pre rest sched eofw) as (out & pre' & sched' & e & Hir & Hpre & Hout & Hlen & He).
      { lia. }
      rewrite Hir. cbv beta iota zeta.
      assert (Hb : blen pre = blen out + blen pre') by (rewrite Hpre; apply blen_app).
      destruct (blen out =? k) eqn:Eg.
      * assert (pre' = []) by (apply blen_0; lia). subst pre'.
        exists sched'. reflexivity.
      * assert (Hp : pre' <> []).
        { intros ->. unfold blen in Hb at 3. cbn [length] in Hb. lia. }
        rewrite He by (destruct pre'; [congruence | discriminate]).
        assert (blen out <> 0).
        { intros E0. apply blen_0 in E0. congruence. }
        destruct (blen out =? 0) eqn:E0; [lia|].
        pose proof (blen_nonneg out).
        apply IH; lia.
Qed.

(* ------------------------------------------------------------------ *)
(* the hex size field                                                  *)
(* ------------------------------------------------------------------ *)

Lemma hexval_hexdig d : 0 <= d < 16 -> hexval (hexdig d) = Some d.
Proof.
  intros H.
  assert (E : d = 0 \/ d = 1 \/ d = 2 \/ d = 3 \/ d = 4 \/ d = 5 \/ d = 6 \/ d = 7 \/
              d = 8 \/ d = 9 \/ d = 10 \/ d = 11 \/ d = 12 \/ d = 13 \/ d = 14 \/ d = 15) by lia.
  repeat (destruct E as [E|E]; [subst d; reflexivity|]). subst d; reflexivity.
Qed.

Lemma hexval_59 : hexval 59 = None.
Proof. reflexivity. Qed.

Lemma scan_hex_S f c rest sched eofw acc :
  scan_hex (S f) (mk (c :: rest) sched eofw) acc =
  match hexval c with
  | Some v => scan_hex f (mk rest (tl sched) eofw)
                (Some (match acc with Some a => a * 16 + v | None => v end))
  | None => if N.eqb c 59 then (acc, mk rest (tl sched) eofw) else (None, mk rest (tl sched) eofw)
  end.
Proof.
  destruct (inner_read_one c rest sched eofw) as [e He].
  cbn [scan_hex]. rewrite He. reflexivity.
Qed.

Lemma scan_hex_nil f sched eofw acc :
  scan_hex (S f) (mk [] sched eofw) acc = (None, mk [] sched eofw).
Proof. reflexivity. Qed.

Definition stepo (a : option Z) (d : Z) : option Z :=
  Some (match a with Some a => a * 16 + d | None => d end).

Lemma scan_hex_digits : forall ds fuel rest sched eofw acc,
  Forall (fun d => 0 <= d < 16) ds -> (length ds < fuel)%nat ->
  exists sched',
    scan_hex fuel (mk (map hexdig ds ++ 59%N :: rest) sched eofw) acc
    = (fold_left stepo ds acc, mk rest sched' eofw).
Proof.
  induction ds as [|d ds IH]; intros fuel rest sched eofw acc Hds Hf;
    (destruct fuel as [|f]; [cbn [length] in Hf; lia|]).
  - cbn [map app fold_left]. rewrite scan_hex_S, hexval_59, N.eqb_refl.
    eexists. reflexivity.
  - cbn [map app fold_left]. rewrite scan_hex_S.
    rewrite hexval_hexdig by (inversion Hds; assumption).
    apply IH; [inversion Hds; assumption | cbn [length] in Hf; lia].
Qed.

(* the digit list computed by hex_fuel *)
Fixpoint hexds (fuel : nat) (z : Z) (acc : list Z) : list Z :=
  match fuel with
  | O => acc
  | S f => if z <? 16 then z :: acc else hexds f (z / 16) (z mod 16 :: acc)
  end.

Lemma hex_fuel_map fuel : forall z acc,
  hex_fuel fuel z (map hexdig acc) = map hexdig (hexds fuel z acc).
Proof.
  induction fuel as [|f IH]; intros z acc; cbn [hex_fuel hexds]; [reflexivity|].
  destruct (z <? 16); [reflexivity|]. rewrite <- IH. reflexivity.
Qed.

Lemma hex_of_Z_eq n :
  hex_of_Z n = map hexdig (hexds (S (Z.to_nat (Z.log2 n))) n []).
Proof. exact (hex_fuel_map _ n []). Qed.

Lemma hexds_range fuel : forall z acc,
  0 <= z -> Forall (fun d => 0 <= d < 16) acc -> Forall (fun d => 0 <= d < 16) (hexds fuel z acc).
Proof.
  induction fuel as [|f IH]; intros z acc Hz Ha; cbn [hexds]; [assumption|].
  destruct (z <? 16) eqn:E.
  - constructor; [lia | assumption].
  - apply IH.
    + apply Z.div_pos; lia.
    + constructor; [apply Z.mod_pos_bound; lia | assumption].
Qed.

Lemma hexds_len fuel : forall z acc k,
  0 <= z < 16 ^ Z.of_nat k -> (1 <= k)%nat ->
  (length (hexds fuel z acc) <= length acc + k)%nat.
Proof.
  induction fuel as [|f IH]; intros z acc k Hz Hk; cbn [hexds]; [lia|].
  destruct (z <? 16) eqn:E.
  - cbn [length]. lia.
  - destruct k as [|k]; [lia|].
    destruct k as [|k].
    + change (16 ^ Z.of_nat 1) with 16 in Hz. lia.
    + assert (Hlt : z / 16 < 16 ^ Z.of_nat (S k)).
      { apply Z.div_lt_upper_bound; [lia|].
        rewrite (Nat2Z.inj_succ (S k)), Z.pow_succ_r in Hz by lia. lia. }
      assert (0 <= z / 16) by (apply Z.div_pos; lia).
      specialize (IH (z / 16) (z mod 16 :: acc) (S k)).
      cbn [length] in IH. lia.
Qed.

Fixpoint evalZ (a : Z) (ds : list Z) : Z :=
  match ds with [] => a | d :: ds => evalZ (a * 16 + d) ds end.

Lemma hexds_val fuel : forall z acc,
  0 <= z < 16 ^ Z.of_nat fuel -> evalZ 0 (hexds fuel z acc) = evalZ z acc.
Proof.
  induction fuel as [|f IH]; intros z acc Hz; cbn [hexds].
  - change (16 ^ Z.of_nat 0) with 1 in Hz. replace z with 0 by lia. reflexivity.
  - destruct (z <? 16) eqn:E.
    + cbn [evalZ]. replace (0 * 16 + z) with z by lia. reflexivity.
    + rewrite IH.
      * cbn [evalZ]. f_equal. pose proof (Z.div_mod z 16). lia.
      * split; [apply Z.div_pos; lia|].
        apply Z.div_lt_upper_bound; [lia|].
        rewrite Nat2Z.inj_succ, Z.pow_succ_r in Hz by lia. lia.
Qed.

Lemma hexds_ne fuel : forall z acc, hexds (S fuel) z acc <> [].
Proof.
  induction fuel as [|f IH]; intros z acc.
  - cbn [hexds]. destruct (z <? 16); discriminate.
  - change (hexds (S (S f)) z acc)
      with (if z <? 16 then z :: acc else hexds (S f) (z / 16) (z mod 16 :: acc)).
    destruct (z <? 16); [discriminate | apply IH].
Qed.

Lemma fold_stepo_some ds : forall a, fold_left stepo ds (Some a) = Some (evalZ a ds).
Proof. induction ds as [|d ds IH]; intros a; cbn [fold_left evalZ]; [reflexivity|]. apply IH. Qed.

Lemma fold_stepo_none ds : ds <> [] -> fold_left stepo ds None = Some (evalZ 0 ds).
Proof.
  destruct ds as [|d ds]; [congruence|]. intros _.
  cbn [fold_left evalZ]. unfold stepo at 2. rewrite fold_stepo_some.
  replace (0 * 16 + d) with d by lia. reflexivity.
Qed.

Lemma hex_fuel_enough n : 0 <= n -> n < 16 ^ Z.of_nat (S (Z.to_nat (Z.log2 n))).
Proof.
  intros Hn. pose proof (Z.log2_nonneg n) as Hl.
  replace (Z.of_nat (S (Z.to_nat (Z.log2 n)))) with (Z.succ (Z.log2 n)) by lia.
  destruct (Z.eq_dec n 0) as [->|Hne].
  - apply Z.pow_pos_nonneg; lia.
  - destruct (Z.log2_spec n) as [_ H2]; [lia|].
    assert (2 ^ Z.succ (Z.log2 n) <= 16 ^ Z.succ (Z.log2 n)) by (apply Z.pow_le_mono_l; lia).
    lia.
Qed.

(* main fact about the size field: at most 19 hex digits are parsed back exactly *)
Lemma scan_hex_hex n rest sched eofw :
  0 <= n < 16 ^ 19 ->
  exists sched',
    scan_hex 20 (mk (hex_of_Z n ++ 59%N :: rest) sched eofw) None = (Some n, mk rest sched' eofw).
Proof.
  intros Hn. rewrite hex_of_Z_eq.
  set (ds := hexds (S (Z.to_nat (Z.log2 n))) n []).
  destruct (scan_hex_digits ds 20 rest sched eofw None) as [sched' Hs].
  - apply hexds_range; [lia | constructor].
  - pose proof (hexds_len (S (Z.to_nat (Z.log2 n))) n [] 19) as H.
    cbn [length] in H. fold ds in H.
    assert (length ds <= 0 + 19)%nat by (apply H; [exact Hn | lia]). lia.
  - exists sched'. rewrite Hs. f_equal.
    rewrite fold_stepo_none by apply hexds_ne.
    unfold ds. rewrite hexds_val by (split; [lia | apply hex_fuel_enough; lia]).
    reflexivity.
Qed.

(* the hex size field round-trips *)
Lemma scan_hex_of_Z n rest sched eofw :
  0 <= n ->
  exists sched',
    scan_hex 20 (mk (hex_of_Z n ++ 59%N :: rest) sched eofw) None = (Some n, mk rest sched' eofw)
    \/ n >= 16 ^ 19.     (* more than 19 hex digits does not occur: chunk sizes are < 2^63 *)
Proof.
  intros Hn. destruct (Z_lt_le_dec n (16 ^ 19)) as [Hlt|Hge].
  - destruct (scan_hex_hex n rest sched eofw) as [sched' H]; [lia|].
    exists sched'. left. exact H.
  - exists sched. right. lia.
Qed.

(* ------------------------------------------------------------------ *)
(* the encoder                                                         *)
(* ------------------------------------------------------------------ *)

Lemma encode_nil_eq sig :
  encode sig [] = hex_of_Z 0 ++ 59%N :: (sig ++ crlf) ++ crlf.
Proof. cbn [encode]. unfold chunk_header. rewrite <- !app_assoc. reflexivity. Qed.

Lemma encode_cons_eq sig c cs :
  encode sig (c :: cs) = hex_of_Z (blen c) ++ 59%N :: (sig ++ crlf) ++ (c ++ crlf ++ encode sig cs).
Proof. cbn [encode]. unfold chunk_header. rewrite <- !app_assoc. reflexivity. Qed.

Lemma blen_sig_crlf sig : sig_ok sig -> blen (sig ++ crlf) = header_skip.
Proof. intros H. unfold blen, sig_ok in *. rewrite app_length, H. reflexivity. Qed.

Lemma concat_le_encode sig cs : (length (concat cs) <= length (encode sig cs))%nat.
Proof.
  induction cs as [|c cs IH]; cbn [concat encode]; [cbn [length]; lia|].
  rewrite !app_length. lia.
Qed.

(* ------------------------------------------------------------------ *)
(* the decoder invariant between loop iterations / Read calls          *)
(* [cinv sig c P]: the chunked reader [c] is in a consistent position of an encoded stream  *)
(* whose still undelivered payload is [P]                              *)
(* ------------------------------------------------------------------ *)

Inductive cinv (sig : list N) : creader -> list N -> Prop :=
| inv_start cs sched eofw :
    chunks_ok cs ->
    cinv sig {| cr_inner := mk (encode sig cs) sched eofw; cr_remain := 0; cr_not_first := false |}
         (concat cs)
| inv_mid d cs sched eofw :
    chunks_ok cs ->
    cinv sig {| cr_inner := mk (d ++ crlf ++ encode sig cs) sched eofw; cr_remain := blen d;
                cr_not_first := true |}
         (d ++ concat cs)
| inv_end sched eofw :
    cinv sig {| cr_inner := mk crlf sched eofw; cr_remain := 0; cr_not_first := true |} [].

Lemma cinv_cnew sig cs sched eofw :
  chunks_ok cs -> cinv sig (cnew (mk (encode sig cs) sched eofw)) (concat cs).
Proof. intros H. unfold cnew. apply inv_start. exact H. Qed.

(* parsing one chunk header "<hex>;sig CRLF" *)
Lemma parse_header sig cs sched eofw :
  sig_ok sig -> chunks_ok cs ->
  exists n r2 buf' sched',
    scan_hex 20 (mk (encode sig cs) sched eofw) None = (Some n, r2)
    /\ discard 100 header_skip r2 = (true, mk buf' sched' eofw)
    /\ cinv sig {| cr_inner := mk buf' sched' eofw; cr_remain := n; cr_not_first := true |} (concat cs)
    /\ (length buf' < length (encode sig cs))%nat.
Proof.
  intros Hsig Hcs. destruct cs as [|c cs].
  - rewrite encode_nil_eq.
    destruct (scan_hex_hex 0 ((sig ++ crlf) ++ crlf) sched eofw) as [s1 H1]; [split; [lia|reflexivity]|].
    destruct (discard_spec 100 header_skip (sig ++ crlf) crlf s1 eofw) as [s2 H2].
    { apply blen_sig_crlf; exact Hsig. }
    { unfold header_skip. lia. }
    exists 0, (mk ((sig ++ crlf) ++ crlf) s1 eofw), crlf, s2.
    split; [exact H1|]. split; [exact H2|]. split; [apply inv_end|].
    rewrite (app_length (hex_of_Z 0)). cbn [length]. rewrite !app_length. lia.
  - rewrite encode_cons_eq.
    assert (Hc : c <> [] /\ blen c < 2 ^ 62) by (inversion Hcs; assumption).
    assert (Hcs' : chunks_ok cs) by (inversion Hcs; assumption).
    destruct (scan_hex_hex (blen c) ((sig ++ crlf) ++ c ++ crlf ++ encode sig cs) sched eofw) as [s1 H1].
    { split; [apply blen_nonneg|]. assert (2 ^ 62 < 16 ^ 19) by reflexivity. lia. }
    destruct (discard_spec 100 header_skip (sig ++ crlf) (c ++ crlf ++ encode sig cs) s1 eofw) as [s2 H2].
    { apply blen_sig_crlf; exact Hsig. }
    { unfold header_skip. lia. }
    exists (blen c), (mk ((sig ++ crlf) ++ c ++ crlf ++ encode sig cs) s1 eofw),
           (c ++ crlf ++ encode sig cs), s2.
    split; [exact H1|]. split; [exact H2|]. split.
    + cbn [concat]. apply inv_mid. exact Hcs'.
    + rewrite (app_length (hex_of_Z (blen c))). cbn [length].
      rewrite (app_length (sig ++ crlf)). lia.
Qed.

Lemma cread_S f want c racc :
  cread (S f) want c racc =
  if want <=? 0 then (racc, RNone, c) else
      if want <? cr_remain c then
        let '(out, e, r') := inner_read want (cr_inner c) in
        let c' := {| cr_inner := r'; cr_remain := cr_remain c - blen out; cr_not_first := cr_not_first c |} in
        match e with
        | RNone => cread f (want - blen out) c' (rev_append out racc)
        | _ => (rev_append out racc, e, c')
        end
      else if 0 <? cr_remain c then
        let '(out, e, r') := inner_read (cr_remain c) (cr_inner c) in
        let c' := {| cr_inner := r'; cr_remain := cr_remain c - blen out; cr_not_first := cr_not_first c |} in
        match e with
        | RNone => cread f (want - blen out) c' (rev_append out racc)
        | _ => (rev_append out racc, e, c')
        end
      else
        let '(ok1, r1) := if cr_not_first c then discard 4 2 (cr_inner c) else (true, cr_inner c) in
        if negb ok1 then (racc, REOF, {| cr_inner := r1; cr_remain := cr_remain c; cr_not_first := true |}) else
        match scan_hex 20 r1 None with
        | (None, r2) =>
            (racc, match rd_buf r1 with [] => REOF | _ => RErrOther end,
             {| cr_inner := r2; cr_remain := cr_remain c; cr_not_first := true |})
        | (Some sz, r2) =>
            let '(ok3, r3) := discard 100 header_skip r2 in
            let c' := {| cr_inner := r3; cr_remain := sz; cr_not_first := true |} in
            if negb ok3 then (racc, REOF, c') else cread f want c' racc
        end.
Proof. reflexivity. Qed.

(* one loop iteration inside a chunk: both data branches read k = min(want, remain) bytes *)
Lemma cread_data f want c racc :
  1 <= want -> 0 < cr_remain c ->
  cread (S f) want c racc =
  let '(out, e, r') := inner_read (Z.min want (cr_remain c)) (cr_inner c) in
  let c' := {| cr_inner := r'; cr_remain := cr_remain c - blen out; cr_not_first := cr_not_first c |} in
  match e with
  | RNone => cread f (want - blen out) c' (rev_append out racc)
  | _ => (rev_append out racc, e, c')
  end.
Proof.
  intros Hw Hr. rewrite cread_S.
  destruct (want <=? 0) eqn:E0; [lia|].
  destruct (want <? cr_remain c) eqn:E1.
  - replace (Z.min want (cr_remain c)) with want by lia. reflexivity.
  - destruct (0 <? cr_remain c) eqn:E2; [|lia].
    replace (Z.min want (cr_remain c)) with (cr_remain c) by lia. reflexivity.
Qed.

(* one loop iteration at a chunk boundary *)
Lemma cread_header f want c racc :
  1 <= want -> cr_remain c = 0 ->
  cread (S f) want c racc =
  let '(ok1, r1) := if cr_not_first c then discard 4 2 (cr_inner c) else (true, cr_inner c) in
  if negb ok1 then (racc, REOF, {| cr_inner := r1; cr_remain := cr_remain c; cr_not_first := true |}) else
  match scan_hex 20 r1 None with
  | (None, r2) =>
      (racc, match rd_buf r1 with [] => REOF | _ => RErrOther end,
       {| cr_inner := r2; cr_remain := cr_remain c; cr_not_first := true |})
  | (Some sz, r2) =>
      let '(ok3, r3) := discard 100 header_skip r2 in
      let c' := {| cr_inner := r3; cr_remain := sz; cr_not_first := true |} in
      if negb ok3 then (racc, REOF, c') else cread f want c' racc
  end.
Proof.
  intros Hw Hr. rewrite cread_S.
  destruct (want <=? 0) eqn:E0; [lia|].
  destruct (want <? cr_remain c) eqn:E1; [lia|].
  destruct (0 <? cr_remain c) eqn:E2; [lia|]. reflexivity.
Qed.

(* functional specification of chunkedReader.Read: from an invariant state with remaining
   payload P, a Read with a buffer of [want] bytes delivers exactly the first min(want,|P|)
   bytes of P, with a nil error when the buffer was filled and io.EOF when the payload ran
   out first; fuel larger than the length of the inner buffer suffices *)
Lemma cread_spec sig : sig_ok sig -> forall fuel c P want racc,
  cinv sig c P -> (length (rd_buf (cr_inner c)) < fuel)%nat ->
  exists c', cread fuel want c racc =
     (rev_append (firstn (Z.to_nat want) P) racc, (if blen P <? want then REOF else RNone), c')
     /\ (want <= blen P -> cinv sig c' (skipn (Z.to_nat want) P)).
Proof.
  intros Hsig. induction fuel as [|f IH]; intros c P want racc Hinv Hfuel; [lia|].
  destruct (want <=? 0) eqn:Ew.
  { rewrite cread_S, Ew. exists c.
    replace (Z.to_nat want) with 0%nat by lia. cbn [firstn skipn rev_append].
    pose proof (blen_nonneg P). destruct (blen P <? want) eqn:E; [lia|].
    split; [reflexivity | intros _; exact Hinv]. }
  assert (Hw : 1 <= want) by lia.
  destruct Hinv as [cs sched eofw Hcs | d cs sched eofw Hcs | sched eofw].
  - (* before the first header *)
    rewrite cread_header by (auto; reflexivity).
    cbn [cr_inner cr_remain cr_not_first]. cbn [cr_inner rd_buf mk] in Hfuel.
    destruct (parse_header sig cs sched eofw Hsig Hcs) as (n & r2 & buf' & s' & Hs & Hd & Hi & Hl).
    rewrite Hs, Hd. cbn [negb].
    apply IH; [exact Hi|]. cbn [cr_inner rd_buf mk]. unfold mk in Hfuel; cbn [rd_buf] in Hfuel. lia.
  - destruct (Z.eq_dec (blen d) 0) as [Hd0|Hd0].
    + (* end of a chunk: CRLF then the next header *)
      apply blen_0 in Hd0. subst d.
      rewrite cread_header by (auto; reflexivity).
      cbn [cr_inner cr_remain cr_not_first app].
      unfold mk in Hfuel; cbn [cr_inner rd_buf app] in Hfuel. rewrite app_length in Hfuel.
      destruct (discard_spec 4 2 crlf (encode sig cs) sched eofw) as [s1 H1]; [reflexivity | lia |].
      rewrite H1. cbn [negb].
      destruct (parse_header sig cs s1 eofw Hsig Hcs) as (n & r2 & buf' & s' & Hs & Hd & Hi & Hl).
      rewrite Hs, Hd. cbn [negb].
      apply IH; [exact Hi|]. unfold mk; cbn [cr_inner rd_buf]. lia.
    + (* inside a chunk *)
      pose proof (blen_nonneg d) as Hdn.
      rewrite cread_data by (cbn [cr_remain]; lia).
      cbn [cr_inner cr_remain cr_not_first].
      destruct (inner_read_prefix (Z.min want (blen d)) d (crlf ++ encode sig cs) sched eofw)
        as (out & d' & s' & e & Hir & Hd & Hout & Hlen & He); [lia|].
      rewrite Hir. cbv beta iota zeta.
      rewrite He by (unfold crlf; destruct d'; discriminate).
      assert (Hb : blen d = blen out + blen d') by (rewrite Hd; apply blen_app).
      replace (blen d - blen out) with (blen d') by lia.
      assert (Hout1 : 1 <= blen out).
      { pose proof (blen_nonneg out). destruct (Z.eq_dec (blen out) 0) as [E|E]; [|lia].
        apply blen_0 in E. congruence. }
      destruct (IH {| cr_inner := mk (d' ++ crlf ++ encode sig cs) s' eofw; cr_remain := blen d';
                      cr_not_first := true |} (d' ++ concat cs) (want - blen out) (rev_append out racc))
        as (c' & Hc & Hi).
      { apply inv_mid. exact Hcs. }
      { unfold mk in *; cbn [cr_inner rd_buf] in *. rewrite Hd in Hfuel.
        rewrite <- app_assoc, app_length in Hfuel. unfold blen in Hout1. lia. }
      exists c'. rewrite Hc. subst d. rewrite <- !app_assoc.
      assert (Hlo : (length out <= Z.to_nat want)%nat) by (unfold blen in *; lia).
      assert (Hn : Z.to_nat (want - blen out) = (Z.to_nat want - length out)%nat) by (unfold blen; lia).
      rewrite (firstn_app_ge out _ _ Hlo), (skipn_app_ge out _ _ Hlo), rev_append_app, Hn.
      rewrite (blen_app out). split.
      * f_equal. f_equal.
        destruct (blen (d' ++ concat cs) <? want - blen out) eqn:E1;
          destruct (blen out + blen (d' ++ concat cs) <? want) eqn:E2; try reflexivity; lia.
      * intros Hle. rewrite <- Hn. apply Hi. lia.
  - (* after the final zero chunk *)
    rewrite cread_header by (auto; reflexivity).
    cbn [cr_inner cr_remain cr_not_first].
    destruct (discard_spec 4 2 crlf [] sched eofw) as [s1 H1]; [reflexivity | lia |].
    rewrite app_nil_r in H1. rewrite H1. cbn [negb].
    rewrite scan_hex_nil.
    eexists. rewrite firstn_nil. cbn [rev_append]. change (blen []) with 0.
    destruct (0 <? want) eqn:E; [|lia].
    split; [reflexivity | intros; lia].
Qed.

(* ------------------------------------------------------------------ *)
(* consumers                                                           *)
(* ------------------------------------------------------------------ *)

Lemma read_fuel_ok c : (length (rd_buf (cr_inner c)) < read_fuel (cr_inner c))%nat.
Proof. unfold read_fuel. lia. Qed.

(* one Read with the fuel the consumers use *)
Lemma cread_call sig c P want :
  sig_ok sig -> cinv sig c P ->
  exists c', cread (read_fuel (cr_inner c)) want c [] =
     (rev (firstn (Z.to_nat want) P), (if blen P <? want then REOF else RNone), c')
     /\ (want <= blen P -> cinv sig c' (skipn (Z.to_nat want) P)).
Proof.
  intros Hsig Hinv.
  destruct (cread_spec sig Hsig (read_fuel (cr_inner c)) c P want [] Hinv (read_fuel_ok c))
    as (c' & Hc & Hi).
  exists c'. rewrite Hc, rev_append_rev, app_nil_r. split; [reflexivity | exact Hi].
Qed.

Lemma read_full_0 f want c racc : want <= 0 -> read_full f want c racc = (racc, RNone, c).
Proof.
  intros H. destruct f; cbn [read_full]; destruct (want <=? 0) eqn:E; try reflexivity; lia.
Qed.

(* io.ReadFull: delivers the first min(want,|P|) payload bytes; io.EOF iff short *)
Lemma read_full_spec sig f c P want :
  sig_ok sig -> cinv sig c P ->
  exists c', read_full (S f) want c [] =
     (rev (firstn (Z.to_nat want) P), (if blen P <? want then REOF else RNone), c')
     /\ (want <= blen P -> cinv sig c' (skipn (Z.to_nat want) P)).
Proof.
  intros Hsig Hinv. pose proof (blen_nonneg P) as HP.
  destruct (want <=? 0) eqn:Ew.
  - rewrite read_full_0 by lia. exists c.
    replace (Z.to_nat want) with 0%nat by lia. cbn [firstn skipn rev].
    destruct (blen P <? want) eqn:E; [lia|]. split; [reflexivity | intros _; exact Hinv].
  - cbn [read_full]. rewrite Ew.
    destruct (cread_call sig c P want Hsig Hinv) as (c' & Hc & Hi).
    rewrite Hc. exists c'. split; [|exact Hi].
    destruct (blen P <? want) eqn:E.
    + rewrite app_nil_r. reflexivity.
    + assert (Hl : blen (rev (firstn (Z.to_nat want) P)) = want).
      { unfold blen in *. rewrite rev_length, firstn_length. lia. }
      rewrite Hl. destruct (want =? 0) eqn:E0; [lia|].
      rewrite read_full_0 by lia. rewrite app_nil_r. reflexivity.
Qed.

(* drain: read until EOF with any buffer size >= 1 collects the whole remaining payload *)
Lemma drain_spec sig : sig_ok sig -> forall fuel c P bufsz racc,
  1 <= bufsz -> cinv sig c P -> (length P < fuel)%nat ->
  drain fuel bufsz c racc = (rev P ++ racc, REOF).
Proof.
  intros Hsig. induction fuel as [|f IH]; intros c P bufsz racc Hb Hinv Hf; [lia|].
  cbn [drain].
  destruct (cread_call sig c P bufsz Hsig Hinv) as (c' & Hc & Hi).
  rewrite Hc. destruct (blen P <? bufsz) eqn:E.
  - rewrite firstn_all2 by (unfold blen in E; lia). reflexivity.
  - assert (Hlen : (1 <= length (rev (firstn (Z.to_nat bufsz) P)))%nat).
    { rewrite rev_length, firstn_length. unfold blen in E. lia. }
    destruct (rev (firstn (Z.to_nat bufsz) P)) as [|x rout] eqn:Er; [cbn [length] in Hlen; lia|].
    rewrite <- Er.
    rewrite (IH c' (skipn (Z.to_nat bufsz) P) bufsz _ Hb).
    + rewrite app_assoc, <- rev_app_distr, firstn_skipn. reflexivity.
    + apply Hi. lia.
    + rewrite skipn_length. unfold blen in E. lia.
Qed.

Lemma rev_append_rev_id (l : list N) : rev_append (rev l) [] = l.
Proof. rewrite rev_append_rev, rev_involutive. apply app_nil_r. Qed.

(* consumer ReadAll(reader, declared size): mem, bolt and (after the fix) fs backends *)
Theorem decode_readall_any_schedule sig chunks sched eofw :
  sig_ok sig -> Forall (fun c => c <> [] /\ blen c < 2 ^ 62) chunks ->
  decode_readall (mk (encode sig chunks) sched eofw) (blen (concat chunks)) = DOk (concat chunks).
Proof.
  intros Hsig Hcs. unfold decode_readall, read_fuel.
  set (P := concat chunks).
  destruct (read_full_spec sig (S (length (rd_buf (mk (encode sig chunks) sched eofw))))
              (cnew (mk (encode sig chunks) sched eofw)) P (blen P) Hsig (cinv_cnew sig chunks sched eofw Hcs))
    as (c' & Hr & Hi).
  rewrite Hr.
  assert (Hn : Z.to_nat (blen P) = length P) by (unfold blen; lia).
  rewrite Hn in *. rewrite firstn_all in *. rewrite skipn_all in Hi.
  replace (blen (rev P)) with (blen P) by (unfold blen; rewrite rev_length; reflexivity).
  rewrite Z.ltb_irrefl.
  rewrite (drain_spec sig Hsig _ c' [] 512 []); [| lia | apply Hi; lia | cbn [length]; lia].
  cbn [rev app]. rewrite rev_append_rev_id. reflexivity.
Qed.

(* consumer copy loop with any buffer size >= 1 *)
Theorem decode_copy_any_schedule sig chunks sched eofw bufsz :
  sig_ok sig -> Forall (fun c => c <> [] /\ blen c < 2 ^ 62) chunks -> 1 <= bufsz ->
  decode_copy (mk (encode sig chunks) sched eofw) bufsz = concat chunks.
Proof.
  intros Hsig Hcs Hb. unfold decode_copy.
  rewrite (drain_spec sig Hsig _ _ (concat chunks) bufsz [] Hb (cinv_cnew sig chunks sched eofw Hcs)).
  - cbn [fst]. rewrite app_nil_r. apply rev_append_rev_id.
  - unfold read_fuel, mk; cbn [rd_buf]. pose proof (concat_le_encode sig chunks). lia.
Qed.

(* a declared decoded length different from the payload length is never accepted *)
Theorem decode_wrong_length_rejected sig chunks sched eofw declared :
  sig_ok sig -> Forall (fun c => c <> [] /\ blen c < 2 ^ 62) chunks ->
  0 <= declared -> declared <> blen (concat chunks) ->
  forall p, decode_readall (mk (encode sig chunks) sched eofw) declared <> DOk p.
Proof.
  intros Hsig Hcs Hd Hne p. unfold decode_readall.
  set (P := concat chunks) in *.
  set (r := mk (encode sig chunks) sched eofw).
  assert (HlenP : (length P < read_fuel r)%nat).
  { unfold read_fuel, r, mk; cbn [rd_buf]. pose proof (concat_le_encode sig chunks). fold P in H. lia. }
  destruct (read_full_spec sig (S (length (rd_buf r))) (cnew r) P declared Hsig
              (cinv_cnew sig chunks sched eofw Hcs)) as (c' & Hr & Hi).
  change (read_full (read_fuel r)) with (read_full (S (S (length (rd_buf r))))).
  rewrite Hr.
  assert (Hl : blen (rev (firstn (Z.to_nat declared) P)) = Z.min declared (blen P)).
  { unfold blen. rewrite rev_length, firstn_length. lia. }
  rewrite Hl.
  destruct (Z.min declared (blen P) <? declared) eqn:E.
  { destruct (blen P <? declared); discriminate. }
  assert (Hlt : declared < blen P) by lia.
  rewrite (drain_spec sig Hsig _ c' (skipn (Z.to_nat declared) P) 512 []);
    [| lia | apply Hi; lia | rewrite skipn_length; lia].
  rewrite app_nil_r.
  destruct (rev (skipn (Z.to_nat declared) P)) as [|x l] eqn:Er; [|discriminate].
  apply (f_equal (@length N)) in Er. rewrite rev_length, skipn_length in Er.
  cbn [length] in Er. unfold blen in Hlt. lia.
Qed.

(* ------------------------------------------------------------------ *)
(* bytes after the closing chunk                                       *)
(* The same invariant over a stream [encode sig cs ++ T]: the payload is delivered as before,  *)
(* and the Read that runs past the closing chunk finds [T] where a chunk header should start.  *)
(* If [T] is empty that Read ends with io.EOF; if [T] starts with a byte that is not a hex     *)
(* digit it ends with an error, which ReadAll turns into a refusal.                            *)
(* ------------------------------------------------------------------ *)

Definition errT (T : list N) : rerr := match T with [] => REOF | _ => RErrOther end.

Definition badT (T : list N) : Prop :=
  match T with [] => True | g0 :: _ => hexval g0 = None end.

Inductive cinvT (sig T : list N) : creader -> list N -> Prop :=
| invT_start cs sched eofw :
    chunks_ok cs ->
    cinvT sig T {| cr_inner := mk (encode sig cs ++ T) sched eofw; cr_remain := 0;
                   cr_not_first := false |}
          (concat cs)
| invT_mid d cs sched eofw :
    chunks_ok cs ->
    cinvT sig T {| cr_inner := mk (d ++ crlf ++ encode sig cs ++ T) sched eofw; cr_remain := blen d;
                   cr_not_first := true |}
          (d ++ concat cs)
| invT_end sched eofw :
    cinvT sig T {| cr_inner := mk (crlf ++ T) sched eofw; cr_remain := 0; cr_not_first := true |} [].

Lemma encode_nil_eqT sig T :
  encode sig [] ++ T = hex_of_Z 0 ++ 59%N :: (sig ++ crlf) ++ (crlf ++ T).
Proof. cbn [encode]. unfold chunk_header. rewrite <- !app_assoc. reflexivity. Qed.

Lemma encode_cons_eqT sig c cs T :
  encode sig (c :: cs) ++ T
  = hex_of_Z (blen c) ++ 59%N :: (sig ++ crlf) ++ (c ++ crlf ++ encode sig cs ++ T).
Proof. cbn [encode]. unfold chunk_header. rewrite <- !app_assoc. reflexivity. Qed.

Lemma scan_hex_badT T sched eofw :
  badT T -> exists r2, scan_hex 20 (mk T sched eofw) None = (None, r2).
Proof.
  intros HT. destruct T as [|g0 g].
  - eexists. apply scan_hex_nil.
  - cbn [badT] in HT. rewrite scan_hex_S, HT.
    destruct (N.eqb g0 59); eexists; reflexivity.
Qed.

Lemma parse_headerT sig T cs sched eofw :
  sig_ok sig -> chunks_ok cs ->
  exists n r2 buf' sched',
    scan_hex 20 (mk (encode sig cs ++ T) sched eofw) None = (Some n, r2)
    /\ discard 100 header_skip r2 = (true, mk buf' sched' eofw)
    /\ cinvT sig T {| cr_inner := mk buf' sched' eofw; cr_remain := n; cr_not_first := true |} (concat cs)
    /\ (length buf' < length (encode sig cs ++ T))%nat.
Proof.
  intros Hsig Hcs. destruct cs as [|c cs].
  - rewrite encode_nil_eqT.
    destruct (scan_hex_hex 0 ((sig ++ crlf) ++ crlf ++ T) sched eofw) as [s1 H1]; [split; [lia|reflexivity]|].
    destruct (discard_spec 100 header_skip (sig ++ crlf) (crlf ++ T) s1 eofw) as [s2 H2].
    { apply blen_sig_crlf; exact Hsig. }
    { unfold header_skip. lia. }
    exists 0, (mk ((sig ++ crlf) ++ crlf ++ T) s1 eofw), (crlf ++ T), s2.
    split; [exact H1|]. split; [exact H2|]. split; [apply invT_end|].
    rewrite (app_length (hex_of_Z 0)). cbn [length]. rewrite (app_length (sig ++ crlf)). lia.
  - rewrite encode_cons_eqT.
    assert (Hc : c <> [] /\ blen c < 2 ^ 62) by (inversion Hcs; assumption).
    assert (Hcs' : chunks_ok cs) by (inversion Hcs; assumption).
    destruct (scan_hex_hex (blen c) ((sig ++ crlf) ++ c ++ crlf ++ encode sig cs ++ T) sched eofw) as [s1 H1].
    { split; [apply blen_nonneg|]. assert (2 ^ 62 < 16 ^ 19) by reflexivity. lia. }
    destruct (discard_spec 100 header_skip (sig ++ crlf) (c ++ crlf ++ encode sig cs ++ T) s1 eofw) as [s2 H2].
    { apply blen_sig_crlf; exact Hsig. }
    { unfold header_skip. lia. }
    exists (blen c), (mk ((sig ++ crlf) ++ c ++ crlf ++ encode sig cs ++ T) s1 eofw),
           (c ++ crlf ++ encode sig cs ++ T), s2.
    split; [exact H1|]. split; [exact H2|]. split.
    + cbn [concat]. apply invT_mid. exact Hcs'.
    + rewrite (app_length (hex_of_Z (blen c))). cbn [length].
      rewrite (app_length (sig ++ crlf)). lia.
Qed.

(* chunkedReader.Read over a stream with trailing bytes [T]: as [cread_spec], except that the
   Read that runs out of payload ends with [errT T] *)
Lemma cread_specT sig T : sig_ok sig -> badT T -> forall fuel c P want racc,
  cinvT sig T c P -> (length (rd_buf (cr_inner c)) < fuel)%nat ->
  exists c', cread fuel want c racc =
     (rev_append (firstn (Z.to_nat want) P) racc, (if blen P <? want then errT T else RNone), c')
     /\ (want <= blen P -> cinvT sig T c' (skipn (Z.to_nat want) P)).
Proof.
  intros Hsig HT. induction fuel as [|f IH]; intros c P want racc Hinv Hfuel; [lia|].
  destruct (want <=? 0) eqn:Ew.
  { rewrite cread_S, Ew. exists c.
    replace (Z.to_nat want) with 0%nat by lia. cbn [firstn skipn rev_append].
    pose proof (blen_nonneg P). destruct (blen P <? want) eqn:E; [lia|].
    split; [reflexivity | intros _; exact Hinv]. }
  assert (Hw : 1 <= want) by lia.
  destruct Hinv as [cs sched eofw Hcs | d cs sched eofw Hcs | sched eofw].
  - (* before the first header *)
    rewrite cread_header by (auto; reflexivity).
    cbn [cr_inner cr_remain cr_not_first]. cbn [cr_inner rd_buf mk] in Hfuel.
    destruct (parse_headerT sig T cs sched eofw Hsig Hcs) as (n & r2 & buf' & s' & Hs & Hd & Hi & Hl).
    rewrite Hs, Hd. cbn [negb].
    apply IH; [exact Hi|]. cbn [cr_inner rd_buf mk]. unfold mk in Hfuel; cbn [rd_buf] in Hfuel. lia.
  - destruct (Z.eq_dec (blen d) 0) as [Hd0|Hd0].
    + (* end of a chunk: CRLF then the next header *)
      apply blen_0 in Hd0. subst d.
      rewrite cread_header by (auto; reflexivity).
      cbn [cr_inner cr_remain cr_not_first app].
      unfold mk in Hfuel; cbn [cr_inner rd_buf app] in Hfuel. rewrite (app_length crlf) in Hfuel.
      destruct (discard_spec 4 2 crlf (encode sig cs ++ T) sched eofw) as [s1 H1]; [reflexivity | lia |].
      rewrite H1. cbn [negb].
      destruct (parse_headerT sig T cs s1 eofw Hsig Hcs) as (n & r2 & buf' & s' & Hs & Hd & Hi & Hl).
      rewrite Hs, Hd. cbn [negb].
      apply IH; [exact Hi|]. unfold mk; cbn [cr_inner rd_buf]. lia.
    + (* inside a chunk *)
      pose proof (blen_nonneg d) as Hdn.
      rewrite cread_data by (cbn [cr_remain]; lia).
      cbn [cr_inner cr_remain cr_not_first].
      destruct (inner_read_prefix (Z.min want (blen d)) d (crlf ++ encode sig cs ++ T) sched eofw)
        as (out & d' & s' & e & Hir & Hd & Hout & Hlen & He); [lia|].
      rewrite Hir. cbv beta iota zeta.
      rewrite He by (unfold crlf; destruct d'; discriminate).
      assert (Hb : blen d = blen out + blen d') by (rewrite Hd; apply blen_app).
      replace (blen d - blen out) with (blen d') by lia.
      assert (Hout1 : 1 <= blen out).
      { pose proof (blen_nonneg out). destruct (Z.eq_dec (blen out) 0) as [E|E]; [|lia].
        apply blen_0 in E. congruence. }
      destruct (IH {| cr_inner := mk (d' ++ crlf ++ encode sig cs ++ T) s' eofw; cr_remain := blen d';
                      cr_not_first := true |} (d' ++ concat cs) (want - blen out) (rev_append out racc))
        as (c' & Hc & Hi).
      { apply invT_mid. exact Hcs. }
      { unfold mk in *; cbn [cr_inner rd_buf] in *. rewrite Hd in Hfuel.
        rewrite <- app_assoc, (app_length out) in Hfuel. unfold blen in Hout1. lia. }
      exists c'. rewrite Hc. subst d. rewrite <- !app_assoc.
      assert (Hlo : (length out <= Z.to_nat want)%nat) by (unfold blen in *; lia).
      assert (Hn : Z.to_nat (want - blen out) = (Z.to_nat want - length out)%nat) by (unfold blen; lia).
      rewrite (firstn_app_ge out _ _ Hlo), (skipn_app_ge out _ _ Hlo), rev_append_app, Hn.
      rewrite (blen_app out). split.
      * f_equal. f_equal.
        destruct (blen (d' ++ concat cs) <? want - blen out) eqn:E1;
          destruct (blen out + blen (d' ++ concat cs) <? want) eqn:E2; try reflexivity; lia.
      * intros Hle. rewrite <- Hn. apply Hi. lia.
  - (* after the final zero chunk: CRLF, then [T] where a header should start *)
    rewrite cread_header by (auto; reflexivity).
    cbn [cr_inner cr_remain cr_not_first].
    destruct (discard_spec 4 2 crlf T sched eofw) as [s1 H1]; [reflexivity | lia |].
    rewrite H1. cbn [negb].
    destruct (scan_hex_badT T s1 eofw HT) as [r2 H2]. rewrite H2.
    eexists. rewrite firstn_nil. cbn [rev_append]. change (blen []) with 0.
    destruct (0 <? want) eqn:E; [|lia].
    split; [reflexivity | intros; lia].
Qed.

Lemma cread_callT sig T c P want :
  sig_ok sig -> badT T -> cinvT sig T c P ->
  exists c', cread (read_fuel (cr_inner c)) want c [] =
     (rev (firstn (Z.to_nat want) P), (if blen P <? want then errT T else RNone), c')
     /\ (want <= blen P -> cinvT sig T c' (skipn (Z.to_nat want) P)).
Proof.
  intros Hsig HT Hinv.
  destruct (cread_specT sig T Hsig HT (read_fuel (cr_inner c)) c P want [] Hinv (read_fuel_ok c))
    as (c' & Hc & Hi).
  exists c'. rewrite Hc, rev_append_rev, app_nil_r. split; [reflexivity | exact Hi].
Qed.

Lemma read_full_specT sig T f c P want :
  sig_ok sig -> badT T -> cinvT sig T c P ->
  exists c', read_full (S f) want c [] =
     (rev (firstn (Z.to_nat want) P), (if blen P <? want then errT T else RNone), c')
     /\ (want <= blen P -> cinvT sig T c' (skipn (Z.to_nat want) P)).
Proof.
  intros Hsig HT Hinv. pose proof (blen_nonneg P) as HP.
  destruct (want <=? 0) eqn:Ew.
  - rewrite read_full_0 by lia. exists c.
    replace (Z.to_nat want) with 0%nat by lia. cbn [firstn skipn rev].
    destruct (blen P <? want) eqn:E; [lia|]. split; [reflexivity | intros _; exact Hinv].
  - cbn [read_full]. rewrite Ew.
    destruct (cread_callT sig T c P want Hsig HT Hinv) as (c' & Hc & Hi).
    rewrite Hc. exists c'. split; [|exact Hi].
    destruct (blen P <? want) eqn:E.
    + rewrite app_nil_r. destruct T; reflexivity.
    + assert (Hl : blen (rev (firstn (Z.to_nat want) P)) = want).
      { unfold blen in *. rewrite rev_length, firstn_length. lia. }
      rewrite Hl. destruct (want =? 0) eqn:E0; [lia|].
      rewrite read_full_0 by lia. rewrite app_nil_r. reflexivity.
Qed.

Lemma drain_specT sig T : sig_ok sig -> badT T -> forall fuel c P bufsz racc,
  1 <= bufsz -> cinvT sig T c P -> (length P < fuel)%nat ->
  drain fuel bufsz c racc = (rev P ++ racc, errT T).
Proof.
  intros Hsig HT. induction fuel as [|f IH]; intros c P bufsz racc Hb Hinv Hf; [lia|].
  cbn [drain].
  destruct (cread_callT sig T c P bufsz Hsig HT Hinv) as (c' & Hc & Hi).
  rewrite Hc. destruct (blen P <? bufsz) eqn:E.
  - rewrite firstn_all2 by (unfold blen in E; lia). destruct T; reflexivity.
  - assert (Hlen : (1 <= length (rev (firstn (Z.to_nat bufsz) P)))%nat).
    { rewrite rev_length, firstn_length. unfold blen in E. lia. }
    destruct (rev (firstn (Z.to_nat bufsz) P)) as [|x rout] eqn:Er; [cbn [length] in Hlen; lia|].
    rewrite <- Er.
    rewrite (IH c' (skipn (Z.to_nat bufsz) P) bufsz _ Hb).
    + rewrite app_assoc, <- rev_app_distr, firstn_skipn. reflexivity.
    + apply Hi. lia.
    + rewrite skipn_length. unfold blen in E. lia.
Qed.

(* ReadAll over a well-formed stream followed by bytes that do not start like a chunk header:
   the result is an error, whatever the declared size, the schedule and the EOF style *)
Theorem trailing_garbage_error sig chunks g0 g sched eofw size :
  sig_ok sig -> Forall (fun c => c <> [] /\ blen c < 2 ^ 62) chunks ->
  hexval g0 = None ->
  decode_readall (mk (encode sig chunks ++ g0 :: g) sched eofw) size = DError.
Proof.
  intros Hsig Hcs Hg. unfold decode_readall.
  set (T := g0 :: g).
  set (P := concat chunks).
  set (r := mk (encode sig chunks ++ T) sched eofw).
  assert (HT : badT T) by exact Hg.
  assert (HlenP : (length P < read_fuel r)%nat).
  { unfold read_fuel, r, mk; cbn [rd_buf]. rewrite app_length.
    pose proof (concat_le_encode sig chunks) as Hle. fold P in Hle. lia. }
  destruct (read_full_specT sig T (S (length (rd_buf r))) (cnew r) P size Hsig HT
              (invT_start sig T chunks sched eofw Hcs)) as (c' & Hr & Hi).
  change (read_full (read_fuel r)) with (read_full (S (S (length (rd_buf r))))).
  rewrite Hr.
  destruct (blen P <? size) eqn:E.
  - assert (Hs : blen (rev (firstn (Z.to_nat size) P)) <? size = true).
    { unfold blen in *. rewrite rev_length, firstn_length. lia. }
    rewrite Hs. reflexivity.
  - assert (Hs : blen (rev (firstn (Z.to_nat size) P)) <? size = false).
    { unfold blen in *. rewrite rev_length, firstn_length. lia. }
    rewrite Hs.
    rewrite (drain_specT sig T Hsig HT _ c' (skipn (Z.to_nat size) P) 512 []);
      [| lia | apply Hi; lia | rewrite skipn_length; lia].
    reflexivity.
Qed.

(* a stream with anything that does not start like a chunk header after its closing chunk is
   never accepted, whatever the declared size *)
Theorem trailing_garbage_rejected sig chunks g0 g sched eofw size :
  sig_ok sig -> Forall (fun c => c <> [] /\ blen c < 2 ^ 62) chunks ->
  hexval g0 = None ->
  forall p, decode_readall (mk (encode sig chunks ++ g0 :: g) sched eofw) size <> DOk p.
Proof.
  intros Hsig Hcs Hg p.
  rewrite (trailing_garbage_error sig chunks g0 g sched eofw size Hsig Hcs Hg). discriminate.
Qed.

Print Assumptions scan_hex_of_Z.
Print Assumptions decode_readall_any_schedule.
Print Assumptions decode_copy_any_schedule.
Print Assumptions decode_wrong_length_rejected.
Print Assumptions trailing_garbage_rejected.
