(* TASK T2.  The aws-chunked decoder of Model/Chunk.v returns exactly the payload for every
   payload, every chunking, every transport fragmentation schedule and both consumers
   (property C12).  Statements fixed in content; add helper lemmas/invariants freely. *)
From GF Require Import Base.Bytes Model.Chunk.
From Coq Require Import Lia ZifyBool ZifyNat ZifyN.
Open Scope Z_scope.

Definition mk (stream : list N) (sched : list Z) (eofw : bool) : reader :=
  {| rd_buf := stream; rd_sched := sched; rd_eof_with_data := eofw |}.

(* the per-chunk trailer the decoder skips blindly: "chunk-signature=" + 64 bytes = 80 bytes,
   followed by CRLF (header_skip = 82) *)
Definition sig_ok (sig : list N) : Prop := length sig = 80%nat.

(* the hex size field round-trips *)
Lemma scan_hex_of_Z n rest sched eofw :
  0 <= n ->
  exists sched',
    scan_hex 20 (mk (hex_of_Z n ++ 59%N :: rest) sched eofw) None = (Some n, mk rest sched' eofw)
    \/ n >= 16 ^ 19.     (* more than 19 hex digits does not occur: chunk sizes are < 2^63 *)
Proof.
Admitted.

(* consumer ReadAll(reader, declared size): mem, bolt and (after the fix) fs backends *)
Theorem decode_readall_any_schedule sig chunks sched eofw :
  sig_ok sig -> Forall (fun c => c <> [] /\ blen c < 2 ^ 62) chunks ->
  decode_readall (mk (encode sig chunks) sched eofw) (blen (concat chunks)) = DOk (concat chunks).
Proof.
Admitted.

(* consumer copy loop with any buffer size >= 1 *)
Theorem decode_copy_any_schedule sig chunks sched eofw bufsz :
  sig_ok sig -> Forall (fun c => c <> [] /\ blen c < 2 ^ 62) chunks -> 1 <= bufsz ->
  decode_copy (mk (encode sig chunks) sched eofw) bufsz = concat chunks.
Proof.
Admitted.

(* a declared decoded length different from the payload length is never accepted *)
Theorem decode_wrong_length_rejected sig chunks sched eofw declared :
  sig_ok sig -> Forall (fun c => c <> [] /\ blen c < 2 ^ 62) chunks ->
  0 <= declared -> declared <> blen (concat chunks) ->
  forall p, decode_readall (mk (encode sig chunks) sched eofw) declared <> DOk p.
Proof.
Admitted.

Print Assumptions decode_readall_any_schedule.
