(* Facts about the crash model of the filesystem backends (Model/Crash.v). *)
From Coq Require Import List NArith ZArith Bool Lia.
From GF Require Import Base.Bytes Base.Lit Model.Crash Proofs.BytesFacts.
Import ListNotations.

(* ---- association lists ---------------------------------------------------------------- *)
Section AssocFacts.
Context {V : Type}.
Lemma aget_adel_eq (k : bytes) (m : list (bytes * V)) : aget k (adel k m) = None.
Proof.
  induction m as [|[k' v] m IH]; cbn [adel aget]; [reflexivity|].
  destruct (beq k k') eqn:E; [exact IH|]. cbn [aget]. rewrite E. exact IH.
Qed.
Lemma aget_adel_neq (k k' : bytes) (m : list (bytes * V)) : k <> k' -> aget k' (adel k m) = aget k' m.
Proof.
  intros Hne. induction m as [|[k0 v] m IH]; cbn [adel aget]; [reflexivity|].
  destruct (beq k k0) eqn:E.
  - apply beq_eq in E. subst k0.
    assert (beq k' k = false) as -> by (apply beq_neq; congruence). exact IH.
  - cbn [aget]. rewrite IH. reflexivity.
Qed.
Lemma aget_aset_eq (k : bytes) (v : V) (m : list (bytes * V)) : aget k (aset k v m) = Some v.
Proof. unfold aset. cbn [aget]. rewrite beq_refl. reflexivity. Qed.
Lemma aget_aset_neq (k k' : bytes) (v : V) (m : list (bytes * V)) : k <> k' -> aget k' (aset k v m) = aget k' m.
Proof.
  intros Hne. unfold aset. cbn [aget].
  assert (beq k' k = false) as -> by (apply beq_neq; congruence).
  apply aget_adel_neq. exact Hne.
Qed.
End AssocFacts.

(* ---- invariants of a disk --------------------------------------------------------------- *)
(* no file or readable metadata record carries a stamp from the future, and a record that
   matches its file (size, stamp) holds the hash of that file's content *)
Definition Bounded (d : disk) : Prop :=
  (forall k f, aget k (d_data d) = Some f -> (df_stamp f <= d_clock d)%N) /\
  (forall k m, aget k (d_meta d) = Some m -> mf_ok m = true -> (mf_stamp m <= d_clock d)%N).
Definition Consistent (md5 : bytes -> bytes) (d : disk) : Prop :=
  forall k f m, aget k (d_data d) = Some f -> aget k (d_meta d) = Some m ->
                meta_fresh f m = true -> mf_hash m = md5 (df_body f).
Definition DInv (md5 : bytes -> bytes) (d : disk) : Prop := Bounded d /\ Consistent md5 d.

Definition op_key (o : fsop) : bytes :=
  match o with
  | FUnlink k | FCreate k | FWrite k _ | FWritePart k _ | MTrunc k | MWrite k _ | MWritePart k | MRemove k => k
  end.

(* ---- general facts about runs ------------------------------------------------------------ *)
Lemma run_ops_cons d o ops : run_ops d (o :: ops) = run_ops (apply_op d o) ops.
Proof. reflexivity. Qed.
Lemma run_ops_app d a b : run_ops d (a ++ b) = run_ops (run_ops d a) b.
Proof. unfold run_ops. apply fold_left_app. Qed.

Lemma step_other d o k k' :
  op_key o = k -> k' <> k ->
  aget k' (d_data (apply_op d o)) = aget k' (d_data d) /\
  aget k' (d_meta (apply_op d o)) = aget k' (d_meta d).
Proof.
  intros Hk Hne. subst k.
  destruct o; cbn [apply_op op_key d_data d_meta] in *; split; try reflexivity;
    first [apply aget_aset_neq | apply aget_adel_neq]; congruence.
Qed.

Lemma run_other d ops k k' :
  Forall (fun o => op_key o = k) ops -> k' <> k ->
  aget k' (d_data (run_ops d ops)) = aget k' (d_data d) /\
  aget k' (d_meta (run_ops d ops)) = aget k' (d_meta d).
Proof.
  intros HF Hne. revert d. induction HF as [|o ops Ho HF IH]; intros d; [split; reflexivity|].
  rewrite run_ops_cons. destruct (IH (apply_op d o)) as [H1 H2].
  destruct (step_other d o k k' Ho Hne) as [H3 H4].
  split; congruence.
Qed.

Lemma step_clock d o : (d_clock d <= d_clock (apply_op d o))%N.
Proof. destruct o; cbn [apply_op d_clock]; unfold tick; lia. Qed.
Lemma run_clock d ops : (d_clock d <= d_clock (run_ops d ops))%N.
Proof.
  revert d. induction ops as [|o ops IH]; intros d; [cbn; lia|].
  rewrite run_ops_cons. pose proof (step_clock d o). pose proof (IH (apply_op d o)). lia.
Qed.

Lemma Forall_firstn_keep {A} (P : A -> Prop) n l : Forall P l -> Forall P (firstn n l).
Proof.
  intros H. revert n. induction H as [|x l Hx H IH]; intros [|n]; cbn [firstn]; constructor; auto.
Qed.

Lemma cut_op_key o k : op_key o = k -> Forall (fun o' => op_key o' = k) (cut_op o).
Proof. intros H. destruct o; cbn [cut_op op_key] in *; repeat constructor; exact H. Qed.

Lemma crash_prefix_keys ops n p k :
  Forall (fun o => op_key o = k) ops -> Forall (fun o => op_key o = k) (crash_prefix ops n p).
Proof.
  intros H. unfold crash_prefix. apply Forall_app. split; [apply Forall_firstn_keep; exact H|].
  destruct p; [|constructor].
  destruct (nth_error ops n) as [o|] eqn:E; [|constructor].
  apply cut_op_key. rewrite Forall_forall in H. apply H. eapply nth_error_In. exact E.
Qed.

Lemma stale_meta c body st m :
  (mf_ok m = true -> (mf_stamp m <= c)%N) -> (c < st)%N ->
  meta_fresh {| df_body := body; df_stamp := st |} m = false.
Proof.
  intros H Hlt. unfold meta_fresh. cbn [df_stamp df_body].
  destruct (mf_ok m); [|reflexivity].
  assert (N.eqb (mf_stamp m) st = false) as -> by (apply N.eqb_neq; specialize (H eq_refl); lia).
  apply andb_false_r.
Qed.

Lemma bad_meta_stale f : meta_fresh f bad_meta = false.
Proof. reflexivity. Qed.

Section CrashFacts.
Variable md5 : bytes -> bytes.

(* the states a crash inside PutObject can leave for the key that are neither the old nor the
   new object: absent, or an empty / half / complete new body carrying the previous readable
   user metadata or none *)
Definition partial_states (d : disk) (k b : bytes) : list (option (bytes * bytes * umeta)) :=
  let us := [] :: match aget k (d_meta d) with Some m => if mf_ok m then [mf_user m] else [] | None => [] end in
  None :: flat_map (fun u' => map (fun body => Some (body, md5 body, u')) [[]; firstn (Nat.div2 (length b)) b; b]) us.

Lemma observe_ext d d' k :
  aget k (d_data d') = aget k (d_data d) -> aget k (d_meta d') = aget k (d_meta d) ->
  observe md5 d' k = observe md5 d k.
Proof. intros H1 H2. unfold observe. rewrite H1, H2. reflexivity. Qed.

Lemma run_frame d ops k k' :
  Forall (fun o => op_key o = k) ops -> k' <> k ->
  observe md5 (run_ops d ops) k' = observe md5 d k'.
Proof.
  intros HF Hne. destruct (run_other d ops k k' HF Hne) as [H1 H2]. apply observe_ext; assumption.
Qed.

Lemma put_ops_keys d k b u : Forall (fun o => op_key o = k) (put_ops md5 d k b u).
Proof. unfold put_ops. destruct (aget k (d_data d)); repeat constructor. Qed.
Lemma del_ops_keys d k : Forall (fun o => op_key o = k) (del_ops d k).
Proof. unfold del_ops. destruct (aget k (d_data d)); destruct (aget k (d_meta d)); repeat constructor. Qed.

Lemma put_prefix_full d k b u : crash_prefix (put_ops md5 d k b u) 5 false = put_ops md5 d k b u.
Proof. unfold put_ops. destruct (aget k (d_data d)); reflexivity. Qed.

(* a disk built from an object list satisfies the invariant *)
Lemma disk_of_data objs k f :
  aget k (d_data (disk_of md5 objs)) = Some f ->
  df_stamp f = 1%N /\
  forall m, aget k (d_meta (disk_of md5 objs)) = Some m -> mf_stamp m = 1%N /\ mf_hash m = md5 (df_body f).
Proof.
  unfold disk_of. cbn [d_data d_meta].
  induction objs as [|[k0 [b0 u0]] objs IH]; cbn [map aget]; [discriminate|].
  destruct (beq k k0).
  - intros H. injection H as <-. split; [reflexivity|]. intros m Hm. injection Hm as <-. split; reflexivity.
  - exact IH.
Qed.
Lemma disk_of_meta objs k m :
  aget k (d_meta (disk_of md5 objs)) = Some m -> mf_stamp m = 1%N.
Proof.
  unfold disk_of. cbn [d_meta].
  induction objs as [|[k0 [b0 u0]] objs IH]; cbn [map aget]; [discriminate|].
  destruct (beq k k0).
  - intros H. injection H as <-. reflexivity.
  - exact IH.
Qed.
Lemma disk_of_inv objs : DInv md5 (disk_of md5 objs).
Proof.
  split; [split|].
  - intros k f Hf. apply disk_of_data in Hf. destruct Hf as [Hf _]. rewrite Hf. cbn. lia.
  - intros k m Hm _. apply disk_of_meta in Hm. rewrite Hm. cbn. lia.
  - intros k f m Hf Hm _. apply disk_of_data in Hf. destruct Hf as [_ Hf]. apply Hf in Hm. apply Hm.
Qed.

(* ---- the state of the key at every crash point of PutObject ------------------------------- *)
Definition newrec (d : disk) (b : bytes) (u : umeta) : mfile :=
  {| mf_ok := true; mf_hash := md5 b; mf_size := blen b;
     mf_stamp := N.succ (N.succ (d_clock d)); mf_user := u |}.

Lemma put_crash_k d k b u n p d' :
  d' = run_ops d (crash_prefix (put_ops md5 d k b u) n p) ->
  (aget k (d_data d') = aget k (d_data d) /\ aget k (d_meta d') = aget k (d_meta d))
  \/ (aget k (d_data d') = None /\ aget k (d_meta d') = aget k (d_meta d))
  \/ (exists body st,
        In body [[]; firstn (Nat.div2 (length b)) b; b] /\
        aget k (d_data d') = Some {| df_body := body; df_stamp := st |} /\
        (d_clock d < st <= d_clock d')%N /\
        (aget k (d_meta d') = aget k (d_meta d) \/ aget k (d_meta d') = Some bad_meta))
  \/ (aget k (d_data d') = Some {| df_body := b; df_stamp := N.succ (N.succ (d_clock d)) |} /\
      aget k (d_meta d') = Some (newrec d b u) /\
      d_clock d' = N.succ (N.succ (d_clock d))).
Proof.
  intros ->. unfold put_ops.
  destruct (aget k (d_data d)) as [f|] eqn:E;
  destruct n as [|[|[|[|[|[|n]]]]]]; destruct p; try destruct n;
  cbn [crash_prefix app firstn nth_error cut_op run_ops fold_left apply_op d_data d_meta d_clock tick];
  unfold tick; cbn [d_clock];
  rewrite ?aget_aset_eq, ?aget_adel_eq;
  first
  [ left; split; [ first [reflexivity | exact E] | reflexivity ]
  | right; left; split; [reflexivity | reflexivity]
  | right; right; right; split; [reflexivity | split; [reflexivity | reflexivity]]
  | right; right; left; eexists; eexists;
    split; [ | split; [reflexivity | split; [ lia | first [left; reflexivity | right; reflexivity]]]];
    cbn [In]; auto ].
Qed.

Lemma in_partial d k b body u' :
  In body [[]; firstn (Nat.div2 (length b)) b; b] ->
  In u' ([] :: match aget k (d_meta d) with Some m => if mf_ok m then [mf_user m] else [] | None => [] end) ->
  In (Some (body, md5 body, u')) (partial_states d k b).
Proof.
  intros Hb Hu. unfold partial_states. cbv zeta. right. apply in_flat_map. exists u'. split; [exact Hu|].
  apply in_map_iff. exists body. split; [reflexivity| exact Hb].
Qed.

(* 2. whatever the crash point, no other key is affected *)
Lemma put_crash_frame d k b u n p k' :
  k' <> k -> observe md5 (run_ops d (crash_prefix (put_ops md5 d k b u) n p)) k' = observe md5 d k'.
Proof.
  intros Hne. apply run_frame with (k := k); [|exact Hne].
  apply crash_prefix_keys. apply put_ops_keys.
Qed.
Lemma del_crash_frame d k n p k' :
  k' <> k -> observe md5 (run_ops d (crash_prefix (del_ops d k) n p)) k' = observe md5 d k'.
Proof.
  intros Hne. apply run_frame with (k := k); [|exact Hne].
  apply crash_prefix_keys. apply del_ops_keys.
Qed.

(* 3. DeleteObject is crash-atomic: at every crash point the key is as before or gone; run to
      completion it is gone *)
Lemma del_crash_atomic d k n p :
  let o := observe md5 (run_ops d (crash_prefix (del_ops d k) n p)) k in
  o = observe md5 d k \/ o = None.
Proof.
  intros o. subst o. unfold del_ops.
  destruct (aget k (d_data d)) as [f|] eqn:E; destruct (aget k (d_meta d)) as [m|] eqn:Em;
  destruct n as [|[|[|n]]]; destruct p; try destruct n;
  cbn [crash_prefix app firstn nth_error cut_op run_ops fold_left apply_op];
  unfold observe; cbn [d_data d_meta]; rewrite ?aget_adel_eq, ?E; auto.
Qed.
Lemma del_complete d k : observe md5 (run_ops d (del_ops d k)) k = None.
Proof.
  unfold del_ops.
  destruct (aget k (d_data d)) as [f|] eqn:E; destruct (aget k (d_meta d)) as [m|] eqn:Em;
  cbn [app run_ops fold_left apply_op];
  unfold observe; cbn [d_data d_meta]; rewrite ?aget_adel_eq, ?E; reflexivity.
Qed.

(* 4. every state a crash inside PutObject can leave for the key: the old object, the new
      object, or one of the partial states *)
Lemma put_crash_outcomes d k b u n p :
  DInv md5 d ->
  In (observe md5 (run_ops d (crash_prefix (put_ops md5 d k b u) n p)) k)
     (observe md5 d k :: Some (b, md5 b, u) :: partial_states d k b).
Proof.
  intros [[HBd HBm] HC].
  destruct (put_crash_k d k b u n p _ eq_refl)
    as [[Hd Hm]|[[Hd Hm]|[(body & st & Hin & Hd & Hst & Hm)|(Hd & Hm & Hc)]]].
  - left. symmetry. apply observe_ext; assumption.
  - right; right. left. unfold observe. rewrite Hd. reflexivity.
  - right; right. unfold observe. rewrite Hd. cbv beta iota. destruct Hm as [Hm|Hm]; rewrite Hm.
    + destruct (aget k (d_meta d)) as [m|] eqn:Em.
      * rewrite (stale_meta (d_clock d) body st m); [|apply (HBm k m Em)|lia].
        cbn [df_body]. apply in_partial; [exact Hin|]. rewrite Em.
        destruct (mf_ok m); cbn [In]; auto.
      * cbn [df_body]. apply in_partial; [exact Hin | left; reflexivity].
    + rewrite bad_meta_stale. cbn [df_body mf_ok bad_meta].
      apply in_partial; [exact Hin | left; reflexivity].
  - right; left. unfold observe. rewrite Hd, Hm. cbv beta iota.
    destruct (meta_fresh _ _); reflexivity.
Qed.

(* 5. the invariant survives every crash point, hence (by 1.) the next complete PutObject of
      the key repairs it *)
Lemma put_crash_inv d k b u n p :
  DInv md5 d -> DInv md5 (run_ops d (crash_prefix (put_ops md5 d k b u) n p)).
Proof.
  intros [[HBd HBm] HC].
  pose proof (put_crash_k d k b u n p _ eq_refl) as H.
  pose proof (run_clock d (crash_prefix (put_ops md5 d k b u) n p)) as Hclk.
  assert (Hoth : forall k', k' <> k ->
     aget k' (d_data (run_ops d (crash_prefix (put_ops md5 d k b u) n p))) = aget k' (d_data d) /\
     aget k' (d_meta (run_ops d (crash_prefix (put_ops md5 d k b u) n p))) = aget k' (d_meta d)).
  { intros k' Hne. apply run_other with (k := k); [|exact Hne].
    apply crash_prefix_keys. apply put_ops_keys. }
  set (d' := run_ops d (crash_prefix (put_ops md5 d k b u) n p)) in *.
  split; [split|].
  - intros k0 f Hf. destruct (list_eq_dec N.eq_dec k0 k) as [->|Hne].
    + destruct H as [[Hd Hm]|[[Hd Hm]|[(body & st & Hin & Hd & Hst & Hm)|(Hd & Hm & Hc)]]];
        rewrite Hd in Hf.
      * apply HBd in Hf. lia.
      * discriminate.
      * injection Hf as <-. cbn [df_stamp]. lia.
      * injection Hf as <-. cbn [df_stamp]. lia.
    + rewrite (proj1 (Hoth k0 Hne)) in Hf. apply HBd in Hf. lia.
  - intros k0 m Hm0 Hok. destruct (list_eq_dec N.eq_dec k0 k) as [->|Hne].
    + destruct H as [[Hd Hm]|[[Hd Hm]|[(body & st & Hin & Hd & Hst & [Hm|Hm])|(Hd & Hm & Hc)]]];
        rewrite Hm in Hm0.
      * apply HBm in Hm0; [lia|exact Hok].
      * apply HBm in Hm0; [lia|exact Hok].
      * apply HBm in Hm0; [lia|exact Hok].
      * injection Hm0 as <-. discriminate.
      * injection Hm0 as <-. cbn [mf_stamp newrec]. lia.
    + rewrite (proj2 (Hoth k0 Hne)) in Hm0. apply HBm in Hm0; [lia|exact Hok].
  - intros k0 f m Hf Hm0 Hfr. destruct (list_eq_dec N.eq_dec k0 k) as [->|Hne].
    + destruct H as [[Hd Hm]|[[Hd Hm]|[(body & st & Hin & Hd & Hst & [Hm|Hm])|(Hd & Hm & Hc)]]];
        rewrite Hd in Hf; rewrite Hm in Hm0.
      * apply (HC k f m Hf Hm0 Hfr).
      * discriminate.
      * injection Hf as <-.
        rewrite (stale_meta (d_clock d) body st m) in Hfr; [discriminate| |lia].
        apply (HBm k m Hm0).
      * injection Hf as <-. injection Hm0 as <-. rewrite bad_meta_stale in Hfr. discriminate.
      * injection Hf as <-. injection Hm0 as <-. reflexivity.
    + rewrite (proj1 (Hoth k0 Hne)) in Hf. rewrite (proj2 (Hoth k0 Hne)) in Hm0.
      apply (HC k0 f m Hf Hm0 Hfr).
Qed.

(* 1. an uninterrupted PutObject is the abstract put: the key answers the new object, every
      other key answers as before, and the invariant is kept *)
Lemma put_complete d k b u :
  DInv md5 d ->
  let d' := run_ops d (put_ops md5 d k b u) in
  observe md5 d' k = Some (b, md5 b, u) /\
  (forall k', k' <> k -> observe md5 d' k' = observe md5 d k') /\
  DInv md5 d'.
Proof.
  intros HI d'. subst d'. split; [|split].
  - unfold put_ops. destruct (aget k (d_data d)) as [f|];
    cbn [app run_ops fold_left apply_op d_data d_meta d_clock tick];
    unfold observe; cbn [d_data d_meta]; rewrite !aget_aset_eq;
    destruct (meta_fresh _ _); reflexivity.
  - intros k' Hne. apply run_frame with (k := k); [apply put_ops_keys | exact Hne].
  - rewrite <- put_prefix_full. apply put_crash_inv. exact HI.
Qed.

Lemma put_crash_repair d k b u n p b2 u2 :
  DInv md5 d ->
  let dc := run_ops d (crash_prefix (put_ops md5 d k b u) n p) in
  observe md5 (run_ops dc (put_ops md5 dc k b2 u2)) k = Some (b2, md5 b2, u2).
Proof.
  intros HI dc.
  assert (HIc : DInv md5 dc) by (apply put_crash_inv; exact HI).
  apply (put_complete dc k b2 u2 HIc).
Qed.

Lemma observe_some d k f : aget k (d_data d) = Some f -> observe md5 d k <> None.
Proof.
  unfold observe. intros ->.
  destruct (aget k (d_meta d)) as [m|]; [destruct (meta_fresh f m)|]; discriminate.
Qed.

(* 6. PutObject is NOT crash-atomic: there is a disk, a write and a crash point after which the
      key is neither the old nor the new object (the previous, acknowledged object is gone) *)
Lemma put_crash_not_atomic :
  exists d k b u n p,
    DInv md5 d /\
    observe md5 (run_ops d (crash_prefix (put_ops md5 d k b u) n p)) k <> observe md5 d k /\
    observe md5 (run_ops d (crash_prefix (put_ops md5 d k b u) n p)) k <> Some (b, md5 b, u).
Proof.
  exists (disk_of md5 [(B "a", (B "old", []))]), (B "a"), (B "new"), [], 1%nat, false.
  split; [apply disk_of_inv|].
  assert (HL : observe md5
                 (run_ops (disk_of md5 [(B "a", (B "old", []))])
                    (crash_prefix (put_ops md5 (disk_of md5 [(B "a", (B "old", []))]) (B "a") (B "new") [])
                       1 false)) (B "a") = None) by (vm_compute; reflexivity).
  rewrite HL. split.
  - intros H. symmetry in H. revert H.
    apply observe_some with (f := {| df_body := B "old"; df_stamp := 1 |}).
    vm_compute. reflexivity.
  - discriminate.
Qed.
End CrashFacts.

Print Assumptions put_crash_outcomes.
Print Assumptions put_complete.
Print Assumptions put_crash_repair.
