(* TASK T3.  Multipart uploads (property C06) over Model/Uploader.v.  The main statements are
   fixed in content; you choose and prove the uploader invariant they need. *)
From GF Require Import Base.Bytes Base.SortedMap Model.Mem Model.Handlers Model.Uploader
  Proofs.BytesFacts Proofs.SortedMapFacts Proofs.MemProofs Proofs.MemInv.
From Coq Require Import Lia ZifyBool ZifyNat ZifyN.
Open Scope Z_scope.

(* ------------------------------------------------------------------------------------ *)
(* the id-indexed association list (Go map id -> upload)                                *)
(* ------------------------------------------------------------------------------------ *)

Lemma up_get_set_eq id u l : up_get id (up_set id u l) = Some u.
Proof.
  induction l as [|[i v] l IH]; cbn [up_set up_get].
  - rewrite N.eqb_refl. reflexivity.
  - destruct (N.eqb i id) eqn:E; cbn [up_get].
    + rewrite N.eqb_refl. reflexivity.
    + rewrite E. exact IH.
Qed.

Lemma up_get_set_neq id id' u l : id' <> id -> up_get id' (up_set id u l) = up_get id' l.
Proof.
  intros Hne. induction l as [|[i v] l IH]; cbn [up_set up_get].
  - destruct (N.eqb id id') eqn:E; [apply N.eqb_eq in E; congruence|reflexivity].
  - destruct (N.eqb i id) eqn:E; cbn [up_get].
    + apply N.eqb_eq in E. subst i.
      destruct (N.eqb id id') eqn:E2; [apply N.eqb_eq in E2; congruence|reflexivity].
    + destruct (N.eqb i id'); [reflexivity|exact IH].
Qed.

Lemma up_get_in id u l : up_get id l = Some u -> In (id, u) l.
Proof.
  induction l as [|[i v] l IH]; cbn [up_get]; [discriminate|].
  destruct (N.eqb i id) eqn:E.
  - intros H. inversion H; subst. apply N.eqb_eq in E. subst. left; reflexivity.
  - intros H. right. auto.
Qed.

Lemma up_get_notin id l : ~ In id (map fst l) -> up_get id l = None.
Proof.
  induction l as [|[i v] l IH]; cbn [up_get map fst In]; [reflexivity|].
  intros H. destruct (N.eqb i id) eqn:E.
  - apply N.eqb_eq in E. exfalso. apply H. left. exact E.
  - apply IH. intros H1. apply H. right. exact H1.
Qed.

Lemma up_get_del_eq id l : NoDup (map fst l) -> up_get id (up_del id l) = None.
Proof.
  induction l as [|[i v] l IH]; cbn [up_del up_get map fst]; [reflexivity|].
  intros H. inversion H as [|x xs Hn Hd]; subst.
  destruct (N.eqb i id) eqn:E.
  - apply N.eqb_eq in E. subst. apply up_get_notin. exact Hn.
  - cbn [up_get]. rewrite E. apply IH. exact Hd.
Qed.

Lemma up_get_del_neq id id' l : id' <> id -> up_get id' (up_del id l) = up_get id' l.
Proof.
  intros Hne. induction l as [|[i v] l IH]; cbn [up_del up_get]; [reflexivity|].
  destruct (N.eqb i id) eqn:E.
  - apply N.eqb_eq in E. subst.
    destruct (N.eqb id id') eqn:E2; [apply N.eqb_eq in E2; congruence|reflexivity].
  - cbn [up_get]. destruct (N.eqb i id'); [reflexivity|exact IH].
Qed.

Lemma in_up_set_inv i u id v l : In (i, u) (up_set id v l) -> (i, u) = (id, v) \/ In (i, u) l.
Proof.
  induction l as [|[j w] l IH]; cbn [up_set In].
  - intros [H|[]]. left. symmetry. exact H.
  - destruct (N.eqb j id) eqn:E; cbn [In].
    + intros [H|H]; [left; symmetry; exact H|right; right; exact H].
    + intros [H|H]; [right; left; exact H|]. destruct (IH H) as [H1|H1]; auto.
Qed.

Lemma in_fst_up_set i id v l : In i (map fst (up_set id v l)) -> i = id \/ In i (map fst l).
Proof.
  induction l as [|[j w] l IH]; cbn [up_set map fst In].
  - intros [H|[]]. left. symmetry. exact H.
  - destruct (N.eqb j id) eqn:E; cbn [map fst In].
    + apply N.eqb_eq in E. subst j. intros [H|H]; [left; symmetry; exact H|right; right; exact H].
    + intros [H|H]; [right; left; exact H|]. destruct (IH H) as [H1|H1]; auto.
Qed.

Lemma NoDup_up_set id v l : NoDup (map fst l) -> NoDup (map fst (up_set id v l)).
Proof.
  induction l as [|[j w] l IH]; cbn [up_set map fst].
  - intros _. constructor; [intros []|constructor].
  - intros H. inversion H as [|x xs Hn Hd]; subst.
    destruct (N.eqb j id) eqn:E; cbn [map fst].
    + apply N.eqb_eq in E. subst j. constructor; assumption.
    + constructor; [|apply IH; exact Hd]. intros H1. apply in_fst_up_set in H1.
      destruct H1 as [H1|H1].
      * subst. rewrite N.eqb_refl in E. discriminate.
      * contradiction.
Qed.

Lemma in_up_del_inv x id l : In x (up_del id l) -> In x l.
Proof.
  induction l as [|[j w] l IH]; cbn [up_del In]; [trivial|].
  destruct (N.eqb j id); cbn [In]; [auto|]. intros [H|H]; auto.
Qed.

Lemma in_fst_up_del i id l : In i (map fst (up_del id l)) -> In i (map fst l).
Proof.
  induction l as [|[j w] l IH]; cbn [up_del map fst In]; [trivial|].
  destruct (N.eqb j id); cbn [map fst In]; [auto|]. intros [H|H]; auto.
Qed.

Lemma NoDup_up_del id l : NoDup (map fst l) -> NoDup (map fst (up_del id l)).
Proof.
  induction l as [|[j w] l IH]; cbn [up_del map fst]; [trivial|].
  intros H. inversion H as [|x xs Hn Hd]; subst.
  destruct (N.eqb j id); cbn [map fst]; [exact Hd|].
  constructor; [|apply IH; exact Hd]. intros H1. apply Hn. eapply in_fst_up_del. exact H1.
Qed.

(* ------------------------------------------------------------------------------------ *)
(* set_nth                                                                              *)
(* ------------------------------------------------------------------------------------ *)

Lemma nth_set_nth_eq n p l : nth_error (set_nth n p l) n = Some (Some p).
Proof.
  revert l. induction n as [|n IH]; intros [|x l]; cbn [set_nth nth_error]; auto.
Qed.

Lemma nth_set_nth_neq n p l m :
  m <> n -> (m < length l)%nat -> nth_error (set_nth n p l) m = nth_error l m.
Proof.
  revert l m. induction n as [|n IH]; intros [|x l] m Hne Hlt; cbn [length] in Hlt; try lia.
  - destruct m; [congruence|reflexivity].
  - destruct m; cbn [set_nth nth_error]; [reflexivity|]. apply IH; lia.
Qed.

Lemma length_set_nth n p l : length (set_nth n p l) = Nat.max (S n) (length l).
Proof.
  revert l. induction n as [|n IH]; intros [|x l]; cbn [set_nth length]; try rewrite IH;
    cbn [length]; lia.
Qed.

(* ------------------------------------------------------------------------------------ *)
(* ints_sorted                                                                          *)
(* ------------------------------------------------------------------------------------ *)

Lemma ints_sorted_cons2 a b l : ints_sorted (a :: b :: l) = (a <=? b) && ints_sorted (b :: l).
Proof. reflexivity. Qed.

Lemma ints_sorted_head a l : ints_sorted (a :: l) = true -> forall x, In x l -> a <= x.
Proof.
  revert a. induction l as [|b l IH]; intros a H x Hx; [destruct Hx|].
  rewrite ints_sorted_cons2 in H. apply andb_true_iff in H. destruct H as [H1 H2].
  destruct Hx as [Hx|Hx]; [subst; lia|]. specialize (IH b H2 x Hx). lia.
Qed.

Lemma ints_sorted_tail a l : ints_sorted (a :: l) = true -> ints_sorted l = true.
Proof.
  destruct l as [|b l]; [reflexivity|]. rewrite ints_sorted_cons2. intros H.
  apply andb_true_iff in H. tauto.
Qed.

Lemma ints_sorted_app l1 l : ints_sorted (l1 ++ l) = true -> ints_sorted l = true.
Proof.
  induction l1 as [|a l1 IH]; cbn [app]; [auto|]. intros H. apply IH.
  eapply ints_sorted_tail. exact H.
Qed.

Lemma ints_sorted_descent l1 a l2 c l3 : c < a -> ints_sorted (l1 ++ a :: l2 ++ c :: l3) = false.
Proof.
  intros Hlt. destruct (ints_sorted (l1 ++ a :: l2 ++ c :: l3)) eqn:E; [|reflexivity]. exfalso.
  apply ints_sorted_app in E. pose proof (ints_sorted_head _ _ E c) as H.
  assert (a <= c) by (apply H; apply in_or_app; right; left; reflexivity). lia.
Qed.

(* ------------------------------------------------------------------------------------ *)
(* check_parts                                                                          *)
(* ------------------------------------------------------------------------------------ *)

Lemma check_parts_inl parts req e : check_parts parts req = inl e -> e = Some UInvalidPart.
Proof.
  revert e. induction req as [|[n et] req IH]; intros e; cbn [check_parts]; [discriminate|].
  destruct (n <? 0); [intros H; inversion H; reflexivity|].
  destruct (nth_error parts (Z.to_nat n)) as [[p|]|]; try (intros H; inversion H; reflexivity).
  destruct (negb (beq (trim_quotes et) (trim_quotes (pt_etag p))));
    [intros H; inversion H; reflexivity|].
  destruct (check_parts parts req) as [e'|ps]; [|discriminate].
  intros H. inversion H; subst. apply IH. reflexivity.
Qed.

Lemma check_parts_inr parts req ps : check_parts parts req = inr ps ->
  Forall2 (fun r p => 0 <= fst r /\ nth_error parts (Z.to_nat (fst r)) = Some (Some p)) req ps.
Proof.
  revert ps. induction req as [|[n et] req IH]; intros ps; cbn [check_parts].
  - intros H. inversion H. constructor.
  - destruct (n <? 0) eqn:En; [discriminate|].
    destruct (nth_error parts (Z.to_nat n)) as [[p|]|] eqn:Ep; try discriminate.
    destruct (negb (beq (trim_quotes et) (trim_quotes (pt_etag p)))); [discriminate|].
    destruct (check_parts parts req) as [e'|ps']; [discriminate|].
    intros H. inversion H; subst.
    constructor; [cbn [fst]; split; [lia|exact Ep]|apply IH; reflexivity].
Qed.

(* the stored etag of every accepted part matches the requested one modulo quotes *)
Lemma check_parts_inr_etag parts req ps : check_parts parts req = inr ps ->
  Forall2 (fun r p => trim_quotes (snd r) = trim_quotes (pt_etag p)) req ps.
Proof.
  revert ps. induction req as [|[n et] req IH]; intros ps; cbn [check_parts].
  - intros H. inversion H. constructor.
  - destruct (n <? 0) eqn:En; [discriminate|].
    destruct (nth_error parts (Z.to_nat n)) as [[p|]|] eqn:Ep; try discriminate.
    destruct (beq (trim_quotes et) (trim_quotes (pt_etag p))) eqn:Eb; cbn [negb]; [|discriminate].
    destruct (check_parts parts req) as [e'|ps']; [discriminate|].
    intros H. inversion H; subst.
    constructor; [cbn [snd]; apply beq_eq; exact Eb|apply IH; reflexivity].
Qed.

Lemma check_parts_length parts req ps : check_parts parts req = inr ps -> length ps = length req.
Proof.
  intros H. apply check_parts_inr in H.
  induction H as [|r p req ps _ _ IH]; cbn [length]; [reflexivity|]. rewrite IH. reflexivity.
Qed.

Lemma check_parts_bad parts req n et0 :
  In (n, et0) req ->
  (n < 0 \/ nth_error parts (Z.to_nat n) = None \/ nth_error parts (Z.to_nat n) = Some None) ->
  check_parts parts req = inl (Some UInvalidPart).
Proof.
  induction req as [|[n' et'] req IH]; [intros []|]. intros [H|H] Hbad; cbn [check_parts].
  - inversion H; subst. destruct (n <? 0) eqn:En; [reflexivity|].
    destruct Hbad as [Hb|[Hb|Hb]]; [lia|rewrite Hb; reflexivity..].
  - destruct (n' <? 0); [reflexivity|].
    destruct (nth_error parts (Z.to_nat n')) as [[p|]|]; try reflexivity.
    destruct (negb (beq (trim_quotes et') (trim_quotes (pt_etag p)))); [reflexivity|].
    rewrite (IH H Hbad). reflexivity.
Qed.

Lemma check_parts_stale parts req n et0 p :
  In (n, et0) req -> 0 <= n -> nth_error parts (Z.to_nat n) = Some (Some p) ->
  trim_quotes et0 <> trim_quotes (pt_etag p) ->
  check_parts parts req = inl (Some UInvalidPart).
Proof.
  induction req as [|[n' et'] req IH]; [intros []|]. intros [H|H] Hn Hp Hne; cbn [check_parts].
  - inversion H; subst. destruct (n <? 0) eqn:En; [reflexivity|]. rewrite Hp.
    apply beq_neq in Hne. rewrite Hne. reflexivity.
  - destruct (n' <? 0); [reflexivity|].
    destruct (nth_error parts (Z.to_nat n')) as [[p'|]|]; try reflexivity.
    destruct (negb (beq (trim_quotes et') (trim_quotes (pt_etag p')))); [reflexivity|].
    rewrite (IH H Hn Hp Hne). reflexivity.
Qed.

(* ------------------------------------------------------------------------------------ *)
(* per-bucket invariant                                                                 *)
(* ------------------------------------------------------------------------------------ *)

Definition bu_ok (n : N) (bu : bucket_uploads) : Prop :=
  NoDup (map fst (bu_uploads bu)) /\
  forall i mpu, In (i, mpu) (bu_uploads bu) -> up_id mpu = i /\ (i <= n)%N /\ (0 < i)%N.

Lemma bu_ok_mono n n' bu : bu_ok n bu -> (n <= n')%N -> bu_ok n' bu.
Proof.
  intros [H1 H2] Hle. split; [exact H1|]. intros i mpu Hi.
  destruct (H2 _ _ Hi) as (A & B & C). repeat split; [exact A|lia|exact C].
Qed.

Lemma bu_ok_empty n idx : bu_ok n {| bu_uploads := []; bu_index := idx |}.
Proof. split; cbn [bu_uploads map]; [constructor|intros i mpu []]. Qed.

Lemma bu_ok_set n bu id mpu idx :
  bu_ok n bu -> up_id mpu = id -> (id <= n)%N -> (0 < id)%N ->
  bu_ok n {| bu_uploads := up_set id mpu (bu_uploads bu); bu_index := idx |}.
Proof.
  intros [H1 H2] Hid Hle Hpos. split; cbn [bu_uploads].
  - apply NoDup_up_set. exact H1.
  - intros i m Hi. apply in_up_set_inv in Hi. destruct Hi as [Hi|Hi].
    + inversion Hi; subst. auto.
    + apply H2. exact Hi.
Qed.

Lemma bu_ok_del n bu id idx :
  bu_ok n bu -> bu_ok n {| bu_uploads := up_del id (bu_uploads bu); bu_index := idx |}.
Proof.
  intros [H1 H2]. split; cbn [bu_uploads].
  - apply NoDup_up_del. exact H1.
  - intros i m Hi. apply in_up_del_inv in Hi. apply H2. exact Hi.
Qed.

Section U.
Variable md5 : list N -> list N.
Variable hex : list N -> list N.

(* Invariant of the uploader state: define it (suggestion: u_buckets sorted; in every bucket the
   ids in bu_uploads are pairwise distinct and <= u_next; every upload is stored under its own id
   (up_id = key of the entry)).  Prove it for uinit and its preservation by create_upload,
   upload_part, abort_upload, complete_upload. *)
Definition UInv (u : ustate) : Prop :=
  sorted (u_buckets u) /\
  forall b bu, In (b, bu) (u_buckets u) ->
    NoDup (map fst (bu_uploads bu)) /\
    forall i mpu, In (i, mpu) (bu_uploads bu) -> up_id mpu = i /\ (i <= u_next u)%N /\ (0 < i)%N.

Lemma uinv_bu u b bu : UInv u -> sm_get b (u_buckets u) = Some bu -> bu_ok (u_next u) bu.
Proof. intros [_ H] Hg. apply get_in in Hg. exact (H _ _ Hg). Qed.

Lemma uinv_set u b bu n' :
  UInv u -> (u_next u <= n')%N -> bu_ok n' bu ->
  UInv {| u_next := n'; u_buckets := sm_set b bu (u_buckets u) |}.
Proof.
  intros [Hs Hall] Hle Hbu. split; cbn [u_buckets u_next].
  - apply sorted_set. exact Hs.
  - intros b0 bu0 Hin. apply in_set_inv in Hin. destruct Hin as [Hin|Hin].
    + inversion Hin; subst. exact Hbu.
    + apply (bu_ok_mono (u_next u)); [exact (Hall _ _ Hin)|exact Hle].
Qed.

(* what a successful lookup means *)
Lemma get_upload_some u b k id mpu :
  get_upload u b k id = Some mpu ->
  exists bu, sm_get b (u_buckets u) = Some bu /\ up_get id (bu_uploads bu) = Some mpu /\ up_key mpu = k.
Proof.
  unfold get_upload. destruct (sm_get b (u_buckets u)) as [bu|]; [|discriminate].
  destruct (up_get id (bu_uploads bu)) as [m|] eqn:Eu; [|discriminate].
  destruct (beq (up_key m) k) eqn:Ek; [|discriminate].
  intros H. inversion H; subst. exists bu. apply beq_eq in Ek. auto.
Qed.

Lemma get_upload_id u b k id mpu :
  UInv u -> get_upload u b k id = Some mpu -> up_id mpu = id /\ (id <= u_next u)%N /\ (0 < id)%N.
Proof.
  intros Hinv Hg. apply get_upload_some in Hg. destruct Hg as (bu & Eb & Eu & _).
  destruct (uinv_bu _ _ _ Hinv Eb) as [_ H]. apply H. apply up_get_in. exact Eu.
Qed.

(* lookups after replacing the uploads of one bucket *)
Lemma get_upload_set_same u n' b bu' k id :
  get_upload {| u_next := n'; u_buckets := sm_set b bu' (u_buckets u) |} b k id =
  match up_get id (bu_uploads bu') with
  | Some mpu => if beq (up_key mpu) k then Some mpu else None
  | None => None
  end.
Proof. unfold get_upload. cbn [u_buckets]. rewrite get_set_eq. reflexivity. Qed.

Lemma get_upload_frame u n' b bu' b' k' id' :
  up_get id' (bu_uploads bu') =
    match sm_get b (u_buckets u) with Some bu => up_get id' (bu_uploads bu) | None => None end ->
  get_upload {| u_next := n'; u_buckets := sm_set b bu' (u_buckets u) |} b' k' id' =
  get_upload u b' k' id'.
Proof.
  intros H. unfold get_upload. cbn [u_buckets]. destruct (beq b' b) eqn:E.
  - apply beq_eq in E. subst b'. rewrite get_set_eq. rewrite H.
    destruct (sm_get b (u_buckets u)); reflexivity.
  - apply beq_neq in E. rewrite get_set_neq by exact E. reflexivity.
Qed.

(* ids are never reused: nothing is stored under an id above the counter *)
Lemma get_upload_above u b k id : UInv u -> (u_next u < id)%N -> get_upload u b k id = None.
Proof.
  intros Hinv Hlt. destruct (get_upload u b k id) as [mpu|] eqn:Eg; [|reflexivity].
  apply (get_upload_id _ _ _ _ _ Hinv) in Eg. lia.
Qed.

Lemma uinv_init : UInv uinit.
Proof. split; cbn [uinit u_buckets]; [exact I|intros b bu []]. Qed.

Lemma create_upload_inv u b k m : UInv u -> UInv (fst (create_upload u b k m)).
Proof.
  intros Hinv. unfold create_upload. cbv zeta. cbn [fst].
  apply uinv_set; [exact Hinv|lia|].
  apply bu_ok_set; [|reflexivity|lia|lia].
  destruct (sm_get b (u_buckets u)) as [bu|] eqn:Eb.
  - apply (bu_ok_mono (u_next u)); [exact (uinv_bu _ _ _ Hinv Eb)|lia].
  - apply bu_ok_empty.
Qed.

Lemma set_upload_inv u b mpu :
  UInv u -> (up_id mpu <= u_next u)%N -> (0 < up_id mpu)%N -> UInv (set_upload u b mpu).
Proof.
  intros Hinv Hle Hpos. unfold set_upload.
  destruct (sm_get b (u_buckets u)) as [bu|] eqn:Eb; [|exact Hinv].
  apply uinv_set; [exact Hinv|lia|].
  apply bu_ok_set; [exact (uinv_bu _ _ _ Hinv Eb)|reflexivity|exact Hle|exact Hpos].
Qed.

Lemma remove_upload_inv u b id : UInv u -> UInv (remove_upload u b id).
Proof.
  intros Hinv. unfold remove_upload.
  destruct (sm_get b (u_buckets u)) as [bu|] eqn:Eb; [|exact Hinv].
  destruct (up_get id (bu_uploads bu)) as [mpu|] eqn:Eu; [|exact Hinv].
  cbv zeta. apply uinv_set; [exact Hinv|lia|].
  apply bu_ok_del. exact (uinv_bu _ _ _ Hinv Eb).
Qed.

Lemma upload_part_inv u b k id pn body : UInv u -> UInv (fst (upload_part md5 hex u b k id pn body)).
Proof.
  intros Hinv. unfold upload_part.
  destruct ((pn <=? 0) || (max_part_number <? pn)); [exact Hinv|].
  destruct (blen body <=? 0); [exact Hinv|].
  destruct (get_upload u b k id) as [mpu|] eqn:Eg; [|exact Hinv].
  cbv zeta. cbn [fst].
  destruct (get_upload_id _ _ _ _ _ Hinv Eg) as (A & B & C).
  apply set_upload_inv; [exact Hinv|cbn [up_id]; lia..].
Qed.

Lemma abort_upload_inv u b k id : UInv u -> UInv (fst (abort_upload u b k id)).
Proof.
  intros Hinv. unfold abort_upload.
  destruct (get_upload u b k id); cbn [fst]; [apply remove_upload_inv|]; exact Hinv.
Qed.

(* the uploader state after a complete: unchanged or that one upload removed *)
Lemma complete_upload_ustate u s b k id req :
  fst (fst (complete_upload md5 hex u s b k id req)) = u \/
  fst (fst (complete_upload md5 hex u s b k id req)) = remove_upload u b id.
Proof.
  unfold complete_upload.
  destruct (get_upload u b k id) as [mpu|]; [|left; reflexivity].
  destruct (Nat.ltb (length (up_parts mpu)) (length req)); [left; reflexivity|].
  destruct (negb (ints_sorted (map fst req))); [left; reflexivity|].
  destruct (check_parts (up_parts mpu) req) as [[e|]|ps]; [left; reflexivity..|].
  cbv zeta.
  destruct (put_object s b k (flat_map pt_body ps) (carry_meta s b k (up_meta mpu))) as [s' [[e|] r]];
    [left|right]; reflexivity.
Qed.

Lemma complete_upload_inv u s b k id req : UInv u -> UInv (fst (fst (complete_upload md5 hex u s b k id req))).
Proof.
  intros Hinv. destruct (complete_upload_ustate u s b k id req) as [H|H]; rewrite H;
    [|apply remove_upload_inv]; exact Hinv.
Qed.

(* a new upload gets a fresh id and starts with no parts *)
Lemma create_upload_fresh u b k m u1 id :
  UInv u -> create_upload u b k m = (u1, id) ->
  (forall b' k', get_upload u b' k' id = None) /\
  exists mpu, get_upload u1 b k id = Some mpu /\ up_parts mpu = [] /\ up_meta mpu = m /\
  (forall b' k' id', id' <> id -> get_upload u1 b' k' id' = get_upload u b' k' id').
Proof.
  intros Hinv Hc. unfold create_upload in Hc. cbv zeta in Hc. inversion Hc as [[Hu Hid]]. clear Hc.
  split.
  - intros b' k'. apply get_upload_above; [exact Hinv|lia].
  - eexists. split; [|split; [|split]].
    + rewrite get_upload_set_same. cbn [bu_uploads]. rewrite up_get_set_eq. cbn [up_key].
      rewrite beq_refl. reflexivity.
    + reflexivity.
    + reflexivity.
    + intros b' k' id' Hne. apply get_upload_frame. cbn [bu_uploads].
      rewrite up_get_set_neq by exact Hne.
      destruct (sm_get b (u_buckets u)); reflexivity.
Qed.

(* removing an existing upload *)
Lemma remove_upload_spec u b k id mpu :
  UInv u -> get_upload u b k id = Some mpu ->
  get_upload (remove_upload u b id) b k id = None /\
  (forall b' k' id', id' <> id ->
     get_upload (remove_upload u b id) b' k' id' = get_upload u b' k' id').
Proof.
  intros Hinv Hg. apply get_upload_some in Hg. destruct Hg as (bu & Eb & Eu & Ek).
  unfold remove_upload. rewrite Eb, Eu. cbv zeta. split.
  - rewrite get_upload_set_same. cbn [bu_uploads].
    rewrite up_get_del_eq; [reflexivity|]. exact (proj1 (uinv_bu _ _ _ Hinv Eb)).
  - intros b' k' id' Hne. apply get_upload_frame. cbn [bu_uploads]. rewrite Eb.
    apply up_get_del_neq. exact Hne.
Qed.

(* the latest upload of a part number wins; other parts and other uploads are untouched *)
Lemma upload_part_latest u b k id pn body u1 et :
  UInv u -> upload_part md5 hex u b k id pn body = (u1, (None, et)) ->
  et = part_etag md5 hex body /\
  exists mpu mpu1, get_upload u b k id = Some mpu /\ get_upload u1 b k id = Some mpu1 /\
    nth_error (up_parts mpu1) (Z.to_nat pn) = Some (Some {| pt_body := body; pt_etag := et |}) /\
    (forall n, n <> Z.to_nat pn -> (n < length (up_parts mpu))%nat -> nth_error (up_parts mpu1) n = nth_error (up_parts mpu) n) /\
    up_meta mpu1 = up_meta mpu /\
    (forall b' k' id', id' <> id -> get_upload u1 b' k' id' = get_upload u b' k' id').
Proof.
  intros Hinv. unfold upload_part.
  destruct ((pn <=? 0) || (max_part_number <? pn)); [discriminate|].
  destruct (blen body <=? 0); [discriminate|].
  destruct (get_upload u b k id) as [mpu|] eqn:Eg; [|discriminate].
  cbv zeta. intros H. inversion H as [[Hu Het]]. clear H. split; [reflexivity|].
  destruct (get_upload_id _ _ _ _ _ Hinv Eg) as (Hid & _ & _).
  apply get_upload_some in Eg. destruct Eg as (bu & Eb & Eu & Ek).
  unfold set_upload. rewrite Eb. cbn [up_id]. rewrite Hid.
  eexists _, _. split; [reflexivity|]. split; [|split; [|split; [|split]]].
  - rewrite get_upload_set_same. cbn [bu_uploads]. rewrite up_get_set_eq. cbn [up_key].
    rewrite Ek, beq_refl. reflexivity.
  - cbn [up_parts]. apply nth_set_nth_eq.
  - intros n Hne Hlt. cbn [up_parts]. apply nth_set_nth_neq; assumption.
  - reflexivity.
  - intros b' k' id' Hne. apply get_upload_frame. cbn [bu_uploads]. rewrite Eb.
    apply up_get_set_neq. exact Hne.
Qed.

(* an accepted complete: the part list is ascending, every listed part is the part currently
   held under that number, the object body is exactly their concatenation in the listed order,
   the ETag is the composite one, the object carries the initiation metadata, the upload id
   stops existing *)
Lemma complete_ok u s b k id req u1 s1 et :
  UInv u -> complete_upload md5 hex u s b k id req = (u1, s1, (None, et)) ->
  exists mpu ps,
    get_upload u b k id = Some mpu /\
    ints_sorted (map fst req) = true /\
    Forall2 (fun r p => 0 <= fst r /\ nth_error (up_parts mpu) (Z.to_nat (fst r)) = Some (Some p)) req ps /\
    et = complete_etag md5 hex ps /\
    (exists v sv, get_object s1 b k = OObj v sv /\ vd_body v = flat_map pt_body ps /\
                 vd_meta v = carry_meta s b k (up_meta mpu) /\
                 (forall kv, In kv (up_meta mpu) -> In kv (vd_meta v))) /\
    get_upload u1 b k id = None /\
    (forall b' k' id', id' <> id -> get_upload u1 b' k' id' = get_upload u b' k' id').
Proof.
  intros Hinv. unfold complete_upload.
  destruct (get_upload u b k id) as [mpu|] eqn:Eg; [|discriminate].
  destruct (Nat.ltb (length (up_parts mpu)) (length req)); [discriminate|].
  destruct (ints_sorted (map fst req)) eqn:Es; cbn [negb]; [|discriminate].
  destruct (check_parts (up_parts mpu) req) as [[e|]|ps] eqn:Ec; try discriminate.
  cbv zeta.
  destruct (put_object s b k (flat_map pt_body ps) (carry_meta s b k (up_meta mpu))) as [s' [[e|] r]] eqn:Ep;
    [discriminate|].
  intros H. inversion H; subst. clear H.
  exists mpu, ps. split; [reflexivity|]. split; [reflexivity|].
  split; [apply check_parts_inr; exact Ec|]. split; [reflexivity|].
  destruct (remove_upload_spec _ _ _ _ _ Hinv Eg) as [R1 R2].
  split; [|split; [exact R1|exact R2]].
  destruct (get_after_put _ _ _ _ _ _ _ Ep) as (v & sv & A & B & C & _).
  exists v, sv. split; [exact A|]. split; [exact B|]. split; [exact C|].
  intros kv Hin. rewrite C. apply carry_meta_keeps. exact Hin.
Qed.

(* a rejected complete (any error not coming from the backend's PutObject) leaves the stored
   objects AND the pending uploads exactly as they were *)
Lemma complete_rejected_frame u s b k id req u1 s1 e et :
  complete_upload md5 hex u s b k id req = (u1, s1, (Some e, et)) ->
  (forall be, e <> UBackend be) -> u1 = u /\ s1 = s.
Proof.
  unfold complete_upload.
  destruct (get_upload u b k id) as [mpu|] eqn:Eg;
    [|intros H _; inversion H; subst; auto].
  destruct (Nat.ltb (length (up_parts mpu)) (length req)); [intros H _; inversion H; subst; auto|].
  destruct (negb (ints_sorted (map fst req))); [intros H _; inversion H; subst; auto|].
  destruct (check_parts (up_parts mpu) req) as [[e'|]|ps] eqn:Ec;
    [intros H _; inversion H; subst; auto..|].
  cbv zeta.
  destruct (put_object s b k (flat_map pt_body ps) (carry_meta s b k (up_meta mpu))) as [s' [[e'|] r]] eqn:Ep.
  - intros H Hne. inversion H; subst. exfalso. exact (Hne e' eq_refl).
  - discriminate.
Qed.

(* shape of every rejection that happens before the backend is called *)
Lemma complete_rejects_check u s b k id req mpu :
  get_upload u b k id = Some mpu ->
  check_parts (up_parts mpu) req = inl (Some UInvalidPart) ->
  exists e, snd (complete_upload md5 hex u s b k id req) = (Some e, []) /\ (forall be, e <> UBackend be).
Proof.
  intros Hg Hc. unfold complete_upload. rewrite Hg.
  destruct (Nat.ltb (length (up_parts mpu)) (length req)).
  { exists UInvalidPart. split; [reflexivity|discriminate]. }
  destruct (negb (ints_sorted (map fst req))).
  { exists UInvalidPartOrder. split; [reflexivity|discriminate]. }
  rewrite Hc. exists UInvalidPart. split; [reflexivity|discriminate].
Qed.

(* what is rejected: a part never uploaded, a stale ETag, a descent in the list *)
Lemma complete_rejects_unknown_part u s b k id req mpu n et0 :
  get_upload u b k id = Some mpu -> In (n, et0) req ->
  (n < 0 \/ nth_error (up_parts mpu) (Z.to_nat n) = None \/ nth_error (up_parts mpu) (Z.to_nat n) = Some None) ->
  exists e, snd (complete_upload md5 hex u s b k id req) = (Some e, []) /\ (forall be, e <> UBackend be).
Proof.
  intros Hg Hin Hbad. apply (complete_rejects_check _ _ _ _ _ _ _ Hg).
  eapply check_parts_bad; eassumption.
Qed.

Lemma complete_rejects_stale_etag u s b k id req mpu n et0 p :
  get_upload u b k id = Some mpu -> In (n, et0) req -> 0 <= n ->
  nth_error (up_parts mpu) (Z.to_nat n) = Some (Some p) -> trim_quotes et0 <> trim_quotes (pt_etag p) ->
  exists e, snd (complete_upload md5 hex u s b k id req) = (Some e, []) /\ (forall be, e <> UBackend be).
Proof.
  intros Hg Hin Hn Hp Hne. apply (complete_rejects_check _ _ _ _ _ _ _ Hg).
  eapply check_parts_stale; eassumption.
Qed.

Lemma complete_rejects_descent u s b k id req l1 a l2 c l3 :
  map fst req = l1 ++ a :: l2 ++ c :: l3 -> c < a ->
  exists e, snd (complete_upload md5 hex u s b k id req) = (Some e, []) /\ (forall be, e <> UBackend be).
Proof.
  intros Hreq Hlt. unfold complete_upload.
  destruct (get_upload u b k id) as [mpu|].
  2:{ exists UNoSuchUpload. split; [reflexivity|discriminate]. }
  destruct (Nat.ltb (length (up_parts mpu)) (length req)).
  { exists UInvalidPart. split; [reflexivity|discriminate]. }
  rewrite Hreq, (ints_sorted_descent _ _ _ _ _ Hlt). cbn [negb].
  exists UInvalidPartOrder. split; [reflexivity|discriminate].
Qed.

(* abort discards exactly that upload and does not touch anything else (the backend state is
   not even an argument of abort_upload) *)
Lemma abort_frame u b k id u1 :
  UInv u -> abort_upload u b k id = (u1, None) ->
  get_upload u1 b k id = None /\
  (forall b' k' id', id' <> id -> get_upload u1 b' k' id' = get_upload u b' k' id').
Proof.
  intros Hinv. unfold abort_upload.
  destruct (get_upload u b k id) as [mpu|] eqn:Eg; [|discriminate].
  intros H. inversion H; subst. clear H.
  exact (remove_upload_spec _ _ _ _ _ Hinv Eg).
Qed.

End U.

Print Assumptions complete_ok.
Print Assumptions complete_rejected_frame.
