(* TASK T3.  Multipart uploads (property C06) over Model/Uploader.v.  The main statements are
   fixed in content; you choose and prove the uploader invariant they need. *)
From GF Require Import Base.Bytes Base.SortedMap Model.Mem Model.Handlers Model.Uploader
  Proofs.BytesFacts Proofs.SortedMapFacts Proofs.MemProofs.
From Coq Require Import Lia ZifyBool ZifyNat ZifyN.
Open Scope Z_scope.

Section U.
Variable md5 : list N -> list N.
Variable hex : list N -> list N.

(* Invariant of the uploader state: define it (suggestion: u_buckets sorted; in every bucket the
   ids in bu_uploads are pairwise distinct and <= u_next; every upload is stored under its own id
   (up_id = key of the entry)).  Prove it for uinit and its preservation by create_upload,
   upload_part, abort_upload, complete_upload. *)
Definition UInv (u : ustate) : Prop :=
  sorted (u_buckets u) /\
  forall b bu, In (b, bu) (u_buckets u) ->
    NoDup (map fst (bu_uploads bu)) /\
    forall i mpu, In (i, mpu) (bu_uploads bu) -> up_id mpu = i /\ (i <= u_next u)%N /\ (0 < i)%N.

Lemma uinv_init : UInv uinit.
Proof.
Admitted.

Lemma create_upload_inv u b k m : UInv u -> UInv (fst (create_upload u b k m)).
Proof.
Admitted.

Lemma upload_part_inv u b k id pn body : UInv u -> UInv (fst (upload_part md5 hex u b k id pn body)).
Proof.
Admitted.

Lemma abort_upload_inv u b k id : UInv u -> UInv (fst (abort_upload u b k id)).
Proof.
Admitted.

Lemma complete_upload_inv u s b k id req : UInv u -> UInv (fst (fst (complete_upload md5 hex u s b k id req))).
Proof.
Admitted.

(* a new upload gets a fresh id and starts with no parts *)
Lemma create_upload_fresh u b k m u1 id :
  UInv u -> create_upload u b k m = (u1, id) ->
  (forall b' k', get_upload u b' k' id = None) /\
  exists mpu, get_upload u1 b k id = Some mpu /\ up_parts mpu = [] /\ up_meta mpu = m /\
  (forall b' k' id', id' <> id -> get_upload u1 b' k' id' = get_upload u b' k' id').
Proof.
Admitted.

(* the latest upload of a part number wins; other parts and other uploads are untouched *)
Lemma upload_part_latest u b k id pn body u1 et :
  UInv u -> upload_part md5 hex u b k id pn body = (u1, (None, et)) ->
  et = part_etag md5 hex body /\
  exists mpu mpu1, get_upload u b k id = Some mpu /\ get_upload u1 b k id = Some mpu1 /\
    nth_error (up_parts mpu1) (Z.to_nat pn) = Some (Some {| pt_body := body; pt_etag := et |}) /\
    (forall n, n <> Z.to_nat pn -> (n < length (up_parts mpu))%nat -> nth_error (up_parts mpu1) n = nth_error (up_parts mpu) n) /\
    up_meta mpu1 = up_meta mpu /\
    (forall b' k' id', id' <> id -> get_upload u1 b' k' id' = get_upload u b' k' id').
Proof.
Admitted.

(* an accepted complete: the part list is ascending, every listed part is the part currently
   held under that number, the object body is exactly their concatenation in the listed order,
   the ETag is the composite one, the object carries the initiation metadata, the upload id
   stops existing *)
Lemma complete_ok u s b k id req u1 s1 et :
  UInv u -> complete_upload md5 hex u s b k id req = (u1, s1, (None, et)) ->
  exists mpu ps,
    get_upload u b k id = Some mpu /\
    ints_sorted (map fst req) = true /\
    Forall2 (fun r p => 0 <= fst r /\ nth_error (up_parts mpu) (Z.to_nat (fst r)) = Some (Some p)) req ps /\
    et = complete_etag md5 hex ps /\
    (exists v sv, get_object s1 b k = OObj v sv /\ vd_body v = flat_map pt_body ps /\ vd_meta v = up_meta mpu) /\
    get_upload u1 b k id = None /\
    (forall b' k' id', id' <> id -> get_upload u1 b' k' id' = get_upload u b' k' id').
Proof.
Admitted.

(* a rejected complete (any error not coming from the backend's PutObject) leaves the stored
   objects AND the pending uploads exactly as they were *)
Lemma complete_rejected_frame u s b k id req u1 s1 e et :
  complete_upload md5 hex u s b k id req = (u1, s1, (Some e, et)) ->
  (forall be, e <> UBackend be) -> u1 = u /\ s1 = s.
Proof.
Admitted.

(* what is rejected: a part never uploaded, a stale ETag, a descent in the list *)
Lemma complete_rejects_unknown_part u s b k id req mpu n et0 :
  get_upload u b k id = Some mpu -> In (n, et0) req ->
  (n < 0 \/ nth_error (up_parts mpu) (Z.to_nat n) = None \/ nth_error (up_parts mpu) (Z.to_nat n) = Some None) ->
  exists e, snd (complete_upload md5 hex u s b k id req) = (Some e, []) /\ (forall be, e <> UBackend be).
Proof.
Admitted.

Lemma complete_rejects_stale_etag u s b k id req mpu n et0 p :
  get_upload u b k id = Some mpu -> In (n, et0) req -> 0 <= n ->
  nth_error (up_parts mpu) (Z.to_nat n) = Some (Some p) -> trim_quotes et0 <> trim_quotes (pt_etag p) ->
  exists e, snd (complete_upload md5 hex u s b k id req) = (Some e, []) /\ (forall be, e <> UBackend be).
Proof.
Admitted.

Lemma complete_rejects_descent u s b k id req l1 a l2 c l3 :
  map fst req = l1 ++ a :: l2 ++ c :: l3 -> c < a ->
  exists e, snd (complete_upload md5 hex u s b k id req) = (Some e, []) /\ (forall be, e <> UBackend be).
Proof.
Admitted.

(* abort discards exactly that upload and does not touch anything else (the backend state is
   not even an argument of abort_upload) *)
Lemma abort_frame u b k id u1 :
  UInv u -> abort_upload u b k id = (u1, None) ->
  get_upload u1 b k id = None /\
  (forall b' k' id', id' <> id -> get_upload u1 b' k' id' = get_upload u b' k' id').
Proof.
Admitted.

End U.

Print Assumptions complete_ok.
Print Assumptions complete_rejected_frame.
