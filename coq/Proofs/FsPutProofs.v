(* Proofs about the decisions of the filesystem backends (Model/FsPut.v): the refusal PutObject
   decides on the directory tree is the refusal computed from the stored key set; it is exactly what
   keeps the key set representable (fs_storable) and the tree tidy; so every sequence of uploads and
   deletes leaves the key set of the abstract key -> object map that ignores the refused uploads;
   reads find exactly the stored keys. *)
From Coq Require Import List NArith ZArith Bool Lia ZifyBool Permutation.
From GF Require Import Base.Bytes Base.Lit Proofs.BytesFacts Model.Errors Model.CrashDirs Model.FsList
  Model.FsPut Proofs.CrashDirProofs Proofs.FsListProofs.
Import ListNotations.

(* ---- lists of keys --------------------------------------------------------------------------------- *)

Lemma storable_spec keys : fs_storable keys = true <->
  (forall k, In k keys -> clean_key_path k = true) /\
  (forall a b, In a keys -> In b keys -> below a b = false).
Proof.
  unfold fs_storable. rewrite andb_true_iff, !forallb_forall. split.
  - intros [H1 H2]. split; [exact H1|]. intros a b Ha Hb. specialize (H2 a Ha).
    apply negb_true_iff in H2. apply (existsb_below_false _ _ _ H2 Hb).
  - intros [H1 H2]. split; [exact H1|]. intros a Ha. apply negb_true_iff.
    destruct (existsb (below a) keys) eqn:E; [|reflexivity].
    apply existsb_below in E as [f [Hf Hb]]. rewrite (H2 a f Ha Hf) in Hb. discriminate Hb.
Qed.

Lemma storable_false keys :
  ((exists k, In k keys /\ clean_key_path k = false) \/
   (exists a b, In a keys /\ In b keys /\ below a b = true)) -> fs_storable keys = false.
Proof.
  intros H. destruct (fs_storable keys) eqn:E; [|reflexivity]. exfalso.
  apply storable_spec in E as [H1 H2]. destruct H as [[k [Hk Hc]] | [a [b [Ha [Hb Hab]]]]].
  - rewrite (H1 k Hk) in Hc. discriminate Hc.
  - rewrite (H2 a b Ha Hb) in Hab. discriminate Hab.
Qed.

Lemma remb_notin k l : ~ In k l -> remb k l = l.
Proof.
  unfold remb. induction l as [|a l IH]; intros H; cbn [filter]; [reflexivity|].
  destruct (beq k a) eqn:E.
  - apply beq_eq in E. subst a. exfalso. apply H. left. reflexivity.
  - cbn [negb]. f_equal. apply IH. intros H'. apply H. right. exact H'.
Qed.

Lemma memb_remb_self k l : memb k (remb k l) = false.
Proof. apply memb_false. intros H. apply In_remb in H as [_ H]. apply H. reflexivity. Qed.

Lemma NoDup_remb k l : NoDup l -> NoDup (remb k l).
Proof. apply NoDup_filter. Qed.

Lemma NoDup_insert k l : NoDup l -> NoDup (abs_insert k l).
Proof.
  intros H. unfold abs_insert. constructor; [|apply NoDup_remb; exact H].
  apply memb_false. apply memb_remb_self.
Qed.

Lemma In_insert k l x : In x (abs_insert k l) <-> x = k \/ In x l.
Proof.
  unfold abs_insert. cbn [In]. rewrite In_remb. split.
  - intros [H | [H _]]; [left; symmetry; exact H | right; exact H].
  - intros [H | H]; [left; symmetry; exact H|]. destruct (beq x k) eqn:E.
    + left. symmetry. apply beq_eq. exact E.
    + right. split; [exact H | apply beq_neq; exact E].
Qed.

(* insert on a duplicate-free list: the key and the others, up to order; a set union with {k} *)
Lemma insert_perm_absent k l : ~ In k l -> abs_insert k l = k :: l.
Proof. intros H. unfold abs_insert. rewrite remb_notin by exact H. reflexivity. Qed.

Lemma remb_perm_present k l : NoDup l -> In k l -> Permutation l (k :: remb k l).
Proof.
  induction l as [|a l IH]; intros Hnd Hin; [destruct Hin|].
  inversion Hnd as [|a' l' Hna Hnd']. subst a' l'. unfold remb. cbn [filter]. destruct (beq k a) eqn:E.
  - apply beq_eq in E. subst a. cbn [negb]. fold (remb k l). rewrite remb_notin by exact Hna.
    apply Permutation_refl.
  - cbn [negb]. fold (remb k l). destruct Hin as [Hin | Hin].
    + subst a. rewrite beq_refl in E. discriminate E.
    + apply perm_trans with (a :: k :: remb k l); [apply perm_skip; apply IH; assumption | apply perm_swap].
Qed.

Lemma insert_perm_present k l : NoDup l -> In k l -> Permutation (abs_insert k l) l.
Proof. intros Hnd Hin. apply Permutation_sym. apply remb_perm_present; assumption. Qed.

(* ---- Stat on a tidy tree whose files are storable ---------------------------------------------------- *)

Lemma under_file_spec t p : under_file t p = true <-> exists a, In a (t_files t) /\ below a p = true.
Proof.
  unfold under_file. rewrite existsb_exists. split; intros [a [H1 H2]]; exists a.
  - split; [apply memb_In; exact H2 | apply ancestors_below; exact H1].
  - split; [apply ancestors_below; exact H2 | apply memb_In; exact H1].
Qed.

Lemma tidy_dir_iff t p : tidy t -> (memb p (t_dirs t) = true <-> existsb (below p) (t_files t) = true).
Proof.
  intros [H1 H2]. split.
  - intros H. apply H1. apply memb_In. exact H.
  - intros H. apply existsb_below in H as [f [Hf Hb]]. apply (H2 f p Hf). apply ancestors_below. exact Hb.
Qed.

(* "Stat succeeds and IsDir()" = some stored key lies below the path *)
Lemma stat_dir_spec t p : tidy t -> fs_storable (t_files t) = true ->
  stat_is_dir t p = existsb (below p) (t_files t).
Proof.
  intros Ht Hs. apply storable_spec in Hs as [_ Hnb]. unfold stat_is_dir, fs_stat.
  destruct (existsb (below p) (t_files t)) eqn:E.
  - assert (under_file t p = false) as U.
    { destruct (under_file t p) eqn:U; [|reflexivity]. exfalso.
      apply under_file_spec in U as [a [Ha Hb]]. apply existsb_below in E as [f [Hf Hbf]].
      pose proof (below_trans a p f Hb Hbf) as H. rewrite (Hnb a f Ha Hf) in H. discriminate H. }
    rewrite U. apply (tidy_dir_iff t p Ht) in E. rewrite E. reflexivity.
  - destruct (under_file t p); [reflexivity|]. destruct (memb p (t_dirs t)) eqn:D.
    + apply (tidy_dir_iff t p Ht) in D. congruence.
    + destruct (memb p (t_files t)); reflexivity.
Qed.

(* "Stat succeeds and !IsDir()" = the path is a stored key *)
Lemma stat_file_spec t p : tidy t -> fs_storable (t_files t) = true ->
  stat_is_file t p = memb p (t_files t).
Proof.
  intros Ht Hs. apply storable_spec in Hs as [_ Hnb]. unfold stat_is_file, fs_stat.
  destruct (memb p (t_files t)) eqn:M.
  - pose proof (proj1 (memb_In _ _) M) as Hp.
    assert (under_file t p = false) as U.
    { destruct (under_file t p) eqn:U; [|reflexivity]. exfalso.
      apply under_file_spec in U as [a [Ha Hb]]. rewrite (Hnb a p Ha Hp) in Hb. discriminate Hb. }
    assert (memb p (t_dirs t) = false) as D.
    { destruct (memb p (t_dirs t)) eqn:D; [|reflexivity]. exfalso.
      apply (tidy_dir_iff t p Ht) in D. apply existsb_below in D as [f [Hf Hb]].
      rewrite (Hnb p f Hp Hf) in Hb. discriminate Hb. }
    rewrite U, D. reflexivity.
  - destruct (under_file t p); [reflexivity|]. destruct (memb p (t_dirs t)); reflexivity.
Qed.

(* the loop of belowFile = some stored key is a proper directory-ancestor of the key *)
Lemma below_file_loop_spec t k : tidy t -> fs_storable (t_files t) = true ->
  below_file_loop t k = existsb (fun s => below s k) (t_files t).
Proof.
  intros Ht Hs. apply eq_iff_eq_true. unfold below_file_loop. rewrite !existsb_exists. split.
  - intros [a [Ha Hf]]. apply (proj2 (in_rev _ _)) in Ha. rewrite (stat_file_spec t a Ht Hs) in Hf.
    exists a. split; [apply memb_In; exact Hf | apply ancestors_below; exact Ha].
  - intros [a [Ha Hb]]. exists a. split.
    + apply (proj1 (in_rev _ _)). apply ancestors_below. exact Hb.
    + rewrite (stat_file_spec t a Ht Hs). apply memb_In. exact Ha.
Qed.

(* ---- agreement: the decision on the tree is the decision on the key set -------------------------------- *)

Theorem decision_reason t k : tidy t -> fs_storable (t_files t) = true ->
  fs_put_decision t k = fs_put_reason (t_files t) k.
Proof.
  intros Ht Hs. unfold fs_put_decision, fs_put_reason.
  rewrite (stat_dir_spec t k Ht Hs), (below_file_loop_spec t k Ht Hs). reflexivity.
Qed.

Theorem put_agreement_outcome keys k : fs_storable keys = true ->
  fs_put_decision (tree_of keys) k = fs_put_reason keys k.
Proof. intros Hs. apply (decision_reason (tree_of keys) k (tree_of_tidy keys) Hs). Qed.

Lemma refused_none_iff keys k : fs_put_refused keys k = None <-> fs_put_reason keys k = PutAccepted.
Proof. unfold fs_put_refused. destruct (fs_put_reason keys k); cbn [fs_put_error]; split; intros H; try reflexivity; discriminate H. Qed.

Lemma error_none_iff o : fs_put_error o = None <-> o = PutAccepted.
Proof. destruct o; cbn [fs_put_error]; split; intros H; try reflexivity; discriminate H. Qed.

(* the statement asked for: refusal iff refusal, and the same S3 error code (NoDup is not needed) *)
Theorem put_agreement keys k : fs_storable keys = true ->
  (fs_put_decision (tree_of keys) k <> PutAccepted <-> fs_put_refused keys k <> None) /\
  fs_put_error (fs_put_decision (tree_of keys) k) = fs_put_refused keys k.
Proof.
  intros Hs. rewrite (put_agreement_outcome keys k Hs). split; [|reflexivity].
  rewrite refused_none_iff. reflexivity.
Qed.

(* without fs_storable the two differ: with "a" and "a/b" both stored (no file system holds that)
   Stat of "a/b" fails (a parent is a file) and Stat of "a" says directory, so the loop of belowFile
   finds no file above "a/b/c" *)
Lemma put_agreement_unstorable_refuted :
  exists keys k, fs_storable keys = false /\
    fs_put_decision (tree_of keys) k = PutAccepted /\ fs_put_refused keys k <> None.
Proof.
  exists [[97]; [97; 47; 98]]%N, [97; 47; 98; 47; 99]%N. split; [vm_compute; reflexivity|].
  split; [vm_compute; reflexivity | vm_compute; discriminate].
Qed.

(* ---- what each outcome means -------------------------------------------------------------------------- *)

Lemma reason_accepted keys k : fs_put_reason keys k = PutAccepted <->
  clean_key_path k = true /\ (forall s, In s keys -> below k s = false) /\
  (forall s, In s keys -> below s k = false).
Proof.
  unfold fs_put_reason. destruct (clean_key_path k); cbn [negb].
  - destruct (existsb (below k) keys) eqn:E1.
    + split; [discriminate|]. intros [_ [H _]]. apply existsb_below in E1 as [f [Hf Hb]].
      rewrite (H f Hf) in Hb. discriminate Hb.
    + destruct (existsb (fun s => below s k) keys) eqn:E2.
      * split; [discriminate|]. intros [_ [_ H]]. apply existsb_exists in E2 as [f [Hf Hb]].
        rewrite (H f Hf) in Hb. discriminate Hb.
      * split; [|reflexivity]. intros _. split; [reflexivity|]. split.
        -- intros s Hsin. apply (existsb_below_false _ _ _ E1 Hsin).
        -- intros s Hsin. destruct (below s k) eqn:B; [|reflexivity].
           assert (existsb (fun s => below s k) keys = true) as H by (apply existsb_exists; exists s; auto).
           congruence.
  - split; [discriminate | intros [H _]; discriminate H].
Qed.

(* a refusal has one of the three reasons, tested in the order of the code *)
Lemma reason_cases keys k :
  match fs_put_reason keys k with
  | PutAccepted => clean_key_path k = true /\ (forall s, In s keys -> below k s = false) /\
                   (forall s, In s keys -> below s k = false)
  | PutUncleanKey => clean_key_path k = false
  | PutIsDirectory => clean_key_path k = true /\ exists s, In s keys /\ below k s = true
  | PutBelowObject => clean_key_path k = true /\ (forall s, In s keys -> below k s = false) /\
                      exists s, In s keys /\ below s k = true
  end.
Proof.
  destruct (fs_put_reason keys k) eqn:R.
  - apply reason_accepted. exact R.
  - revert R. unfold fs_put_reason. destruct (clean_key_path k); cbn [negb]; [|reflexivity].
    destruct (existsb (below k) keys); [intros R; discriminate R|]. destruct (existsb (fun s => below s k) keys); intros R; discriminate R.
  - revert R. unfold fs_put_reason. destruct (clean_key_path k); cbn [negb]; [|intros R; discriminate R].
    destruct (existsb (below k) keys) eqn:E1.
    + intros _. split; [reflexivity|]. apply existsb_below. exact E1.
    + destruct (existsb (fun s => below s k) keys); intros R; discriminate R.
  - revert R. unfold fs_put_reason. destruct (clean_key_path k); cbn [negb]; [|intros R; discriminate R].
    destruct (existsb (below k) keys) eqn:E1; [intros R; discriminate R|].
    destruct (existsb (fun s => below s k) keys) eqn:E2; [|intros R; discriminate R].
    intros _. split; [reflexivity|]. split.
    + intros s Hsin. apply (existsb_below_false _ _ _ E1 Hsin).
    + apply existsb_exists in E2. exact E2.
Qed.

Theorem refused_reasons keys k c : fs_put_refused keys k = Some c ->
  c = err_unsupported_key /\
  (clean_key_path k = false \/ (exists s, In s keys /\ below k s = true) \/
   (exists s, In s keys /\ below s k = true)).
Proof.
  unfold fs_put_refused. pose proof (reason_cases keys k) as H.
  destruct (fs_put_reason keys k); cbn [fs_put_error]; intros E; try discriminate E;
    injection E as <-; (split; [reflexivity|]).
  - left. exact H.
  - right. left. apply H.
  - right. right. apply H.
Qed.

(* each reason makes the key set unrepresentable, whatever the other keys are *)
Theorem unclean_unstorable keys k : clean_key_path k = false -> fs_storable (k :: keys) = false.
Proof. intros H. apply storable_false. left. exists k. split; [left; reflexivity | exact H]. Qed.

Theorem directory_unstorable keys k s : In s keys -> below k s = true -> fs_storable (k :: keys) = false.
Proof.
  intros Hs Hb. apply storable_false. right. exists k, s.
  split; [left; reflexivity|]. split; [right; exact Hs | exact Hb].
Qed.

Theorem below_object_unstorable keys k s : In s keys -> below s k = true -> fs_storable (k :: keys) = false.
Proof.
  intros Hs Hb. apply storable_false. right. exists s, k.
  split; [right; exact Hs|]. split; [left; reflexivity | exact Hb].
Qed.

Theorem refused_unstorable keys k : fs_put_refused keys k <> None -> fs_storable (k :: keys) = false.
Proof.
  intros H. destruct (fs_put_refused keys k) as [c|] eqn:E; [|exfalso; apply H; reflexivity].
  apply refused_reasons in E as [_ [Hc | [[s [Hs Hb]] | [s [Hs Hb]]]]].
  - apply unclean_unstorable. exact Hc.
  - apply (directory_unstorable keys k s Hs Hb).
  - apply (below_object_unstorable keys k s Hs Hb).
Qed.

Lemma storable_cons keys k : fs_storable keys = true -> fs_put_reason keys k = PutAccepted ->
  fs_storable (k :: keys) = true.
Proof.
  intros Hs Hr. apply storable_spec in Hs as [H1 H2]. apply reason_accepted in Hr as [Hc [Hd Hb]].
  apply storable_spec. split.
  - intros x [<- | Hx]; [exact Hc | apply H1; exact Hx].
  - intros a b [<- | Ha] [<- | Hb'].
    + apply below_irrefl.
    + apply Hd. exact Hb'.
    + apply Hb. exact Ha.
    + apply H2; assumption.
Qed.

(* the refusal is exact: over a representable key set an upload is accepted iff the key set with
   the new key is representable *)
Theorem accepted_iff_storable keys k : fs_storable keys = true ->
  (fs_put_refused keys k = None <-> fs_storable (k :: keys) = true).
Proof.
  intros Hs. split.
  - intros H. apply storable_cons; [exact Hs | apply refused_none_iff; exact H].
  - intros H. destruct (fs_put_refused keys k) eqn:E; [|reflexivity].
    assert (fs_storable (k :: keys) = false) as F by (apply refused_unstorable; rewrite E; discriminate).
    congruence.
Qed.

Lemma storable_remb keys k : fs_storable keys = true -> fs_storable (remb k keys) = true.
Proof.
  intros Hs. apply storable_spec in Hs as [H1 H2]. apply storable_spec. split.
  - intros x Hx. apply In_remb in Hx as [Hx _]. apply H1. exact Hx.
  - intros a b Ha Hb. apply In_remb in Ha as [Ha _]. apply In_remb in Hb as [Hb _]. apply H2; assumption.
Qed.

Lemma storable_insert keys k : fs_storable keys = true -> fs_put_reason keys k = PutAccepted ->
  fs_storable (abs_insert k keys) = true.
Proof.
  intros Hs Hr. pose proof (storable_cons keys k Hs Hr) as H.
  apply storable_spec in H as [H1 H2]. apply storable_spec. split.
  - intros x Hx. apply In_insert in Hx. apply H1. destruct Hx as [-> | Hx]; [left; reflexivity | right; exact Hx].
  - intros a b Ha Hb. apply In_insert in Ha. apply In_insert in Hb. apply H2.
    + destruct Ha as [-> | Ha]; [left; reflexivity | right; exact Ha].
    + destruct Hb as [-> | Hb]; [left; reflexivity | right; exact Hb].
Qed.

(* ---- the invariant ------------------------------------------------------------------------------------ *)

(* what every bucket directory satisfies that only complete uploads and deletes have touched *)
Definition fs_inv (t : tree) : Prop :=
  tidy t /\ fs_storable (t_files t) = true /\ NoDup (t_files t).

Lemma fs_inv_empty : fs_inv empty_tree.
Proof.
  split; [|split].
  - split; [intros d [] | intros k a []].
  - reflexivity.
  - constructor.
Qed.

Lemma fs_inv_tree_of keys : fs_storable keys = true -> NoDup keys -> fs_inv (tree_of keys).
Proof. intros Hs Hn. split; [apply tree_of_tidy | split; [exact Hs | exact Hn]]. Qed.

Lemma put_files_eq t k : t_files (run_dops t (put_dops t k)) = abs_insert k (t_files t).
Proof.
  unfold put_dops, abs_insert. rewrite !run_dops_app.
  set (t1 := run_dops t (if forallb _ _ then [] else [DMkdirAll k])).
  assert (t_files t1 = t_files t) as E1 by (subst t1; destruct (forallb _ _); reflexivity).
  destruct (memb k (t_files t)) eqn:Em; cbn [run_dops fold_left apply_dop t_files]; rewrite E1.
  - unfold addb. rewrite memb_remb_self. reflexivity.
  - unfold addb. rewrite Em. rewrite remb_notin by (apply memb_false; exact Em). reflexivity.
Qed.

(* an accepted upload: the key joins the files, everything stays representable and tidy *)
Theorem put_accepted t k : fs_inv t -> fs_put_decision t k = PutAccepted ->
  fs_put t k = (run_dops t (put_dops t k), PutAccepted) /\
  t_files (fst (fs_put t k)) = abs_insert k (t_files t) /\
  fs_inv (fst (fs_put t k)).
Proof.
  intros [Ht [Hs Hn]] Hd. unfold fs_put. rewrite Hd. cbn [fst].
  split; [reflexivity|]. split; [apply put_files_eq|]. split; [|split].
  - apply put_complete_tidy. exact Ht.
  - rewrite put_files_eq. apply storable_insert; [exact Hs|].
    rewrite <- (decision_reason t k Ht Hs). exact Hd.
  - rewrite put_files_eq. apply NoDup_insert. exact Hn.
Qed.

(* a refused upload changes nothing, in any tree *)
Theorem put_refused t k : fs_put_decision t k <> PutAccepted -> fs_put t k = (t, fs_put_decision t k).
Proof. intros H. unfold fs_put. destruct (fs_put_decision t k); [exfalso; apply H; reflexivity | | |]; reflexivity. Qed.

Lemma fs_put_snd t k : snd (fs_put t k) = fs_put_decision t k.
Proof. unfold fs_put. destruct (fs_put_decision t k); reflexivity. Qed.

Theorem put_step t k : fs_inv t ->
  fs_inv (fst (fs_put t k)) /\
  t_files (fst (fs_put t k)) = abs_step (t_files t) (FPut k) /\
  fs_put_error (snd (fs_put t k)) = fs_put_refused (t_files t) k.
Proof.
  intros Hi. pose proof Hi as [Ht [Hs Hn]]. cbn [abs_step]. unfold fs_put_refused.
  rewrite fs_put_snd, <- (decision_reason t k Ht Hs).
  destruct (fs_put_decision t k) eqn:D.
  - destruct (put_accepted t k Hi D) as [_ [Hf Hi']]. cbn [fs_put_error]. split; [exact Hi'|]. split; [exact Hf | reflexivity].
  - rewrite put_refused by (rewrite D; discriminate). cbn [fst fs_put_error]. split; [exact Hi | split; reflexivity].
  - rewrite put_refused by (rewrite D; discriminate). cbn [fst fs_put_error]. split; [exact Hi | split; reflexivity].
  - rewrite put_refused by (rewrite D; discriminate). cbn [fst fs_put_error]. split; [exact Hi | split; reflexivity].
Qed.

(* a delete removes exactly the key (nothing when it is unclean, a directory, below an object or
   absent) and keeps the invariant *)
Theorem delete_step t k : fs_inv t ->
  t_files (fs_delete t k) = remb k (t_files t) /\ fs_inv (fs_delete t k).
Proof.
  intros Hi. pose proof Hi as [Ht [Hs Hn]]. pose proof (proj1 (storable_spec _) Hs) as [Hc Hnb].
  unfold fs_delete. destruct (clean_key_path k) eqn:C; cbn [negb].
  - rewrite (stat_dir_spec t k Ht Hs). destruct (existsb (below k) (t_files t)) eqn:E.
    + split; [|exact Hi]. symmetry. apply remb_notin. intros Hk.
      apply existsb_below in E as [f [Hf Hb]]. rewrite (Hnb k f Hk Hf) in Hb. discriminate Hb.
    + assert (t_files (run_dops t (del_dops t k)) = remb k (t_files t)) as Ef.
      { destruct (memb k (t_files t)) eqn:M.
        - apply (del_complete_exact t k Ht M).
        - unfold del_dops. rewrite M. cbn [run_dops fold_left]. symmetry. apply remb_notin.
          apply memb_false. exact M. }
      split; [exact Ef|]. split; [apply del_complete_tidy; exact Ht|]. rewrite Ef.
      split; [apply storable_remb; exact Hs | apply NoDup_remb; exact Hn].
  - split; [|exact Hi]. symmetry. apply remb_notin. intros Hk. rewrite (Hc k Hk) in C. discriminate C.
Qed.

Theorem delete_exact t k x : fs_inv t ->
  (In x (t_files (fs_delete t k)) <-> In x (t_files t) /\ x <> k).
Proof. intros Hi. rewrite (proj1 (delete_step t k Hi)). apply In_remb. Qed.

Theorem step_refines t o : fs_inv t ->
  fs_inv (fs_step t o) /\ t_files (fs_step t o) = abs_step (t_files t) o.
Proof.
  intros Hi. destruct o as [k | k]; cbn [fs_step].
  - destruct (put_step t k Hi) as [H1 [H2 _]]. split; assumption.
  - destruct (delete_step t k Hi) as [H1 H2]. split; [exact H2 | exact H1].
Qed.

(* ---- sequences: the refinement ------------------------------------------------------------------------- *)

Theorem run_from_refines ops : forall t, fs_inv t ->
  fs_inv (fs_run_from t ops) /\
  t_files (fs_run_from t ops) = abstract_run_from (t_files t) ops /\
  fs_answers_from t ops = abstract_answers_from (t_files t) ops.
Proof.
  unfold fs_run_from, abstract_run_from.
  induction ops as [|o ops IH]; intros t Hi; cbn [fold_left fs_answers_from abstract_answers_from].
  - split; [exact Hi | split; reflexivity].
  - destruct (step_refines t o Hi) as [Hi' Hf]. destruct (IH _ Hi') as [H1 [H2 H3]].
    rewrite Hf in H2. split; [exact H1|]. split; [exact H2|].
    destruct o as [k | k].
    + destruct (put_step t k Hi) as [_ [Hf' He]]. rewrite He. f_equal.
      cbn [fs_step] in H3. rewrite H3, Hf'. reflexivity.
    + f_equal. cbn [fs_step] in H3. rewrite H3. rewrite (proj1 (delete_step t k Hi)). reflexivity.
Qed.

Theorem run_refines ops :
  tidy (fs_run ops) /\ fs_storable (t_files (fs_run ops)) = true /\ NoDup (t_files (fs_run ops)) /\
  t_files (fs_run ops) = abstract_run ops /\
  fs_answers_from empty_tree ops = abstract_answers_from [] ops.
Proof.
  destruct (run_from_refines ops empty_tree fs_inv_empty) as [[H1 [H2 H3]] [H4 H5]].
  split; [exact H1|]. split; [exact H2|]. split; [exact H3|]. split; [exact H4 | exact H5].
Qed.

Theorem run_refines_perm ops : Permutation (t_files (fs_run ops)) (abstract_run ops).
Proof. rewrite (proj1 (proj2 (proj2 (proj2 (run_refines ops))))). apply Permutation_refl. Qed.

(* the abstract map holds a key exactly when the last operation on it was an accepted upload;
   stated one step at a time: membership after a step *)
Theorem abs_step_In keys o x :
  In x (abs_step keys o) <->
  match o with
  | FPut k => if fs_put_refused keys k then In x keys else (x = k \/ In x keys)
  | FDel k => In x keys /\ x <> k
  end.
Proof.
  destruct o as [k | k]; cbn [abs_step].
  - destruct (fs_put_refused keys k); [reflexivity | apply In_insert].
  - apply In_remb.
Qed.

(* ---- the file list after an accepted upload, as a permutation ------------------------------------------- *)

Theorem put_accepted_perm keys k : fs_storable keys = true -> NoDup keys ->
  fs_put_decision (tree_of keys) k = PutAccepted ->
  let t' := fst (fs_put (tree_of keys) k) in
  Permutation (t_files t') (k :: remb k keys) /\
  Permutation (t_files t') (if memb k keys then keys else k :: keys) /\
  fs_storable (t_files t') = true /\ NoDup (t_files t') /\ tidy t'.
Proof.
  intros Hs Hn Hd t'. destruct (put_accepted _ k (fs_inv_tree_of keys Hs Hn) Hd) as [_ [Hf [Ht [Hs' Hn']]]].
  fold t' in Hf, Ht, Hs', Hn'. cbn [tree_of t_files] in Hf.
  split; [rewrite Hf; apply Permutation_refl|]. split; [|split; [exact Hs' | split; [exact Hn' | exact Ht]]].
  rewrite Hf. destruct (memb k keys) eqn:M.
  - apply insert_perm_present; [exact Hn | apply memb_In; exact M].
  - rewrite insert_perm_absent by (apply memb_false; exact M). apply Permutation_refl.
Qed.

(* ---- reads --------------------------------------------------------------------------------------------- *)

Theorem get_decision_inv t k : fs_inv t -> (fs_get_decision t k = true <-> In k (t_files t)).
Proof.
  intros [Ht [Hs _]]. unfold fs_get_decision. rewrite (stat_file_spec t k Ht Hs), andb_true_iff, memb_In.
  split; [intros [_ H]; exact H|]. intros H. split; [|exact H].
  apply (proj1 (storable_spec _) Hs). exact H.
Qed.

Theorem get_decision keys k : fs_storable keys = true ->
  (fs_get_decision (tree_of keys) k = true <-> In k keys).
Proof.
  intros Hs. unfold fs_get_decision.
  rewrite (stat_file_spec (tree_of keys) k (tree_of_tidy keys) Hs), andb_true_iff, memb_In.
  cbn [tree_of t_files]. split; [intros [_ H]; exact H|]. intros H. split; [|exact H].
  apply (proj1 (storable_spec _) Hs). exact H.
Qed.

Theorem get_decision_found keys k : fs_storable keys = true ->
  fs_get_decision (tree_of keys) k = fs_get_found keys k.
Proof.
  intros Hs. apply eq_iff_eq_true. rewrite (get_decision keys k Hs). unfold fs_get_found.
  symmetry. apply memb_In.
Qed.

(* unclean keys, directories and keys below an object are NoSuchKey *)
Theorem get_not_found keys k : fs_storable keys = true ->
  clean_key_path k = false \/ (exists s, In s keys /\ below k s = true) \/
  (exists s, In s keys /\ below s k = true) ->
  fs_get_decision (tree_of keys) k = false.
Proof.
  intros Hs H. destruct (fs_get_decision (tree_of keys) k) eqn:E; [|reflexivity]. exfalso.
  apply (get_decision keys k Hs) in E. apply storable_spec in Hs as [H1 H2].
  destruct H as [Hc | [[s [Hin Hb]] | [s [Hin Hb]]]].
  - rewrite (H1 k E) in Hc. discriminate Hc.
  - rewrite (H2 k s E Hin) in Hb. discriminate Hb.
  - rewrite (H2 s k Hin E) in Hb. discriminate Hb.
Qed.

(* read-your-writes through the decisions: after an accepted upload the key is found, after a
   delete it is not, and the other keys are found as before *)
Theorem get_after_put t k k' : fs_inv t -> fs_put_decision t k = PutAccepted ->
  fs_get_decision (fst (fs_put t k)) k' = true <-> (k' = k \/ fs_get_decision t k' = true).
Proof.
  intros Hi Hd. destruct (put_accepted t k Hi Hd) as [_ [Hf Hi']].
  rewrite (get_decision_inv _ k' Hi'), (get_decision_inv t k' Hi), Hf. apply In_insert.
Qed.

Theorem get_after_delete t k k' : fs_inv t ->
  fs_get_decision (fs_delete t k) k' = true <-> (fs_get_decision t k' = true /\ k' <> k).
Proof.
  intros Hi. destruct (delete_step t k Hi) as [Hf Hi'].
  rewrite (get_decision_inv _ k' Hi'), (get_decision_inv t k' Hi), Hf. apply In_remb.
Qed.

(* ---- the answer ----------------------------------------------------------------------------------------- *)

Theorem refusal_status o : o <> PutAccepted ->
  fs_put_error o = Some (B "InvalidArgument") /\ fs_put_status o = 400%Z.
Proof. destruct o; intros H; [exfalso; apply H; reflexivity | | |]; split; vm_compute; reflexivity. Qed.

(* ---- examples (non-vacuity), by computation ------------------------------------------------------------- *)

Definition ex_put_keys : list bytes := [B "a/b/c"; B "a/b/d"; B "a/e"; B "f"].

Lemma ex_put_keys_storable : fs_storable ex_put_keys = true /\ NoDup ex_put_keys /\
  t_dirs (tree_of ex_put_keys) = [B "a/b"; B "a"].
Proof.
  split; [vm_compute; reflexivity|]. split; [|vm_compute; reflexivity].
  unfold ex_put_keys. repeat (constructor; [vm_compute; intuition discriminate|]). constructor.
Qed.

(* one refusal of each kind, with its reason, S3 code and status; the tree and the key set agree *)
Lemma ex_put_refusals :
  fs_put (tree_of ex_put_keys) (B "a//x") = (tree_of ex_put_keys, PutUncleanKey) /\
  fs_put (tree_of ex_put_keys) (B "a/./x") = (tree_of ex_put_keys, PutUncleanKey) /\
  fs_put (tree_of ex_put_keys) (B "../x") = (tree_of ex_put_keys, PutUncleanKey) /\
  fs_put (tree_of ex_put_keys) (B "a/e/") = (tree_of ex_put_keys, PutUncleanKey) /\
  fs_put (tree_of ex_put_keys) [] = (tree_of ex_put_keys, PutUncleanKey) /\
  fs_put (tree_of ex_put_keys) (B "a/b") = (tree_of ex_put_keys, PutIsDirectory) /\
  fs_put (tree_of ex_put_keys) (B "a") = (tree_of ex_put_keys, PutIsDirectory) /\
  fs_put (tree_of ex_put_keys) (B "f/g") = (tree_of ex_put_keys, PutBelowObject) /\
  fs_put (tree_of ex_put_keys) (B "a/e/x/y") = (tree_of ex_put_keys, PutBelowObject) /\
  fs_put_refused ex_put_keys (B "a//x") = Some (B "InvalidArgument") /\
  fs_put_refused ex_put_keys (B "a/b") = Some (B "InvalidArgument") /\
  fs_put_refused ex_put_keys (B "f/g") = Some (B "InvalidArgument") /\
  fs_put_reason ex_put_keys (B "a//x") = PutUncleanKey /\
  fs_put_reason ex_put_keys (B "a/b") = PutIsDirectory /\
  fs_put_reason ex_put_keys (B "f/g") = PutBelowObject /\
  fs_put_status PutUncleanKey = 400%Z /\ fs_put_status PutIsDirectory = 400%Z /\
  fs_put_status PutBelowObject = 400%Z.
Proof. vm_compute. repeat split. Qed.

(* the order of the tests: an unclean key that also lies below an object, or whose cleaned form is a
   directory, is refused as unclean *)
Lemma ex_put_order :
  fs_put_decision (tree_of ex_put_keys) (B "f//g") = PutUncleanKey /\
  fs_put_decision (tree_of ex_put_keys) (B "a/b/") = PutUncleanKey /\
  fs_put_reason ex_put_keys (B "f//g") = PutUncleanKey.
Proof. vm_compute. repeat split. Qed.

(* accepted uploads: a new key in an existing directory, a new key that needs new directories, an
   overwrite; "a-b" and "a/bc" are not below "a/b" *)
Lemma ex_put_accepted :
  fs_put (tree_of ex_put_keys) (B "a/b/x") =
    ({| t_files := B "a/b/x" :: ex_put_keys; t_dirs := [B "a/b"; B "a"] |}, PutAccepted) /\
  fs_put (tree_of ex_put_keys) (B "g/h/i") =
    ({| t_files := B "g/h/i" :: ex_put_keys; t_dirs := [B "g/h"; B "g"; B "a/b"; B "a"] |}, PutAccepted) /\
  fs_put (tree_of ex_put_keys) (B "a/e") =
    ({| t_files := [B "a/e"; B "a/b/c"; B "a/b/d"; B "f"]; t_dirs := [B "a/b"; B "a"] |}, PutAccepted) /\
  fs_put_decision (tree_of ex_put_keys) (B "a/bc") = PutAccepted /\
  fs_put_decision (tree_of ex_put_keys) (B "f.g") = PutAccepted /\
  fs_put_refused ex_put_keys (B "a/b/x") = None /\
  fs_put_status PutAccepted = 200%Z /\
  fs_storable (B "a/b/x" :: ex_put_keys) = true /\
  fs_storable (B "a/b" :: ex_put_keys) = false /\ fs_storable (B "f/g" :: ex_put_keys) = false /\
  fs_storable (B "a//x" :: ex_put_keys) = false.
Proof. vm_compute. repeat split. Qed.

(* deletes: a stored key (its emptied directory goes too), a directory, an unclean key, a key below
   an object, an absent key *)
Lemma ex_delete :
  fs_delete (tree_of ex_put_keys) (B "a/e") = tree_of [B "a/b/c"; B "a/b/d"; B "f"] /\
  fs_delete (tree_of [B "a/b/c"; B "f"]) (B "a/b/c") = tree_of [B "f"] /\
  fs_delete (tree_of ex_put_keys) (B "a/b") = tree_of ex_put_keys /\
  fs_delete (tree_of ex_put_keys) (B "a/b/../e") = tree_of ex_put_keys /\
  fs_delete (tree_of ex_put_keys) (B "f/g") = tree_of ex_put_keys /\
  fs_delete (tree_of ex_put_keys) (B "zz") = tree_of ex_put_keys.
Proof. vm_compute. repeat split. Qed.

(* reads: stored keys are found; directories, unclean spellings of stored keys, keys below an object
   and absent keys are NoSuchKey *)
Lemma ex_get :
  fs_get_decision (tree_of ex_put_keys) (B "a/b/c") = true /\
  fs_get_decision (tree_of ex_put_keys) (B "f") = true /\
  fs_get_decision (tree_of ex_put_keys) (B "a/b") = false /\
  fs_get_decision (tree_of ex_put_keys) (B "a") = false /\
  fs_get_decision (tree_of ex_put_keys) (B "a//e") = false /\
  fs_get_decision (tree_of ex_put_keys) (B "a/b/../e") = false /\
  fs_get_decision (tree_of ex_put_keys) (B "f/g") = false /\
  fs_get_decision (tree_of ex_put_keys) (B "zz") = false /\
  fs_get_decision (tree_of ex_put_keys) [] = false.
Proof. vm_compute. repeat split. Qed.

(* a history: "a/b" stored; "a" refused (a directory); "a/b/c" refused (below an object); "a/b"
   deleted (directory "a" pruned); now "a" is accepted; then "a/b" is refused (below an object) *)
Definition ex_ops : list fs_op :=
  [FPut (B "a/b"); FPut (B "a"); FPut (B "a/b/c"); FPut (B "x//y"); FDel (B "a/b"); FPut (B "a"); FPut (B "a/b");
   FPut (B "d/e/f"); FDel (B "nothing")].

Lemma ex_run :
  fs_run ex_ops = {| t_files := [B "d/e/f"; B "a"]; t_dirs := [B "d/e"; B "d"] |} /\
  abstract_run ex_ops = [B "d/e/f"; B "a"] /\
  fs_answers_from empty_tree ex_ops =
    [None; Some (B "InvalidArgument"); Some (B "InvalidArgument"); Some (B "InvalidArgument"); None; None;
     Some (B "InvalidArgument"); None; None].
Proof. vm_compute. repeat split. Qed.

Print Assumptions run_refines.
Print Assumptions put_agreement.
Print Assumptions accepted_iff_storable.
Print Assumptions get_decision.
