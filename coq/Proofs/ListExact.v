(* TASK D1.  The unpaginated listing of the memory-backend model is exactly filter + group of
   the live keys (property C03).  Statements are fixed; add helper lemmas freely. *)
From GF Require Import Base.Bytes Base.SortedMap Model.Prefix Model.Mem Model.MemWalk Spec.ListSpec
  Proofs.BytesFacts Proofs.SortedMapFacts.
Open Scope Z_scope.

Definition data_some (items : list (list N * obj)) : Prop :=
  Forall (fun kv => o_data (snd kv) <> None) items.

Definition commons (pre : list N) (delim : option N) (keys : list (list N)) : list (list N) :=
  flat_map (fun k => match prefix_match pre delim k with MCommon p => [p] | _ => [] end) keys.

(* Contents = the live keys that match as contents, in map order *)
Lemma unpaged_contents pre delim items :
  data_some items ->
  map fst (lr_contents (unpaged pre delim items)) =
  filter (fun k => mr_eqb (prefix_match pre delim k) MContent) (live_keys items).
Proof.
Admitted.

(* CommonPrefixes = the common prefixes of the live keys, each once, in order of first appearance *)
Lemma unpaged_prefixes pre delim items :
  data_some items ->
  lr_prefixes (unpaged pre delim items) = dedup (commons pre delim (live_keys items)).
Proof.
Admitted.

Lemma unpaged_flags pre delim items :
  data_some items ->
  let r := unpaged pre delim items in
  lr_truncated r = false /\ lr_panic r = false /\ lr_next r = [].
Proof.
Admitted.

(* each listed entry carries the body (hence Size and ETag) of that key's current version *)
Lemma unpaged_bodies pre delim items k body :
  data_some items -> In (k, body) (lr_contents (unpaged pre delim items)) ->
  exists o v, In (k, o) items /\ o_data o = Some v /\ vd_marker v = false /\ vd_body v = body.
Proof.
Admitted.

Lemma dedup_nodup l : NoDup (dedup l).
Proof.
Admitted.

Print Assumptions unpaged_prefixes.
