(* TASK D1.  The unpaginated listing of the memory-backend model is exactly filter + group of
   the live keys (property C03).  Statements are fixed; add helper lemmas freely. *)
From GF Require Import Base.Bytes Base.SortedMap Model.Prefix Model.Mem Model.MemWalk Spec.ListSpec
  Proofs.BytesFacts Proofs.SortedMapFacts.
Open Scope Z_scope.

Definition data_some (items : list (list N * obj)) : Prop :=
  Forall (fun kv => o_data (snd kv) <> None) items.

Definition commons (pre : list N) (delim : option N) (keys : list (list N)) : list (list N) :=
  flat_map (fun k => match prefix_match pre delim k with MCommon p => [p] | _ => [] end) keys.

(* ---- helpers -------------------------------------------------------------- *)

Lemma filter_filter_and {A} (f g : A -> bool) l :
  filter f (filter g l) = filter (fun x => g x && f x)%bool l.
Proof.
  induction l as [|a l IH]; cbn; [reflexivity|].
  destruct (g a) eqn:Eg; cbn; [|exact IH].
  destruct (f a) eqn:Ef; rewrite IH; reflexivity.
Qed.

Lemma filter_true {A} (l : list A) : filter (fun _ => true) l = l.
Proof. induction l as [|a l IH]; cbn; [reflexivity|]. rewrite IH. reflexivity. Qed.

(* membership test used by add_prefix *)
Definition bmem (p : list N) (ps : list (list N)) : bool := existsb (beq p) ps.

Lemma bmem_In p ps : bmem p ps = true <-> In p ps.
Proof.
  unfold bmem. rewrite existsb_exists. split.
  - intros [y [Hy Hb]]. apply beq_eq in Hb. subst. exact Hy.
  - intros H. exists p. split; [exact H|apply beq_refl].
Qed.

Lemma bmem_app p s t : bmem p (s ++ t) = (bmem p s || bmem p t)%bool.
Proof. unfold bmem. apply existsb_app. Qed.

Definition addp (ps : list (list N)) (p : list N) : list (list N) := add_prefix p ps.

Lemma add_prefix_in p ps : In p ps -> add_prefix p ps = ps.
Proof.
  intros H. unfold add_prefix. apply bmem_In in H. unfold bmem in H. rewrite H. reflexivity.
Qed.

Lemma in_add_prefix p ps : In p (add_prefix p ps).
Proof.
  unfold add_prefix. destruct (existsb (beq p) ps) eqn:E.
  - apply bmem_In. exact E.
  - apply in_or_app. right. left. reflexivity.
Qed.

(* folding add_prefix from an arbitrary start list *)
Lemma fold_addp_dedup l : forall s,
  fold_left addp l s = s ++ filter (fun y => negb (bmem y s)) (dedup l).
Proof.
  induction l as [|x l IH]; intros s.
  - cbn. rewrite app_nil_r. reflexivity.
  - cbn [fold_left dedup].
    change (addp s x) with (if bmem x s then s else s ++ [x]).
    destruct (bmem x s) eqn:E; rewrite IH.
    + cbn [filter]. rewrite E. cbn [negb]. f_equal.
      rewrite filter_filter_and. apply filter_ext. intros y.
      destruct (bmem y s) eqn:Ey; cbn [negb]; [rewrite Bool.andb_false_r; reflexivity|].
      rewrite Bool.andb_true_r.
      destruct (beq x y) eqn:Exy; [|reflexivity].
      apply beq_eq in Exy. subst. congruence.
    + cbn [filter]. rewrite E. cbn [negb]. rewrite <- app_assoc. cbn [app]. f_equal. f_equal.
      rewrite filter_filter_and. apply filter_ext. intros y.
      rewrite bmem_app. unfold bmem at 2. cbn [existsb]. rewrite Bool.orb_false_r.
      rewrite (beq_sym y x).
      destruct (bmem y s); destruct (beq x y); reflexivity.
Qed.

Lemma fold_addp_nil l : fold_left addp l [] = dedup l.
Proof. rewrite fold_addp_dedup. cbn [app bmem existsb negb]. apply filter_true. Qed.

(* what scan (without limit) appends for each item *)
Definition lconts (pre : list N) (delim : option N) (items : list (list N * obj))
  : list (list N * list N) :=
  flat_map (fun kv => match o_data (snd kv) with
                      | Some v => if vd_marker v then [] else
                                  match prefix_match pre delim (fst kv) with
                                  | MContent => [(fst kv, vd_body v)]
                                  | _ => []
                                  end
                      | None => []
                      end) items.

Definition lcommons (pre : list N) (delim : option N) (items : list (list N * obj))
  : list (list N) :=
  flat_map (fun kv => match o_data (snd kv) with
                      | Some v => if vd_marker v then [] else
                                  match prefix_match pre delim (fst kv) with
                                  | MCommon p => [p]
                                  | _ => []
                                  end
                      | None => []
                      end) items.

Lemma lconts_keys pre delim items :
  map fst (lconts pre delim items) =
  filter (fun k => mr_eqb (prefix_match pre delim k) MContent) (live_keys items).
Proof.
  induction items as [|[k o] rest IH]; [reflexivity|].
  unfold lconts, live_keys. cbn [flat_map fst snd].
  fold (lconts pre delim rest). fold (live_keys rest).
  rewrite map_app, filter_app, IH. f_equal.
  destruct (o_data o) as [v|]; [|reflexivity].
  destruct (vd_marker v); [reflexivity|].
  cbn [filter]. destruct (prefix_match pre delim k) as [| |p]; reflexivity.
Qed.

Lemma lcommons_commons pre delim items :
  lcommons pre delim items = commons pre delim (live_keys items).
Proof.
  induction items as [|[k o] rest IH]; [reflexivity|].
  unfold lcommons, live_keys, commons. cbn [flat_map fst snd].
  fold (lcommons pre delim rest). fold (live_keys rest).
  rewrite flat_map_app. fold (commons pre delim (live_keys rest)). rewrite IH. f_equal.
  destruct (o_data o) as [v|]; [|reflexivity].
  destruct (vd_marker v); [reflexivity|].
  cbn [flat_map]. rewrite app_nil_r. reflexivity.
Qed.

Lemma lconts_in pre delim items k body :
  In (k, body) (lconts pre delim items) ->
  exists o v, In (k, o) items /\ o_data o = Some v /\ vd_marker v = false /\ vd_body v = body.
Proof.
  unfold lconts. rewrite in_flat_map. intros [[k' o] [Hin H]]. cbn [fst snd] in H.
  destruct (o_data o) as [v|] eqn:E; [|contradiction].
  destruct (vd_marker v) eqn:Em; [contradiction|].
  destruct (prefix_match pre delim k') as [| |p]; try contradiction.
  destruct H as [H|[]]. inversion H; subst.
  exists o, v. auto.
Qed.

(* one loop iteration when there is no limit (maxkeys = 0) *)
Lemma scan0_cons pre delim k o rest cnt lastp acc v :
  o_data o = Some v ->
  scan pre delim 0 ((k, o) :: rest) cnt lastp acc =
  match prefix_match pre delim k with
  | NoMatch => scan pre delim 0 rest cnt lastp acc
  | MContent =>
      if vd_marker v then scan pre delim 0 rest cnt lastp acc else
      scan pre delim 0 rest (cnt + 1) lastp
        {| lr_contents := lr_contents acc ++ [(k, vd_body v)];
           lr_prefixes := lr_prefixes acc; lr_truncated := false;
           lr_next := []; lr_panic := false |}
  | MCommon p =>
      if vd_marker v then scan pre delim 0 rest cnt lastp acc else
      if match lastp with Some q => beq p q | None => false end
      then scan pre delim 0 rest cnt lastp acc
      else scan pre delim 0 rest (cnt + 1) (Some p)
             {| lr_contents := lr_contents acc;
                lr_prefixes := add_prefix p (lr_prefixes acc); lr_truncated := false;
                lr_next := []; lr_panic := false |}
  end.
Proof. intros E. cbn [scan]. rewrite E. reflexivity. Qed.

Definition clean (r : list_result) : Prop :=
  lr_truncated r = false /\ lr_panic r = false /\ lr_next r = [].

(* the generalised statement about the unlimited scan *)
Lemma scan0_gen pre delim items : forall cnt lastp acc,
  data_some items ->
  (forall q, lastp = Some q -> In q (lr_prefixes acc)) ->
  clean acc ->
  let r := scan pre delim 0 items cnt lastp acc in
  lr_contents r = lr_contents acc ++ lconts pre delim items /\
  lr_prefixes r = fold_left addp (lcommons pre delim items) (lr_prefixes acc) /\
  clean r.
Proof.
  induction items as [|[k o] rest IH]; intros cnt lastp acc Hd Hl Hc.
  - cbn. rewrite app_nil_r. auto.
  - inversion Hd as [|x l Ho Hd']; subst. cbn [snd] in Ho.
    destruct (o_data o) as [v|] eqn:E; [|congruence].
    cbv zeta. rewrite (scan0_cons pre delim k o rest cnt lastp acc v E).
    unfold lconts, lcommons. cbn [flat_map fst snd]. rewrite E.
    fold (lconts pre delim rest). fold (lcommons pre delim rest).
    destruct (prefix_match pre delim k) as [| |p] eqn:Em.
    + destruct (vd_marker v); cbn [app]; apply IH; assumption.
    + destruct (vd_marker v); cbn [app]; [apply IH; assumption|].
      specialize (IH (cnt + 1) lastp
        {| lr_contents := lr_contents acc ++ [(k, vd_body v)];
           lr_prefixes := lr_prefixes acc; lr_truncated := false;
           lr_next := []; lr_panic := false |} Hd').
      cbv zeta in IH. cbn [lr_contents lr_prefixes] in IH.
      rewrite <- app_assoc in IH. cbn [app] in IH.
      apply IH; [exact Hl|repeat split].
    + destruct (vd_marker v); cbn [app]; [apply IH; assumption|].
      destruct (match lastp with Some q => beq p q | None => false end) eqn:El.
      * destruct lastp as [q|]; [|discriminate]. apply beq_eq in El. subst q.
        cbn [fold_left]. unfold addp at 2. rewrite (add_prefix_in p); [|apply Hl; reflexivity].
        apply IH; assumption.
      * specialize (IH (cnt + 1) (Some p)
          {| lr_contents := lr_contents acc;
             lr_prefixes := add_prefix p (lr_prefixes acc); lr_truncated := false;
             lr_next := []; lr_panic := false |} Hd').
        cbv zeta in IH. cbn [lr_contents lr_prefixes] in IH.
        cbn [fold_left]. unfold addp at 2.
        apply IH; [|repeat split].
        intros q Hq. inversion Hq; subst. apply in_add_prefix.
Qed.

Lemma unpaged_gen pre delim items :
  data_some items ->
  let r := unpaged pre delim items in
  lr_contents r = lconts pre delim items /\
  lr_prefixes r = dedup (commons pre delim (live_keys items)) /\
  clean r.
Proof.
  intros Hd. cbv zeta. unfold unpaged.
  destruct (scan0_gen pre delim items 0 None empty_list Hd) as [H1 [H2 H3]].
  - intros q Hq. discriminate.
  - repeat split.
  - cbv zeta in H1, H2, H3. cbn [empty_list lr_contents lr_prefixes app] in H1, H2.
    rewrite fold_addp_nil, lcommons_commons in H2. auto.
Qed.

(* Contents = the live keys that match as contents, in map order *)
Lemma unpaged_contents pre delim items :
  data_some items ->
  map fst (lr_contents (unpaged pre delim items)) =
  filter (fun k => mr_eqb (prefix_match pre delim k) MContent) (live_keys items).
Proof.
  intros Hd. destruct (unpaged_gen pre delim items Hd) as [H1 _].
  rewrite H1. apply lconts_keys.
Qed.

(* CommonPrefixes = the common prefixes of the live keys, each once, in order of first appearance *)
Lemma unpaged_prefixes pre delim items :
  data_some items ->
  lr_prefixes (unpaged pre delim items) = dedup (commons pre delim (live_keys items)).
Proof.
  intros Hd. destruct (unpaged_gen pre delim items Hd) as [_ [H2 _]]. exact H2.
Qed.

Lemma unpaged_flags pre delim items :
  data_some items ->
  let r := unpaged pre delim items in
  lr_truncated r = false /\ lr_panic r = false /\ lr_next r = [].
Proof.
  intros Hd. destruct (unpaged_gen pre delim items Hd) as [_ [_ H3]]. exact H3.
Qed.

(* each listed entry carries the body (hence Size and ETag) of that key's current version *)
Lemma unpaged_bodies pre delim items k body :
  data_some items -> In (k, body) (lr_contents (unpaged pre delim items)) ->
  exists o v, In (k, o) items /\ o_data o = Some v /\ vd_marker v = false /\ vd_body v = body.
Proof.
  intros Hd Hin. destruct (unpaged_gen pre delim items Hd) as [H1 _].
  rewrite H1 in Hin. eapply lconts_in. exact Hin.
Qed.

Lemma dedup_nodup l : NoDup (dedup l).
Proof.
  induction l as [|x l IH]; cbn [dedup]; constructor.
  - intros H. apply filter_In in H. destruct H as [_ H]. rewrite beq_refl in H. discriminate.
  - apply NoDup_filter. exact IH.
Qed.

Print Assumptions unpaged_contents.
Print Assumptions unpaged_prefixes.
Print Assumptions unpaged_flags.
Print Assumptions unpaged_bodies.
Print Assumptions dedup_nodup.
