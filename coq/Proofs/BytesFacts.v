From GF Require Import Base.Bytes.

Lemma beq_refl a : beq a a = true.
Proof. induction a as [|x a IH]; cbn; [reflexivity|]. rewrite N.eqb_refl, IH. reflexivity. Qed.

Lemma beq_eq a b : beq a b = true <-> a = b.
Proof.
  split; [|intros ->; apply beq_refl].
  revert b. induction a as [|x a IH]; destruct b as [|y b]; cbn; try discriminate; try reflexivity.
  intros H. apply andb_prop in H as [H1 H2]. apply N.eqb_eq in H1. apply IH in H2. congruence.
Qed.

Lemma beq_neq a b : beq a b = false <-> a <> b.
Proof.
  split.
  - intros H E. apply beq_eq in E. congruence.
  - intros H. destruct (beq a b) eqn:E; [|reflexivity]. apply beq_eq in E. contradiction.
Qed.

Lemma beq_sym a b : beq a b = beq b a.
Proof.
  destruct (beq a b) eqn:E.
  - apply beq_eq in E. subst. symmetry. apply beq_refl.
  - symmetry. apply beq_neq. apply beq_neq in E. congruence.
Qed.

Lemma bltb_irrefl a : bltb a a = false.
Proof. induction a as [|x a IH]; cbn; [reflexivity|]. rewrite N.ltb_irrefl. exact IH. Qed.

Lemma bltb_trans a b c : bltb a b = true -> bltb b c = true -> bltb a c = true.
Proof.
  revert b c. induction a as [|x a IH]; intros [|y b] [|z c]; cbn; try discriminate; try reflexivity.
  destruct (N.ltb x y) eqn:Exy.
  - intros _. destruct (N.ltb y z) eqn:Eyz.
    + intros _. apply N.ltb_lt in Exy, Eyz. assert (H : (x <? z)%N = true) by (apply N.ltb_lt; lia).
      rewrite H. reflexivity.
    + destruct (N.ltb z y) eqn:Ezy; [discriminate|]. intros _.
      apply N.ltb_lt in Exy. apply N.ltb_ge in Eyz, Ezy.
      assert (H : (x <? z)%N = true) by (apply N.ltb_lt; lia). rewrite H. reflexivity.
  - destruct (N.ltb y x) eqn:Eyx; [discriminate|]. intros Hab.
    apply N.ltb_ge in Exy, Eyx. assert (x = y) by lia. subst y.
    destruct (N.ltb x z); [reflexivity|]. destruct (N.ltb z x); [discriminate|]. apply IH. exact Hab.
Qed.

Lemma bltb_asym a b : bltb a b = true -> bltb b a = false.
Proof.
  intros H. destruct (bltb b a) eqn:E; [|reflexivity].
  pose proof (bltb_trans _ _ _ H E) as H1. rewrite bltb_irrefl in H1. discriminate.
Qed.

Lemma bltb_total a b : bltb a b = false -> bltb b a = false -> a = b.
Proof.
  revert b. induction a as [|x a IH]; intros [|y b]; cbn; try discriminate; try reflexivity.
  destruct (N.ltb x y) eqn:Exy; [discriminate|]. destruct (N.ltb y x) eqn:Eyx; [discriminate|].
  intros H1 H2. apply N.ltb_ge in Exy, Eyx. assert (x = y) by lia. subst. f_equal. apply IH; assumption.
Qed.

Lemma bltb_neq a b : bltb a b = true -> a <> b.
Proof. intros H ->. rewrite bltb_irrefl in H. discriminate. Qed.

Lemma bleb_refl a : bleb a a = true.
Proof. unfold bleb. rewrite bltb_irrefl. reflexivity. Qed.
