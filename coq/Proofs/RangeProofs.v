From GF Require Import Base.Bytes Base.Int64 Model.ParseInt Model.Range Spec.RangeSpec.
From Coq Require Import ZifyBool.
Open Scope Z_scope.

Lemma wrap64_id z : in64 z -> wrap64 z = z.
Proof.
  unfold in64, min64, max64, wrap64. intros H.
  rewrite Z.mod_small; lia.
Qed.

Lemma wrap64_range z : in64 (wrap64 z).
Proof.
  unfold in64, min64, max64, wrap64.
  pose proof (Z.mod_pos_bound (z + 2 ^ 63) (2 ^ 64)). lia.
Qed.

Lemma wrap64_over z : max64 < z <= 2 ^ 64 + max64 -> wrap64 z = z - 2 ^ 64.
Proof.
  unfold min64, max64, wrap64. intros H.
  replace (z + 2 ^ 63) with ((z - 2 ^ 63) + 1 * 2 ^ 64) by lia.
  rewrite Z.mod_add by lia. rewrite Z.mod_small; lia.
Qed.

Lemma in64b_spec z : in64b z = true <-> in64 z.
Proof. unfold in64b, in64. lia. Qed.

Lemma parse_digits_signed_in64 neg ds v : parse_digits_signed neg ds = Some v -> in64 v.
Proof.
  unfold parse_digits_signed. destruct ds as [|d ds']; [discriminate|].
  destruct (digits_val (d :: ds') 0) as [w|]; [|discriminate].
  destruct (in64b (if neg then - w else w)) eqn:E; [|discriminate].
  intros H; inversion H; subst. apply in64b_spec; assumption.
Qed.

Lemma parse_int64_in64 s v : parse_int64 s = Some v -> in64 v.
Proof.
  unfold parse_int64. destruct s as [|c s']; [discriminate|].
  destruct (N.eqb c 43); [|destruct (N.eqb c 45)]; apply parse_digits_signed_in64.
Qed.

(* A request as the parser can produce it *)
Definition wf_req (r : range_req) : Prop :=
  in64 (rq_start r) /\ in64 (rq_end r) /\
  (rq_from_end r = false ->
     0 <= rq_start r /\ (rq_end r = range_no_end \/ rq_start r <= rq_end r)).

Lemma parse_range_header_wf s r : parse_range_header s = HReq r -> wf_req r.
Proof.
  unfold parse_range_header. destruct s as [|c0 s0]; [discriminate|].
  destruct (negb (prefixb bytes_eq_prefix (c0 :: s0))); [discriminate|].
  destruct (split 44 (skipn 6 (c0 :: s0))) as [|r0 [|? ?]]; try discriminate.
  destruct (trim_space r0) as [|c1 s1] eqn:Er; [discriminate|].
  destruct (cut 45 (c1 :: s1)) as [a [b|]]; [|discriminate].
  destruct (trim_space a) as [|ca sa] eqn:Ea.
  - destruct (parse_int64 (trim_space b)) as [i|] eqn:Ei; [|discriminate].
    intros H; inversion H; subst; clear H. apply parse_int64_in64 in Ei.
    unfold wf_req; cbn [rq_start rq_end rq_from_end].
    split; [unfold in64, min64, max64; lia|]. split; [assumption|]. discriminate.
  - destruct (parse_int64 (ca :: sa)) as [i|] eqn:Ei; [|discriminate].
    apply parse_int64_in64 in Ei.
    destruct (Z.ltb i 0) eqn:Eneg; [discriminate|].
    destruct (trim_space b) as [|cb sb] eqn:Eb.
    + intros H; inversion H; subst; clear H. unfold wf_req; cbn [rq_start rq_end rq_from_end].
      split; [assumption|]. split; [unfold range_no_end, in64, min64, max64; lia|].
      intros _. split; [lia|]. left; reflexivity.
    + destruct (parse_int64 (cb :: sb)) as [j|] eqn:Ej; [|discriminate].
      apply parse_int64_in64 in Ej.
      destruct (Z.ltb j i) eqn:Eji; [discriminate|].
      intros H; inversion H; subst; clear H. unfold wf_req; cbn [rq_start rq_end rq_from_end].
      split; [assumption|]. split; [assumption|].
      intros _. split; [lia|]. right; lia.
Qed.

Lemma blen_nonneg d : 0 <= blen d.
Proof. unfold blen; lia. Qed.

Lemma slice_ok data st len :
  0 <= st -> 0 <= len -> st + len <= blen data ->
  slice data st len = Some (firstn (Z.to_nat len) (skipn (Z.to_nat st) data)).
Proof.
  intros. unfold slice.
  destruct (Z.ltb st 0) eqn:?; try lia.
  destruct (Z.ltb len 0) eqn:?; try lia.
  destruct (Z.ltb (blen data) (st + len)) eqn:?; try lia. reflexivity.
Qed.

Definition req_answer (r : range_req) (data : bytes) : get_range_answer :=
  match range_go r (blen data) with
  | RInvalid => A416
  | ROk st len =>
      match slice data st len with
      | None => APanic
      | Some b => APartial st (add64 (add64 st len) (-1)) b
      end
  end.

Ltac w64 :=
  repeat match goal with
  | |- context [wrap64 ?z] => rewrite (wrap64_id z) by (unfold in64, min64, max64 in *; lia)
  end.

(* The arithmetic kernel: for EVERY int64 request the parser can produce and EVERY size,
   the Go computation (with wrap-around) equals the mathematical answer. *)
Lemma range_req_correct r data :
  wf_req r -> blen data <= max64 ->
  to_spec (req_answer r data) = Some (answer (form_of_req r) data).
Proof.
  intros (Hs & He & Hwf) Hn. pose proof (blen_nonneg data) as Hn0.
  unfold req_answer, range_go, form_of_req.
  destruct r as [st en fe]; cbn [rq_start rq_end rq_from_end] in *.
  destruct fe; cbn [negb].
  - (* suffix *)
    clear Hwf. unfold answer, sub64, add64.
    set (n := blen data) in *.
    destruct (Z_lt_le_dec en (n - max64)) as [Hlow|Hlow].
    + (* n - en overflows upward: wraps negative *)
      rewrite (wrap64_over (n - en)) by (unfold in64, min64, max64 in *; lia).
      destruct (Z.ltb (n - en - 2 ^ 64) 0) eqn:E1; [|unfold in64, min64, max64 in *; lia].
      cbn [orb]. destruct (Z.leb 1 en) eqn:E2; cbn [andb]; [unfold in64, min64, max64 in *; lia|].
      reflexivity.
    + rewrite (wrap64_id (n - en)) by (unfold in64, min64, max64 in *; lia).
      rewrite (wrap64_id (n - (n - en))) by (unfold in64, min64, max64 in *; lia).
      replace (n - (n - en)) with en by lia.
      destruct (Z.ltb (n - en) 0) eqn:E1; cbn [orb].
      { destruct (Z.leb 1 en) eqn:?; destruct (Z.leb en n) eqn:?; cbn [andb]; try lia; reflexivity. }
      destruct (Z.ltb en 0) eqn:E2; cbn [orb].
      { destruct (Z.leb 1 en) eqn:?; cbn [andb]; try lia; reflexivity. }
      destruct (Z.leb n (n - en)) eqn:E3.
      { destruct (Z.leb 1 en) eqn:?; cbn [andb]; try lia; reflexivity. }
      destruct (Z.leb 1 en) eqn:E4; [|lia]. destruct (Z.leb en n) eqn:E5; [|lia]. cbn [andb].
      rewrite (wrap64_id (n - en + en)) by (unfold in64, min64, max64 in *; lia).
      destruct (Z.ltb n (n - en + en)) eqn:E6; [lia|].
      rewrite slice_ok by (fold n; lia). cbn [to_spec].
      unfold add64; w64.
      unfold sub_bytes; repeat (f_equal; try lia).
  - specialize (Hwf eq_refl) as (Hst0 & Hend).
    unfold answer, sub64, add64. cbv zeta. set (n := blen data) in *.
    destruct (Z.eqb en range_no_end) eqn:Eno.
    + (* first- *)
      cbn [orb].
      rewrite (wrap64_id (n - st)) by (unfold in64, min64, max64 in *; lia).
      destruct (Z.ltb st 0) eqn:E1; [lia|]. cbn [orb].
      destruct (Z.ltb (n - st) 0) eqn:E2; cbn [orb].
      { destruct (Z.leb 0 st) eqn:?; destruct (Z.ltb st n) eqn:?; cbn [andb]; try lia; reflexivity. }
      destruct (Z.leb n st) eqn:E3.
      { destruct (Z.leb 0 st) eqn:?; destruct (Z.ltb st n) eqn:?; cbn [andb]; try lia; reflexivity. }
      destruct (Z.leb 0 st) eqn:E4; [|lia]. destruct (Z.ltb st n) eqn:E5; [|lia]. cbn [andb].
      rewrite (wrap64_id (st + (n - st))) by (unfold in64, min64, max64 in *; lia).
      destruct (Z.ltb n (st + (n - st))) eqn:E6; [lia|].
      rewrite slice_ok by (fold n; lia). cbn [to_spec].
      unfold add64; w64.
      unfold sub_bytes; repeat (f_equal; try lia).
    + (* first-last *)
      destruct Hend as [Hend|Hend]; [unfold range_no_end in *; lia|].
      cbn [orb]. destruct (Z.leb n en) eqn:Eclip.
      * (* last beyond the end: clipped *)
        rewrite (wrap64_id (n - st)) by (unfold in64, min64, max64 in *; lia).
        destruct (Z.ltb st 0) eqn:E1; [lia|]. cbn [orb].
        destruct (Z.ltb (n - st) 0) eqn:E2; cbn [orb].
        { destruct (Z.leb 0 st) eqn:?; destruct (Z.leb st en) eqn:?; destruct (Z.ltb st n) eqn:?;
            cbn [andb]; try lia; reflexivity. }
        destruct (Z.leb n st) eqn:E3.
        { destruct (Z.leb 0 st) eqn:?; destruct (Z.leb st en) eqn:?; destruct (Z.ltb st n) eqn:?;
            cbn [andb]; try lia; reflexivity. }
        destruct (Z.leb 0 st) eqn:E4; [|lia]. destruct (Z.leb st en) eqn:E4'; [|lia].
        destruct (Z.ltb st n) eqn:E5; [|lia]. cbn [andb].
        rewrite (wrap64_id (st + (n - st))) by (unfold in64, min64, max64 in *; lia).
        destruct (Z.ltb n (st + (n - st))) eqn:E6; [lia|].
        rewrite slice_ok by (fold n; lia). cbn [to_spec].
        unfold add64; w64.
        rewrite Z.min_r by lia.
        unfold sub_bytes; repeat (f_equal; try lia).
      * rewrite (wrap64_id (en - st)) by (unfold in64, min64, max64 in *; lia).
        rewrite (wrap64_id (en - st + 1)) by (unfold in64, min64, max64 in *; lia).
        destruct (Z.ltb st 0) eqn:E1; [lia|]. cbn [orb].
        destruct (Z.ltb (en - st + 1) 0) eqn:E2; [lia|]. cbn [orb].
        destruct (Z.leb n st) eqn:E3; [lia|].
        destruct (Z.leb 0 st) eqn:E4; [|lia]. destruct (Z.leb st en) eqn:E4'; [|lia].
        destruct (Z.ltb st n) eqn:E5; [|lia]. cbn [andb].
        rewrite (wrap64_id (st + (en - st + 1))) by (unfold in64, min64, max64 in *; lia).
        destruct (Z.ltb n (st + (en - st + 1))) eqn:E6; [lia|].
        rewrite slice_ok by (fold n; lia). cbn [to_spec].
        unfold add64; w64.
        rewrite Z.min_l by lia.
        unfold sub_bytes; repeat (f_equal; try lia).
Qed.

(* Full statement over header strings. *)
Definition header_answer_ok (hdr data : bytes) : Prop :=
  match parse_range_header hdr with
  | HNone => get_range hdr data = AWhole
  | HInvalid => get_range hdr data = A416
  | HNotImplemented => get_range hdr data = A501
  | HReq r => to_spec (get_range hdr data) = Some (answer (form_of_req r) data)
  end.

Lemma get_range_correct hdr data : blen data <= max64 -> header_answer_ok hdr data.
Proof.
  intros Hn. unfold header_answer_ok, get_range.
  destruct (parse_range_header hdr) as [| | |r] eqn:E; try reflexivity.
  apply parse_range_header_wf in E. apply (range_req_correct r data E Hn).
Qed.

Lemma get_range_no_panic hdr data : blen data <= max64 -> get_range hdr data <> APanic.
Proof.
  intros Hn. pose proof (get_range_correct hdr data Hn) as H. unfold header_answer_ok in H.
  destruct (parse_range_header hdr); try (rewrite H; discriminate).
  intros Hp. rewrite Hp in H. discriminate.
Qed.

(* The spec answer is what the property says in words *)
Lemma answer_partial_shape f data a b body :
  answer f data = SPartial a b body ->
  0 <= a <= b /\ b < blen data /\ body = sub_bytes data a b /\ blen body = b - a + 1.
Proof.
  assert (Hlen : forall a b, 0 <= a <= b -> b < blen data -> blen (sub_bytes data a b) = b - a + 1).
  { intros x y Hx Hy. unfold sub_bytes, blen in *. rewrite firstn_length, skipn_length. lia. }
  unfold answer. destruct f as [x y|x|k].
  - destruct (Z.leb 0 x) eqn:?; destruct (Z.leb x y) eqn:?; destruct (Z.ltb x (blen data)) eqn:?;
      cbn [andb]; try discriminate.
    intros H; inversion H; subst; clear H.
    repeat split; try lia. apply Hlen; lia.
  - destruct (Z.leb 0 x) eqn:?; destruct (Z.ltb x (blen data)) eqn:?; cbn [andb]; try discriminate.
    intros H; inversion H; subst; clear H. repeat split; try lia. apply Hlen; lia.
  - destruct (Z.leb 1 k) eqn:?; destruct (Z.leb k (blen data)) eqn:?; cbn [andb]; try discriminate.
    intros H; inversion H; subst; clear H. repeat split; try lia. apply Hlen; lia.
Qed.
