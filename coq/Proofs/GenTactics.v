(* Tactics shared by the proofs about regenerated definitions (GenProofs/*.v): they unfold, supply
   the facts about the library functions, then analyse every condition they meet ([cases]) and close
   each leaf by reflexivity / lia, without referring to generated names or to the nesting of the
   generated term. *)
From GF Require Import Base.Bytes Base.Int64 Base.Lit Base.GoLib.
From GF Require Import Model.ParseInt Model.Range Model.Errors Model.BucketName.
From GF Require Import Spec.RangeSpec Spec.NameSpec.
From GF Require Import Proofs.BytesFacts Proofs.RangeProofs Proofs.NameProofs Proofs.PrefixProofs.
From Coq Require Import ZifyBool ZifyNat.
Open Scope Z_scope.

(* ------------------------------------------------------------------ generic case analysis *)

(* the innermost thing a condition / match depends on first *)
Ltac subject x :=
  lazymatch x with
  | match ?y with _ => _ end => subject y
  | orb ?a _ => subject a
  | andb ?a _ => subject a
  | negb ?a => subject a
  | beq ?a nil => subject a
  | _ => constr:(x)
  end.

Ltac norm :=
  cbn [orb andb negb beq rq_start rq_end rq_from_end outcome_get option_map fst snd].

(* leaves: equal terms, or contradictory arithmetic facts about the conditions met on the way *)
Ltac leaf :=
  first [ reflexivity
        | exfalso; unfold blen in *; cbn [length] in *; timeout 20 lia
        | exfalso; cbn [beq] in *; congruence ].

Ltac step :=
  match goal with
  | |- context [match ?x with _ => _ end] =>
      let s := subject x in
      (is_var s; destruct s) || destruct s eqn:?
  end; norm.

(* analyse conditions until nothing is left; [n] bounds the depth *)
Ltac cases n :=
  norm; try leaf;
  lazymatch n with
  | O => idtac
  | S ?m => try (step; cases m)
  end.

