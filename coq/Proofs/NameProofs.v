From GF Require Import Base.Bytes Model.BucketName Spec.NameSpec.
From Coq Require Import ZifyBool ZifyNat.
Open Scope N_scope.

Lemma forallb_ext_in (A : Type) (f g : A -> bool) l :
  (forall x, In x l -> f x = g x) -> forallb f l = forallb g l.
Proof.
  induction l as [|x l IH]; [reflexivity|]. intros H. cbn.
  rewrite (H x (or_introl eq_refl)). rewrite IH; [reflexivity|].
  intros y Hy. apply H. right. assumption.
Qed.

Lemma forallb_ext (A : Type) (f g : A -> bool) l :
  (forall x, f x = g x) -> forallb f l = forallb g l.
Proof. intros H. apply forallb_ext_in. intros x _. apply H. Qed.

Lemma alnum_class c : alnum c = true -> class c = true.
Proof. unfold class. intros ->. reflexivity. Qed.

Lemma alnum_ldh c : alnum c = true -> ldh c = true.
Proof. unfold ldh. intros ->. reflexivity. Qed.

Lemma ldh_class c : ldh c = true -> class c = true.
Proof. unfold ldh, class. destruct (alnum c); cbn; [reflexivity|]. intros ->. apply orb_true_r. Qed.

Lemma class_ldh c : c <> dot -> class c = ldh c.
Proof.
  unfold class, ldh. intros H. apply N.eqb_neq in H. rewrite H.
  destruct (alnum c); reflexivity.
Qed.

(* flat characterisation of the matcher *)
Lemma tail_ok_flat s :
  tail_ok s = negb (Nat.eqb (length s) 0) && forallb class s && alnum (last s 0).
Proof.
  induction s as [|c s IH]; [reflexivity|].
  destruct s as [|d s'].
  - cbn. destruct (alnum c) eqn:E; [rewrite (alnum_class _ E)|]; cbn.
    reflexivity. rewrite andb_false_r. reflexivity.
  - change (tail_ok (c :: d :: s')) with (class c && tail_ok (d :: s')).
    rewrite IH. change (last (c :: d :: s') 0) with (last (d :: s') 0).
    cbn [length forallb Nat.eqb negb]. cbn [andb].
    destruct (class c); reflexivity.
Qed.

Lemma pattern_flat s :
  pattern s = (3 <=? length s)%nat && forallb class s && alnum (hd 0 s) && alnum (last s 0).
Proof.
  destruct s as [|c1 [|c2 rest]].
  - reflexivity.
  - cbn. rewrite !andb_false_l || reflexivity.
  - unfold pattern. rewrite tail_ok_flat.
    destruct rest as [|c3 r].
    + cbn. rewrite !andb_false_r. reflexivity.
    + change (last (c1 :: c2 :: c3 :: r) 0) with (last (c3 :: r) 0).
      cbn [hd length forallb]. 
      replace (3 <=? S (S (S (length r))))%nat with true by (symmetry; apply Nat.leb_le; lia).
      cbn [Nat.eqb negb andb].
      destruct (alnum c1) eqn:E1; cbn [andb].
      * rewrite (alnum_class _ E1). cbn [andb]. destruct (class c2); cbn [andb]; [|reflexivity].
        destruct (class c3 && forallb class r); cbn [andb]; reflexivity.
      * rewrite !andb_false_r. reflexivity.
Qed.

(* split facts *)
Lemma split_nonempty d s : split d s <> [].
Proof.
  induction s as [|c s IH]; cbn; [discriminate|].
  destruct (c =? d); [discriminate|]. destruct (split d s); [contradiction|discriminate].
Qed.

Lemma split_cons_ne d c s : (c =? d) = false ->
  exists h t, split d s = h :: t /\ split d (c :: s) = (c :: h) :: t.
Proof.
  intros H. cbn. rewrite H. destruct (split d s) as [|h t] eqn:E.
  - exfalso. eapply split_nonempty; eassumption.
  - exists h, t. split; reflexivity.
Qed.

Lemma split_no_sep d s : forall l, In l (split d s) -> ~ In d l.
Proof.
  induction s as [|c s IH]; intros l Hl.
  - cbn in Hl. destruct Hl as [<-|[]]. intros [].
  - destruct (c =? d) eqn:E.
    + cbn in Hl. rewrite E in Hl. destruct Hl as [<-|Hl]; [intros []|apply IH; assumption].
    + destruct (split_cons_ne d c s E) as (h & t & E1 & E2). rewrite E2 in Hl.
      destruct Hl as [<-|Hl].
      * intros [Hc|Hh]. { subst. rewrite N.eqb_refl in E. discriminate. }
        apply (IH h); [rewrite E1; left; reflexivity|assumption].
      * apply IH. rewrite E1. right. assumption.
Qed.

(* every byte of s is the separator or belongs to a segment *)
Lemma split_forallb d (P : N -> bool) s :
  forallb (forallb P) (split d s) = true -> forallb (fun c => P c || (c =? d)) s = true.
Proof.
  induction s as [|c s IH]; [reflexivity|].
  destruct (c =? d) eqn:E.
  - cbn. rewrite E. cbn. intros H. rewrite orb_true_r. cbn. apply IH. assumption.
  - destruct (split_cons_ne d c s E) as (h & t & E1 & E2). rewrite E2.
    cbn [forallb]. rewrite E1 in IH. cbn [forallb] in IH.
    intros H. apply andb_prop in H as [H1 H2]. apply andb_prop in H1 as [Hc Hh].
    rewrite Hc. cbn. apply IH. rewrite Hh, H2. reflexivity.
Qed.

Lemma split_hd d s : hd [] (split d s) <> [] -> hd 0 s = hd 0 (hd [] (split d s)).
Proof.
  destruct s as [|c s]; [cbn; intros H; exfalso; apply H; reflexivity|].
  destruct (c =? d) eqn:E.
  - cbn. rewrite E. cbn. intros H. exfalso. apply H. reflexivity.
  - destruct (split_cons_ne d c s E) as (h & t & E1 & E2). rewrite E2. reflexivity.
Qed.

Lemma last_cons_ne (A : Type) (x : A) l dflt : l <> [] -> last (x :: l) dflt = last l dflt.
Proof. destruct l; [contradiction|reflexivity]. Qed.

Lemma split_last d s : last (split d s) [] <> [] -> last s 0 = last (last (split d s) []) 0.
Proof.
  induction s as [|c s IH]; [cbn; intros H; exfalso; apply H; reflexivity|].
  destruct (c =? d) eqn:E.
  - cbn [split]. rewrite E. rewrite last_cons_ne by apply split_nonempty.
    intros H. specialize (IH H). rewrite <- IH.
    destruct s as [|c' s']; [|reflexivity].
    cbn in H. exfalso. apply H. reflexivity.
  - destruct (split_cons_ne d c s E) as (h & t & E1 & E2). rewrite E2. rewrite E1 in IH.
    destruct t as [|h2 t'].
    + cbn [last] in *. destruct s as [|c' s'].
      * cbn in E1. inversion E1; subst. reflexivity.
      * intros _. destruct h as [|hc hr].
        -- (* h = [] but s nonempty and single segment: impossible unless s = [] *)
           exfalso. cbn in E1. destruct (c' =? d) eqn:E'.
           ++ inversion E1 as [Ht]. eapply split_nonempty. eassumption.
           ++ destruct (split d s'); inversion E1.
        -- change (last (c :: c' :: s') 0) with (last (c' :: s') 0).
           change (last (c :: hc :: hr) 0) with (last (hc :: hr) 0).
           apply IH. discriminate.
    + change (last ((c :: h) :: h2 :: t') []) with (last (h2 :: t') []).
      change (last (h :: h2 :: t') []) with (last (h2 :: t') []) in IH.
      intros H. rewrite <- (IH H). destruct s as [|c' s']; [|reflexivity].
      cbn in E1. inversion E1.
Qed.

Lemma forallb_last (A : Type) (P : A -> bool) l dflt :
  l <> [] -> forallb P l = true -> P (last l dflt) = true.
Proof.
  induction l as [|x l IH]; [contradiction|]. intros _ H. cbn in H. apply andb_prop in H as [Hx Hl].
  destruct l as [|y l']; [exact Hx|]. apply IH; [discriminate|assumption].
Qed.

Lemma label_ok_nonempty l : label_ok l = true -> l <> [].
Proof. destruct l; [discriminate|discriminate]. Qed.

(* (1) on a dot-free segment the regexp and the label rule coincide *)
Lemma pattern_label l : ~ In dot l -> pattern l = label_ok l.
Proof.
  intros Hd. rewrite pattern_flat. unfold label_ok.
  replace (forallb class l) with (forallb ldh l); [reflexivity|].
  induction l as [|c l IH]; [reflexivity|]. cbn.
  rewrite IH by (intros H; apply Hd; right; assumption).
  rewrite class_ldh; [reflexivity|]. intros ->. apply Hd. left. reflexivity.
Qed.

(* (2) if every label is ok and the length is ok, the whole-name regexp matches *)
Lemma labels_imp_pattern s :
  len_ok s = true -> forallb label_ok (split dot s) = true -> pattern s = true.
Proof.
  intros Hlen Hall. rewrite pattern_flat.
  unfold len_ok in Hlen. apply andb_prop in Hlen as [H3 _]. rewrite H3. cbn [andb].
  assert (Hne : split dot s <> []) by apply split_nonempty.
  assert (Hfa : forall l, In l (split dot s) -> label_ok l = true)
    by (apply forallb_forall; assumption).
  assert (Hcls : forallb class s = true).
  { assert (H : forallb (forallb ldh) (split dot s) = true).
    { apply forallb_forall. intros l Hl. specialize (Hfa l Hl). unfold label_ok in Hfa.
      apply andb_prop in Hfa as [Hfa _]. apply andb_prop in Hfa as [Hfa _].
      apply andb_prop in Hfa as [_ Hfa]. exact Hfa. }
    apply split_forallb in H. erewrite forallb_ext; [exact H|].
    intros c. unfold class, ldh. cbn. destruct (alnum c), (c =? dot), (c =? hyphen); reflexivity. }
  rewrite Hcls. cbn [andb].
  assert (Hhd : label_ok (hd [] (split dot s)) = true).
  { destruct (split dot s) as [|h t]; [contradiction|]. apply Hfa. left. reflexivity. }
  assert (Hla : label_ok (last (split dot s) []) = true).
  { apply (forallb_last _ label_ok); assumption. }
  rewrite (split_hd dot s) by (apply label_ok_nonempty; assumption).
  rewrite (split_last dot s) by (apply label_ok_nonempty; assumption).
  unfold label_ok in Hhd, Hla.
  apply andb_prop in Hhd as [Hhd _]. apply andb_prop in Hhd as [_ Hhd].
  apply andb_prop in Hla as [_ Hla]. rewrite Hhd, Hla. reflexivity.
Qed.

Lemma validate_eq_valid s : validate s = valid s.
Proof.
  unfold validate, valid.
  destruct (len_ok s) eqn:Hlen; cbn [negb andb]; [|reflexivity].
  assert (Hext : forallb pattern (split dot s) = forallb label_ok (split dot s)).
  { apply forallb_ext_in. intros l Hl. apply pattern_label. apply (split_no_sep dot s). assumption. }
  destruct (pattern s) eqn:Hp; cbn [negb].
  - destruct (is_ipv4 s); cbn [negb].
    + rewrite andb_false_r. reflexivity.
    + rewrite andb_true_r. exact Hext.
  - destruct (forallb label_ok (split dot s)) eqn:Hall; [|reflexivity].
    rewrite (labels_imp_pattern s Hlen Hall) in Hp. discriminate.
Qed.

(* Only the dotted-quad branch of net.ParseIP is reachable after the regexp: a matching
   name contains neither ':' (IPv6) nor '%' (zone). *)
Lemma pattern_no_colon s : pattern s = true -> ~ In 58 s /\ ~ In 37 s.
Proof.
  rewrite pattern_flat. intros H. apply andb_prop in H as [H _]. apply andb_prop in H as [H _].
  apply andb_prop in H as [_ H]. rewrite forallb_forall in H.
  split; intros Hin; specialize (H _ Hin); vm_compute in H; discriminate.
Qed.

(* create-bucket decision over the set of existing names *)
Definition name_create (existing : list (list N)) (name : list N) : list (list N) * bool :=
  if validate name && negb (existsb (beq name) existing) then (name :: existing, true)
  else (existing, false).

Lemma create_iff existing name :
  snd (name_create existing name) = true <->
  valid name = true /\ existsb (beq name) existing = false.
Proof.
  unfold name_create. rewrite validate_eq_valid.
  destruct (valid name), (existsb (beq name) existing); cbn; intuition discriminate.
Qed.

Lemma create_refused_creates_nothing existing name :
  snd (name_create existing name) = false -> fst (name_create existing name) = existing.
Proof. unfold name_create. destruct (validate name && _); cbn; [discriminate|reflexivity]. Qed.
