(* TASK B.  The invariant of the memory-backend model is preserved by every handler step, no
   reachable state makes a handler panic, and the S3 laws of C02 hold in every state satisfying
   the invariant.  Statements are fixed (you may add helper lemmas and strengthen, never weaken). *)
From GF Require Import Base.Bytes Base.SortedMap Model.Mem Model.BucketName Model.Handlers
  Proofs.BytesFacts Proofs.SortedMapFacts Proofs.MemProofs Proofs.MemInvDef.

From Coq Require Import Lia ZifyBool ZifyN.

(* ------------------------------------------------------------------------------------ *)
(* extra facts about sorted maps                                                        *)
(* ------------------------------------------------------------------------------------ *)
Section SMExtra.
Context {V : Type}.
Notation map_ := (list (list N * V)).

Lemma in_set_inv k v k' v' (m : map_) :
  In (k, v) (sm_set k' v' m) -> (k, v) = (k', v') \/ In (k, v) m.
Proof.
  induction m as [|[k2 v2] m IH]; cbn.
  - intros [H|[]]. left. symmetry. exact H.
  - destruct (beq k' k2) eqn:E.
    + cbn. intros [H|H]; [left; symmetry; exact H|right; right; exact H].
    + destruct (bltb k' k2); cbn.
      * intros [H|H]; [left; symmetry; exact H|right; exact H].
      * intros [H|H]; [right; left; exact H|]. destruct (IH H) as [H1|H1]; auto.
Qed.

Lemma in_del_inv x k (m : map_) : In x (sm_del k m) -> In x m.
Proof.
  induction m as [|[k2 v2] m IH]; cbn; [trivial|].
  destruct (beq k k2); cbn; [auto|]. intros [H|H]; auto.
Qed.

Lemma in_after_inv x k (m : map_) : In x (sm_after k m) -> In x m.
Proof.
  induction m as [|[k2 v2] m IH]; cbn; [trivial|].
  destruct (bleb k2 k); cbn; [auto|]. intros [H|H]; auto.
Qed.

Lemma get_in k v (m : map_) : sm_get k m = Some v -> In (k, v) m.
Proof.
  induction m as [|[k2 v2] m IH]; cbn; [discriminate|].
  destruct (beq k k2) eqn:E.
  - intros H. inversion H; subst. apply beq_eq in E. subst. left; reflexivity.
  - intros H. right. auto.
Qed.

Lemma lb_in k k' v (m : map_) : lb k m -> In (k', v) m -> bltb k k' = true.
Proof.
  induction m as [|[k2 v2] m IH]; cbn; [intros _ []|].
  intros [H1 H2] [H|H]; [inversion H; subst; exact H1|auto].
Qed.

Lemma in_get k v (m : map_) : sorted m -> In (k, v) m -> sm_get k m = Some v.
Proof.
  induction m as [|[k2 v2] m IH]; cbn; [intros _ []|].
  intros [H1 H2] [H|H].
  - inversion H; subst. rewrite beq_refl. reflexivity.
  - destruct (beq k k2) eqn:E; [|auto].
    apply beq_eq in E; subst. pose proof (lb_in _ _ _ _ H1 H) as H0.
    rewrite bltb_irrefl in H0. discriminate.
Qed.

Lemma set_same k v (m : map_) : sorted m -> sm_get k m = Some v -> sm_set k v m = m.
Proof.
  induction m as [|[k2 v2] m IH]; cbn; [discriminate|].
  intros [H1 H2]. destruct (beq k k2) eqn:E.
  - intros H. inversion H; subst. apply beq_eq in E. subst. reflexivity.
  - intros H. destruct (bltb k k2) eqn:L.
    + apply get_in in H. pose proof (lb_in _ _ _ _ H1 H) as H0.
      apply bltb_asym in H0. congruence.
    + rewrite IH; auto.
Qed.

Lemma set_idem k v (m : map_) : sm_set k v (sm_set k v m) = sm_set k v m.
Proof.
  induction m as [|[k2 v2] m IH]; cbn.
  - rewrite beq_refl. reflexivity.
  - destruct (beq k k2) eqn:E; cbn.
    + rewrite beq_refl. reflexivity.
    + destruct (bltb k k2) eqn:L; cbn.
      * rewrite beq_refl. reflexivity.
      * rewrite E, L, IH. reflexivity.
Qed.
End SMExtra.

(* ------------------------------------------------------------------------------------ *)
(* version lists                                                                        *)
(* ------------------------------------------------------------------------------------ *)

Lemma vers_ok_mono top top' l : vers_ok top l -> (top <= top')%N -> vers_ok top' l.
Proof.
  induction l as [|v l IH]; cbn [vers_ok]; [trivial|].
  intros (H1 & H2 & H3) Hle. split; [lia|]. split; [exact H2|auto].
Qed.

Lemma obj_ok_mono n n' o : obj_ok n o -> (n <= n')%N -> obj_ok n' o.
Proof.
  intros (cur & H1 & H2 & H3 & H4 & H5) Hle. exists cur.
  split; [exact H1|]. split; [lia|]. auto.
Qed.

Lemma vers_insert_ok c top' l :
  vers_ok (vd_vid c) l -> (vd_vid c < top')%N -> vers_ok top' (vers_insert c l).
Proof.
  induction l as [|w l IH]; cbn [vers_ok vers_insert].
  - intros _ H. auto.
  - intros (H1 & H2 & H3) Hlt.
    destruct (N.eqb_spec (vd_vid c) (vd_vid w)) as [E|E]; [lia|].
    destruct (N.ltb_spec (vd_vid c) (vd_vid w)) as [L|L]; [lia|].
    cbn [vers_ok]. split; [lia|]. split; [|auto].
    destruct l as [|w' l']; cbn [vers_insert]; [exact H1|].
    cbn [vers_ok] in H3. destruct H3 as (H3 & _).
    destruct (N.eqb_spec (vd_vid c) (vd_vid w')) as [E'|E']; [lia|].
    destruct (N.ltb_spec (vd_vid c) (vd_vid w')) as [L'|L']; [lia|]. exact H2.
Qed.

Lemma Forall_vers_insert (P : vdata -> Prop) c l :
  P c -> Forall P l -> Forall P (vers_insert c l).
Proof.
  intros Hc. induction l as [|w l IH]; cbn [vers_insert]; intros H.
  - constructor; auto.
  - inversion H; subst.
    destruct (N.eqb (vd_vid c) (vd_vid w)); [constructor; auto|].
    destruct (N.ltb (vd_vid c) (vd_vid w)); constructor; auto.
Qed.

Lemma vers_last_cons2 v w l : vers_last (v :: w :: l) = vers_last (w :: l).
Proof. reflexivity. Qed.

Lemma vers_last_ok top l nv :
  vers_ok top l -> vers_last l = Some nv ->
  (vd_vid nv < top)%N /\ vers_ok (vd_vid nv) (vers_but_last l) /\ In nv l /\
  match l with [] => True | v :: _ => (vd_vid v <= vd_vid nv)%N end.
Proof.
  unfold vers_but_last.
  induction l as [|v l IH]; [discriminate|].
  destruct l as [|w l'].
  - cbn. intros (H1 & _) H. inversion H; subst. repeat split; auto. lia.
  - rewrite vers_last_cons2. intros (H1 & H2 & H3) Hl.
    destruct (IH H3 Hl) as (I1 & I2 & I3 & I4).
    split; [exact I1|]. split; [|split; [right; exact I3|lia]].
    change (removelast (v :: w :: l')) with (v :: removelast (w :: l')).
    cbn [vers_ok]. split; [lia|]. split; [|exact I2].
    destruct l' as [|w2 l2]; [cbn; trivial|].
    change (removelast (w :: w2 :: l2)) with (w :: removelast (w2 :: l2)). exact H2.
Qed.

Lemma Forall_removelast {A} (P : A -> Prop) l : Forall P l -> Forall P (removelast l).
Proof.
  induction l as [|x l IH]; [trivial|]. intros H. inversion H; subst.
  destruct l as [|y l']; [constructor|].
  change (removelast (x :: y :: l')) with (x :: removelast (y :: l')). constructor; auto.
Qed.

Lemma vers_del_ok top id l : vers_ok top l -> vers_ok top (vers_del id l).
Proof.
  induction l as [|w l IH]; cbn [vers_ok vers_del]; [trivial|].
  intros (H1 & H2 & H3). destruct (N.eqb id (vd_vid w)); [exact H3|].
  cbn [vers_ok]. split; [exact H1|]. split; [|auto].
  destruct l as [|w' l']; cbn [vers_del]; [trivial|].
  destruct (N.eqb id (vd_vid w')); [|exact H2].
  cbn [vers_ok] in H3. destruct H3 as (_ & H4 & _).
  destruct l' as [|w2 l2]; [trivial|lia].
Qed.

Lemma Forall_vers_del (P : vdata -> Prop) id l : Forall P l -> Forall P (vers_del id l).
Proof.
  induction l as [|w l IH]; cbn [vers_del]; [trivial|]. intros H. inversion H; subst.
  destruct (N.eqb id (vd_vid w)); [assumption|constructor; auto].
Qed.

(* ------------------------------------------------------------------------------------ *)
(* bucket level                                                                         *)
(* ------------------------------------------------------------------------------------ *)

Lemma bucket_ok_mono n n' bk : bucket_ok n bk -> (n <= n')%N -> bucket_ok n' bk.
Proof.
  intros (Hs & Ho & Hn) Hle. split; [exact Hs|]. split; [|exact Hn].
  intros k o Hin. eapply obj_ok_mono; [eapply Ho; exact Hin|exact Hle].
Qed.

Lemma bucket_ok_get n bk k o : bucket_ok n bk -> sm_get k (b_objs bk) = Some o -> obj_ok n o.
Proof. intros (_ & Ho & _) H. eapply Ho. apply get_in. exact H. Qed.

Lemma bucket_ok_empty n v : bucket_ok n {| b_ver := v; b_objs := [] |}.
Proof.
  split; [exact I|]. split.
  - intros k o [].
  - intros _ k o [].
Qed.

Lemma bucket_put_ok next bk k mk body m bk' next' id :
  bucket_ok next bk -> bucket_put bk next k mk body m = (bk', next', id) ->
  bucket_ok next' bk' /\ (next <= next')%N.
Proof.
  intros Hok H. unfold bucket_put in H. inversion H; subst; clear H.
  split; [|lia]. pose proof Hok as (Hs & Ho & Hn).
  split; [cbn [b_objs]; apply sorted_set; exact Hs|]. split.
  - intros k' o' Hin. cbn [b_objs] in Hin. apply in_set_inv in Hin. destruct Hin as [Heq|Hin].
    2:{ eapply obj_ok_mono; [eapply Ho; exact Hin|lia]. }
    inversion Heq; subst; clear Heq.
    eexists. split; [cbn [o_data]; reflexivity|]. cbn [o_data o_vers vd_vid]. split; [lia|]. split; [lia|].
    destruct (sm_get k (b_objs bk)) as [o|] eqn:Eg.
    2:{ cbn. auto. }
    destruct (bucket_ok_get _ _ _ _ Hok Eg) as (cur & Hd & Hle & Hpos & Hv & Hf).
    rewrite Hd. destruct (is_enabled (b_ver bk) || negb (vd_null cur)).
    + split; [apply vers_insert_ok; [exact Hv|lia]|apply Forall_vers_insert; assumption].
    + split; [eapply vers_ok_mono; [exact Hv|lia]|exact Hf].
  - intros Hv0 k' o' Hin. cbn [b_ver] in Hv0. cbn [b_objs] in Hin.
    apply in_set_inv in Hin. destruct Hin as [Heq|Hin]; [|exact (Hn Hv0 _ _ Hin)].
    inversion Heq; subst; clear Heq. cbn [o_data o_vers]. rewrite Hv0. cbn [is_enabled negb orb].
    split.
    + destruct (sm_get k (b_objs bk)) as [o|] eqn:Eg; [|reflexivity].
      destruct (Hn Hv0 k o (get_in _ _ _ Eg)) as [Hnil Hnull].
      destruct (o_data o) as [cur|]; [|exact Hnil].
      rewrite (Hnull cur eq_refl). cbn. exact Hnil.
    + intros cur Hc. inversion Hc; subst. reflexivity.
Qed.

Lemma bucket_put_ver next bk k mk body m :
  b_ver (fst (fst (bucket_put bk next k mk body m))) = b_ver bk.
Proof. reflexivity. Qed.

Lemma drop_current_ok next bk k o :
  bucket_ok next bk -> sm_get k (b_objs bk) = Some o -> bucket_ok next (drop_current bk k o).
Proof.
  intros Hok Eg. pose proof Hok as (Hs & Ho & Hn).
  destruct (bucket_ok_get _ _ _ _ Hok Eg) as (cur & Hd & Hle & Hpos & Hv & Hf).
  unfold drop_current. destruct (vers_last (o_vers o)) as [nv|] eqn:El.
  - destruct (vers_last_ok _ _ _ Hv El) as (L1 & L2 & L3 & _).
    split; [cbn [b_objs]; apply sorted_set; exact Hs|]. split.
    + intros k' o' Hin. cbn [b_objs] in Hin. apply in_set_inv in Hin.
      destruct Hin as [Heq|Hin]; [|eapply Ho; exact Hin].
      inversion Heq; subst; clear Heq. exists nv. cbn [o_data o_vers].
      split; [reflexivity|]. split; [lia|]. split.
      * rewrite Forall_forall in Hf. apply Hf. exact L3.
      * split; [exact L2|]. apply Forall_removelast. exact Hf.
    + intros Hv0 k' o' Hin. cbn [b_ver] in Hv0.
      destruct (Hn Hv0 k o (get_in _ _ _ Eg)) as [Hnil _].
      rewrite Hnil in El. discriminate.
  - split; [cbn [b_objs]; apply sorted_del; exact Hs|]. split.
    + intros k' o' Hin. cbn [b_objs] in Hin. apply in_del_inv in Hin. eapply Ho; exact Hin.
    + intros Hv0 k' o' Hin. cbn [b_ver] in Hv0. cbn [b_objs] in Hin.
      apply in_del_inv in Hin. exact (Hn Hv0 _ _ Hin).
Qed.

Lemma bucket_rm_ok next bk k bk' next' r :
  bucket_ok next bk -> bucket_rm bk next k = (bk', next', r) ->
  bucket_ok next' bk' /\ (next <= next')%N.
Proof.
  intros Hok. unfold bucket_rm.
  destruct (sm_get k (b_objs bk)) as [o|] eqn:Eg.
  2:{ intros H; inversion H; subst. split; [exact Hok|lia]. }
  cbv zeta.
  match goal with |- context [if ?c then _ else _] => destruct c eqn:Ek end.
  - destruct (bucket_put bk next k true [] []) as [[bk1 n1] id1] eqn:Ep.
    intros H; inversion H; subst; clear H. eapply bucket_put_ok; eassumption.
  - intros H; inversion H; subst; clear H. split; [|lia]. apply drop_current_ok; assumption.
Qed.

Lemma bucket_rm_version_ok next bk k id bk' r :
  bucket_ok next bk -> bucket_rm_version bk k id = (bk', r) -> bucket_ok next bk'.
Proof.
  intros Hok. unfold bucket_rm_version.
  destruct (sm_get k (b_objs bk)) as [o|] eqn:Eg.
  2:{ intros H; inversion H; subst. exact Hok. }
  pose proof Hok as (Hs & Ho & Hn).
  destruct (bucket_ok_get _ _ _ _ Hok Eg) as (cur & Hd & Hle & Hpos & Hv & Hf).
  rewrite Hd. destruct (N.eqb (vd_vid cur) id).
  { intros H; inversion H; subst; clear H. apply drop_current_ok; assumption. }
  destruct (vers_get id (o_vers o)) as [v|] eqn:Ev.
  2:{ intros H; inversion H; subst. exact Hok. }
  intros H; inversion H; subst; clear H.
  split; [cbn [b_objs]; apply sorted_set; exact Hs|]. split.
  - intros k' o' Hin. cbn [b_objs] in Hin. apply in_set_inv in Hin.
    destruct Hin as [Heq|Hin]; [|eapply Ho; exact Hin].
    inversion Heq; subst; clear Heq. exists cur. cbn [o_data o_vers].
    split; [reflexivity|]. split; [exact Hle|]. split; [exact Hpos|].
    split; [apply vers_del_ok; exact Hv|apply Forall_vers_del; exact Hf].
  - intros Hv0 k' o' Hin. cbn [b_ver] in Hv0.
    destruct (Hn Hv0 k o (get_in _ _ _ Eg)) as [Hnil _].
    rewrite Hnil in Ev. discriminate.
Qed.

(* ------------------------------------------------------------------------------------ *)
(* backend (state) level                                                                *)
(* ------------------------------------------------------------------------------------ *)

Lemma inv_get_bucket s b bk : Inv s -> get_bucket s b = Some bk -> bucket_ok (st_next s) bk.
Proof. intros (_ & H) Hg. eapply H. apply get_in. exact Hg. Qed.

Lemma inv_set s b bk n' :
  Inv s -> (st_next s <= n')%N -> bucket_ok n' bk ->
  Inv {| st_buckets := sm_set b bk (st_buckets s); st_next := n' |}.
Proof.
  intros (Hs & Hb) Hle Hok. split; cbn [st_buckets st_next].
  - apply sorted_set. exact Hs.
  - intros b' bk'' Hin. apply in_set_inv in Hin. destruct Hin as [Heq|Hin].
    + inversion Heq; subst. exact Hok.
    + eapply bucket_ok_mono; [eapply Hb; exact Hin|exact Hle].
Qed.

Lemma inv_init : Inv init.
Proof. split; [exact I|]. intros b bk []. Qed.

Lemma create_bucket_inv s b : Inv s -> Inv (fst (create_bucket s b)).
Proof.
  intros Hi. unfold create_bucket. destruct (get_bucket s b); [exact Hi|].
  cbn [fst]. unfold set_bucket. apply inv_set; [exact Hi|lia|apply bucket_ok_empty].
Qed.

Lemma delete_bucket_inv s b : Inv s -> Inv (fst (delete_bucket s b)).
Proof.
  intros Hi. unfold delete_bucket. destruct (get_bucket s b) as [bk|]; [|exact Hi].
  destruct (b_objs bk); [|exact Hi]. cbn [fst]. destruct Hi as (Hs & Hb).
  split; cbn [st_buckets st_next].
  - apply sorted_del. exact Hs.
  - intros b' bk' Hin. apply in_del_inv in Hin. eapply Hb; exact Hin.
Qed.

Lemma put_object_inv s b k body m : Inv s -> Inv (fst (put_object s b k body m)).
Proof.
  intros Hi. unfold put_object. destruct (get_bucket s b) as [bk|] eqn:Eb; [|exact Hi].
  destruct (bucket_put bk (st_next s) k false body m) as [[bk' n'] id] eqn:Ep. cbn [fst].
  destruct (bucket_put_ok _ _ _ _ _ _ _ _ _ (inv_get_bucket _ _ _ Hi Eb) Ep) as [H1 H2].
  apply inv_set; assumption.
Qed.

Lemma delete_object_inv s b k : Inv s -> Inv (fst (delete_object s b k)).
Proof.
  intros Hi. unfold delete_object. destruct (get_bucket s b) as [bk|] eqn:Eb; [|exact Hi].
  destruct (bucket_rm bk (st_next s) k) as [[bk' n'] r] eqn:Ep. cbn [fst].
  destruct (bucket_rm_ok _ _ _ _ _ _ (inv_get_bucket _ _ _ Hi Eb) Ep) as [H1 H2].
  apply inv_set; assumption.
Qed.

Lemma delete_object_version_inv s b k id : Inv s -> Inv (fst (delete_object_version s b k id)).
Proof.
  intros Hi. unfold delete_object_version. destruct (get_bucket s b) as [bk|] eqn:Eb; [|exact Hi].
  destruct (bucket_rm_version bk k id) as [bk' r] eqn:Ep. cbn [fst].
  pose proof (bucket_rm_version_ok _ _ _ _ _ _ (inv_get_bucket _ _ _ Hi Eb) Ep) as H1.
  apply inv_set; [exact Hi|lia|exact H1].
Qed.

Lemma delete_multi_inv s b ks : Inv s -> Inv (delete_multi s b ks).
Proof.
  revert s. induction ks as [|[k [id|]] ks IH]; intros s Hi; cbn [delete_multi].
  - exact Hi.
  - apply IH. apply delete_object_version_inv. exact Hi.
  - apply IH. apply delete_object_inv. exact Hi.
Qed.

Lemma set_versioning_inv s b en : Inv s -> Inv (fst (set_versioning s b en)).
Proof.
  intros Hi. unfold set_versioning. destruct (get_bucket s b) as [bk|] eqn:Eb; [|exact Hi].
  cbn [fst]. unfold set_bucket. apply inv_set; [exact Hi|lia|].
  destruct (inv_get_bucket _ _ _ Hi Eb) as (Hs & Ho & Hn).
  split; [exact Hs|]. split; [exact Ho|].
  intros Hv0. cbn [b_ver b_objs] in *. apply Hn.
  destruct en; [discriminate|]. destruct (b_ver bk); [reflexivity|discriminate|discriminate].
Qed.

Lemma ensure_bucket_inv c s b : Inv s -> Inv (fst (ensure_bucket c s b)).
Proof.
  intros Hi. unfold ensure_bucket. destruct (get_bucket s b); [exact Hi|].
  destruct (cfg_auto_bucket c); [|exact Hi].
  destruct (validate b); [|exact Hi]. cbn [fst]. apply create_bucket_inv. exact Hi.
Qed.

(* every operation, in every configuration, preserves the invariant *)
Lemma step_inv c s o : Inv s -> Inv (fst (step c s o)).
Proof.
  intros Hi. destruct o; cbn [step].
  - (* create *) destruct (negb (validate b)); [exact Hi|].
    pose proof (create_bucket_inv s b Hi) as H.
    destruct (create_bucket s b) as [s' [e|]]; exact H.
  - (* delete bucket *)
    pose proof (ensure_bucket_inv c s b Hi) as H1.
    destruct (ensure_bucket c s b) as [s1 [e|]]; [exact H1|]. cbn [fst] in H1.
    pose proof (delete_bucket_inv s1 b H1) as H2.
    destruct (delete_bucket s1 b) as [s2 [e|]]; exact H2.
  - pose proof (ensure_bucket_inv c s b Hi) as H1.
    destruct (ensure_bucket c s b) as [s1 [e|]]; exact H1.
  - exact Hi.
  - (* put *)
    pose proof (ensure_bucket_inv c s b Hi) as H1.
    destruct (ensure_bucket c s b) as [s1 [e|]]; [exact H1|]. cbn [fst] in H1.
    pose proof (put_object_inv s1 b k body (carry_meta s1 b k m) H1) as H2.
    destruct (put_object s1 b k body (carry_meta s1 b k m)) as [s2 [[e|] vid]]; exact H2.
  - (* get *)
    pose proof (ensure_bucket_inv c s b Hi) as H1.
    destruct (ensure_bucket c s b) as [s1 [e|]]; [exact H1|]. cbn [fst] in H1.
    destruct vid as [id|].
    + destruct (negb (cfg_versioned c)); [exact H1|].
      destruct (get_object_version s1 b k id) as [e|v sv]; [exact H1|].
      destruct (vd_marker v); exact H1.
    + destruct (get_object s1 b k); exact H1.
  - (* head *)
    pose proof (ensure_bucket_inv c s b Hi) as H1.
    destruct (ensure_bucket c s b) as [s1 [e|]]; [exact H1|]. cbn [fst] in H1.
    destruct vid as [id|].
    + destruct (negb (cfg_versioned c)); [exact H1|].
      destruct (get_object_version s1 b k id) as [e|v sv]; [exact H1|].
      destruct (vd_marker v); exact H1.
    + destruct (get_object s1 b k); exact H1.
  - (* delete *)
    pose proof (ensure_bucket_inv c s b Hi) as H1.
    destruct (ensure_bucket c s b) as [s1 [e|]]; [exact H1|]. cbn [fst] in H1.
    pose proof (delete_object_inv s1 b k H1) as H2.
    destruct (delete_object s1 b k) as [s2 [[e|] [mk vid]]]; exact H2.
  - (* delete version *)
    destruct (negb (cfg_versioned c)); [exact Hi|].
    pose proof (ensure_bucket_inv c s b Hi) as H1.
    destruct (ensure_bucket c s b) as [s1 [e|]]; [exact H1|]. cbn [fst] in H1.
    pose proof (delete_object_version_inv s1 b k vid H1) as H2.
    destruct (delete_object_version s1 b k vid) as [s2 [[e|] [mk vid']]]; exact H2.
  - (* multi delete *)
    pose proof (ensure_bucket_inv c s b Hi) as H1.
    destruct (ensure_bucket c s b) as [s1 [e|]]; [exact H1|]. cbn [fst] in H1.
    cbn [fst]. apply delete_multi_inv. exact H1.
  - (* copy *)
    pose proof (ensure_bucket_inv c s b Hi) as H1.
    destruct (ensure_bucket c s b) as [s1 [e|]]; [exact H1|]. cbn [fst] in H1.
    destruct (get_object s1 sb sk) as [e|v sv]; [exact H1|].
    pose proof (put_object_inv s1 b k (vd_body v) (carry_meta s1 b k (merge_meta m (vd_meta v))) H1) as H2.
    destruct (put_object s1 b k (vd_body v) (carry_meta s1 b k (merge_meta m (vd_meta v)))) as [s2 [[e|] vid]]; exact H2.
  - (* set versioning *)
    pose proof (ensure_bucket_inv c s b Hi) as H1.
    destruct (ensure_bucket c s b) as [s1 [e|]]; [exact H1|]. cbn [fst] in H1.
    destruct (negb (cfg_versioned c)); [exact H1|].
    pose proof (set_versioning_inv s1 b enable H1) as H2.
    destruct (set_versioning s1 b enable) as [s2 [e|]]; exact H2.
  - (* list *)
    pose proof (ensure_bucket_inv c s b Hi) as H1.
    destruct (ensure_bucket c s b) as [s1 [e|]]; [exact H1|]. cbn [fst] in H1.
    cbv zeta.
    destruct ((has_marker || negb (beq marker []) || negb (maxkeys =? 0)) && negb (cfg_pages c) && cfg_fail_unimpl_page c);
      [exact H1|].
    destruct (if (has_marker || negb (beq marker []) || negb (maxkeys =? 0)) && negb (cfg_pages c)
              then ([], 0) else (marker, maxkeys)) as [mk' mx'].
    destruct (list_bucket s1 b pre delim mk' mx'); exact H1.
Qed.

Lemma run_inv_gen c ops s : Inv s -> Inv (fst (run c s ops)).
Proof.
  revert s. induction ops as [|o ops IH]; intros s Hi; cbn [run]; [exact Hi|].
  pose proof (step_inv c s o Hi) as H1. destruct (step c s o) as [s1 r]. cbn [fst] in H1.
  pose proof (IH s1 H1) as H2. destruct (run c s1 ops) as [s2 rs]. exact H2.
Qed.

Lemma run_inv c ops : Inv (fst (run c init ops)).
Proof. apply run_inv_gen. apply inv_init. Qed.

(* error codes produced by the backend operations *)
(* the bucket check refuses in exactly two ways: the bucket is absent and auto-bucket is off, or
   auto-bucket is on and the name of the absent bucket fails the create-bucket validation; in both
   cases nothing is created *)
Lemma ensure_bucket_err c s b s1 e :
  ensure_bucket c s b = (s1, Some e) ->
  (e = ENoSuchBucket /\ cfg_auto_bucket c = false \/
   e = EInvalidBucketName /\ cfg_auto_bucket c = true /\ validate b = false) /\
  get_bucket s b = None /\ s1 = s.
Proof.
  unfold ensure_bucket. destruct (get_bucket s b); [discriminate|].
  destruct (cfg_auto_bucket c).
  - destruct (validate b); [discriminate|]. intros H; inversion H; auto 6.
  - intros H; inversion H; auto 6.
Qed.

Lemma ensure_bucket_err_no_panic c s b s1 e :
  ensure_bucket c s b = (s1, Some e) -> e <> EPanic.
Proof.
  intros H. apply ensure_bucket_err in H. destruct H as [[[-> _]|[-> _]] _]; discriminate.
Qed.

Lemma ensure_bucket_ok c s b s1 :
  ensure_bucket c s b = (s1, None) -> exists bk, get_bucket s1 b = Some bk.
Proof.
  unfold ensure_bucket. destruct (get_bucket s b) as [bk|] eqn:Eb.
  - intros H; inversion H; subst. eauto.
  - destruct (cfg_auto_bucket c); [|discriminate]. destruct (validate b); [|discriminate].
    intros H; inversion H; subst; clear H.
    unfold create_bucket. rewrite Eb. cbn [fst]. rewrite get_bucket_set_eq. eauto.
Qed.

Lemma create_bucket_err s b s1 e :
  create_bucket s b = (s1, Some e) -> e = EBucketAlreadyExists /\ s1 = s.
Proof.
  unfold create_bucket. destruct (get_bucket s b); [|discriminate].
  intros H; inversion H; auto.
Qed.

Lemma delete_bucket_err s b s1 e :
  delete_bucket s b = (s1, Some e) -> (e = ENoSuchBucket \/ e = EBucketNotEmpty) /\ s1 = s.
Proof.
  unfold delete_bucket. destruct (get_bucket s b) as [bk|].
  - destruct (b_objs bk); [discriminate|]. intros H; inversion H; auto.
  - intros H; inversion H; auto.
Qed.

Lemma put_object_err s b k body m s1 e r :
  put_object s b k body m = (s1, (Some e, r)) -> e = ENoSuchBucket /\ s1 = s.
Proof.
  unfold put_object. destruct (get_bucket s b) as [bk|].
  - destruct (bucket_put bk (st_next s) k false body m) as [[bk' n'] id]. discriminate.
  - intros H; inversion H; auto.
Qed.

Lemma delete_object_err s b k s1 e r :
  delete_object s b k = (s1, (Some e, r)) -> e = ENoSuchBucket /\ s1 = s.
Proof.
  unfold delete_object. destruct (get_bucket s b) as [bk|].
  - destruct (bucket_rm bk (st_next s) k) as [[bk' n'] r']. discriminate.
  - intros H; inversion H; auto.
Qed.

Lemma delete_object_version_err s b k id s1 e r :
  delete_object_version s b k id = (s1, (Some e, r)) -> e = ENoSuchBucket /\ s1 = s.
Proof.
  unfold delete_object_version. destruct (get_bucket s b) as [bk|].
  - destruct (bucket_rm_version bk k id) as [bk' r']. discriminate.
  - intros H; inversion H; auto.
Qed.

Lemma set_versioning_err s b en s1 e :
  set_versioning s b en = (s1, Some e) -> e = ENoSuchBucket /\ s1 = s.
Proof.
  unfold set_versioning. destruct (get_bucket s b) as [bk|]; [discriminate|].
  intros H; inversion H; auto.
Qed.

Lemma get_object_no_panic s b k : Inv s -> get_object s b k <> OErr EPanic.
Proof.
  intros Hi. unfold get_object. destruct (get_bucket s b) as [bk|] eqn:Eb; [|discriminate].
  destruct (sm_get k (b_objs bk)) as [o|] eqn:Eg; [|discriminate].
  destruct (bucket_ok_get _ _ _ _ (inv_get_bucket _ _ _ Hi Eb) Eg) as (cur & Hd & _).
  rewrite Hd. destruct (vd_marker cur); discriminate.
Qed.

Lemma get_object_version_no_panic s b k id : get_object_version s b k id <> OErr EPanic.
Proof.
  unfold get_object_version. destruct (get_bucket s b) as [bk|]; [|discriminate].
  destruct (sm_get k (b_objs bk)) as [o|]; [|discriminate].
  destruct (o_data o) as [cur|].
  - destruct (N.eqb (vd_vid cur) id); [discriminate|].
    destruct (vers_get id (o_vers o)); discriminate.
  - destruct (vers_get id (o_vers o)); discriminate.
Qed.

Lemma scan_no_panic pre delim maxkeys items :
  (forall k o, In (k, o) items -> o_data o <> None) ->
  forall cnt lastp acc, lr_panic acc = false ->
  lr_panic (scan pre delim maxkeys items cnt lastp acc) = false.
Proof.
  induction items as [|[k o] rest IH]; intros Hall cnt lastp acc Hacc; cbn [scan]; [exact Hacc|].
  assert (Hrest : forall k0 o0, In (k0, o0) rest -> o_data o0 <> None).
  { intros k0 o0 Hin. apply (Hall k0 o0). right. exact Hin. }
  specialize (IH Hrest).
  destruct (o_data o) as [v|] eqn:Ed.
  2:{ exfalso. apply (Hall k o); [left; reflexivity|exact Ed]. }
  cbv zeta.
  destruct (prefix_match pre delim k) as [| |p].
  - apply IH. exact Hacc.
  - destruct (vd_marker v); [apply IH; exact Hacc|].
    destruct ((0 <? maxkeys) && (maxkeys <=? cnt + 1)); [reflexivity|].
    apply IH. reflexivity.
  - destruct (vd_marker v); [apply IH; exact Hacc|].
    destruct (match lastp with Some q => beq p q | None => false end); [apply IH; exact Hacc|].
    destruct ((0 <? maxkeys) && (maxkeys <=? cnt + 1)).
    + destruct (skip_group pre delim p k rest) as [nm rest']. reflexivity.
    + apply IH. reflexivity.
Qed.

Lemma list_bucket_no_panic s b pre delim marker maxkeys r :
  Inv s -> list_bucket s b pre delim marker maxkeys = Some r -> lr_panic r = false.
Proof.
  intros Hi. unfold list_bucket. destruct (get_bucket s b) as [bk|] eqn:Eb; [|discriminate].
  intros H; inversion H; subst; clear H.
  pose proof (inv_get_bucket _ _ _ Hi Eb) as (_ & Ho & _).
  apply scan_no_panic; [|reflexivity].
  intros k o Hin Hnone.
  assert (Hin' : In (k, o) (b_objs bk)).
  { destruct marker; [exact Hin|]. eapply in_after_inv. exact Hin. }
  destruct (Ho _ _ Hin') as (cur & Hd & _). congruence.
Qed.

(* no nil dereference: with the invariant, no request is answered by a panic *)
Lemma step_no_panic c s o : Inv s -> snd (step c s o) <> RErr EPanic.
Proof.
  intros Hi. destruct o; cbn [step].
  - (* create *) destruct (negb (validate b)); [discriminate|].
    destruct (create_bucket s b) as [s' [e|]] eqn:Ec; [|discriminate].
    apply create_bucket_err in Ec. destruct Ec as [-> _]. discriminate.
  - (* delete bucket *)
    destruct (ensure_bucket c s b) as [s1 [e|]] eqn:Ee.
    { apply ensure_bucket_err_no_panic in Ee. cbn [snd]. congruence. }
    destruct (delete_bucket s1 b) as [s2 [e|]] eqn:Ed; [|discriminate].
    apply delete_bucket_err in Ed. destruct Ed as [[-> | ->] _]; discriminate.
  - destruct (ensure_bucket c s b) as [s1 [e|]] eqn:Ee; [|discriminate].
    apply ensure_bucket_err_no_panic in Ee. cbn [snd]. congruence.
  - discriminate.
  - (* put *)
    destruct (ensure_bucket c s b) as [s1 [e|]] eqn:Ee.
    { apply ensure_bucket_err_no_panic in Ee. cbn [snd]. congruence. }
    destruct (put_object s1 b k body (carry_meta s1 b k m)) as [s2 [[e|] vid]] eqn:Ep; [|discriminate].
    apply put_object_err in Ep. destruct Ep as [-> _]. discriminate.
  - (* get *)
    pose proof (ensure_bucket_inv c s b Hi) as H1.
    destruct (ensure_bucket c s b) as [s1 [e|]] eqn:Ee.
    { apply ensure_bucket_err_no_panic in Ee. cbn [snd]. congruence. }
    cbn [fst] in H1. destruct vid as [id|].
    + destruct (negb (cfg_versioned c)); [discriminate|].
      pose proof (get_object_version_no_panic s1 b k id) as Hv.
      destruct (get_object_version s1 b k id) as [e|v sv]; [cbn [snd]; congruence|].
      destruct (vd_marker v); discriminate.
    + pose proof (get_object_no_panic s1 b k H1) as Hg.
      destruct (get_object s1 b k); [cbn [snd]; congruence|discriminate].
  - (* head *)
    pose proof (ensure_bucket_inv c s b Hi) as H1.
    destruct (ensure_bucket c s b) as [s1 [e|]] eqn:Ee.
    { apply ensure_bucket_err_no_panic in Ee. cbn [snd]. congruence. }
    cbn [fst] in H1. destruct vid as [id|].
    + destruct (negb (cfg_versioned c)); [discriminate|].
      pose proof (get_object_version_no_panic s1 b k id) as Hv.
      destruct (get_object_version s1 b k id) as [e|v sv]; [cbn [snd]; congruence|].
      destruct (vd_marker v); discriminate.
    + pose proof (get_object_no_panic s1 b k H1) as Hg.
      destruct (get_object s1 b k); [cbn [snd]; congruence|discriminate].
  - (* delete *)
    destruct (ensure_bucket c s b) as [s1 [e|]] eqn:Ee.
    { apply ensure_bucket_err_no_panic in Ee. cbn [snd]. congruence. }
    destruct (delete_object s1 b k) as [s2 [[e|] [mk vid]]] eqn:Ep; [|discriminate].
    apply delete_object_err in Ep. destruct Ep as [-> _]. discriminate.
  - (* delete version *)
    destruct (negb (cfg_versioned c)); [discriminate|].
    destruct (ensure_bucket c s b) as [s1 [e|]] eqn:Ee.
    { apply ensure_bucket_err_no_panic in Ee. cbn [snd]. congruence. }
    destruct (delete_object_version s1 b k vid) as [s2 [[e|] [mk vid']]] eqn:Ep; [|discriminate].
    apply delete_object_version_err in Ep. destruct Ep as [-> _]. discriminate.
  - (* multi delete *)
    destruct (ensure_bucket c s b) as [s1 [e|]] eqn:Ee; [|discriminate].
    apply ensure_bucket_err_no_panic in Ee. cbn [snd]. congruence.
  - (* copy *)
    pose proof (ensure_bucket_inv c s b Hi) as H1.
    destruct (ensure_bucket c s b) as [s1 [e|]] eqn:Ee.
    { apply ensure_bucket_err_no_panic in Ee. cbn [snd]. congruence. }
    cbn [fst] in H1.
    pose proof (get_object_no_panic s1 sb sk H1) as Hg.
    destruct (get_object s1 sb sk) as [e|v sv]; [cbn [snd]; congruence|].
    destruct (put_object s1 b k (vd_body v) (carry_meta s1 b k (merge_meta m (vd_meta v)))) as [s2 [[e|] vid]] eqn:Ep; [|discriminate].
    apply put_object_err in Ep. destruct Ep as [-> _]. discriminate.
  - (* set versioning *)
    destruct (ensure_bucket c s b) as [s1 [e|]] eqn:Ee.
    { apply ensure_bucket_err_no_panic in Ee. cbn [snd]. congruence. }
    destruct (negb (cfg_versioned c)); [destruct enable; discriminate|].
    destruct (set_versioning s1 b enable) as [s2 [e|]] eqn:Ep; [|discriminate].
    apply set_versioning_err in Ep. destruct Ep as [-> _]. discriminate.
  - (* list *)
    pose proof (ensure_bucket_inv c s b Hi) as H1.
    destruct (ensure_bucket c s b) as [s1 [e|]] eqn:Ee.
    { apply ensure_bucket_err_no_panic in Ee. cbn [snd]. congruence. }
    cbn [fst] in H1. cbv zeta.
    destruct ((has_marker || negb (beq marker []) || negb (maxkeys =? 0)) && negb (cfg_pages c) && cfg_fail_unimpl_page c);
      [discriminate|].
    destruct (if (has_marker || negb (beq marker []) || negb (maxkeys =? 0)) && negb (cfg_pages c)
              then ([], 0) else (marker, maxkeys)) as [mk' mx'].
    destruct (list_bucket s1 b pre delim mk' mx') as [r|] eqn:El; [|discriminate].
    rewrite (list_bucket_no_panic _ _ _ _ _ _ _ H1 El). discriminate.
Qed.

(* ---- C02 laws (handler level, any configuration) ---- *)

Lemma ensure_bucket_present c s b bk : get_bucket s b = Some bk -> ensure_bucket c s b = (s, None).
Proof. intros H. unfold ensure_bucket. rewrite H. reflexivity. Qed.

Lemma ensure_bucket_noauto c s b : cfg_auto_bucket c = false -> fst (ensure_bucket c s b) = s.
Proof. intros H. unfold ensure_bucket. destruct (get_bucket s b); [reflexivity|]. rewrite H. reflexivity. Qed.

Lemma ensure_bucket_cases c s b s1 r :
  ensure_bucket c s b = (s1, r) ->
  s1 = s \/ (get_bucket s b = None /\ r = None /\
             s1 = set_bucket s b {| b_ver := VNone; b_objs := [] |}).
Proof.
  unfold ensure_bucket. destruct (get_bucket s b) as [bk|] eqn:Eb.
  - intros H; inversion H; auto.
  - destruct (cfg_auto_bucket c).
    + destruct (validate b); [|intros H; inversion H; auto].
      unfold create_bucket. rewrite Eb. cbn [fst]. intros H; inversion H; subst. right. auto.
    + intros H; inversion H; auto.
Qed.

Lemma get_object_set_other s b bk b' k' :
  b' <> b -> get_object (set_bucket s b bk) b' k' = get_object s b' k'.
Proof.
  intros Hne. unfold get_object, get_bucket, set_bucket. cbn [st_buckets].
  rewrite get_set_neq by exact Hne. reflexivity.
Qed.

Lemma ensure_bucket_get c s b s1 r b' k' :
  ensure_bucket c s b = (s1, r) ->
  get_object s1 b' k' = get_object s b' k' \/
  (b' = b /\ get_bucket s b = None /\ get_object s1 b' k' = OErr ENoSuchKey).
Proof.
  intros H. apply ensure_bucket_cases in H. destruct H as [->|(Hb & _ & ->)]; [left; reflexivity|].
  destruct (beq b' b) eqn:E.
  - apply beq_eq in E. subst b'. right. split; [reflexivity|]. split; [exact Hb|].
    unfold get_object. rewrite get_bucket_set_eq. reflexivity.
  - apply beq_neq in E. left. apply get_object_set_other. exact E.
Qed.

Lemma ensure_bucket_get_other c s b s1 r b' k' :
  ensure_bucket c s b = (s1, r) -> get_bucket s b' <> None ->
  get_object s1 b' k' = get_object s b' k'.
Proof.
  intros H Hb. destruct (ensure_bucket_get _ _ _ _ _ b' k' H) as [H1|(-> & H2 & _)]; [exact H1|].
  contradiction.
Qed.

Lemma put_object_bucket s b k body m s' vid :
  put_object s b k body m = (s', (None, vid)) -> exists bk', get_bucket s' b = Some bk'.
Proof.
  unfold put_object. destruct (get_bucket s b) as [bk|]; [|discriminate].
  destruct (bucket_put bk (st_next s) k false body m) as [[bk' n'] id].
  intros H; inversion H; subst. exists bk'. unfold get_bucket. cbn [st_buckets]. apply get_set_eq.
Qed.

(* read-your-writes; the metadata read back is what MergeMetadata ([carry_meta]) makes of the
   metadata sent and the replaced object's: everything sent is there *)
Lemma law_get_after_put c s b k body m s1 vid :
  step c s (OPut b k body m) = (s1, RPut vid) ->
  exists v sv, snd (step c s1 (OGet b k None)) = RObj v sv /\ vd_body v = body /\
               vd_meta v = carry_meta (fst (ensure_bucket c s b)) b k m /\
               (forall kv, In kv m -> In kv (vd_meta v)).
Proof.
  cbn [step]. destruct (ensure_bucket c s b) as [s0 [e|]] eqn:Ee; [discriminate|].
  destruct (put_object s0 b k body (carry_meta s0 b k m)) as [s2 [[e|] vid']] eqn:Ep; [discriminate|].
  intros H; inversion H; subst; clear H.
  destruct (put_object_bucket _ _ _ _ _ _ _ Ep) as [bk' Hb'].
  destruct (get_after_put _ _ _ _ _ _ _ Ep) as (v & sv & Hg & H1 & H2 & _).
  rewrite (ensure_bucket_present c _ _ _ Hb'). rewrite Hg. cbn [fst snd].
  exists v, sv. split; [reflexivity|]. split; [exact H1|]. split; [exact H2|].
  intros kv Hin. rewrite H2. apply carry_meta_keeps. exact Hin.
Qed.

(* a put changes no other key of any bucket that existed before it *)
Lemma law_put_frame c s b k body m b' k' :
  (b', k') <> (b, k) -> get_bucket s b' <> None ->
  get_object (fst (step c s (OPut b k body m))) b' k' = get_object s b' k'.
Proof.
  intros Hne Hb'. cbn [step].
  destruct (ensure_bucket c s b) as [s0 [e|]] eqn:Ee.
  { cbn [fst]. eapply ensure_bucket_get_other; eassumption. }
  destruct (put_object s0 b k body (carry_meta s0 b k m)) as [s2 [[e|] vid]] eqn:Ep; cbn [fst].
  - rewrite (get_put_other _ _ _ _ _ _ _ _ _ Ep Hne). eapply ensure_bucket_get_other; eassumption.
  - rewrite (get_put_other _ _ _ _ _ _ _ _ _ Ep Hne). eapply ensure_bucket_get_other; eassumption.
Qed.

Lemma delete_object_unversioned s b k bk :
  Inv s -> get_bucket s b = Some bk -> b_ver bk = VNone ->
  delete_object s b k =
  (set_bucket s b {| b_ver := VNone; b_objs := sm_del k (b_objs bk) |}, (None, (false, None))).
Proof.
  intros Hi Hb Hv. unfold delete_object. rewrite Hb. unfold bucket_rm.
  destruct (sm_get k (b_objs bk)) as [o|] eqn:Eg.
  - rewrite Hv. cbv zeta. cbv iota. unfold drop_current.
    destruct (inv_get_bucket _ _ _ Hi Hb) as (_ & _ & Hn).
    destruct (Hn Hv k o (get_in _ _ _ Eg)) as [Hnil _]. rewrite Hnil. cbn [vers_last map last].
    rewrite Hv. reflexivity.
  - rewrite (del_absent _ _ Eg). unfold set_bucket. destruct bk as [ver objs]. cbn [b_ver b_objs] in *.
    subst ver. reflexivity.
Qed.

Lemma step_delete_unversioned c s b k bk :
  Inv s -> get_bucket s b = Some bk -> b_ver bk = VNone ->
  fst (step c s (ODelete b k)) = set_bucket s b {| b_ver := VNone; b_objs := sm_del k (b_objs bk) |}.
Proof.
  intros Hi Hb Hv. cbn [step]. rewrite (ensure_bucket_present c _ _ _ Hb).
  rewrite (delete_object_unversioned _ _ _ _ Hi Hb Hv). reflexivity.
Qed.

(* in a never-versioned bucket a deleted key reads NoSuchKey, deleting again changes nothing,
   and other keys are untouched *)
Lemma law_delete c s b k bk :
  Inv s -> get_bucket s b = Some bk -> b_ver bk = VNone ->
  let s1 := fst (step c s (ODelete b k)) in
  get_object s1 b k = OErr ENoSuchKey /\
  fst (step c s1 (ODelete b k)) = s1 /\
  (forall b' k', (b', k') <> (b, k) -> get_object s1 b' k' = get_object s b' k').
Proof.
  intros Hi Hb Hv s1.
  pose proof (step_inv c s (ODelete b k) Hi) as Hi1. fold s1 in Hi1.
  assert (Es1 : s1 = set_bucket s b {| b_ver := VNone; b_objs := sm_del k (b_objs bk) |}).
  { apply step_delete_unversioned; assumption. }
  clearbody s1.
  destruct (inv_get_bucket _ _ _ Hi Hb) as (Hs & _ & _).
  assert (Hb1 : get_bucket s1 b = Some {| b_ver := VNone; b_objs := sm_del k (b_objs bk) |}).
  { rewrite Es1. apply get_bucket_set_eq. }
  split; [|split].
  - unfold get_object. rewrite Hb1. cbn [b_objs]. rewrite (get_del_eq _ _ Hs). reflexivity.
  - rewrite (step_delete_unversioned c _ _ _ _ Hi1 Hb1 eq_refl). cbn [b_objs].
    rewrite (del_absent k (sm_del k (b_objs bk))) by (apply get_del_eq; exact Hs).
    rewrite Es1 at 2. rewrite Es1. unfold set_bucket. cbn [st_buckets st_next].
    rewrite set_idem. reflexivity.
  - intros b' k' Hne. destruct (beq b' b) eqn:E.
    + apply beq_eq in E. subst b'. unfold get_object. rewrite Hb1, Hb. cbn [b_objs b_ver]. rewrite Hv.
      rewrite get_del_neq by (intros ->; apply Hne; reflexivity). reflexivity.
    + apply beq_neq in E. rewrite Es1. apply get_object_set_other. exact E.
Qed.

(* bucket lifecycle *)
Lemma law_create_existing c s b bk :
  get_bucket s b = Some bk -> validate b = true ->
  step c s (OCreateBucket b) = (s, RErr EBucketAlreadyExists).
Proof.
  intros Hb Hv. cbn [step]. rewrite Hv. cbn [negb]. unfold create_bucket. rewrite Hb. reflexivity.
Qed.

Lemma law_missing_bucket c s b k :
  cfg_auto_bucket c = false -> get_bucket s b = None ->
  snd (step c s (OGet b k None)) = RErr ENoSuchBucket /\
  step c s (ODeleteBucket b) = (s, RErr ENoSuchBucket) /\
  (forall body m, step c s (OPut b k body m) = (s, RErr ENoSuchBucket)).
Proof.
  intros Ha Hb.
  assert (He : ensure_bucket c s b = (s, Some ENoSuchBucket)).
  { unfold ensure_bucket. rewrite Hb, Ha. reflexivity. }
  split; [|split]; [| |intros body m]; cbn [step]; rewrite He; reflexivity.
Qed.

Lemma law_delete_nonempty_bucket c s b bk :
  get_bucket s b = Some bk -> b_objs bk <> [] ->
  step c s (ODeleteBucket b) = (s, RErr EBucketNotEmpty).
Proof.
  intros Hb Hne. cbn [step]. rewrite (ensure_bucket_present c _ _ _ Hb).
  unfold delete_bucket. rewrite Hb. destruct (b_objs bk); [contradiction|reflexivity].
Qed.

Lemma law_delete_empty_bucket c s b bk :
  Inv s -> get_bucket s b = Some bk -> b_objs bk = [] ->
  exists s1, step c s (ODeleteBucket b) = (s1, ROk) /\ get_bucket s1 b = None /\
             (forall b', b' <> b -> get_bucket s1 b' = get_bucket s b').
Proof.
  intros (Hs & _) Hb He. eexists. split; [|split].
  - cbn [step]. rewrite (ensure_bucket_present c _ _ _ Hb).
    unfold delete_bucket. rewrite Hb, He. reflexivity.
  - unfold get_bucket. cbn [st_buckets]. apply get_del_eq. exact Hs.
  - intros b' Hne. unfold get_bucket. cbn [st_buckets]. apply get_del_neq. exact Hne.
Qed.

(* copy: destination body = source body; the source is unchanged (unless it is the destination) *)
Lemma law_copy c s sb sk b k m s1 body :
  step c s (OCopy sb sk b k m) = (s1, RCopy body) ->
  (exists v sv, get_object s sb sk = OObj v sv /\ vd_body v = body) /\
  (exists v' sv', get_object s1 b k = OObj v' sv' /\ vd_body v' = body) /\
  ((sb, sk) <> (b, k) -> get_bucket s sb <> None -> get_object s1 sb sk = get_object s sb sk).
Proof.
  cbn [step]. destruct (ensure_bucket c s b) as [s0 [e|]] eqn:Ee; [discriminate|].
  destruct (get_object s0 sb sk) as [e|v sv] eqn:Eg; [discriminate|].
  destruct (put_object s0 b k (vd_body v) (carry_meta s0 b k (merge_meta m (vd_meta v)))) as [s2 [[e|] vid]] eqn:Ep; [discriminate|].
  intros H; inversion H; subst; clear H.
  split; [|split].
  - exists v, sv. split; [|reflexivity].
    destruct (ensure_bucket_get _ _ _ _ _ sb sk Ee) as [H1|(_ & _ & H1)]; congruence.
  - destruct (get_after_put _ _ _ _ _ _ _ Ep) as (v' & sv' & Hg & H1 & _). eauto.
  - intros Hne Hsb. rewrite (get_put_other _ _ _ _ _ _ _ _ _ Ep Hne).
    eapply ensure_bucket_get_other; eassumption.
Qed.

(* copy: the destination carries the metadata of the copy request, completed by the source's
   (the ACL excepted), completed in turn by the replaced destination object's ([carry_meta]); the source object, metadata included, is untouched (see [law_copy]) *)
Lemma law_copy_meta c s sb sk b k m s1 body :
  step c s (OCopy sb sk b k m) = (s1, RCopy body) ->
  exists v sv v' sv', get_object s sb sk = OObj v sv /\ get_object s1 b k = OObj v' sv' /\
                      vd_meta v' = carry_meta (fst (ensure_bucket c s b)) b k (merge_meta m (vd_meta v)) /\
                      (forall kv, In kv (merge_meta m (vd_meta v)) -> In kv (vd_meta v')) /\
                      vd_marker v' = false.
Proof.
  cbn [step]. destruct (ensure_bucket c s b) as [s0 [e|]] eqn:Ee; [discriminate|].
  destruct (get_object s0 sb sk) as [e|v sv] eqn:Eg; [discriminate|].
  destruct (put_object s0 b k (vd_body v) (carry_meta s0 b k (merge_meta m (vd_meta v)))) as [s2 [[e|] vid]] eqn:Ep; [discriminate|].
  intros H; inversion H; subst; clear H.
  destruct (get_after_put _ _ _ _ _ _ _ Ep) as (v' & sv' & Hg & _ & Hm & Hk).
  exists v, sv, v', sv'. cbn [fst].
  split; [destruct (ensure_bucket_get _ _ _ _ _ sb sk Ee) as [H1|(_ & _ & H1)]; congruence|].
  split; [exact Hg|]. split; [exact Hm|]. split; [|exact Hk].
  intros kv Hin. rewrite Hm. apply carry_meta_keeps. exact Hin.
Qed.

(* a request header always wins over the source's value; what the request does not name is
   inherited *)
Lemma merge_meta_req req src kv : In kv req -> In kv (merge_meta req src).
Proof. intros H. unfold merge_meta. apply in_or_app. left. exact H. Qed.
Lemma merge_meta_src req src kv :
  In kv src -> meta_has (fst kv) req = false -> beq (fst kv) (B "X-Amz-Acl") = false -> In kv (merge_meta req src).
Proof.
  intros H Hr Ha. unfold merge_meta. apply in_or_app. right. apply filter_In. split; [exact H|].
  rewrite Hr, Ha. reflexivity.
Qed.
Lemma merge_meta_nil src : (forall kv, In kv src -> beq (fst kv) (B "X-Amz-Acl") = false) -> merge_meta [] src = src.
Proof.
  intros H. unfold merge_meta. cbn [app meta_has existsb negb andb].
  induction src as [|kv src IH]; [reflexivity|]. cbn [filter].
  rewrite (H kv (or_introl eq_refl)). cbn [negb andb]. f_equal. apply IH. intros kv' Hin. apply H. right. exact Hin.
Qed.

(* an operation answered with an error leaves the state unchanged (auto-bucket off) *)
Lemma law_error_frame c s o e :
  cfg_auto_bucket c = false -> snd (step c s o) = RErr e -> fst (step c s o) = s.
Proof.
  intros Ha.
  assert (He : forall b, exists r, ensure_bucket c s b = (s, r)).
  { intros b. pose proof (ensure_bucket_noauto c s b Ha) as H.
    destruct (ensure_bucket c s b) as [s1 r]. cbn [fst] in H. subst. eauto. }
  destruct o; cbn [step].
  - destruct (negb (validate b)); [reflexivity|].
    destruct (create_bucket s b) as [s' [e'|]] eqn:Ec; cbn [fst snd]; [|discriminate].
    apply create_bucket_err in Ec. destruct Ec as [_ ->]. reflexivity.
  - destruct (He b) as [[e'|] ->]; [reflexivity|].
    destruct (delete_bucket s b) as [s2 [e'|]] eqn:Ed; cbn [fst snd]; [|discriminate].
    apply delete_bucket_err in Ed. destruct Ed as [_ ->]. reflexivity.
  - destruct (He b) as [[e'|] ->]; reflexivity.
  - reflexivity.
  - destruct (He b) as [[e'|] ->]; [reflexivity|].
    destruct (put_object s b k body (carry_meta s b k m)) as [s2 [[e'|] vid]] eqn:Ep; cbn [fst snd]; [|discriminate].
    apply put_object_err in Ep. destruct Ep as [_ ->]. reflexivity.
  - destruct (He b) as [[e'|] ->]; [reflexivity|].
    destruct vid as [id|].
    + destruct (negb (cfg_versioned c)); [reflexivity|].
      destruct (get_object_version s b k id) as [e'|v sv]; [reflexivity|].
      destruct (vd_marker v); reflexivity.
    + destruct (get_object s b k); reflexivity.
  - destruct (He b) as [[e'|] ->]; [reflexivity|].
    destruct vid as [id|].
    + destruct (negb (cfg_versioned c)); [reflexivity|].
      destruct (get_object_version s b k id) as [e'|v sv]; [reflexivity|].
      destruct (vd_marker v); reflexivity.
    + destruct (get_object s b k); reflexivity.
  - destruct (He b) as [[e'|] ->]; [reflexivity|].
    destruct (delete_object s b k) as [s2 [[e'|] [mk vid]]] eqn:Ep; cbn [fst snd]; [|discriminate].
    apply delete_object_err in Ep. destruct Ep as [_ ->]. reflexivity.
  - destruct (negb (cfg_versioned c)); [reflexivity|].
    destruct (He b) as [[e'|] ->]; [reflexivity|].
    destruct (delete_object_version s b k vid) as [s2 [[e'|] [mk vid']]] eqn:Ep; cbn [fst snd]; [|discriminate].
    apply delete_object_version_err in Ep. destruct Ep as [_ ->]. reflexivity.
  - destruct (He b) as [[e'|] ->]; [reflexivity|]. cbn [snd]. discriminate.
  - destruct (He b) as [[e'|] ->]; [reflexivity|].
    destruct (get_object s sb sk) as [e'|v sv]; [reflexivity|].
    destruct (put_object s b k (vd_body v) (carry_meta s b k (merge_meta m (vd_meta v)))) as [s2 [[e'|] vid]] eqn:Ep; cbn [fst snd]; [|discriminate].
    apply put_object_err in Ep. destruct Ep as [_ ->]. reflexivity.
  - destruct (He b) as [[e'|] ->]; [reflexivity|].
    destruct (negb (cfg_versioned c)); [reflexivity|].
    destruct (set_versioning s b enable) as [s2 [e'|]] eqn:Ep; cbn [fst snd]; [|discriminate].
    apply set_versioning_err in Ep. destruct Ep as [_ ->]. reflexivity.
  - destruct (He b) as [[e'|] ->]; [reflexivity|]. cbv zeta.
    destruct ((has_marker || negb (beq marker []) || negb (maxkeys =? 0)) && negb (cfg_pages c) && cfg_fail_unimpl_page c);
      [reflexivity|].
    destruct (if (has_marker || negb (beq marker []) || negb (maxkeys =? 0)) && negb (cfg_pages c)
              then ([], 0) else (marker, maxkeys)) as [mk' mx'].
    destruct (list_bucket s b pre delim mk' mx'); reflexivity.
Qed.

(* with auto-bucket on, an absent bucket whose name fails the create-bucket validation is refused
   with InvalidBucketName and nothing is created (the counterpart of [law_missing_bucket]) *)
Lemma law_missing_bucket_auto_invalid c s b k :
  cfg_auto_bucket c = true -> get_bucket s b = None -> validate b = false ->
  snd (step c s (OGet b k None)) = RErr EInvalidBucketName /\
  step c s (ODeleteBucket b) = (s, RErr EInvalidBucketName) /\
  (forall body m, step c s (OPut b k body m) = (s, RErr EInvalidBucketName)).
Proof.
  intros Ha Hb Hv.
  assert (He : ensure_bucket c s b = (s, Some EInvalidBucketName)).
  { unfold ensure_bucket. rewrite Hb, Ha, Hv. reflexivity. }
  split; [|split]; [| |intros body m]; cbn [step]; rewrite He; reflexivity.
Qed.

(* ---- C17 at the handler level: no bucket with an invalid name is ever created ---- *)

Definition names_valid (s : state) : Prop :=
  forall b bk, In (b, bk) (st_buckets s) -> validate b = true.

Lemma names_valid_init : names_valid init.
Proof. intros b bk []. Qed.

Lemma names_valid_get s b bk : names_valid s -> get_bucket s b = Some bk -> validate b = true.
Proof. intros Hn Hg. apply (Hn b bk). apply get_in. exact Hg. Qed.

Lemma names_valid_set s b bk n :
  names_valid s -> validate b = true ->
  names_valid {| st_buckets := sm_set b bk (st_buckets s); st_next := n |}.
Proof.
  intros Hn Hv b' bk' Hin. cbn [st_buckets] in Hin.
  destruct (in_set_inv _ _ _ _ _ Hin) as [E|Hin'].
  - inversion E; subst. exact Hv.
  - exact (Hn b' bk' Hin').
Qed.

Lemma names_valid_del s b n :
  names_valid s -> names_valid {| st_buckets := sm_del b (st_buckets s); st_next := n |}.
Proof.
  intros Hn b' bk' Hin. cbn [st_buckets] in Hin. apply (Hn b' bk'). eapply in_del_inv. exact Hin.
Qed.

Lemma create_bucket_names_valid s b :
  names_valid s -> validate b = true -> names_valid (fst (create_bucket s b)).
Proof.
  intros Hn Hv. unfold create_bucket. destruct (get_bucket s b); [exact Hn|].
  cbn [fst]. unfold set_bucket. apply names_valid_set; assumption.
Qed.

Lemma delete_bucket_names_valid s b : names_valid s -> names_valid (fst (delete_bucket s b)).
Proof.
  intros Hn. unfold delete_bucket. destruct (get_bucket s b) as [bk|]; [|exact Hn].
  destruct (b_objs bk); [|exact Hn]. cbn [fst]. apply names_valid_del. exact Hn.
Qed.

Lemma put_object_names_valid s b k body m :
  names_valid s -> names_valid (fst (put_object s b k body m)).
Proof.
  intros Hn. unfold put_object. destruct (get_bucket s b) as [bk|] eqn:Eb; [|exact Hn].
  destruct (bucket_put bk (st_next s) k false body m) as [[bk' n'] id]. cbn [fst].
  apply names_valid_set; [exact Hn|]. eapply names_valid_get; eassumption.
Qed.

Lemma delete_object_names_valid s b k : names_valid s -> names_valid (fst (delete_object s b k)).
Proof.
  intros Hn. unfold delete_object. destruct (get_bucket s b) as [bk|] eqn:Eb; [|exact Hn].
  destruct (bucket_rm bk (st_next s) k) as [[bk' n'] r]. cbn [fst].
  apply names_valid_set; [exact Hn|]. eapply names_valid_get; eassumption.
Qed.

Lemma delete_object_version_names_valid s b k id :
  names_valid s -> names_valid (fst (delete_object_version s b k id)).
Proof.
  intros Hn. unfold delete_object_version. destruct (get_bucket s b) as [bk|] eqn:Eb; [|exact Hn].
  destruct (bucket_rm_version bk k id) as [bk' r]. cbn [fst].
  apply names_valid_set; [exact Hn|]. eapply names_valid_get; eassumption.
Qed.

Lemma delete_multi_names_valid s b ks : names_valid s -> names_valid (delete_multi s b ks).
Proof.
  revert s. induction ks as [|[k [id|]] ks IH]; intros s Hn; cbn [delete_multi].
  - exact Hn.
  - apply IH. apply delete_object_version_names_valid. exact Hn.
  - apply IH. apply delete_object_names_valid. exact Hn.
Qed.

Lemma set_versioning_names_valid s b en :
  names_valid s -> names_valid (fst (set_versioning s b en)).
Proof.
  intros Hn. unfold set_versioning. destruct (get_bucket s b) as [bk|] eqn:Eb; [|exact Hn].
  cbn [fst]. unfold set_bucket. apply names_valid_set; [exact Hn|].
  eapply names_valid_get; eassumption.
Qed.

(* the bucket check creates a bucket on first use only under a valid name *)
Lemma ensure_bucket_names_valid c s b : names_valid s -> names_valid (fst (ensure_bucket c s b)).
Proof.
  intros Hn. unfold ensure_bucket. destruct (get_bucket s b); [exact Hn|].
  destruct (cfg_auto_bucket c); [|exact Hn].
  destruct (validate b) eqn:Ev; [|exact Hn]. cbn [fst].
  apply create_bucket_names_valid; assumption.
Qed.

(* every operation, in every configuration (auto-bucket included), keeps "every bucket has a
   valid name" *)
Lemma step_names_valid c s o : names_valid s -> names_valid (fst (step c s o)).
Proof.
  intros Hn. destruct o; cbn [step].
  - (* create *) destruct (validate b) eqn:Ev; cbn [negb]; [|exact Hn].
    pose proof (create_bucket_names_valid s b Hn Ev) as H.
    destruct (create_bucket s b) as [s' [e|]]; exact H.
  - (* delete bucket *)
    pose proof (ensure_bucket_names_valid c s b Hn) as H1.
    destruct (ensure_bucket c s b) as [s1 [e|]]; [exact H1|]. cbn [fst] in H1.
    pose proof (delete_bucket_names_valid s1 b H1) as H2.
    destruct (delete_bucket s1 b) as [s2 [e|]]; exact H2.
  - pose proof (ensure_bucket_names_valid c s b Hn) as H1.
    destruct (ensure_bucket c s b) as [s1 [e|]]; exact H1.
  - exact Hn.
  - (* put *)
    pose proof (ensure_bucket_names_valid c s b Hn) as H1.
    destruct (ensure_bucket c s b) as [s1 [e|]]; [exact H1|]. cbn [fst] in H1.
    pose proof (put_object_names_valid s1 b k body (carry_meta s1 b k m) H1) as H2.
    destruct (put_object s1 b k body (carry_meta s1 b k m)) as [s2 [[e|] vid]]; exact H2.
  - (* get *)
    pose proof (ensure_bucket_names_valid c s b Hn) as H1.
    destruct (ensure_bucket c s b) as [s1 [e|]]; [exact H1|]. cbn [fst] in H1.
    destruct vid as [id|].
    + destruct (negb (cfg_versioned c)); [exact H1|].
      destruct (get_object_version s1 b k id) as [e|v sv]; [exact H1|].
      destruct (vd_marker v); exact H1.
    + destruct (get_object s1 b k); exact H1.
  - (* head *)
    pose proof (ensure_bucket_names_valid c s b Hn) as H1.
    destruct (ensure_bucket c s b) as [s1 [e|]]; [exact H1|]. cbn [fst] in H1.
    destruct vid as [id|].
    + destruct (negb (cfg_versioned c)); [exact H1|].
      destruct (get_object_version s1 b k id) as [e|v sv]; [exact H1|].
      destruct (vd_marker v); exact H1.
    + destruct (get_object s1 b k); exact H1.
  - (* delete *)
    pose proof (ensure_bucket_names_valid c s b Hn) as H1.
    destruct (ensure_bucket c s b) as [s1 [e|]]; [exact H1|]. cbn [fst] in H1.
    pose proof (delete_object_names_valid s1 b k H1) as H2.
    destruct (delete_object s1 b k) as [s2 [[e|] [mk vid]]]; exact H2.
  - (* delete version *)
    destruct (negb (cfg_versioned c)); [exact Hn|].
    pose proof (ensure_bucket_names_valid c s b Hn) as H1.
    destruct (ensure_bucket c s b) as [s1 [e|]]; [exact H1|]. cbn [fst] in H1.
    pose proof (delete_object_version_names_valid s1 b k vid H1) as H2.
    destruct (delete_object_version s1 b k vid) as [s2 [[e|] [mk vid']]]; exact H2.
  - (* multi delete *)
    pose proof (ensure_bucket_names_valid c s b Hn) as H1.
    destruct (ensure_bucket c s b) as [s1 [e|]]; [exact H1|]. cbn [fst] in H1.
    cbn [fst]. apply delete_multi_names_valid. exact H1.
  - (* copy *)
    pose proof (ensure_bucket_names_valid c s b Hn) as H1.
    destruct (ensure_bucket c s b) as [s1 [e|]]; [exact H1|]. cbn [fst] in H1.
    destruct (get_object s1 sb sk) as [e|v sv]; [exact H1|].
    pose proof (put_object_names_valid s1 b k (vd_body v) (carry_meta s1 b k (merge_meta m (vd_meta v))) H1) as H2.
    destruct (put_object s1 b k (vd_body v) (carry_meta s1 b k (merge_meta m (vd_meta v)))) as [s2 [[e|] vid]]; exact H2.
  - (* set versioning *)
    pose proof (ensure_bucket_names_valid c s b Hn) as H1.
    destruct (ensure_bucket c s b) as [s1 [e|]]; [exact H1|]. cbn [fst] in H1.
    destruct (negb (cfg_versioned c)); [exact H1|].
    pose proof (set_versioning_names_valid s1 b enable H1) as H2.
    destruct (set_versioning s1 b enable) as [s2 [e|]]; exact H2.
  - (* list *)
    pose proof (ensure_bucket_names_valid c s b Hn) as H1.
    destruct (ensure_bucket c s b) as [s1 [e|]]; [exact H1|]. cbn [fst] in H1.
    cbv zeta.
    destruct ((has_marker || negb (beq marker []) || negb (maxkeys =? 0)) && negb (cfg_pages c) && cfg_fail_unimpl_page c);
      [exact H1|].
    destruct (if (has_marker || negb (beq marker []) || negb (maxkeys =? 0)) && negb (cfg_pages c)
              then ([], 0) else (marker, maxkeys)) as [mk' mx'].
    destruct (list_bucket s1 b pre delim mk' mx'); exact H1.
Qed.

Lemma run_names_valid_gen c ops s : names_valid s -> names_valid (fst (run c s ops)).
Proof.
  revert s. induction ops as [|o ops IH]; intros s Hn; cbn [run]; [exact Hn|].
  pose proof (step_names_valid c s o Hn) as H1. destruct (step c s o) as [s1 r]. cbn [fst] in H1.
  pose proof (IH s1 H1) as H2. destruct (run c s1 ops) as [s2 rs]. exact H2.
Qed.

Lemma run_names_valid c ops : names_valid (fst (run c init ops)).
Proof. apply run_names_valid_gen. apply names_valid_init. Qed.

(* the form restated as C17_auto_bucket_never_creates_invalid_name *)
Lemma auto_bucket_never_creates_invalid_name :
  (forall c s o,
     (forall b bk, In (b, bk) (st_buckets s) -> validate b = true) ->
     forall b bk, In (b, bk) (st_buckets (fst (step c s o))) -> validate b = true) /\
  (forall c ops b bk, In (b, bk) (st_buckets (fst (run c init ops))) -> validate b = true).
Proof. split; [exact step_names_valid|exact run_names_valid]. Qed.


Print Assumptions step_inv.
Print Assumptions law_error_frame.
Print Assumptions law_missing_bucket_auto_invalid.
Print Assumptions auto_bucket_never_creates_invalid_name.
