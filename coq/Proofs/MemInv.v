(* TASK B.  The invariant of the memory-backend model is preserved by every handler step, no
   reachable state makes a handler panic, and the S3 laws of C02 hold in every state satisfying
   the invariant.  Statements are fixed (you may add helper lemmas and strengthen, never weaken). *)
From GF Require Import Base.Bytes Base.SortedMap Model.Mem Model.BucketName Model.Handlers
  Proofs.BytesFacts Proofs.SortedMapFacts Proofs.MemProofs Proofs.MemInvDef.

Lemma inv_init : Inv init.
Proof.
Admitted.

(* every operation, in every configuration, preserves the invariant *)
Lemma step_inv c s o : Inv s -> Inv (fst (step c s o)).
Proof.
Admitted.

Lemma run_inv c ops : Inv (fst (run c init ops)).
Proof.
Admitted.

(* no nil dereference: with the invariant, no request is answered by a panic *)
Lemma step_no_panic c s o : Inv s -> snd (step c s o) <> RErr EPanic.
Proof.
Admitted.

(* ---- C02 laws (handler level, any configuration) ---- *)

(* read-your-writes *)
Lemma law_get_after_put c s b k body m s1 vid :
  step c s (OPut b k body m) = (s1, RPut vid) ->
  exists v sv, snd (step c s1 (OGet b k None)) = RObj v sv /\ vd_body v = body /\ vd_meta v = m.
Proof.
Admitted.

(* a put changes no other key of any bucket that existed before it *)
Lemma law_put_frame c s b k body m b' k' :
  (b', k') <> (b, k) -> get_bucket s b' <> None ->
  get_object (fst (step c s (OPut b k body m))) b' k' = get_object s b' k'.
Proof.
Admitted.

(* in a never-versioned bucket a deleted key reads NoSuchKey, deleting again changes nothing,
   and other keys are untouched *)
Lemma law_delete c s b k bk :
  Inv s -> get_bucket s b = Some bk -> b_ver bk = VNone ->
  let s1 := fst (step c s (ODelete b k)) in
  get_object s1 b k = OErr ENoSuchKey /\
  fst (step c s1 (ODelete b k)) = s1 /\
  (forall b' k', (b', k') <> (b, k) -> get_object s1 b' k' = get_object s b' k').
Proof.
Admitted.

(* bucket lifecycle *)
Lemma law_create_existing c s b bk :
  get_bucket s b = Some bk -> validate b = true ->
  step c s (OCreateBucket b) = (s, RErr EBucketAlreadyExists).
Proof.
Admitted.

Lemma law_missing_bucket c s b k :
  cfg_auto_bucket c = false -> get_bucket s b = None ->
  snd (step c s (OGet b k None)) = RErr ENoSuchBucket /\
  step c s (ODeleteBucket b) = (s, RErr ENoSuchBucket) /\
  (forall body m, step c s (OPut b k body m) = (s, RErr ENoSuchBucket)).
Proof.
Admitted.

Lemma law_delete_nonempty_bucket c s b bk :
  get_bucket s b = Some bk -> b_objs bk <> [] ->
  step c s (ODeleteBucket b) = (s, RErr EBucketNotEmpty).
Proof.
Admitted.

Lemma law_delete_empty_bucket c s b bk :
  Inv s -> get_bucket s b = Some bk -> b_objs bk = [] ->
  exists s1, step c s (ODeleteBucket b) = (s1, ROk) /\ get_bucket s1 b = None /\
             (forall b', b' <> b -> get_bucket s1 b' = get_bucket s b').
Proof.
Admitted.

(* copy: destination body = source body; the source is unchanged (unless it is the destination) *)
Lemma law_copy c s sb sk b k s1 body :
  step c s (OCopy sb sk b k) = (s1, RCopy body) ->
  (exists v sv, get_object s sb sk = OObj v sv /\ vd_body v = body) /\
  (exists v' sv', get_object s1 b k = OObj v' sv' /\ vd_body v' = body) /\
  ((sb, sk) <> (b, k) -> get_bucket s sb <> None -> get_object s1 sb sk = get_object s sb sk).
Proof.
Admitted.

(* an operation answered with an error leaves the state unchanged (auto-bucket off) *)
Lemma law_error_frame c s o e :
  cfg_auto_bucket c = false -> snd (step c s o) = RErr e -> fst (step c s o) = s.
Proof.
Admitted.

Print Assumptions step_inv.
Print Assumptions law_error_frame.
