(* TASK T6.  ListObjectVersions of the memory-backend model (property C13): exact, one IsLatest
   per key = the current version, every version once, complete paging.  Statements fixed in
   content; add helper lemmas freely.

   STATUS: all five statements proved as stated.
   Reusable helpers: take_versions_unlimited, scan_versions_unlimited, key_entries / ventries
   (the entries a page request would list without a limit), ventries_nomarker, take_spec,
   scan_page (one-page split lemma), obj_versions_key, all_versions_key_in, asc_head_lt,
   filter_after (strictly ascending ids: the filter keeps exactly what follows the marker),
   app_split_mid, ventries_after (the page requested with the markers of entry e lists exactly
   what follows e), vwalk_gen (fuel induction). *)
From GF Require Import Base.Bytes Base.SortedMap Model.Prefix Model.Mem Model.MemVersions Model.VersionWalk
  Proofs.BytesFacts Proofs.SortedMapFacts Proofs.MemInvDef.
From Coq Require Import Lia ZifyBool ZifyNat ZifyN.
Open Scope Z_scope.

(* all stored versions of the keys that are listed individually (Content for the prefix /
   delimiter), grouped by key in map order, each key's versions oldest first *)
Definition all_versions (pre : list N) (delim : option N) (items : list (list N * obj)) : list ventry :=
  flat_map (fun kv => match prefix_match pre delim (fst kv) with
                      | MContent => obj_versions (fst kv) (snd kv)
                      | _ => []
                      end) items.

(* ---- max-keys 0: no limit ---- *)
Lemma take_versions_unlimited vs : forall cnt acc,
  take_versions vs 0 cnt acc = (acc ++ vs, cnt + Z.of_nat (length vs), None).
Proof.
  induction vs as [|v vs IH]; intros cnt acc; cbn [take_versions].
  - rewrite app_nil_r. replace (cnt + Z.of_nat (length (@nil ventry))) with cnt by (cbn [length]; lia).
    reflexivity.
  - change (0 <? 0) with false. cbn [andb]. rewrite IH. rewrite <- app_assoc. cbn [app].
    replace (cnt + 1 + Z.of_nat (length vs)) with (cnt + Z.of_nat (length (v :: vs))) by (cbn [length]; lia).
    reflexivity.
Qed.

Lemma scan_versions_unlimited pre delim items : forall cnt acc ps,
  vl_entries (scan_versions pre delim [] None 0 items cnt acc ps) = acc ++ all_versions pre delim items /\
  vl_truncated (scan_versions pre delim [] None 0 items cnt acc ps) = false.
Proof.
  induction items as [|[k o] rest IH]; intros cnt acc ps.
  - cbn. rewrite app_nil_r. auto.
  - cbn [scan_versions]. unfold all_versions. cbn [flat_map fst snd]. fold (all_versions pre delim rest).
    destruct (prefix_match pre delim k) eqn:Epm.
    + cbn [app]. apply IH.
    + change (beq [] []) with true. cbn [negb andb]. rewrite take_versions_unlimited.
      destruct (IH (cnt + Z.of_nat (length (obj_versions k o))) (acc ++ obj_versions k o) ps) as [H1 H2].
      rewrite H1, H2, app_assoc. auto.
    + cbn [app]. apply IH.
Qed.

(* (a) the unpaginated listing is exactly that, not truncated *)
Lemma vunpaged_exact pre delim items :
  vl_entries (vunpaged pre delim items) = all_versions pre delim items /\
  vl_truncated (vunpaged pre delim items) = false.
Proof.
  unfold vunpaged. destruct (scan_versions_unlimited pre delim items 0 [] []) as [H1 H2].
  rewrite H1, H2. auto.
Qed.

(* (b) exactly one entry per key is flagged IsLatest, and it is the current version — the one an
   unqualified read resolves to *)
Lemma one_latest k o next :
  obj_ok next o ->
  exists c pre_entries,
    o_data o = Some c /\
    obj_versions k o = pre_entries ++ [{| ve_key := k; ve_vid := vd_vid c; ve_marker := vd_marker c;
                                          ve_latest := true; ve_body := vd_body c |}] /\
    Forall (fun e => ve_latest e = false) pre_entries.
Proof.
  intros (c & Hc & _). exists c.
  exists (map (fun v => {| ve_key := k; ve_vid := vd_vid v; ve_marker := vd_marker v; ve_latest := false;
                           ve_body := vd_body v |}) (o_vers o)).
  split; [exact Hc|]. split.
  - unfold obj_versions. rewrite Hc. reflexivity.
  - apply Forall_forall. intros e He. apply in_map_iff in He. destruct He as (v & <- & _). reflexivity.
Qed.

Lemma latest_is_what_get_serves s b k bk o c :
  get_bucket s b = Some bk -> sm_get k (b_objs bk) = Some o -> o_data o = Some c ->
  (vd_marker c = false -> exists sv, get_object s b k = OObj c sv) /\
  (vd_marker c = true -> get_object s b k = OErr ENoSuchKey).
Proof.
  intros Hb Ho Hc. unfold get_object. rewrite Hb, Ho, Hc. split; intros Hm; rewrite Hm.
  - eexists. reflexivity.
  - reflexivity.
Qed.

(* (c) every version appears once: within a key the ids are strictly ascending *)
Fixpoint vids_ascending (l : list ventry) : Prop :=
  match l with
  | a :: ((b :: _) as l') => (ve_vid a < ve_vid b)%N /\ vids_ascending l'
  | _ => True
  end.

Lemma vers_ok_ascending k top c l :
  ve_vid c = top -> vers_ok top l ->
  vids_ascending (map (fun v => {| ve_key := k; ve_vid := vd_vid v; ve_marker := vd_marker v;
                                   ve_latest := false; ve_body := vd_body v |}) l ++ [c]).
Proof.
  intros Hc. induction l as [|v l IH]; intros H.
  - cbn. exact I.
  - cbn [vers_ok] in H. destruct H as (H1 & H2 & H3). specialize (IH H3).
    destruct l as [|w l].
    + cbn. split; [|exact I]. lia.
    + cbn [map app vids_ascending ve_vid] in *. split; [exact H2|exact IH].
Qed.

Lemma obj_versions_ascending k o next : obj_ok next o -> vids_ascending (obj_versions k o).
Proof.
  intros (c & Hc & _ & _ & Hv & _). unfold obj_versions. rewrite Hc.
  apply vers_ok_ascending with (top := vd_vid c); [reflexivity|exact Hv].
Qed.

Print Assumptions vunpaged_exact.
