(* TASK T6.  ListObjectVersions of the memory-backend model (property C13): exact, one IsLatest
   per key = the current version, every version once, complete paging.  Statements fixed in
   content; add helper lemmas freely.

   STATUS: all five statements proved as stated.
   Reusable helpers: take_versions_unlimited, scan_versions_unlimited, key_entries / ventries
   (the entries a page request would list without a limit), ventries_nomarker, take_spec,
   scan_page (one-page split lemma), obj_versions_key, all_versions_key_in, asc_head_lt,
   filter_after (strictly ascending ids: the filter keeps exactly what follows the marker),
   app_split_mid, ventries_after (the page requested with the markers of entry e lists exactly
   what follows e), vwalk_gen (fuel induction). *)
From GF Require Import Base.Bytes Base.SortedMap Model.Prefix Model.Mem Model.MemVersions Model.VersionWalk
  Proofs.BytesFacts Proofs.SortedMapFacts Proofs.MemInvDef.
From Coq Require Import Lia ZifyBool ZifyNat ZifyN.
Open Scope Z_scope.

(* all stored versions of the keys that are listed individually (Content for the prefix /
   delimiter), grouped by key in map order, each key's versions oldest first *)
Definition all_versions (pre : list N) (delim : option N) (items : list (list N * obj)) : list ventry :=
  flat_map (fun kv => match prefix_match pre delim (fst kv) with
                      | MContent => obj_versions (fst kv) (snd kv)
                      | _ => []
                      end) items.

(* ---- max-keys 0: no limit ---- *)
Lemma take_versions_unlimited vs : forall cnt acc,
  take_versions vs 0 cnt acc = (acc ++ vs, cnt + Z.of_nat (length vs), None).
Proof.
  induction vs as [|v vs IH]; intros cnt acc; cbn [take_versions].
  - rewrite app_nil_r. replace (cnt + Z.of_nat (length (@nil ventry))) with cnt by (cbn [length]; lia).
    reflexivity.
  - change (0 <? 0) with false. cbn [andb]. rewrite IH. rewrite <- app_assoc. cbn [app].
    replace (cnt + 1 + Z.of_nat (length vs)) with (cnt + Z.of_nat (length (v :: vs))) by (cbn [length]; lia).
    reflexivity.
Qed.

Lemma scan_versions_unlimited pre delim items : forall cnt acc ps,
  vl_entries (scan_versions pre delim [] None 0 items cnt acc ps) = acc ++ all_versions pre delim items /\
  vl_truncated (scan_versions pre delim [] None 0 items cnt acc ps) = false.
Proof.
  induction items as [|[k o] rest IH]; intros cnt acc ps.
  - cbn. rewrite app_nil_r. auto.
  - cbn [scan_versions]. unfold all_versions. cbn [flat_map fst snd]. fold (all_versions pre delim rest).
    destruct (prefix_match pre delim k) eqn:Epm.
    + cbn [app]. apply IH.
    + change (beq [] []) with true. cbn [negb andb]. rewrite take_versions_unlimited.
      destruct (IH (cnt + Z.of_nat (length (obj_versions k o))) (acc ++ obj_versions k o) ps) as [H1 H2].
      rewrite H1, H2, app_assoc. auto.
    + cbn [app]. apply IH.
Qed.

(* (a) the unpaginated listing is exactly that, not truncated *)
Lemma vunpaged_exact pre delim items :
  vl_entries (vunpaged pre delim items) = all_versions pre delim items /\
  vl_truncated (vunpaged pre delim items) = false.
Proof.
  unfold vunpaged. destruct (scan_versions_unlimited pre delim items 0 [] []) as [H1 H2].
  rewrite H1, H2. auto.
Qed.

(* (b) exactly one entry per key is flagged IsLatest, and it is the current version — the one an
   unqualified read resolves to *)
Lemma one_latest k o next :
  obj_ok next o ->
  exists c pre_entries,
    o_data o = Some c /\
    obj_versions k o = pre_entries ++ [{| ve_key := k; ve_vid := vd_vid c; ve_marker := vd_marker c;
                                          ve_latest := true; ve_body := vd_body c |}] /\
    Forall (fun e => ve_latest e = false) pre_entries.
Proof.
  intros (c & Hc & _). exists c.
  exists (map (fun v => {| ve_key := k; ve_vid := vd_vid v; ve_marker := vd_marker v; ve_latest := false;
                           ve_body := vd_body v |}) (o_vers o)).
  split; [exact Hc|]. split.
  - unfold obj_versions. rewrite Hc. reflexivity.
  - apply Forall_forall. intros e He. apply in_map_iff in He. destruct He as (v & <- & _). reflexivity.
Qed.

Lemma latest_is_what_get_serves s b k bk o c :
  get_bucket s b = Some bk -> sm_get k (b_objs bk) = Some o -> o_data o = Some c ->
  (vd_marker c = false -> exists sv, get_object s b k = OObj c sv) /\
  (vd_marker c = true -> get_object s b k = OErr ENoSuchKey).
Proof.
  intros Hb Ho Hc. unfold get_object. rewrite Hb, Ho, Hc. split; intros Hm; rewrite Hm.
  - eexists. reflexivity.
  - reflexivity.
Qed.

(* (c) every version appears once: within a key the ids are strictly ascending *)
Fixpoint vids_ascending (l : list ventry) : Prop :=
  match l with
  | a :: ((b :: _) as l') => (ve_vid a < ve_vid b)%N /\ vids_ascending l'
  | _ => True
  end.

Lemma vers_ok_ascending k top c l :
  ve_vid c = top -> vers_ok top l ->
  vids_ascending (map (fun v => {| ve_key := k; ve_vid := vd_vid v; ve_marker := vd_marker v;
                                   ve_latest := false; ve_body := vd_body v |}) l ++ [c]).
Proof.
  intros Hc. induction l as [|v l IH]; intros H.
  - cbn. exact I.
  - cbn [vers_ok] in H. destruct H as (H1 & H2 & H3). specialize (IH H3).
    destruct l as [|w l].
    + cbn. split; [|exact I]. lia.
    + cbn [map app vids_ascending ve_vid] in *. split; [exact H2|exact IH].
Qed.

Lemma obj_versions_ascending k o next : obj_ok next o -> vids_ascending (obj_versions k o).
Proof.
  intros (c & Hc & _ & _ & Hv & _). unfold obj_versions. rewrite Hc.
  apply vers_ok_ascending with (top := vd_vid c); [reflexivity|exact Hv].
Qed.


(* ---- (d) paging ---- *)

(* the entries of one item / of a list of items that a request with markers (km, vm) lists
   when there is no limit *)
Definition key_entries (pre : list N) (delim : option N) (km : list N) (vm : option N)
    (kv : list N * obj) : list ventry :=
  match prefix_match pre delim (fst kv) with
  | MContent =>
      if negb (beq km []) && beq (fst kv) km then
        match vm with
        | None => []
        | Some m => filter (fun v => N.ltb m (ve_vid v)) (obj_versions (fst kv) (snd kv))
        end
      else obj_versions (fst kv) (snd kv)
  | _ => []
  end.

Definition ventries (pre : list N) (delim : option N) (km : list N) (vm : option N)
    (items : list (list N * obj)) : list ventry :=
  flat_map (key_entries pre delim km vm) items.

(* no item carries the marker key: nothing is filtered *)
Lemma ventries_nomarker pre delim km vm items :
  km = [] \/ (forall kv, In kv items -> fst kv <> km) ->
  ventries pre delim km vm items = all_versions pre delim items.
Proof.
  intros H. induction items as [|kv items IH]; [reflexivity|].
  unfold ventries, all_versions in *. cbn [flat_map]. rewrite IH.
  - f_equal. unfold key_entries. destruct (prefix_match pre delim (fst kv)); try reflexivity.
    assert (E : negb (beq km []) && beq (fst kv) km = false).
    { destruct H as [->|H]; [reflexivity|].
      assert (fst kv <> km) by (apply H; left; reflexivity).
      apply beq_neq in H0. rewrite H0. apply andb_false_r. }
    rewrite E. reflexivity.
  - destruct H as [H|H]; [left; exact H|right]. intros kv' Hin. apply H. right. exact Hin.
Qed.

(* one key's entries against a page limit *)
Lemma take_spec mk : 1 <= mk -> forall vs cnt acc, cnt < mk ->
  (take_versions vs mk cnt acc = (acc ++ vs, cnt + Z.of_nat (length vs), None) /\
   cnt + Z.of_nat (length vs) < mk) \/
  (exists l e more, vs = l ++ e :: more /\ cnt + Z.of_nat (length l) + 1 = mk /\
     take_versions vs mk cnt acc = (acc ++ l ++ [e], mk, Some (e, more))).
Proof.
  intros Hmk. induction vs as [|v vs IH]; intros cnt acc Hc; cbn [take_versions].
  - left. rewrite app_nil_r. cbn [length]. replace (cnt + Z.of_nat 0) with cnt by lia. split; [reflexivity|lia].
  - destruct ((0 <? mk) && (mk <=? cnt + 1)) eqn:Ef.
    + right. exists [], v, vs. cbn [app length]. split; [reflexivity|]. split; [lia|].
      replace (cnt + 1) with mk by lia. reflexivity.
    + destruct (IH (cnt + 1) (acc ++ [v])) as [[Et Hlt]|(l & e & more & Evs & Hcnt & Et)]; [lia| |].
      * left. rewrite Et. rewrite <- app_assoc. cbn [app length].
        replace (cnt + 1 + Z.of_nat (length vs)) with (cnt + Z.of_nat (S (length vs))) by lia.
        split; [reflexivity|lia].
      * right. exists (v :: l), e, more. split; [rewrite Evs; reflexivity|]. split; [cbn [length]; lia|].
        rewrite Et. rewrite <- app_assoc. reflexivity.
Qed.

(* one-page split lemma: the page lists a prefix l1 of the unlimited entry list; if it is not
   truncated that is everything; if it is, the page is full and the markers name its last entry *)
Lemma scan_page pre delim km vm mk : 1 <= mk -> forall items cnt acc ps, cnt < mk ->
  exists l1 l2,
    ventries pre delim km vm items = l1 ++ l2 /\
    vl_entries (scan_versions pre delim km vm mk items cnt acc ps) = acc ++ l1 /\
    cnt + Z.of_nat (length l1) <= mk /\
    ((vl_truncated (scan_versions pre delim km vm mk items cnt acc ps) = false /\ l2 = []) \/
     (vl_truncated (scan_versions pre delim km vm mk items cnt acc ps) = true /\
      exists l e, l1 = l ++ [e] /\
        vl_next_key (scan_versions pre delim km vm mk items cnt acc ps) = ve_key e /\
        vl_next_vid (scan_versions pre delim km vm mk items cnt acc ps) = ve_vid e)).
Proof.
  intros Hmk. induction items as [|[k o] rest IH]; intros cnt acc ps Hc.
  - cbn [scan_versions vl_entries vl_truncated]. exists [], []. cbn [app length].
    rewrite app_nil_r. repeat split; [lia|]. left. auto.
  - (* an item that contributes the entries vs' *)
    assert (Htake : forall vs',
      key_entries pre delim km vm (k, o) = vs' ->
      forall r,
      r = match take_versions vs' mk cnt acc with
          | (acc', cnt', None) => scan_versions pre delim km vm mk rest cnt' acc' ps
          | (acc', cnt', Some (last_v, more)) =>
              let trunc := match more, rest with [], [] => false | _, _ => true end in
              {| vl_entries := acc'; vl_prefixes := ps; vl_truncated := trunc;
                 vl_next_key := if trunc then ve_key last_v else [];
                 vl_next_vid := if trunc then ve_vid last_v else 0%N |}
          end ->
      exists l1 l2,
        ventries pre delim km vm ((k, o) :: rest) = l1 ++ l2 /\
        vl_entries r = acc ++ l1 /\
        cnt + Z.of_nat (length l1) <= mk /\
        ((vl_truncated r = false /\ l2 = []) \/
         (vl_truncated r = true /\
          exists l e, l1 = l ++ [e] /\ vl_next_key r = ve_key e /\ vl_next_vid r = ve_vid e))).
    { intros vs' Ek r Er. unfold ventries. cbn [flat_map]. rewrite Ek. fold (ventries pre delim km vm rest).
      destruct (take_spec mk Hmk vs' cnt acc Hc) as [[Et Hlt]|(l & e & more & Evs & Hcnt & Et)];
        rewrite Et in Er.
      - destruct (IH (cnt + Z.of_nat (length vs')) (acc ++ vs') ps Hlt) as (l1 & l2 & E & C & B & T).
        rewrite <- Er in *. exists (vs' ++ l1), l2. split; [rewrite E, app_assoc; reflexivity|].
        split; [rewrite C, app_assoc; reflexivity|]. split; [rewrite app_length; lia|].
        destruct T as [T|(T1 & l & e & T2 & T3 & T4)]; [left; exact T|right].
        split; [exact T1|]. exists (vs' ++ l), e. rewrite T2, app_assoc. auto.
      - exists (l ++ [e]), (more ++ ventries pre delim km vm rest).
        split; [rewrite Evs; rewrite <- !app_assoc; reflexivity|].
        split; [rewrite Er; reflexivity|]. split; [rewrite app_length; cbn [length]; lia|].
        destruct more as [|m0 more]; [destruct rest as [|it rest']|].
        + left. rewrite Er. cbn. auto.
        + right. rewrite Er. cbn [vl_truncated vl_next_key vl_next_vid]. split; [reflexivity|]. exists l, e. auto.
        + right. rewrite Er. cbn [vl_truncated vl_next_key vl_next_vid]. split; [reflexivity|]. exists l, e. auto. }
    (* an item that is skipped *)
    assert (Hskip : forall ps', key_entries pre delim km vm (k, o) = [] ->
      exists l1 l2,
        ventries pre delim km vm ((k, o) :: rest) = l1 ++ l2 /\
        vl_entries (scan_versions pre delim km vm mk rest cnt acc ps') = acc ++ l1 /\
        cnt + Z.of_nat (length l1) <= mk /\
        ((vl_truncated (scan_versions pre delim km vm mk rest cnt acc ps') = false /\ l2 = []) \/
         (vl_truncated (scan_versions pre delim km vm mk rest cnt acc ps') = true /\
          exists l e, l1 = l ++ [e] /\
            vl_next_key (scan_versions pre delim km vm mk rest cnt acc ps') = ve_key e /\
            vl_next_vid (scan_versions pre delim km vm mk rest cnt acc ps') = ve_vid e))).
    { intros ps' Ek. unfold ventries. cbn [flat_map]. rewrite Ek. cbn [app]. apply IH. exact Hc. }
    cbn [scan_versions].
    destruct (prefix_match pre delim k) eqn:Epm.
    + apply Hskip. unfold key_entries. cbn [fst]. rewrite Epm. reflexivity.
    + destruct (negb (beq km []) && beq k km) eqn:Em.
      * destruct vm as [m|].
        -- eapply Htake; [|reflexivity]. unfold key_entries. cbn [fst snd]. rewrite Epm, Em. reflexivity.
        -- apply Hskip. unfold key_entries. cbn [fst]. rewrite Epm, Em. reflexivity.
      * eapply Htake; [|reflexivity]. unfold key_entries. cbn [fst snd]. rewrite Epm, Em. reflexivity.
    + apply Hskip. unfold key_entries. cbn [fst]. rewrite Epm. reflexivity.
Qed.

(* ---- linking consecutive pages ---- *)
Lemma obj_versions_key k o e : In e (obj_versions k o) -> ve_key e = k.
Proof.
  unfold obj_versions. intros H. apply in_app_or in H. destruct H as [H|H].
  - apply in_map_iff in H. destruct H as (v & <- & _). reflexivity.
  - destruct (o_data o) as [c|]; [|destruct H]. destruct H as [<-|[]]. reflexivity.
Qed.

Lemma all_versions_key_in pre delim items e :
  In e (all_versions pre delim items) -> exists o, In (ve_key e, o) items.
Proof.
  unfold all_versions. intros H. apply in_flat_map in H. destruct H as ([k o] & Hin & He).
  cbn [fst snd] in He. destruct (prefix_match pre delim k); try destruct He.
  apply obj_versions_key in He. subst k. exists o. exact Hin.
Qed.

Lemma asc_tail a l : vids_ascending (a :: l) -> vids_ascending l.
Proof. destruct l as [|b l]; cbn; tauto. Qed.

Lemma asc_head_lt l : forall a, vids_ascending (a :: l) -> Forall (fun x => (ve_vid a < ve_vid x)%N) l.
Proof.
  induction l as [|b l IH]; intros a H; [constructor|].
  cbn [vids_ascending] in H. destruct H as [H1 H2]. constructor; [exact H1|].
  specialize (IH b H2). eapply Forall_impl; [|exact IH]. cbn beta. intros x Hx. lia.
Qed.

Lemma filter_all_true {A} (f : A -> bool) l : Forall (fun x => f x = true) l -> filter f l = l.
Proof. induction 1 as [|x l H _ IH]; cbn [filter]; [reflexivity|]. rewrite H, IH. reflexivity. Qed.

(* strictly ascending ids: filtering on "id greater than that of e" keeps exactly what follows e *)
Lemma filter_after e S : forall D, vids_ascending (D ++ e :: S) ->
  filter (fun x => N.ltb (ve_vid e) (ve_vid x)) (D ++ e :: S) = S.
Proof.
  induction D as [|d D IH]; intros H.
  - cbn [app filter]. rewrite N.ltb_irrefl. apply filter_all_true.
    apply asc_head_lt in H. eapply Forall_impl; [|exact H]. cbn beta. intros x Hx. lia.
  - cbn [app filter]. pose proof (asc_head_lt _ _ H) as Hd. rewrite Forall_forall in Hd.
    assert (Hlt : (ve_vid d < ve_vid e)%N) by (apply Hd; apply in_or_app; right; left; reflexivity).
    replace (N.ltb (ve_vid e) (ve_vid d)) with false by lia.
    apply IH. eapply asc_tail. exact H.
Qed.

Lemma app_split_mid {A} (e : A) S Y : forall X D, D ++ e :: S = X ++ Y ->
  (exists S1, X = D ++ e :: S1 /\ S = S1 ++ Y) \/ (exists D', D = X ++ D' /\ Y = D' ++ e :: S).
Proof.
  induction X as [|x X IH]; intros D H.
  - right. exists D. auto.
  - destruct D as [|d D]; cbn [app] in H.
    + inversion H; subst. left. exists X. auto.
    + inversion H; subst. destruct (IH D H2) as [(S1 & -> & ->)|(D' & -> & ->)].
      * left. exists S1. auto.
      * right. exists D'. auto.
Qed.

Lemma lb_In {V} k (m : list (list N * V)) k' v : lb k m -> In (k', v) m -> bltb k k' = true.
Proof.
  induction m as [|[k2 v2] m IH]; cbn [lb In]; [intros _ []|]. intros [H1 H2] [H|H].
  - inversion H; subst. exact H1.
  - apply IH; assumption.
Qed.

Lemma sm_seek_lb {V} k (m : list (list N * V)) k' v : bltb k' k = true ->
  sm_seek k ((k', v) :: m) = sm_seek k m.
Proof. intros H. cbn [sm_seek]. rewrite H. reflexivity. Qed.

(* the page requested with the markers of entry e lists (without limit) exactly what follows
   e in the full listing *)
Lemma ventries_after pre delim next e S : forall objs D,
  sorted objs -> (forall k o, In (k, o) objs -> obj_ok next o) ->
  all_versions pre delim objs = D ++ e :: S -> ve_key e <> [] ->
  ventries pre delim (ve_key e) (Some (ve_vid e)) (sm_seek (ve_key e) objs) = S.
Proof.
  induction objs as [|[k o] rest IH]; intros D Hs Hok Ha Hne.
  - destruct D; discriminate.
  - destruct Hs as [Hlb Hs].
    unfold all_versions in Ha. cbn [flat_map fst snd] in Ha. fold (all_versions pre delim rest) in Ha.
    symmetry in Ha. apply app_split_mid in Ha. destruct Ha as [(S1 & HX & ->)|(D' & -> & HY)].
    + (* e is an entry of this key *)
      destruct (prefix_match pre delim k) eqn:Epm; try (destruct D; discriminate).
      assert (Hk : ve_key e = k).
      { apply (obj_versions_key k o). rewrite HX. apply in_or_app. right. left. reflexivity. }
      rewrite Hk in *. cbn [sm_seek]. rewrite bltb_irrefl.
      unfold ventries. cbn [flat_map]. fold (ventries pre delim k (Some (ve_vid e)) rest). f_equal.
      * unfold key_entries. cbn [fst snd]. rewrite Epm, beq_refl.
        replace (beq k []) with false by (symmetry; apply beq_neq; exact Hne). cbn [negb andb].
        rewrite HX. apply filter_after. rewrite <- HX. apply (obj_versions_ascending k o next).
        apply (Hok k o). left. reflexivity.
      * apply ventries_nomarker. right. intros [k' o'] Hin. cbn [fst]. intros ->.
        pose proof (lb_In k rest k o' Hlb Hin) as Hlt. rewrite bltb_irrefl in Hlt. discriminate.
    + (* e belongs to a later key *)
      assert (Hin : In e (all_versions pre delim rest)).
      { rewrite HY. apply in_or_app. right. left. reflexivity. }
      apply all_versions_key_in in Hin. destruct Hin as [o' Hin].
      rewrite sm_seek_lb by (eapply lb_In; eassumption).
      apply (IH D'); auto. intros k' o'' H. apply (Hok k' o''). right. exact H.
Qed.

(* fuel induction: from any marker state whose unlimited entry list is a suffix S of the full
   listing, the walk returns pages concatenating to S *)
Lemma vwalk_gen pre delim mk objs next :
  1 <= mk -> sorted objs -> (forall k o, In (k, o) objs -> obj_ok next o) -> ~ In [] (map fst objs) ->
  forall fuel D S km vm,
    all_versions pre delim objs = D ++ S ->
    ventries pre delim km vm (match km with [] => objs | _ => sm_seek km objs end) = S ->
    (length S < fuel)%nat ->
    exists pages,
      vwalk fuel pre delim mk objs km vm = Some pages /\
      flat_map vl_entries pages = S /\
      Forall (fun r => Z.of_nat (length (vl_entries r)) <= mk) pages /\
      (exists r, last (map Some pages) None = Some r /\ vl_truncated r = false).
Proof.
  intros Hmk Hs Hok Hne. induction fuel as [|f IH]; intros D S km vm Ea Ev Hl; [lia|].
  cbn [vwalk]. unfold vpage.
  set (items := match km with [] => objs | _ => sm_seek km objs end) in *.
  destruct (scan_page pre delim km vm mk Hmk items 0 [] []) as (l1 & l2 & E & C & B & T); [lia|].
  set (r := scan_versions pre delim km vm mk items 0 [] []) in *.
  cbn [app] in C. rewrite Ev in E.
  destruct T as [[T1 T2]|(T1 & l & e & El & Tk & Tv)].
  - rewrite T1. subst l2. rewrite app_nil_r in E. exists [r]. split; [reflexivity|].
    cbn [flat_map map last]. rewrite app_nil_r. split; [congruence|].
    split; [constructor; [rewrite C; lia|constructor]|]. exists r. auto.
  - rewrite T1, Tk, Tv.
    assert (Ea' : all_versions pre delim objs = (D ++ l) ++ e :: l2).
    { rewrite Ea, E, El. rewrite <- !app_assoc. reflexivity. }
    assert (Hke : ve_key e <> []).
    { intros E0. apply Hne.
      destruct (all_versions_key_in pre delim objs e) as [o Ho].
      - rewrite Ea'. apply in_or_app. right. left. reflexivity.
      - rewrite <- E0. change (ve_key e) with (fst (ve_key e, o)). apply in_map. exact Ho. }
    destruct (IH (D ++ l1) l2 (ve_key e) (Some (ve_vid e))) as (pages & W & PC & PB & (rl & L1 & L2)).
    + rewrite Ea, E, app_assoc. reflexivity.
    + destruct (ve_key e) as [|c ke] eqn:Eke; [congruence|]. rewrite <- Eke.
      apply (ventries_after pre delim next e l2 objs (D ++ l)); auto. congruence.
    + rewrite E, El, !app_length in Hl. cbn [length] in Hl. lia.
    + rewrite W. exists (r :: pages). split; [reflexivity|]. cbn [flat_map].
      split; [rewrite PC, C, E; reflexivity|].
      split; [constructor; [rewrite C; lia|exact PB]|].
      exists rl. split; [|exact L2]. destruct pages as [|p0 pages]; [cbn in L1; discriminate|]. exact L1.
Qed.

(* (d) paging: following (NextKeyMarker, NextVersionIdMarker) terminates and the pages
   concatenate to exactly the unpaginated listing — every entry once, none skipped *)
Theorem vwalk_complete pre delim mk objs next :
  1 <= mk -> sorted objs -> (forall k o, In (k, o) objs -> obj_ok next o) -> ~ In [] (map fst objs) ->
  exists pages,
    vwalk (S (length (all_versions pre delim objs))) pre delim mk objs [] None = Some pages /\
    flat_map vl_entries pages = vl_entries (vunpaged pre delim objs) /\
    Forall (fun r => Z.of_nat (length (vl_entries r)) <= mk) pages /\
    (exists r, last (map Some pages) None = Some r /\ vl_truncated r = false).
Proof.
  intros Hmk Hs Hok Hne.
  destruct (vwalk_gen pre delim mk objs next Hmk Hs Hok Hne
              (S (length (all_versions pre delim objs))) [] (all_versions pre delim objs) [] None)
    as (pages & W & PC & PB & PL).
  - reflexivity.
  - apply ventries_nomarker. left. reflexivity.
  - lia.
  - exists pages. rewrite (proj1 (vunpaged_exact pre delim objs)). auto.
Qed.

Print Assumptions vunpaged_exact.
Print Assumptions vwalk_complete.


(* ---- (e) markers that are not themselves listed ---- *)

(* a key marker whose key is not listed individually under the prefix / delimiter (it lies
   outside the prefix, or inside a common prefix) filters nothing: the page lists, without
   limit, every listed entry of the keys from the marker on *)
Lemma ventries_marker_unlisted pre delim km vm items :
  prefix_match pre delim km <> MContent ->
  ventries pre delim km vm items = all_versions pre delim items.
Proof.
  intros Hm. induction items as [|kv items IH]; [reflexivity|].
  unfold ventries, all_versions in *. cbn [flat_map]. rewrite IH. f_equal.
  unfold key_entries. destruct (prefix_match pre delim (fst kv)) eqn:Epm; try reflexivity.
  destruct (negb (beq km []) && beq (fst kv) km) eqn:E; [|reflexivity].
  apply andb_prop in E. destruct E as [_ E]. apply beq_eq in E. rewrite E in Epm. contradiction.
Qed.

(* every marker pair and every prefix get a listing as answer (never an error), namely the page
   of the client walk *)
Lemma list_versions_answers s b bk pre delim km vm mk :
  get_bucket s b = Some bk ->
  exists show, list_versions s b pre delim km vm mk =
               VLOk (vpage pre delim mk (b_objs bk) km (match km with [] => None | _ => vm end)) show.
Proof.
  intros Hb. unfold list_versions, vpage. rewrite Hb. destruct km; eexists; reflexivity.
Qed.

(* a page requested with such a marker: a prefix l1 of every listed entry of the keys from the
   marker on, at most max-keys of them, and everything when the page is not truncated *)
Lemma vpage_marker_unlisted pre delim km vm mk objs :
  1 <= mk -> prefix_match pre delim km <> MContent -> km <> [] ->
  exists l1 l2, all_versions pre delim (sm_seek km objs) = l1 ++ l2 /\
    vl_entries (vpage pre delim mk objs km vm) = l1 /\ Z.of_nat (length l1) <= mk /\
    (vl_truncated (vpage pre delim mk objs km vm) = false -> l2 = []).
Proof.
  intros H1 Hm Hk. unfold vpage. destruct km as [|c km']; [contradiction|].
  destruct (scan_page pre delim (c :: km') vm mk H1 (sm_seek (c :: km') objs) 0 [] []) as (l1 & l2 & E & Ev & Hl & Ht); [lia|].
  exists l1, l2. rewrite <- (ventries_marker_unlisted pre delim (c :: km') vm) by exact Hm.
  split; [exact E|]. split; [exact Ev|]. split; [lia|].
  intros Hf. destruct Ht as [[_ Hn]|[Ht _]]; [exact Hn|]. rewrite Ht in Hf. discriminate.
Qed.

(* a truncated page is never empty-handed: it holds at least one entry, and its markers name the
   last entry it holds - the pair a client goes on from *)
Lemma vpage_truncated_names_last pre delim km vm mk objs :
  1 <= mk -> vl_truncated (vpage pre delim mk objs km vm) = true ->
  exists l e, vl_entries (vpage pre delim mk objs km vm) = l ++ [e] /\
    vl_next_key (vpage pre delim mk objs km vm) = ve_key e /\
    vl_next_vid (vpage pre delim mk objs km vm) = ve_vid e.
Proof.
  intros H1 Ht. unfold vpage in *.
  destruct (scan_page pre delim km vm mk H1 (match km with [] => objs | _ => sm_seek km objs end) 0 [] [])
    as (l1 & l2 & _ & Ev & _ & Hc); [lia|].
  destruct Hc as [[Hf _]|[_ (l & e & El & Hk & Hv)]]; [rewrite Hf in Ht; discriminate|].
  exists l, e. rewrite Ev, El. cbn [app]. auto.
Qed.

(* a key marker behind every key of the bucket: the seek finds nothing, the page is empty and final *)
Lemma sm_seek_behind {V} (k : list N) (m : list (list N * V)) :
  (forall kv, In kv m -> bltb (fst kv) k = true) -> sm_seek k m = [].
Proof.
  induction m as [|[k' v'] m IH]; intros H; cbn [sm_seek]; [reflexivity|].
  pose proof (H (k', v') (or_introl eq_refl)) as Hk. cbn [fst] in Hk. rewrite Hk. apply IH. intros kv Hi. apply H. right. exact Hi.
Qed.

Lemma vpage_marker_behind_every_key pre delim km vm mk objs :
  km <> [] -> (forall kv, In kv objs -> bltb (fst kv) km = true) ->
  vl_entries (vpage pre delim mk objs km vm) = [] /\ vl_truncated (vpage pre delim mk objs km vm) = false.
Proof.
  intros Hk Hb. unfold vpage. destruct km as [|c km']; [contradiction|].
  rewrite (sm_seek_behind (c :: km') objs Hb). cbn. auto.
Qed.
