(* Proofs about the directory side of the filesystem backends' PutObject / DeleteObject
   (Model/CrashDirs.v): a store that never crashed is tidy, complete puts and deletes keep it
   tidy, a kill at any call leaves only ancestors of the key being written without a file,
   never touches another key's file, and the next complete put of the key repairs the tree. *)
From Coq Require Import List NArith Bool Lia.
From GF Require Import Base.Bytes Base.Lit Proofs.BytesFacts Model.CrashDirs.
Import ListNotations.

(* ---- membership, removal, insertion ------------------------------------------------------ *)

Lemma memb_In x l : memb x l = true <-> In x l.
Proof.
  unfold memb. rewrite existsb_exists. split.
  - intros [y [Hy E]]. apply beq_eq in E. subst y. exact Hy.
  - intros H. exists x. split; [exact H | apply beq_refl].
Qed.

Lemma memb_false x l : memb x l = false <-> ~ In x l.
Proof.
  rewrite <- memb_In. destruct (memb x l); split; intros H.
  - discriminate H.
  - exfalso. apply H. reflexivity.
  - intros H'. discriminate H'.
  - reflexivity.
Qed.

Lemma In_remb x y l : In y (remb x l) <-> In y l /\ y <> x.
Proof.
  unfold remb. rewrite filter_In, negb_true_iff, beq_neq.
  split; intros [H1 H2]; split; try exact H1; intros E; apply H2; symmetry; exact E.
Qed.

Lemma In_addb x y l : In y (addb x l) <-> y = x \/ In y l.
Proof.
  unfold addb. destruct (memb x l) eqn:E.
  - apply memb_In in E. split; [intros H; right; exact H | intros [-> | H]; assumption].
  - cbn [In]. split; intros [H | H]; auto.
Qed.

Lemma In_fold_addb l : forall ds y,
  In y (fold_left (fun ds a => addb a ds) l ds) <-> In y l \/ In y ds.
Proof.
  induction l as [|a l IH]; intros ds y; cbn [fold_left In].
  - split; [intros H; right; exact H | intros [[] | H]; exact H].
  - rewrite IH, In_addb. split.
    + intros [H | [H | H]]; auto.
    + intros [[H | H] | H]; auto.
Qed.

Lemma memb_remb_neq k k' l : beq k k' = false -> memb k' (remb k l) = memb k' l.
Proof.
  intros Hne. apply beq_neq in Hne. apply eq_iff_eq_true. rewrite !memb_In, In_remb.
  split; [intros [H _]; exact H | intros H; split; [exact H | intros E; apply Hne; symmetry; exact E]].
Qed.

Lemma memb_addb_neq k k' l : beq k k' = false -> memb k' (addb k l) = memb k' l.
Proof.
  intros Hne. apply beq_neq in Hne. apply eq_iff_eq_true. rewrite !memb_In, In_addb.
  split; [intros [E | H]; [exfalso; apply Hne; symmetry; exact E | exact H] | intros H; right; exact H].
Qed.

(* ---- prefixes, below, ancestors ----------------------------------------------------------- *)

Lemma prefixb_spec p : forall s, prefixb p s = true <-> exists r, s = p ++ r.
Proof.
  induction p as [|x p IH]; intros s.
  - cbn. split; [intros _; exists s; reflexivity | reflexivity].
  - destruct s as [|y s]; cbn [prefixb].
    + split; [discriminate | intros [r H]; discriminate H].
    + rewrite andb_true_iff, N.eqb_eq, IH. split.
      * intros [-> [r ->]]. exists r. reflexivity.
      * intros [r H]. cbn in H. injection H as -> ->. split; [reflexivity | exists r; reflexivity].
Qed.

Lemma below_spec d p : below d p = true <-> exists r, p = d ++ slash :: r.
Proof.
  unfold below. rewrite prefixb_spec. split; intros [r H]; exists r; rewrite H.
  - rewrite <- app_assoc. reflexivity.
  - rewrite <- app_assoc. reflexivity.
Qed.

Lemma below_length d p : below d p = true -> (length d < length p)%nat.
Proof.
  intros H. apply below_spec in H as [r ->]. rewrite app_length. cbn [length]. lia.
Qed.

Lemma below_irrefl d : below d d = false.
Proof.
  destruct (below d d) eqn:E; [|reflexivity]. apply below_length in E. lia.
Qed.

Lemma below_asym a b : below a b = true -> below b a = true -> False.
Proof. intros H1 H2. apply below_length in H1. apply below_length in H2. lia. Qed.

Lemma below_trans a b c : below a b = true -> below b c = true -> below a c = true.
Proof.
  intros H1 H2. apply below_spec in H1 as [r1 ->]. apply below_spec in H2 as [r2 ->].
  apply below_spec. exists (r1 ++ slash :: r2). rewrite <- app_assoc. reflexivity.
Qed.

Lemma existsb_below d l : existsb (below d) l = true <-> exists f, In f l /\ below d f = true.
Proof. apply existsb_exists. Qed.

Lemma existsb_below_false d l f : existsb (below d) l = false -> In f l -> below d f = false.
Proof.
  intros H Hf. destruct (below d f) eqn:E; [|reflexivity].
  assert (existsb (below d) l = true) as H' by (apply existsb_below; exists f; auto).
  congruence.
Qed.

Lemma ancestors_from_spec k : forall acc a,
  In a (ancestors_from acc k) <-> exists pre rest, k = pre ++ slash :: rest /\ a = rev acc ++ pre.
Proof.
  induction k as [|c k IH]; intros acc a; cbn [ancestors_from].
  - split; [intros [] | intros [pre [rest [H _]]]]. destruct pre; discriminate H.
  - destruct (N.eqb c slash) eqn:E.
    + apply N.eqb_eq in E. subst c. cbn [In]. rewrite IH. split.
      * intros [H | [pre [rest [H1 H2]]]].
        -- exists [], k. split; [reflexivity|]. rewrite app_nil_r. symmetry. exact H.
        -- exists (slash :: pre), rest. split; [rewrite H1; reflexivity|].
           rewrite H2. cbn [rev]. rewrite <- app_assoc. reflexivity.
      * intros [pre [rest [H1 H2]]]. destruct pre as [|p pre].
        -- left. rewrite H2, app_nil_r. reflexivity.
        -- right. cbn in H1. injection H1 as <- H1. exists pre, rest. split; [exact H1|].
           rewrite H2. cbn [rev]. rewrite <- app_assoc. reflexivity.
    + rewrite IH. split.
      * intros [pre [rest [H1 H2]]]. exists (c :: pre), rest. split; [rewrite H1; reflexivity|].
        rewrite H2. cbn [rev]. rewrite <- app_assoc. reflexivity.
      * intros [pre [rest [H1 H2]]]. destruct pre as [|p pre].
        -- cbn in H1. injection H1 as -> _. rewrite N.eqb_refl in E. discriminate E.
        -- cbn in H1. injection H1 as <- H1. exists pre, rest. split; [exact H1|].
           rewrite H2. cbn [rev]. rewrite <- app_assoc. reflexivity.
Qed.

(* the ancestors of a key are exactly the strings the key continues with a slash *)
Lemma ancestors_spec a k : In a (ancestors k) <-> exists rest, k = a ++ slash :: rest.
Proof.
  unfold ancestors. rewrite ancestors_from_spec. cbn [rev app]. split.
  - intros [pre [rest [H ->]]]. exists rest. exact H.
  - intros [rest H]. exists a, rest. split; [exact H | reflexivity].
Qed.

Lemma ancestors_below a k : In a (ancestors k) <-> below a k = true.
Proof. rewrite ancestors_spec, below_spec. reflexivity. Qed.

Lemma ancestors_trans a b k : In a (ancestors b) -> In b (ancestors k) -> In a (ancestors k).
Proof. rewrite !ancestors_below. apply below_trans. Qed.

(* a list of directories, each deeper than all that follow it *)
Fixpoint desc (l : list bytes) : Prop :=
  match l with
  | [] => True
  | d :: l' => (forall e, In e l' -> below e d = true) /\ desc l'
  end.

Lemma desc_snoc l x : desc l -> (forall e, In e l -> below x e = true) -> desc (l ++ [x]).
Proof.
  induction l as [|d l IH]; intros Hd Hx; cbn [app desc].
  - split; [intros e [] | exact I].
  - destruct Hd as [Hd1 Hd2]. split.
    + intros e He. apply in_app_or in He as [He | [<- | []]].
      * apply Hd1. exact He.
      * apply Hx. left. reflexivity.
    + apply IH; [exact Hd2|]. intros e He. apply Hx. right. exact He.
Qed.

Lemma desc_rev_ancestors_from k : forall acc, desc (rev (ancestors_from acc k)).
Proof.
  induction k as [|c k IH]; intros acc; cbn [ancestors_from].
  - exact I.
  - destruct (N.eqb c slash) eqn:E; [|apply IH].
    apply N.eqb_eq in E. subst c. cbn [rev]. apply desc_snoc; [apply IH|].
    intros e He. apply in_rev in He. apply ancestors_from_spec in He as [pre [rest [_ ->]]].
    apply below_spec. exists pre. cbn [rev]. rewrite <- app_assoc. reflexivity.
Qed.

Lemma desc_rev_ancestors k : desc (rev (ancestors k)).
Proof. apply desc_rev_ancestors_from. Qed.

(* ---- 1. the tree of a store that never crashed is tidy ------------------------------------ *)

Lemma In_tree_dirs keys : forall ds d,
  In d (fold_left (fun ds k => fold_left (fun ds' a => addb a ds') (ancestors k) ds) keys ds) <->
  (exists k, In k keys /\ In d (ancestors k)) \/ In d ds.
Proof.
  induction keys as [|k keys IH]; intros ds d; cbn [fold_left].
  - split; [intros H; right; exact H | intros [[k [[] _]] | H]; exact H].
  - rewrite IH, In_fold_addb. split.
    + intros [[k' [H1 H2]] | [H | H]].
      * left. exists k'. split; [right; exact H1 | exact H2].
      * left. exists k. split; [left; reflexivity | exact H].
      * right. exact H.
    + intros [[k' [[<- | H1] H2]] | H].
      * right. left. exact H2.
      * left. exists k'. split; assumption.
      * right. right. exact H.
Qed.

Theorem tree_of_tidy : forall keys, tidy (tree_of keys).
Proof.
  intros keys. unfold tidy, tree_of. cbn [t_files t_dirs]. split.
  - intros d Hd. apply In_tree_dirs in Hd as [[k [Hk Ha]] | []].
    apply existsb_below. exists k. split; [exact Hk | apply ancestors_below; exact Ha].
  - intros k a Hk Ha. apply memb_In. apply In_tree_dirs. left. exists k. split; assumption.
Qed.

(* ---- the calls of a PutObject / DeleteObject of k, and what they preserve ------------------ *)

(* every directory holds a file or is an ancestor of k *)
Definition covered (k : bytes) (t : tree) : Prop :=
  forall d, In d (t_dirs t) -> existsb (below d) (t_files t) = true \/ In d (ancestors k).

(* the ancestors of every file other than k exist *)
Definition rooted (k : bytes) (t : tree) : Prop :=
  forall f a, In f (t_files t) -> f <> k -> In a (ancestors f) -> In a (t_dirs t).

(* a call an operation on k may make in the state t: directories and files of k only, and a
   directory is removed only when no file lies below it *)
Definition ok_step (k : bytes) (t : tree) (o : dop) : Prop :=
  match o with
  | DMkdirAll k' => k' = k
  | DUnlink k' => k' = k
  | DCreate k' => k' = k
  | DRmdir d => existsb (below d) (t_files t) = false
  end.

Fixpoint ok_run (k : bytes) (t : tree) (ops : list dop) : Prop :=
  match ops with
  | [] => True
  | o :: ops' => ok_step k t o /\ ok_run k (apply_dop t o) ops'
  end.

Lemma run_dops_cons t o ops : run_dops t (o :: ops) = run_dops (apply_dop t o) ops.
Proof. reflexivity. Qed.

Lemma run_dops_app t a b : run_dops t (a ++ b) = run_dops (run_dops t a) b.
Proof. unfold run_dops. apply fold_left_app. Qed.

Lemma tidy_covered k t : tidy t -> covered k t.
Proof. intros [H1 _] d Hd. left. apply H1. exact Hd. Qed.

Lemma tidy_rooted k t : tidy t -> rooted k t.
Proof. intros [_ H2] f a Hf _ Ha. apply memb_In. apply (H2 f a Hf Ha). Qed.

Lemma ok_step_covered k t o : ok_step k t o -> covered k t -> covered k (apply_dop t o).
Proof.
  intros Hs Hc d Hd. destruct o as [k' | k' | k' | d']; cbn [ok_step] in Hs; cbn [apply_dop t_files t_dirs] in *.
  - subst k'. apply In_fold_addb in Hd as [Hd | Hd]; [right; exact Hd | apply Hc; exact Hd].
  - subst k'. destruct (Hc d Hd) as [H | H]; [|right; exact H].
    apply existsb_below in H as [f [Hf Hb]]. destruct (beq f k) eqn:E.
    + apply beq_eq in E. subst f. right. apply ancestors_below. exact Hb.
    + left. apply existsb_below. exists f. split; [|exact Hb]. apply In_remb.
      split; [exact Hf | apply beq_neq; exact E].
  - destruct (Hc d Hd) as [H | H]; [|right; exact H]. left.
    apply existsb_below in H as [f [Hf Hb]]. apply existsb_below. exists f.
    split; [apply In_addb; right; exact Hf | exact Hb].
  - apply In_remb in Hd as [Hd _]. apply Hc. exact Hd.
Qed.

Lemma ok_step_rooted k t o : ok_step k t o -> rooted k t -> rooted k (apply_dop t o).
Proof.
  intros Hs Hr f a Hf Hne Ha. destruct o as [k' | k' | k' | d']; cbn [ok_step] in Hs; cbn [apply_dop t_files t_dirs] in *.
  - apply In_fold_addb. right. apply (Hr f a Hf Hne Ha).
  - apply In_remb in Hf as [Hf _]. apply (Hr f a Hf Hne Ha).
  - subst k'. apply In_addb in Hf as [Hf | Hf]; [contradiction | apply (Hr f a Hf Hne Ha)].
  - apply In_remb. split; [apply (Hr f a Hf Hne Ha)|]. intros ->.
    apply ancestors_below in Ha. rewrite (existsb_below_false _ _ _ Hs Hf) in Ha. discriminate Ha.
Qed.

Lemma ok_step_files k t o k' : ok_step k t o -> beq k k' = false ->
  memb k' (t_files (apply_dop t o)) = memb k' (t_files t).
Proof.
  intros Hs Hne. destruct o as [k2 | k2 | k2 | d']; cbn [ok_step] in Hs; cbn [apply_dop t_files].
  - reflexivity.
  - subst k2. apply memb_remb_neq. exact Hne.
  - subst k2. apply memb_addb_neq. exact Hne.
  - reflexivity.
Qed.

Lemma ok_run_preserves k ops : forall t, ok_run k t ops -> covered k t -> rooted k t ->
  covered k (run_dops t ops) /\ rooted k (run_dops t ops).
Proof.
  induction ops as [|o ops IH]; intros t Hok Hc Hr.
  - split; assumption.
  - destruct Hok as [Hs Hok]. rewrite run_dops_cons.
    apply IH; [exact Hok | apply ok_step_covered; assumption | apply ok_step_rooted; assumption].
Qed.

Lemma ok_run_files k k' ops : forall t, ok_run k t ops -> beq k k' = false ->
  memb k' (t_files (run_dops t ops)) = memb k' (t_files t).
Proof.
  induction ops as [|o ops IH]; intros t Hok Hne.
  - reflexivity.
  - destruct Hok as [Hs Hok]. rewrite run_dops_cons, (IH _ Hok Hne). apply (ok_step_files k); assumption.
Qed.

Lemma ok_run_firstn k ops : forall t n, ok_run k t ops -> ok_run k t (firstn n ops).
Proof.
  induction ops as [|o ops IH]; intros t n Hok.
  - rewrite firstn_nil. exact I.
  - destruct n as [|n]; [exact I|]. destruct Hok as [Hs Hok]. cbn [firstn ok_run].
    split; [exact Hs | apply IH; exact Hok].
Qed.

(* calls that are allowed whatever the state *)
Definition static_ok (k : bytes) (o : dop) : Prop :=
  match o with
  | DMkdirAll k' => k' = k
  | DUnlink k' => k' = k
  | DCreate k' => k' = k
  | DRmdir _ => False
  end.

Lemma ok_run_static k ops : forall t, (forall o, In o ops -> static_ok k o) -> ok_run k t ops.
Proof.
  induction ops as [|o ops IH]; intros t H; [exact I|]. split.
  - specialize (H o (or_introl eq_refl)). destruct o; cbn in *; try exact H. contradiction.
  - apply IH. intros o' Ho'. apply H. right. exact Ho'.
Qed.

Lemma put_dops_ok t k : ok_run k t (put_dops t k).
Proof.
  apply ok_run_static. intros o Ho. unfold put_dops in Ho.
  apply in_app_or in Ho as [Ho | Ho]; [|apply in_app_or in Ho as [Ho | Ho]].
  - destruct (forallb _ _); [destruct Ho|]. destruct Ho as [<- | []]. reflexivity.
  - destruct (memb k (t_files t)); [|destruct Ho]. destruct Ho as [<- | []]. reflexivity.
  - destruct Ho as [<- | []]. reflexivity.
Qed.

Lemma prune_dops_ok k ds : forall t, ok_run k t (prune_dops t ds).
Proof.
  induction ds as [|d ds IH]; intros t; cbn [prune_dops]; [exact I|].
  destruct (memb d (t_dirs t)); [|apply IH].
  destruct (dir_empty t d) eqn:E; [|exact I]. split; [|apply IH].
  cbn [ok_step]. unfold dir_empty in E. apply andb_true_iff in E as [E _].
  apply negb_true_iff in E. exact E.
Qed.

Lemma del_dops_ok t k : ok_run k t (del_dops t k).
Proof.
  unfold del_dops. destruct (memb k (t_files t)); [|exact I].
  split; [reflexivity | apply prune_dops_ok].
Qed.

(* ---- what a complete PutObject leaves ------------------------------------------------------ *)

Lemma put_run_files t k f :
  In f (t_files (run_dops t (put_dops t k))) <-> f = k \/ In f (t_files t).
Proof.
  unfold put_dops. rewrite !run_dops_app.
  set (t1 := run_dops t (if forallb _ _ then [] else [DMkdirAll k])).
  assert (t_files t1 = t_files t) as E1 by (subst t1; destruct (forallb _ _); reflexivity).
  destruct (memb k (t_files t)) eqn:Em; cbn [run_dops fold_left apply_dop t_files]; rewrite E1.
  - rewrite In_addb, In_remb. apply memb_In in Em. split.
    + intros [H | [H _]]; auto.
    + intros [H | H]; auto. destruct (beq f k) eqn:E.
      * left. apply beq_eq. exact E.
      * right. split; [exact H | apply beq_neq; exact E].
  - apply In_addb.
Qed.

Lemma put_run_dirs t k d :
  In d (t_dirs (run_dops t (put_dops t k))) <-> In d (t_dirs t) \/ In d (ancestors k).
Proof.
  unfold put_dops. rewrite !run_dops_app.
  set (t1 := run_dops t (if forallb _ _ then [] else [DMkdirAll k])).
  assert (In d (t_dirs t1) <-> In d (t_dirs t) \/ In d (ancestors k)) as E1.
  { subst t1. destruct (forallb _ _) eqn:Ef.
    - cbn [run_dops fold_left]. split; [intros H; left; exact H | intros [H | H]; [exact H|]].
      apply memb_In. rewrite forallb_forall in Ef. apply Ef. exact H.
    - cbn [run_dops fold_left apply_dop t_dirs]. rewrite In_fold_addb. split; intros [H | H]; auto. }
  destruct (memb k (t_files t)); cbn [run_dops fold_left apply_dop t_dirs]; exact E1.
Qed.

(* a complete PutObject of k makes any tree tidy whose only defects concern k *)
Lemma put_repairs t k : covered k t -> rooted k t -> tidy (run_dops t (put_dops t k)).
Proof.
  intros Hc Hr. split.
  - intros d Hd. apply existsb_below. apply put_run_dirs in Hd.
    assert (existsb (below d) (t_files t) = true \/ In d (ancestors k)) as [H | H]
      by (destruct Hd as [Hd | Hd]; [apply Hc; exact Hd | right; exact Hd]).
    + apply existsb_below in H as [f [Hf Hb]]. exists f. split; [|exact Hb].
      apply put_run_files. right. exact Hf.
    + exists k. split; [apply put_run_files; left; reflexivity | apply ancestors_below; exact H].
  - intros f a Hf Ha. apply memb_In. apply put_run_dirs. apply put_run_files in Hf.
    destruct (beq f k) eqn:E.
    + apply beq_eq in E. subst f. right. exact Ha.
    + apply beq_neq in E. destruct Hf as [Hf | Hf]; [contradiction|]. left. apply (Hr f a Hf E Ha).
Qed.

(* ---- 2. a complete PutObject keeps the tree tidy ------------------------------------------- *)

Theorem put_complete_tidy : forall t k, tidy t -> tidy (run_dops t (put_dops t k)).
Proof.
  intros t k Ht. apply put_repairs; [apply tidy_covered | apply tidy_rooted]; exact Ht.
Qed.

(* ---- 3. a complete DeleteObject keeps the tree tidy ---------------------------------------- *)

Lemma prune_files ds : forall t, t_files (run_dops t (prune_dops t ds)) = t_files t.
Proof.
  induction ds as [|d ds IH]; intros t; cbn [prune_dops]; [reflexivity|].
  destruct (memb d (t_dirs t)); [|apply IH].
  destruct (dir_empty t d); [|reflexivity]. rewrite run_dops_cons, IH. reflexivity.
Qed.

Lemma prune_dirs_subset ds : forall t x,
  In x (t_dirs (run_dops t (prune_dops t ds))) -> In x (t_dirs t).
Proof.
  induction ds as [|d ds IH]; intros t x; cbn [prune_dops]; [intros H; exact H|].
  destruct (memb d (t_dirs t)); [|apply IH].
  destruct (dir_empty t d); [|intros H; exact H]. rewrite run_dops_cons. intros H.
  apply IH in H. cbn [apply_dop t_dirs] in H. apply In_remb in H as [H _]. exact H.
Qed.

(* the pruning loop removes every directory of a descending chain that has no file below it,
   provided the directories below such a directory are themselves in the chain *)
Lemma prune_removes ds : forall t,
  desc ds ->
  (forall e x, In e ds -> existsb (below e) (t_files t) = false ->
               In x (t_dirs t) -> below e x = true -> In x ds) ->
  forall d0, In d0 ds -> existsb (below d0) (t_files t) = false ->
  ~ In d0 (t_dirs (run_dops t (prune_dops t ds))).
Proof.
  induction ds as [|d ds IH]; intros t Hdesc Hinv d0 Hd0 Hnf; [destruct Hd0|].
  destruct Hdesc as [Hdeep Hdesc]. cbn [prune_dops].
  destruct (memb d (t_dirs t)) eqn:Em.
  - destruct (dir_empty t d) eqn:Ee.
    + rewrite run_dops_cons. destruct (beq d0 d) eqn:E0.
      * apply beq_eq in E0. subst d0. intros H. apply prune_dirs_subset in H.
        cbn [apply_dop t_dirs] in H. apply In_remb in H as [_ H]. apply H. reflexivity.
      * apply beq_neq in E0. destruct Hd0 as [Hd0 | Hd0]; [exfalso; apply E0; symmetry; exact Hd0|].
        apply IH; [exact Hdesc | | exact Hd0 | exact Hnf].
        cbn [apply_dop t_files t_dirs]. intros e x He Hne Hx Hb.
        apply In_remb in Hx as [Hx Hxd].
        destruct (Hinv e x (or_intror He) Hne Hx Hb) as [H | H]; [exfalso; apply Hxd; symmetry; exact H | exact H].
    + (* the loop stops at d: d has a file below it, and so has everything after it *)
      exfalso.
      assert (existsb (below d) (t_files t) = true) as Hfile.
      { destruct (existsb (below d) (t_files t)) eqn:Ef; [reflexivity|]. exfalso.
        unfold dir_empty in Ee. rewrite Ef in Ee. cbn [negb andb] in Ee.
        apply negb_false_iff in Ee. apply existsb_below in Ee as [x [Hx Hb]].
        destruct (Hinv d x (or_introl eq_refl) Ef Hx Hb) as [H | H].
        - subst x. rewrite below_irrefl in Hb. discriminate Hb.
        - apply (below_asym d x Hb). apply Hdeep. exact H. }
      destruct Hd0 as [Hd0 | Hd0].
      * subst d0. congruence.
      * apply existsb_below in Hfile as [f [Hf Hb]].
        pose proof (existsb_below_false _ _ _ Hnf Hf) as H.
        rewrite (below_trans d0 d f (Hdeep d0 Hd0) Hb) in H. discriminate H.
  - apply memb_false in Em. destruct (beq d0 d) eqn:E0.
    + apply beq_eq in E0. subst d0. intros H. apply prune_dirs_subset in H. contradiction.
    + apply beq_neq in E0. destruct Hd0 as [Hd0 | Hd0]; [exfalso; apply E0; symmetry; exact Hd0|].
      apply IH; [exact Hdesc | | exact Hd0 | exact Hnf].
      intros e x He Hne Hx Hb.
      destruct (Hinv e x (or_intror He) Hne Hx Hb) as [H | H]; [subst x; contradiction | exact H].
Qed.

Theorem del_complete_tidy : forall t k, tidy t -> tidy (run_dops t (del_dops t k)).
Proof.
  intros t k Ht.
  destruct (ok_run_preserves k (del_dops t k) t (del_dops_ok t k) (tidy_covered k t Ht) (tidy_rooted k t Ht))
    as [Hc Hr].
  revert Hc Hr. unfold del_dops. destruct (memb k (t_files t)) eqn:Em; [|intros _ _; exact Ht].
  rewrite run_dops_cons. set (t1 := apply_dop t (DUnlink k)).
  set (t' := run_dops t1 (prune_dops t1 (rev (ancestors k)))). intros Hc Hr.
  assert (t_files t' = t_files t1) as Ef by apply prune_files.
  assert (covered k t1) as Hc1 by (apply ok_step_covered; [reflexivity | apply tidy_covered; exact Ht]).
  split.
  - intros d Hd. destruct (existsb (below d) (t_files t')) eqn:E; [reflexivity|]. exfalso.
    destruct (Hc d Hd) as [H | H]; [congruence|].
    revert Hd. apply prune_removes.
    + apply desc_rev_ancestors.
    + intros e x He Hne Hx Hb. apply (proj1 (in_rev _ _)). destruct (Hc1 x Hx) as [H1 | H1]; [|exact H1].
      exfalso. apply existsb_below in H1 as [f [Hf Hbf]].
      pose proof (existsb_below_false _ _ _ Hne Hf) as H2.
      rewrite (below_trans e x f Hb Hbf) in H2. discriminate H2.
    + apply (proj1 (in_rev _ _)). exact H.
    + rewrite <- Ef. exact E.
  - intros f a Hf Ha. apply memb_In. apply (Hr f a Hf); [|exact Ha].
    rewrite Ef in Hf. subst t1. cbn [apply_dop t_files] in Hf. apply In_remb in Hf as [_ Hf]. exact Hf.
Qed.

(* a directory with a file below it survives the pruning loop *)
Lemma prune_keeps ds : forall t x,
  In x (t_dirs t) -> existsb (below x) (t_files t) = true ->
  In x (t_dirs (run_dops t (prune_dops t ds))).
Proof.
  induction ds as [|d ds IH]; intros t x Hx Hf; cbn [prune_dops]; [exact Hx|].
  destruct (memb d (t_dirs t)); [|apply IH; assumption].
  destruct (dir_empty t d) eqn:Ee; [|exact Hx]. rewrite run_dops_cons.
  apply IH; [|exact Hf]. cbn [apply_dop t_dirs]. apply In_remb. split; [exact Hx|].
  intros ->. unfold dir_empty in Ee. rewrite Hf in Ee. discriminate Ee.
Qed.

(* what a complete DeleteObject of a stored key leaves, exactly: the other files, and the
   directories that still have one of them below *)
Theorem del_complete_exact : forall t k, tidy t -> memb k (t_files t) = true ->
  let t' := run_dops t (del_dops t k) in
  t_files t' = remb k (t_files t) /\
  forall d, In d (t_dirs t') <-> In d (t_dirs t) /\ existsb (below d) (remb k (t_files t)) = true.
Proof.
  intros t k Ht Hm t'. pose proof (del_complete_tidy t k Ht) as [H1 _]. fold t' in H1.
  subst t'. revert H1. unfold del_dops. rewrite Hm, run_dops_cons.
  set (t1 := apply_dop t (DUnlink k)). intros H1.
  assert (t_files (run_dops t1 (prune_dops t1 (rev (ancestors k)))) = remb k (t_files t)) as Ef
    by (rewrite prune_files; reflexivity).
  split; [exact Ef|]. intros d. split.
  - intros Hd. split; [apply (prune_dirs_subset _ t1 d Hd) | rewrite <- Ef; apply H1; exact Hd].
  - intros [Hd Hf]. apply prune_keeps; [exact Hd | exact Hf].
Qed.

(* ---- 4. a kill leaves only ancestors of the key without a file ----------------------------- *)

Lemma covered_phantoms k t d : covered k t -> In d (phantoms t) -> In d (ancestors k).
Proof.
  intros Hc Hd. unfold phantoms in Hd. apply filter_In in Hd as [Hd Hn].
  apply negb_true_iff in Hn. destruct (Hc d Hd) as [H | H]; [congruence | exact H].
Qed.

Lemma ok_run_covered k ops : forall t, ok_run k t ops -> covered k t -> covered k (run_dops t ops).
Proof.
  induction ops as [|o ops IH]; intros t Hok Hc; [exact Hc|].
  destruct Hok as [Hs Hok]. rewrite run_dops_cons. apply IH; [exact Hok|].
  apply ok_step_covered; assumption.
Qed.

(* only the first half of [tidy] is needed: every directory holds a file (or is already an
   ancestor of k) *)
Lemma crash_confined_gen : forall t k ops n d, covered k t -> ok_run k t ops ->
  In d (phantoms (run_dops t (firstn n ops))) -> In d (ancestors k).
Proof.
  intros t k ops n d Hc Hok. apply covered_phantoms.
  apply ok_run_covered; [apply ok_run_firstn; exact Hok | exact Hc].
Qed.

Theorem put_crash_confined : forall t k n d, tidy t ->
  In d (phantoms (run_dops t (firstn n (put_dops t k)))) -> In d (ancestors k).
Proof.
  intros t k n d Ht. apply crash_confined_gen; [apply tidy_covered; exact Ht | apply put_dops_ok].
Qed.

Theorem del_crash_confined : forall t k n d, tidy t ->
  In d (phantoms (run_dops t (firstn n (del_dops t k)))) -> In d (ancestors k).
Proof.
  intros t k n d Ht. apply crash_confined_gen; [apply tidy_covered; exact Ht | apply del_dops_ok].
Qed.

(* ---- 5. no other key's file is touched at any crash point (any tree) ----------------------- *)

Theorem crash_keeps_other_files_gen : forall t k n k', beq k k' = false ->
  memb k' (t_files (run_dops t (firstn n (put_dops t k)))) = memb k' (t_files t).
Proof.
  intros t k n k' Hne. apply (ok_run_files k); [|exact Hne]. apply ok_run_firstn. apply put_dops_ok.
Qed.

Theorem del_crash_keeps_other_files_gen : forall t k n k', beq k k' = false ->
  memb k' (t_files (run_dops t (firstn n (del_dops t k)))) = memb k' (t_files t).
Proof.
  intros t k n k' Hne. apply (ok_run_files k); [|exact Hne]. apply ok_run_firstn. apply del_dops_ok.
Qed.

Theorem crash_keeps_other_files : forall t k n k', tidy t -> beq k k' = false ->
  memb k' (t_files (run_dops t (firstn n (put_dops t k)))) = memb k' (t_files t).
Proof. intros t k n k' _. apply crash_keeps_other_files_gen. Qed.

Theorem del_crash_keeps_other_files : forall t k n k', tidy t -> beq k k' = false ->
  memb k' (t_files (run_dops t (firstn n (del_dops t k)))) = memb k' (t_files t).
Proof. intros t k n k' _. apply del_crash_keeps_other_files_gen. Qed.

(* ---- 6. neither operation is crash-atomic on the directory side ---------------------------- *)

Theorem put_crash_leaves_empty_directory_refuted :
  exists t k n, tidy t /\ phantoms (run_dops t (firstn n (put_dops t k))) <> [].
Proof.
  exists (tree_of [B "a/b"; B "d"]), (B "e/f/g"), 1%nat. split; [apply tree_of_tidy|].
  vm_compute. discriminate.
Qed.

Theorem del_crash_leaves_empty_directory_refuted :
  exists t k n, tidy t /\ phantoms (run_dops t (firstn n (del_dops t k))) <> [].
Proof.
  exists (tree_of [B "a/b"; B "d"]), (B "a/b"), 1%nat. split; [apply tree_of_tidy|].
  vm_compute. discriminate.
Qed.

(* ---- 7. the next complete PutObject of the key repairs the tree ---------------------------- *)

Lemma next_put_repairs_gen t k ops n : tidy t -> ok_run k t ops ->
  tidy (let t' := run_dops t (firstn n ops) in run_dops t' (put_dops t' k)).
Proof.
  intros Ht Hok. cbv zeta.
  destruct (ok_run_preserves k (firstn n ops) t (ok_run_firstn k ops t n Hok)
              (tidy_covered k t Ht) (tidy_rooted k t Ht)) as [Hc Hr].
  apply put_repairs; assumption.
Qed.

Theorem next_put_repairs : forall t k n, tidy t ->
  tidy (let t' := run_dops t (firstn n (put_dops t k)) in run_dops t' (put_dops t' k)).
Proof. intros t k n Ht. apply next_put_repairs_gen; [exact Ht | apply put_dops_ok]. Qed.

Theorem next_put_repairs_after_delete : forall t k n, tidy t ->
  tidy (let t' := run_dops t (firstn n (del_dops t k)) in run_dops t' (put_dops t' k)).
Proof. intros t k n Ht. apply next_put_repairs_gen; [exact Ht | apply del_dops_ok]. Qed.

Print Assumptions tree_of_tidy.
Print Assumptions put_complete_tidy.
Print Assumptions del_complete_tidy.
Print Assumptions del_complete_exact.
Print Assumptions put_crash_confined.
Print Assumptions del_crash_confined.
Print Assumptions crash_keeps_other_files.
Print Assumptions del_crash_keeps_other_files.
Print Assumptions put_crash_leaves_empty_directory_refuted.
Print Assumptions del_crash_leaves_empty_directory_refuted.
Print Assumptions next_put_repairs.
Print Assumptions next_put_repairs_after_delete.

(* both operations at once, for the property file *)
Lemma crash_keeps_other_files_both : forall t k n k', beq k k' = false ->
  memb k' (t_files (run_dops t (firstn n (put_dops t k)))) = memb k' (t_files t) /\
  memb k' (t_files (run_dops t (firstn n (del_dops t k)))) = memb k' (t_files t).
Proof.
  intros t k n k' H. split; [apply crash_keeps_other_files_gen | apply del_crash_keeps_other_files_gen]; exact H.
Qed.
