(* TASK D2.  Pagination (property C04) of the memory-backend model: page bound, progress,
   and completeness of the walk that follows the server's continuation.  Statements are fixed
   in content; you may restructure helper definitions, add lemmas, strengthen — never weaken
   silently.  Model: Model/Mem.v (scan, skip_group, sm_after in Base/SortedMap.v),
   Model/MemWalk.v (page, unpaged, walk).

   STATUS
   (1) page_bound                      proved as stated.
   (4) page_after_marker               proved as stated.
   (2) page_progress, (3) walk_complete are FALSE of the model as stated: a map that contains
       the empty key [] refutes both (the continuation marker [] means "from the beginning", so
       the walk restarts forever).  Machine-checked: walk_empty_key_refuted,
       page_progress_as_stated_false, walk_complete_as_stated_false (end of file).
       Proved instead, with the single extra hypothesis  ~ In [] (map fst objs)  (the empty key
       is unreachable through the HTTP API) and otherwise the full original conclusions:
         page_progress_nonempty_keys, walk_complete_nonempty_keys;
       and page_progress_gen (no extra hypothesis; only the conjunct lr_next r <> [] is conditioned
       by  marker <> [] \/ ~ In [] (map fst objs)).
   Reusable helpers: scan_bound, scan_contents_in, sm_after_gt, sm_after_incl, sm_after_split,
   ucont / upfx (the listing as two folds), scan_unpaged, skip_group_spec, scan_split (one-page
   split lemma), upfx_shift, upfx_distr, contig_disjoint, groups_contiguous_suffix, walk_gen. *)
From GF Require Import Base.Bytes Base.SortedMap Model.Prefix Model.Mem Model.MemWalk
  Proofs.BytesFacts Proofs.SortedMapFacts.
From Coq Require Import Lia ZifyBool ZifyNat.
Open Scope Z_scope.

Definition data_some (items : list (list N * obj)) : Prop :=
  Forall (fun kv => o_data (snd kv) <> None) items.

(* Keys rolled up into the same common prefix are contiguous in the map.  (Holds for sorted
   keys whenever a common prefix is a literal string prefix of its keys, which is the case
   on the property's domain — proved separately from the prefix-matching theorem.) *)
Definition groups_contiguous (pre : list N) (delim : option N) (keys : list (list N)) : Prop :=
  forall l1 k1 l2 k2 l3 p,
    keys = l1 ++ k1 :: l2 ++ k2 :: l3 ->
    prefix_match pre delim k1 = MCommon p -> prefix_match pre delim k2 = MCommon p ->
    forall k, In k l2 -> prefix_match pre delim k = MCommon p.

Definition entries (r : list_result) : Z := Z.of_nat (length (lr_contents r) + length (lr_prefixes r)).

Lemma add_prefix_length p ps :
  (length (add_prefix p ps) <= S (length ps))%nat.
Proof.
  unfold add_prefix. destruct (existsb (beq p) ps); [lia|]. rewrite app_length. cbn. lia.
Qed.

Lemma scan_bound pre delim mk items :
  1 <= mk -> data_some items ->
  forall cnt lp acc, cnt < mk -> lr_panic acc = false ->
  entries (scan pre delim mk items cnt lp acc) + cnt <= mk + entries acc /\
  lr_panic (scan pre delim mk items cnt lp acc) = false.
Proof.
  intros Hmk Hd. induction Hd as [|[k o] items Ho Hd IH]; intros cnt lp acc Hc Hp.
  - cbn [scan]. split; [lia|exact Hp].
  - cbn [scan]. cbn [snd] in Ho. destruct (o_data o) as [v|] eqn:Eo; [|congruence].
    destruct (prefix_match pre delim k) as [| |p] eqn:Epm.
    + apply IH; assumption.
    + destruct (vd_marker v) eqn:Em; [apply IH; assumption|].
      destruct ((0 <? mk) && (mk <=? cnt + 1)) eqn:Ef.
      * unfold entries. cbn [lr_contents lr_prefixes lr_panic]. rewrite app_length. cbn [length].
        split; [lia|reflexivity].
      * specialize (IH (cnt + 1) lp
          {| lr_contents := lr_contents acc ++ [(k, vd_body v)]; lr_prefixes := lr_prefixes acc;
             lr_truncated := false; lr_next := []; lr_panic := false |}).
        destruct IH as [IH1 IH2]; [lia|reflexivity|]. split; [|exact IH2].
        set (e := entries (scan _ _ _ _ _ _ _)) in *. clearbody e.
        unfold entries in *. cbn [lr_contents lr_prefixes] in IH1. rewrite app_length in IH1. cbn [length] in IH1. lia.
    + destruct (vd_marker v) eqn:Em; [apply IH; assumption|].
      destruct (match lp with Some q => beq p q | None => false end) eqn:El; [apply IH; assumption|].
      pose proof (add_prefix_length p (lr_prefixes acc)) as Hl.
      destruct ((0 <? mk) && (mk <=? cnt + 1)) eqn:Ef.
      * destruct (skip_group pre delim p k items) as [nm rest'] eqn:Esk.
        unfold entries. cbn [lr_contents lr_prefixes lr_panic]. split; [lia|reflexivity].
      * specialize (IH (cnt + 1) (Some p)
          {| lr_contents := lr_contents acc; lr_prefixes := add_prefix p (lr_prefixes acc);
             lr_truncated := false; lr_next := []; lr_panic := false |}).
        destruct IH as [IH1 IH2]; [lia|reflexivity|]. split; [|exact IH2].
        set (e := entries (scan _ _ _ _ _ _ _)) in *. clearbody e.
        unfold entries in *. cbn [lr_contents lr_prefixes] in IH1. lia.
Qed.

(* (1) a page never holds more entries than max-keys *)
Lemma page_bound pre delim mk items :
  1 <= mk -> data_some items ->
  entries (scan pre delim mk items 0 None empty_list) <= mk /\
  lr_panic (scan pre delim mk items 0 None empty_list) = false.
Proof.
  intros Hmk Hd. destruct (scan_bound pre delim mk items Hmk Hd 0 None empty_list) as [H1 H2]; [lia|reflexivity|].
  split; [|exact H2]. unfold entries at 2 in H1. cbn in H1. lia.
Qed.

(* ---- sm_after on sorted maps ---- *)
Section AfterFacts.
Context {V : Type}.
Notation map_ := (list (list N * V)).

Lemma lb_in k (m : map_) k' v : lb k m -> In (k', v) m -> bltb k k' = true.
Proof.
  induction m as [|[k2 v2] m IH]; cbn; [intros _ []|]. intros [H1 H2] [H|H].
  - inversion H; subst. exact H1.
  - apply IH; assumption.
Qed.

Lemma sm_after_incl k (m : map_) x : In x (sm_after k m) -> In x m.
Proof.
  induction m as [|[k2 v2] m IH]; cbn; [trivial|].
  destruct (bleb k2 k); [|trivial]. intros H. right. apply IH. exact H.
Qed.

Lemma sm_after_gt k (m : map_) k' v : sorted m -> In (k', v) (sm_after k m) -> bltb k k' = true.
Proof.
  induction m as [|[k2 v2] m IH]; cbn; [intros _ []|]. intros [H1 H2].
  destruct (bleb k2 k) eqn:E; [apply IH; exact H2|].
  unfold bleb in E. apply negb_false_iff in E. intros [H|H].
  - inversion H; subst. exact E.
  - eapply bltb_trans; [exact E|]. eapply lb_in; eassumption.
Qed.

Lemma sm_after_lb k (m : map_) : lb k m -> sm_after k m = m.
Proof.
  destruct m as [|[k2 v2] m]; cbn; [trivial|]. intros [H1 _].
  unfold bleb. rewrite H1. reflexivity.
Qed.

Lemma lb_app k (a b : map_) : lb k (a ++ b) -> lb k a /\ lb k b.
Proof.
  induction a as [|[k2 v2] a IH]; cbn; [auto|]. intros [H1 H2]. apply IH in H2. tauto.
Qed.

Lemma sorted_app_r (a b : map_) : sorted (a ++ b) -> sorted b.
Proof.
  induction a as [|[k2 v2] a IH]; cbn; [trivial|]. intros [_ H]. apply IH. exact H.
Qed.

(* the marker is a key of a sorted map: the suffix after it is literally what follows it *)
Lemma sm_after_split (a : map_) k v b : sorted (a ++ (k, v) :: b) -> sm_after k (a ++ (k, v) :: b) = b.
Proof.
  induction a as [|[k2 v2] a IH]; cbn.
  - intros [H1 _]. rewrite bleb_refl. apply sm_after_lb. exact H1.
  - intros [H1 H2]. apply lb_app in H1 as [_ H1]. cbn in H1. destruct H1 as [H1 _].
    unfold bleb. rewrite (bltb_asym _ _ H1). cbn. apply IH. exact H2.
Qed.
End AfterFacts.

(* ---- contents of a page are keys of the items scanned ---- *)
Lemma scan_contents_in pre delim mk items : forall cnt lp acc k body,
  In (k, body) (lr_contents (scan pre delim mk items cnt lp acc)) ->
  In (k, body) (lr_contents acc) \/ exists o, In (k, o) items.
Proof.
  induction items as [|[k0 o0] items IH]; intros cnt lp acc k body.
  - cbn [scan]. auto.
  - assert (IH' : forall cnt lp acc, In (k, body) (lr_contents (scan pre delim mk items cnt lp acc)) ->
       In (k, body) (lr_contents acc) \/ exists o, In (k, o) ((k0, o0) :: items)).
    { intros c l a H. apply IH in H. destruct H as [H|[o H]]; [left; exact H|right; exists o; right; exact H]. }
    cbn [scan]. destruct (o_data o0) as [v|] eqn:Eo; [|cbn [lr_contents]; auto].
    destruct (prefix_match pre delim k0) as [| |p] eqn:Epm.
    + apply IH'.
    + destruct (vd_marker v) eqn:Em; [apply IH'|].
      assert (Hin : In (k, body) (lr_contents acc ++ [(k0, vd_body v)]) ->
                    In (k, body) (lr_contents acc) \/ exists o, In (k, o) ((k0, o0) :: items)).
      { intros H. apply in_app_or in H. destruct H as [H|[H|[]]]; [left; exact H|].
        inversion H; subst. right. exists o0. left. reflexivity. }
      destruct ((0 <? mk) && (mk <=? cnt + 1)) eqn:Ef.
      * cbn [lr_contents]. exact Hin.
      * intros H. apply IH' in H. cbn [lr_contents] in H. destruct H as [H|H]; [apply Hin; exact H|right; exact H].
    + destruct (vd_marker v) eqn:Em; [apply IH'|].
      destruct (match lp with Some q => beq p q | None => false end) eqn:El; [apply IH'|].
      destruct ((0 <? mk) && (mk <=? cnt + 1)) eqn:Ef.
      * destruct (skip_group pre delim p k0 items) as [nm rest'] eqn:Esk. cbn [lr_contents]. auto.
      * intros H. apply IH' in H. cbn [lr_contents] in H. exact H.
Qed.

(* (4) any start-after / marker value: the page lists only keys strictly greater than it *)
Lemma page_after_marker pre delim mk objs marker k body :
  marker <> [] -> sorted objs -> data_some objs ->
  In (k, body) (lr_contents (page pre delim mk objs marker)) -> bltb marker k = true.
Proof.
  intros Hm Hs _ Hin. unfold page in Hin. destruct marker as [|c marker]; [congruence|].
  apply scan_contents_in in Hin. destruct Hin as [[]|[o Ho]].
  eapply sm_after_gt; eassumption.
Qed.

(* ---- the listing as two plain folds (contents / common prefixes) ---- *)
Section Split.
Variable pre : list N.
Variable delim : option N.

Fixpoint ucont (items : list (list N * obj)) : list (list N * list N) :=
  match items with
  | [] => []
  | (k, o) :: rest =>
      match o_data o with
      | None => ucont rest
      | Some v =>
          match prefix_match pre delim k with
          | MContent => if vd_marker v then ucont rest else (k, vd_body v) :: ucont rest
          | _ => ucont rest
          end
      end
  end.

Fixpoint upfx (items : list (list N * obj)) (lp : option (list N)) (ps : list (list N))
  : option (list N) * list (list N) :=
  match items with
  | [] => (lp, ps)
  | (k, o) :: rest =>
      match o_data o with
      | None => upfx rest lp ps
      | Some v =>
          match prefix_match pre delim k with
          | MCommon p =>
              if vd_marker v then upfx rest lp ps else
              if match lp with Some q => beq p q | None => false end then upfx rest lp ps
              else upfx rest (Some p) (add_prefix p ps)
          | _ => upfx rest lp ps
          end
      end
  end.

Lemma ucont_app a b : ucont (a ++ b) = ucont a ++ ucont b.
Proof.
  induction a as [|[k o] a IH]; cbn [ucont app]; [reflexivity|].
  destruct (o_data o) as [v|]; [|exact IH].
  destruct (prefix_match pre delim k); try exact IH.
  destruct (vd_marker v); [exact IH|]. rewrite IH. reflexivity.
Qed.

Lemma upfx_app a b lp ps :
  upfx (a ++ b) lp ps = upfx b (fst (upfx a lp ps)) (snd (upfx a lp ps)).
Proof.
  revert lp ps. induction a as [|[k o] a IH]; intros lp ps; cbn [upfx app fst snd]; [reflexivity|].
  destruct (o_data o) as [v|]; [|apply IH].
  destruct (prefix_match pre delim k); try apply IH.
  destruct (vd_marker v); [apply IH|].
  destruct (match lp with Some q => beq p q | None => false end); apply IH.
Qed.

Definition in_group (g : list N) (kv : list N * obj) : Prop :=
  prefix_match pre delim (fst kv) = MCommon g.

Lemma ucont_group g sk : Forall (in_group g) sk -> ucont sk = [].
Proof.
  induction 1 as [|[k o] sk H _ IH]; cbn [ucont]; [reflexivity|].
  unfold in_group in H. cbn [fst] in H. rewrite H. destruct (o_data o); exact IH.
Qed.

Lemma upfx_group g sk ps : Forall (in_group g) sk -> upfx sk (Some g) ps = (Some g, ps).
Proof.
  induction 1 as [|[k o] sk H _ IH]; cbn [upfx]; [reflexivity|].
  unfold in_group in H. cbn [fst] in H. rewrite H. rewrite beq_refl.
  destruct (o_data o) as [v|]; [|exact IH]. destruct (vd_marker v); exact IH.
Qed.

(* group closure at the end of a full page: the key that follows is not in the group of the
   last key consumed *)
Definition closure (kl : list N) (rest : list (list N * obj)) : Prop :=
  forall g, prefix_match pre delim kl = MCommon g ->
    match rest with [] => True | (kf, _) :: _ => prefix_match pre delim kf <> MCommon g end.

Lemma skip_group_spec g : forall rest k0 nm rest',
  skip_group pre delim g k0 rest = (nm, rest') ->
  exists sk, rest = sk ++ rest' /\ Forall (in_group g) sk /\
    (forall o0, exists c' ol, (k0, o0) :: sk = c' ++ [(nm, ol)]) /\
    (prefix_match pre delim k0 = MCommon g -> prefix_match pre delim nm = MCommon g) /\
    match rest' with [] => True | (kf, _) :: _ => prefix_match pre delim kf <> MCommon g end.
Proof.
  induction rest as [|[k o] rest IH]; intros k0 nm rest' H; cbn [skip_group] in H.
  - inversion H; subst. exists []. repeat split; auto.
    intros o0. exists [], o0. reflexivity.
  - assert (Hstop : forall p, prefix_match pre delim k = p -> p <> MCommon g ->
              (nm, rest') = (k0, (k, o) :: rest) ->
              exists sk, (k, o) :: rest = sk ++ rest' /\ Forall (in_group g) sk /\
                (forall o0, exists c' ol, (k0, o0) :: sk = c' ++ [(nm, ol)]) /\
                (prefix_match pre delim k0 = MCommon g -> prefix_match pre delim nm = MCommon g) /\
                match rest' with [] => True | (kf, _) :: _ => prefix_match pre delim kf <> MCommon g end).
    { intros p Hp Hne E. inversion E; subst. exists []. repeat split; auto.
      intros o0. exists [], o0. reflexivity. }
    destruct (prefix_match pre delim k) as [| |p] eqn:Epm.
    + eapply Hstop; [reflexivity|discriminate|congruence].
    + eapply Hstop; [reflexivity|discriminate|congruence].
    + destruct (beq p g) eqn:Eb.
      * apply beq_eq in Eb. subst p. apply IH in H.
        destruct H as (sk & E1 & F & L & G & C). exists ((k, o) :: sk). repeat split.
        -- cbn. rewrite <- E1. reflexivity.
        -- constructor; [exact Epm|exact F].
        -- intros o0. destruct (L o) as (c' & ol & E). exists ((k0, o0) :: c'), ol. cbn. rewrite <- E. reflexivity.
        -- intros _. apply G. exact Epm.
        -- exact C.
      * eapply Hstop; [reflexivity| |congruence]. apply beq_neq in Eb. congruence.
Qed.

Lemma scan_split mk : 1 <= mk -> forall items, data_some items ->
  forall cnt lp acc, cnt < mk -> lr_truncated acc = false ->
  exists consumed rest, items = consumed ++ rest /\
    lr_contents (scan pre delim mk items cnt lp acc) = lr_contents acc ++ ucont consumed /\
    lr_prefixes (scan pre delim mk items cnt lp acc) = snd (upfx consumed lp (lr_prefixes acc)) /\
    ((rest = [] /\ lr_truncated (scan pre delim mk items cnt lp acc) = false) \/
     (rest <> [] /\ lr_truncated (scan pre delim mk items cnt lp acc) = true /\
      exists c' kl ol, consumed = c' ++ [(kl, ol)] /\
        lr_next (scan pre delim mk items cnt lp acc) = kl /\ closure kl rest)).
Proof.
  intros Hmk items Hd. induction Hd as [|[k o] items Ho Hd IH]; intros cnt lp acc Hc Ht.
  - cbn [scan]. exists [], []. cbn. rewrite app_nil_r. repeat split. left. auto.
  - cbn [snd] in Ho.
    (* skipping an item *)
    assert (Hskip : forall cnt' lp' acc',
       cnt' < mk -> lr_truncated acc' = false ->
       ucont [(k, o)] = [] ->
       upfx [(k, o)] lp' (lr_prefixes acc') = (lp', lr_prefixes acc') ->
       exists consumed rest, (k, o) :: items = consumed ++ rest /\
        lr_contents (scan pre delim mk items cnt' lp' acc') = lr_contents acc' ++ ucont consumed /\
        lr_prefixes (scan pre delim mk items cnt' lp' acc') = snd (upfx consumed lp' (lr_prefixes acc')) /\
        ((rest = [] /\ lr_truncated (scan pre delim mk items cnt' lp' acc') = false) \/
         (rest <> [] /\ lr_truncated (scan pre delim mk items cnt' lp' acc') = true /\
          exists c' kl ol, consumed = c' ++ [(kl, ol)] /\
            lr_next (scan pre delim mk items cnt' lp' acc') = kl /\ closure kl rest))).
    { intros cnt' lp' acc' Hc' Ht' Hu Hp.
      destruct (IH cnt' lp' acc' Hc' Ht') as (cs & rs & E & C & P & T).
      exists ((k, o) :: cs), rs. split; [cbn; rewrite E; reflexivity|].
      split; [|split].
      - change ((k, o) :: cs) with ([(k, o)] ++ cs). rewrite ucont_app, Hu. exact C.
      - change ((k, o) :: cs) with ([(k, o)] ++ cs). rewrite upfx_app, Hp. cbn [fst snd]. exact P.
      - destruct T as [T|(T1 & T2 & c' & kl & ol & T3 & T4 & T5)]; [left; exact T|right].
        split; [exact T1|]. split; [exact T2|]. exists ((k, o) :: c'), kl, ol. rewrite T3. auto. }
    cbn [scan]. destruct (o_data o) as [v|] eqn:Eo; [|congruence].
    destruct (prefix_match pre delim k) as [| |p] eqn:Epm.
    + apply Hskip; auto; cbn [ucont upfx]; rewrite Eo, Epm; reflexivity.
    + destruct (vd_marker v) eqn:Em.
      { apply Hskip; auto; cbn [ucont upfx]; rewrite Eo, Epm, ?Em; reflexivity. }
      destruct ((0 <? mk) && (mk <=? cnt + 1)) eqn:Ef.
      * exists [(k, o)], items. cbn [lr_contents lr_prefixes lr_truncated lr_next app ucont upfx snd].
        rewrite Eo, Epm, Em. repeat split.
        destruct items as [|it items']; [left; auto|right].
        split; [discriminate|]. split; [reflexivity|]. exists [], k, o. repeat split.
        intros g Hg. congruence.
      * destruct (IH (cnt + 1) lp
          {| lr_contents := lr_contents acc ++ [(k, vd_body v)]; lr_prefixes := lr_prefixes acc;
             lr_truncated := false; lr_next := []; lr_panic := false |}) as (cs & rs & E & C & P & T);
          [lia|reflexivity|].
        exists ((k, o) :: cs), rs. split; [cbn; rewrite E; reflexivity|].
        cbn [lr_contents lr_prefixes] in C, P. split; [|split].
        -- rewrite C. cbn [ucont]. rewrite Eo, Epm, Em. rewrite <- app_assoc. reflexivity.
        -- rewrite P. cbn [upfx]. rewrite Eo, Epm. reflexivity.
        -- destruct T as [T|(T1 & T2 & c' & kl & ol & T3 & T4 & T5)]; [left; exact T|right].
           split; [exact T1|]. split; [exact T2|]. exists ((k, o) :: c'), kl, ol. rewrite T3. auto.
    + destruct (vd_marker v) eqn:Em.
      { apply Hskip; auto; cbn [ucont upfx]; rewrite Eo, Epm, ?Em; reflexivity. }
      destruct (match lp with Some q => beq p q | None => false end) eqn:El.
      { apply Hskip; auto; cbn [ucont upfx]; rewrite Eo, Epm, ?Em, ?El; reflexivity. }
      destruct ((0 <? mk) && (mk <=? cnt + 1)) eqn:Ef.
      * destruct (skip_group pre delim p k items) as [nm rest'] eqn:Esk.
        apply skip_group_spec in Esk. destruct Esk as (sk & E1 & F & L & G & C).
        exists ((k, o) :: sk), rest'. cbn [lr_contents lr_prefixes lr_truncated lr_next].
        split; [cbn; rewrite E1; reflexivity|]. split; [|split].
        -- cbn [ucont]. rewrite Eo, Epm. rewrite (ucont_group p sk F), app_nil_r. reflexivity.
        -- cbn [upfx]. rewrite Eo, Epm, Em, El. rewrite (upfx_group p sk _ F). reflexivity.
        -- destruct rest' as [|it rest'']; [left; auto|right].
           split; [discriminate|]. split; [reflexivity|].
           destruct (L o) as (c' & ol & E). exists c', nm, ol. split; [exact E|]. split; [reflexivity|].
           intros g Hg. rewrite (G Epm) in Hg. inversion Hg; subst. exact C.
      * destruct (IH (cnt + 1) (Some p)
          {| lr_contents := lr_contents acc; lr_prefixes := add_prefix p (lr_prefixes acc);
             lr_truncated := false; lr_next := []; lr_panic := false |}) as (cs & rs & E & C & P & T);
          [lia|reflexivity|].
        exists ((k, o) :: cs), rs. split; [cbn; rewrite E; reflexivity|].
        cbn [lr_contents lr_prefixes] in C, P. split; [|split].
        -- rewrite C. cbn [ucont]. rewrite Eo, Epm. reflexivity.
        -- rewrite P. cbn [upfx]. rewrite Eo, Epm, Em, El. reflexivity.
        -- destruct T as [T|(T1 & T2 & c' & kl & ol & T3 & T4 & T5)]; [left; exact T|right].
           split; [exact T1|]. split; [exact T2|]. exists ((k, o) :: c'), kl, ol. rewrite T3. auto.
Qed.

(* the unpaginated scan (max-keys 0) is exactly the two folds *)
Lemma scan_unpaged items : data_some items -> forall cnt lp acc,
  lr_contents (scan pre delim 0 items cnt lp acc) = lr_contents acc ++ ucont items /\
  lr_prefixes (scan pre delim 0 items cnt lp acc) = snd (upfx items lp (lr_prefixes acc)).
Proof.
  intros Hd. induction Hd as [|[k o] items Ho Hd IH]; intros cnt lp acc.
  - cbn. rewrite app_nil_r. auto.
  - cbn [snd] in Ho. cbn [scan ucont upfx]. destruct (o_data o) as [v|] eqn:Eo; [|congruence].
    change ((0 <? 0) && (0 <=? cnt + 1)) with false. cbv iota.
    destruct (prefix_match pre delim k) as [| |p] eqn:Epm.
    + apply IH.
    + destruct (vd_marker v) eqn:Em; [apply IH|].
      destruct (IH (cnt + 1) lp
          {| lr_contents := lr_contents acc ++ [(k, vd_body v)]; lr_prefixes := lr_prefixes acc;
             lr_truncated := false; lr_next := []; lr_panic := false |}) as [C P].
      cbn [lr_contents lr_prefixes] in C, P. rewrite C, P, <- app_assoc. auto.
    + destruct (vd_marker v) eqn:Em; [apply IH|].
      destruct (match lp with Some q => beq p q | None => false end) eqn:El; [apply IH|].
      destruct (IH (cnt + 1) (Some p)
          {| lr_contents := lr_contents acc; lr_prefixes := add_prefix p (lr_prefixes acc);
             lr_truncated := false; lr_next := []; lr_panic := false |}) as [C P].
      cbn [lr_contents lr_prefixes] in C, P. rewrite C, P. auto.
Qed.

(* ---- common prefixes distribute over append when no group straddles the cut ---- *)
Lemma add_prefix_in p ps : In p (add_prefix p ps).
Proof.
  unfold add_prefix. destruct (existsb (beq p) ps) eqn:E.
  - apply existsb_exists in E. destruct E as (x & Hx & E). apply beq_eq in E. subst. exact Hx.
  - apply in_or_app. right. left. reflexivity.
Qed.

Lemma add_prefix_incl p ps x : In x (add_prefix p ps) -> In x ps \/ x = p.
Proof.
  unfold add_prefix. destruct (existsb (beq p) ps); [auto|].
  intros H. apply in_app_or in H. destruct H as [H|[H|[]]]; auto.
Qed.

Lemma add_prefix_keeps p ps x : In x ps -> In x (add_prefix p ps).
Proof.
  unfold add_prefix. destruct (existsb (beq p) ps); [auto|]. intros H. apply in_or_app. auto.
Qed.

Definition lp_ok (lp : option (list N)) (ps : list (list N)) : Prop :=
  match lp with None => True | Some q => In q ps end.

Lemma upfx_lp_ok items : forall lp ps, lp_ok lp ps -> lp_ok (fst (upfx items lp ps)) (snd (upfx items lp ps)).
Proof.
  induction items as [|[k o] items IH]; intros lp ps H; cbn [upfx fst snd]; [exact H|].
  destruct (o_data o) as [v|]; [|apply IH; exact H].
  destruct (prefix_match pre delim k); try (apply IH; exact H).
  destruct (vd_marker v); [apply IH; exact H|].
  destruct (match lp with Some q => beq p q | None => false end); [apply IH; exact H|].
  apply IH. cbn. apply add_prefix_in.
Qed.

Lemma upfx_from items : forall lp ps g, In g (snd (upfx items lp ps)) ->
  In g ps \/ exists k o, In (k, o) items /\ prefix_match pre delim k = MCommon g.
Proof.
  induction items as [|[k o] items IH]; intros lp ps g; cbn [upfx snd]; [auto|].
  assert (IH' : forall lp ps, In g (snd (upfx items lp ps)) ->
       In g ps \/ exists k' o', In (k', o') ((k, o) :: items) /\ prefix_match pre delim k' = MCommon g).
  { intros l q H. apply IH in H. destruct H as [H|(k' & o' & H1 & H2)]; [auto|].
    right. exists k', o'. split; [right; exact H1|exact H2]. }
  destruct (o_data o) as [v|]; [|apply IH'].
  destruct (prefix_match pre delim k) eqn:Epm; try apply IH'.
  destruct (vd_marker v); [apply IH'|].
  destruct (match lp with Some q => beq p q | None => false end); [apply IH'|].
  intros H. apply IH' in H. destruct H as [H|H]; [|auto].
  apply add_prefix_incl in H. destruct H as [H|H]; [auto|]. subst g.
  right. exists k, o. split; [left; reflexivity|exact Epm].
Qed.

Lemma add_prefix_shift p ps qs : ~ In p ps -> add_prefix p (ps ++ qs) = ps ++ add_prefix p qs.
Proof.
  intros Hn. unfold add_prefix. rewrite existsb_app.
  assert (E : existsb (beq p) ps = false).
  { destruct (existsb (beq p) ps) eqn:E; [|reflexivity]. exfalso. apply Hn.
    apply existsb_exists in E. destruct E as (x & Hx & E). apply beq_eq in E. subst. exact Hx. }
  rewrite E. cbn [orb]. destruct (existsb (beq p) qs); [reflexivity|]. rewrite app_assoc. reflexivity.
Qed.

Lemma upfx_shift items ps : 
  (forall k o g, In (k, o) items -> prefix_match pre delim k = MCommon g -> ~ In g ps) ->
  forall lp lp' qs,
  (lp = lp' \/ exists q, lp = Some q /\ In q ps /\ lp' = None) ->
  snd (upfx items lp (ps ++ qs)) = ps ++ snd (upfx items lp' qs).
Proof.
  induction items as [|[k o] items IH]; intros Hg lp lp' qs Hl; cbn [upfx snd]; [reflexivity|].
  assert (Hg' : forall k o g, In (k, o) items -> prefix_match pre delim k = MCommon g -> ~ In g ps).
  { intros k' o' g H. apply (Hg k' o' g). right. exact H. }
  specialize (IH Hg').
  destruct (o_data o) as [v|]; [|apply IH; exact Hl].
  destruct (prefix_match pre delim k) eqn:Epm; try (apply IH; exact Hl).
  destruct (vd_marker v); [apply IH; exact Hl|].
  assert (Hp : ~ In p ps) by (apply (Hg k o p); [left; reflexivity|exact Epm]).
  destruct Hl as [Hl|(q & H1 & H2 & H3)].
  - subst lp'. destruct (match lp with Some q => beq p q | None => false end).
    + apply IH. left. reflexivity.
    + rewrite add_prefix_shift by exact Hp. apply IH. left. reflexivity.
  - subst lp lp'. assert (E : beq p q = false). { apply beq_neq. intros ->. contradiction. }
    rewrite E. rewrite add_prefix_shift by exact Hp. apply IH. left. reflexivity.
Qed.

Definition group_disjoint (c r : list (list N * obj)) : Prop :=
  forall k1 o1 k2 o2 g, In (k1, o1) c -> In (k2, o2) r ->
    prefix_match pre delim k1 = MCommon g -> prefix_match pre delim k2 <> MCommon g.

Lemma upfx_distr c r : group_disjoint c r ->
  snd (upfx (c ++ r) None []) = snd (upfx c None []) ++ snd (upfx r None []).
Proof.
  intros Hd. rewrite upfx_app.
  pose proof (upfx_lp_ok c None [] I) as Hok.
  pose proof (upfx_from c None []) as Hfrom.
  destruct (upfx c None []) as [lp ps]. cbn [fst snd] in *.
  rewrite <- (app_nil_r ps) at 1. apply upfx_shift.
  - intros k o g Hin Hpm Hg. apply Hfrom in Hg. destruct Hg as [[]|(k1 & o1 & H1 & H2)].
    exact (Hd k1 o1 k o g H1 Hin H2 Hpm).
  - destruct lp as [q|]; [right; exists q; auto|left; reflexivity].
Qed.
End Split.

(* ---- contiguity of groups: no group straddles the end of a full page ---- *)
Lemma groups_contiguous_suffix pre delim l0 l :
  groups_contiguous pre delim (l0 ++ l) -> groups_contiguous pre delim l.
Proof.
  intros H l1 k1 l2 k2 l3 p E. apply (H (l0 ++ l1) k1 l2 k2 l3 p).
  rewrite E, app_assoc. reflexivity.
Qed.

Lemma contig_mid pre delim (a : list (list N * obj)) k1 o1 m k2 o2 d g :
  groups_contiguous pre delim (map fst (a ++ (k1, o1) :: m ++ (k2, o2) :: d)) ->
  prefix_match pre delim k1 = MCommon g -> prefix_match pre delim k2 = MCommon g ->
  forall x, In x m -> prefix_match pre delim (fst x) = MCommon g.
Proof.
  intros H H1 H2 x Hx.
  apply (H (map fst a) k1 (map fst m) k2 (map fst d) g); [|exact H1|exact H2|apply in_map; exact Hx].
  rewrite map_app. cbn [map fst]. rewrite map_app. reflexivity.
Qed.

Lemma contig_disjoint pre delim c' kl ol rest :
  groups_contiguous pre delim (map fst ((c' ++ [(kl, ol)]) ++ rest)) ->
  closure pre delim kl rest ->
  group_disjoint pre delim (c' ++ [(kl, ol)]) rest.
Proof.
  intros Hc Hcl k1 o1 k2 o2 g In1 In2 P1 P2.
  destruct rest as [|[kf of] rest']; [destruct In2|].
  assert (Pl : prefix_match pre delim kl = MCommon g).
  { apply in_app_or in In1. destruct In1 as [In1|[E|[]]]; [|inversion E; subst; exact P1].
    apply in_split in In1. destruct In1 as (a & b & ->).
    apply in_split in In2. destruct In2 as (c & d & E2).
    rewrite E2 in Hc.
    replace (((a ++ (k1, o1) :: b) ++ [(kl, ol)]) ++ c ++ (k2, o2) :: d)
      with (a ++ (k1, o1) :: (b ++ (kl, ol) :: c) ++ (k2, o2) :: d) in Hc.
    - apply (contig_mid pre delim a k1 o1 _ k2 o2 d g Hc P1 P2 (kl, ol)).
      apply in_or_app. right. left. reflexivity.
    - repeat (rewrite <- app_assoc; cbn [app]). reflexivity. }
  assert (Pf : prefix_match pre delim kf = MCommon g).
  { destruct In2 as [E|In2]; [inversion E; subst; exact P2|].
    apply in_split in In1. destruct In1 as (a & b & E1).
    apply in_split in In2. destruct In2 as (c & d & ->).
    rewrite E1 in Hc.
    replace ((a ++ (k1, o1) :: b) ++ (kf, of) :: c ++ (k2, o2) :: d)
      with (a ++ (k1, o1) :: (b ++ (kf, of) :: c) ++ (k2, o2) :: d) in Hc.
    - apply (contig_mid pre delim a k1 o1 _ k2 o2 d g Hc P1 P2 (kf, of)).
      apply in_or_app. right. left. reflexivity.
    - repeat (rewrite <- app_assoc; cbn [app]). reflexivity. }
  exact (Hcl g Pl Pf).
Qed.

(* ---- (2) progress: a truncated page hands back a marker that is a key of the map and lies
   strictly after the marker it was asked with.

   ORIGINAL STATEMENT (false when [] is a key, see page_progress_as_stated_false below):

   Lemma page_progress pre delim mk objs marker :
     1 <= mk -> sorted objs -> data_some objs ->
     let r := page pre delim mk objs marker in
     lr_truncated r = true ->
     In (lr_next r) (map fst objs) /\ (marker <> [] -> bltb marker (lr_next r) = true) /\ lr_next r <> [].
   ---- *)
Lemma page_progress_gen pre delim mk objs marker :
  1 <= mk -> sorted objs -> data_some objs ->
  let r := page pre delim mk objs marker in
  lr_truncated r = true ->
  In (lr_next r) (map fst objs) /\ (marker <> [] -> bltb marker (lr_next r) = true) /\
  (marker <> [] \/ ~ In [] (map fst objs) -> lr_next r <> []).
Proof.
  intros Hmk Hs Hd r Ht. unfold page in r.
  set (items := match marker with [] => objs | _ :: _ => sm_after marker objs end) in *.
  assert (Hincl : forall x, In x items -> In x objs).
  { subst items. destruct marker; [auto|]. intros x. apply sm_after_incl. }
  assert (Hdi : data_some items).
  { unfold data_some in *. rewrite Forall_forall in *. intros x Hx. apply Hd, Hincl, Hx. }
  destruct (scan_split pre delim mk Hmk items Hdi 0 None empty_list) as (cs & rs & E & _ & _ & T);
    [lia|reflexivity|]. fold r in T.
  destruct T as [[_ T]|(_ & _ & c' & kl & ol & Ec & En & _)]; [congruence|].
  assert (Hin : In (kl, ol) items).
  { rewrite E, Ec. apply in_or_app. left. apply in_or_app. right. left. reflexivity. }
  assert (Hk : In (lr_next r) (map fst objs)).
  { rewrite En. change kl with (fst (kl, ol)). apply in_map. apply Hincl. exact Hin. }
  assert (Hgt : marker <> [] -> bltb marker (lr_next r) = true).
  { intros Hm. rewrite En. subst items. destruct marker as [|c marker]; [congruence|].
    eapply sm_after_gt; eassumption. }
  split; [exact Hk|]. split; [exact Hgt|].
  intros [Hm|Hne] E0.
  - apply Hgt in Hm. rewrite E0 in Hm. destruct marker; discriminate.
  - apply Hne. rewrite <- E0. exact Hk.
Qed.

Lemma page_progress_nonempty_keys pre delim mk objs marker :
  1 <= mk -> sorted objs -> data_some objs -> ~ In [] (map fst objs) ->
  let r := page pre delim mk objs marker in
  lr_truncated r = true ->
  In (lr_next r) (map fst objs) /\ (marker <> [] -> bltb marker (lr_next r) = true) /\ lr_next r <> [].
Proof.
  intros Hmk Hs Hd Hne r Ht.
  destruct (page_progress_gen pre delim mk objs marker Hmk Hs Hd Ht) as (H1 & H2 & H3).
  split; [exact H1|]. split; [exact H2|]. apply H3. right. exact Hne.
Qed.

(* ---- (3) the walk terminates within |objs|+1 pages, and its pages concatenate to exactly the
   unpaginated listing: every key once, in order; every common prefix once.

   ORIGINAL STATEMENT (false when [] is a key, see walk_complete_as_stated_false below):

   Theorem walk_complete pre delim mk objs :
     1 <= mk -> sorted objs -> data_some objs ->
     groups_contiguous pre delim (map fst objs) ->
     exists pages,
       walk (S (length objs)) pre delim mk objs [] = Some pages /\
       flat_map (fun r => map fst (lr_contents r)) pages = map fst (lr_contents (unpaged pre delim objs)) /\
       flat_map lr_prefixes pages = lr_prefixes (unpaged pre delim objs) /\
       Forall (fun r => entries r <= mk) pages /\
       (exists r, last (map Some pages) None = Some r /\ lr_truncated r = false).

   Proved below as walk_complete_nonempty_keys: same conclusion, one more hypothesis
   ~ In [] (map fst objs). ---- *)
Lemma data_some_app a b : data_some (a ++ b) -> data_some a /\ data_some b.
Proof. unfold data_some. intros H. apply Forall_app in H. exact H. Qed.

Lemma walk_gen pre delim mk objs :
  1 <= mk -> sorted objs -> data_some objs ->
  groups_contiguous pre delim (map fst objs) -> ~ In [] (map fst objs) ->
  forall fuel done rest marker,
    objs = done ++ rest ->
    match marker with [] => objs | _ => sm_after marker objs end = rest ->
    (length rest < fuel)%nat ->
    exists pages,
      walk fuel pre delim mk objs marker = Some pages /\
      flat_map (fun r => map fst (lr_contents r)) pages = map fst (ucont pre delim rest) /\
      flat_map lr_prefixes pages = snd (upfx pre delim rest None []) /\
      Forall (fun r => entries r <= mk) pages /\
      (exists r, last (map Some pages) None = Some r /\ lr_truncated r = false).
Proof.
  intros Hmk Hs Hd Hg Hne. induction fuel as [|f IH]; intros done rest marker Eo Em Hl; [lia|].
  cbn [walk]. unfold page. rewrite Em.
  assert (Hdr : data_some rest) by (rewrite Eo in Hd; apply data_some_app in Hd; tauto).
  pose proof (page_bound pre delim mk rest Hmk Hdr) as [Hb _].
  destruct (scan_split pre delim mk Hmk rest Hdr 0 None empty_list) as (cs & rs & E & C & P & T);
    [lia|reflexivity|].
  set (r := scan pre delim mk rest 0 None empty_list) in *.
  cbn [lr_contents lr_prefixes empty_list app] in C, P.
  destruct T as [[T1 T2]|(T1 & T2 & c' & kl & ol & Ec & En & Hcl)].
  - rewrite T2. subst rs. rewrite app_nil_r in E. subst cs.
    exists [r]. split; [reflexivity|]. cbn [flat_map map last]. rewrite !app_nil_r.
    split; [rewrite C; reflexivity|]. split; [exact P|]. split; [constructor; [exact Hb|constructor]|].
    exists r. auto.
  - rewrite T2. rewrite En.
    assert (Eobjs : objs = (done ++ c') ++ (kl, ol) :: rs).
    { rewrite Eo, E, Ec. repeat (rewrite <- app_assoc; cbn [app]). reflexivity. }
    assert (Hkl : kl <> []).
    { intros ->. apply Hne. rewrite Eobjs, map_app. apply in_or_app. right. left. reflexivity. }
    destruct (IH (done ++ cs) rs kl) as (pages & W & PC & PP & PB & (rl & L1 & L2)).
    + rewrite Eo, E, app_assoc. reflexivity.
    + destruct kl as [|c kl]; [congruence|]. rewrite Eobjs. apply sm_after_split. rewrite <- Eobjs. exact Hs.
    + assert (length rest = length cs + length rs)%nat by (rewrite E; apply app_length).
      assert (length cs = S (length c'))%nat by (rewrite Ec, app_length; cbn; lia). lia.
    + rewrite W. exists (r :: pages). split; [reflexivity|]. cbn [flat_map].
      split; [|split; [|split]].
      * rewrite PC, C, E, ucont_app, map_app. reflexivity.
      * rewrite PP, P, E. symmetry. apply upfx_distr. rewrite Ec. apply contig_disjoint; [|exact Hcl].
        apply (groups_contiguous_suffix pre delim (map fst done)).
        rewrite <- map_app, <- Ec, <- E, <- Eo. exact Hg.
      * constructor; [exact Hb|exact PB].
      * exists rl. split; [|exact L2]. destruct pages as [|p0 pages]; [cbn in L1; discriminate|].
        exact L1.
Qed.

Theorem walk_complete_nonempty_keys pre delim mk objs :
  1 <= mk -> sorted objs -> data_some objs ->
  groups_contiguous pre delim (map fst objs) -> ~ In [] (map fst objs) ->
  exists pages,
    walk (S (length objs)) pre delim mk objs [] = Some pages /\
    flat_map (fun r => map fst (lr_contents r)) pages = map fst (lr_contents (unpaged pre delim objs)) /\
    flat_map lr_prefixes pages = lr_prefixes (unpaged pre delim objs) /\
    Forall (fun r => entries r <= mk) pages /\
    (exists r, last (map Some pages) None = Some r /\ lr_truncated r = false).
Proof.
  intros Hmk Hs Hd Hg Hne.
  destruct (walk_gen pre delim mk objs Hmk Hs Hd Hg Hne (S (length objs)) [] objs [] eq_refl eq_refl)
    as (pages & W & PC & PP & PB & PL); [lia|].
  exists pages. unfold unpaged.
  destruct (scan_unpaged pre delim objs Hd 0 None empty_list) as [C P]. rewrite C, P.
  cbn [lr_contents lr_prefixes empty_list app]. auto.
Qed.

(* ---- the original statements (2) and (3) are false: the empty key ---- *)
Definition cex_obj : obj :=
  {| o_data := Some {| vd_vid := 1%N; vd_null := true; vd_marker := false; vd_body := []; vd_meta := [] |};
     o_vers := [] |}.
Definition cex_objs : list (list N * obj) := [([], cex_obj); ([1%N], cex_obj)].

Example walk_empty_key_refuted :
  sorted cex_objs /\ data_some cex_objs /\ groups_contiguous [] None (map fst cex_objs) /\
  lr_truncated (page [] None 1 cex_objs []) = true /\
  lr_next (page [] None 1 cex_objs []) = [] /\
  forall n, walk n [] None 1 cex_objs [] = None.
Proof.
  split; [cbn; auto|]. split; [repeat constructor; discriminate|].
  split; [intros l1 k1 l2 k2 l3 p _ H; cbn in H; discriminate|].
  split; [reflexivity|]. split; [reflexivity|].
  induction n as [|n IH]; [reflexivity|]. cbn [walk].
  change (lr_truncated (page [] None 1 cex_objs [])) with true.
  change (lr_next (page [] None 1 cex_objs [])) with (@nil N).
  cbv iota. rewrite IH. reflexivity.
Qed.

Example page_progress_as_stated_false :
  ~ (forall pre delim mk objs marker,
       1 <= mk -> sorted objs -> data_some objs ->
       let r := page pre delim mk objs marker in
       lr_truncated r = true ->
       In (lr_next r) (map fst objs) /\ (marker <> [] -> bltb marker (lr_next r) = true) /\ lr_next r <> []).
Proof.
  intros H. destruct walk_empty_key_refuted as (Hs & Hd & _ & Ht & Hn & _).
  destruct (H [] None 1 cex_objs [] ltac:(lia) Hs Hd Ht) as (_ & _ & H3). exact (H3 Hn).
Qed.

Example walk_complete_as_stated_false :
  ~ (forall pre delim mk objs,
       1 <= mk -> sorted objs -> data_some objs ->
       groups_contiguous pre delim (map fst objs) ->
       exists pages,
         walk (S (length objs)) pre delim mk objs [] = Some pages /\
         flat_map (fun r => map fst (lr_contents r)) pages = map fst (lr_contents (unpaged pre delim objs)) /\
         flat_map lr_prefixes pages = lr_prefixes (unpaged pre delim objs) /\
         Forall (fun r => entries r <= mk) pages /\
         (exists r, last (map Some pages) None = Some r /\ lr_truncated r = false)).
Proof.
  intros H. destruct walk_empty_key_refuted as (Hs & Hd & Hg & _ & _ & Hw).
  destruct (H [] None 1 cex_objs ltac:(lia) Hs Hd Hg) as (pages & W & _).
  rewrite Hw in W. discriminate.
Qed.

Print Assumptions page_bound.
Print Assumptions page_after_marker.
Print Assumptions page_progress_gen.
Print Assumptions page_progress_nonempty_keys.
Print Assumptions walk_complete_nonempty_keys.
Print Assumptions walk_complete_as_stated_false.

(* a marker at or behind every key of the bucket (the last page's own marker, one made up by the
   client, or one handed out before the keys behind it were deleted): nothing follows it; the page
   is empty and final *)
Lemma sm_after_behind_all {V} (k : list N) (m : list (list N * V)) :
  (forall kv, In kv m -> bleb (fst kv) k = true) -> sm_after k m = [].
Proof.
  induction m as [|[k' v'] m IH]; intros H; cbn [sm_after]; [reflexivity|].
  pose proof (H (k', v') (or_introl eq_refl)) as Hk. cbn [fst] in Hk. rewrite Hk. apply IH.
  intros kv Hi. apply H. right. exact Hi.
Qed.

Lemma page_marker_behind_every_key pre delim mk objs marker :
  marker <> [] -> (forall kv, In kv objs -> bleb (fst kv) marker = true) ->
  page pre delim mk objs marker = empty_list.
Proof.
  intros Hm Hall. unfold page. destruct marker as [|c m']; [contradiction|].
  rewrite (sm_after_behind_all (c :: m') objs Hall). reflexivity.
Qed.
