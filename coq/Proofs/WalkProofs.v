(* TASK D2.  Pagination (property C04) of the memory-backend model: page bound, progress,
   and completeness of the walk that follows the server's continuation.  Statements are fixed
   in content; you may restructure helper definitions, add lemmas, strengthen — never weaken
   silently.  Model: Model/Mem.v (scan, skip_group, sm_after in Base/SortedMap.v),
   Model/MemWalk.v (page, unpaged, walk). *)
From GF Require Import Base.Bytes Base.SortedMap Model.Prefix Model.Mem Model.MemWalk
  Proofs.BytesFacts Proofs.SortedMapFacts.
Open Scope Z_scope.

Definition data_some (items : list (list N * obj)) : Prop :=
  Forall (fun kv => o_data (snd kv) <> None) items.

(* Keys rolled up into the same common prefix are contiguous in the map.  (Holds for sorted
   keys whenever a common prefix is a literal string prefix of its keys, which is the case
   on the property's domain — proved separately from the prefix-matching theorem.) *)
Definition groups_contiguous (pre : list N) (delim : option N) (keys : list (list N)) : Prop :=
  forall l1 k1 l2 k2 l3 p,
    keys = l1 ++ k1 :: l2 ++ k2 :: l3 ->
    prefix_match pre delim k1 = MCommon p -> prefix_match pre delim k2 = MCommon p ->
    forall k, In k l2 -> prefix_match pre delim k = MCommon p.

Definition entries (r : list_result) : Z := Z.of_nat (length (lr_contents r) + length (lr_prefixes r)).

(* (1) a page never holds more entries than max-keys *)
Lemma page_bound pre delim mk items :
  1 <= mk -> data_some items ->
  entries (scan pre delim mk items 0 None empty_list) <= mk /\
  lr_panic (scan pre delim mk items 0 None empty_list) = false.
Proof.
Admitted.

(* (2) progress: a truncated page hands back a marker that is a key of the map and lies
   strictly after the marker it was asked with *)
Lemma page_progress pre delim mk objs marker :
  1 <= mk -> sorted objs -> data_some objs ->
  let r := page pre delim mk objs marker in
  lr_truncated r = true ->
  In (lr_next r) (map fst objs) /\ (marker <> [] -> bltb marker (lr_next r) = true) /\ lr_next r <> [].
Proof.
Admitted.

(* (3) the walk terminates within |objs|+1 pages, and its pages concatenate to exactly the
   unpaginated listing: every key once, in order; every common prefix once *)
Theorem walk_complete pre delim mk objs :
  1 <= mk -> sorted objs -> data_some objs ->
  groups_contiguous pre delim (map fst objs) ->
  exists pages,
    walk (S (length objs)) pre delim mk objs [] = Some pages /\
    flat_map (fun r => map fst (lr_contents r)) pages = map fst (lr_contents (unpaged pre delim objs)) /\
    flat_map lr_prefixes pages = lr_prefixes (unpaged pre delim objs) /\
    Forall (fun r => entries r <= mk) pages /\
    (exists r, last (map Some pages) None = Some r /\ lr_truncated r = false).
Proof.
Admitted.

(* (4) any start-after / marker value: the page lists only keys strictly greater than it *)
Lemma page_after_marker pre delim mk objs marker k body :
  marker <> [] -> sorted objs -> data_some objs ->
  In (k, body) (lr_contents (page pre delim mk objs marker)) -> bltb marker k = true.
Proof.
Admitted.

Print Assumptions walk_complete.
