(* The listing algorithm of the filesystem backends (Model/FsList.v) refines the declarative
   listing spec (Spec/ListSpec.v) on the trees of stores written by a live server
   (Model/CrashDirs.v tree_of), for the delimiter "/" and without a delimiter; where it does not
   (order of the common prefixes, delimiters other than "/", prefixes that begin with "/",
   directories left by a killed upload) the difference is stated and proved as a refutation. *)
From GF Require Import Base.Bytes Base.SortedMap Model.Prefix Model.Mem Model.MemWalk Model.CrashDirs Model.FsList
  Spec.ListSpec Proofs.BytesFacts Proofs.SortedMapFacts Proofs.NameProofs Proofs.PrefixProofs
  Proofs.ListExact Proofs.MemInv Proofs.ListDomain Proofs.CrashDirProofs.
From Coq Require Import Lia ZifyBool Permutation.

(* ================================================================================================ *)
(* 1. lists in strictly ascending order                                                             *)
(* ================================================================================================ *)

Lemma ascending_sasc l : ascending l -> sasc l.
Proof.
  induction l as [|a l IH]; [trivial|]. intros H. cbn [sasc].
  destruct l as [|b l]; [split; [constructor|exact I]|].
  cbn [ascending] in H. destruct H as [Hab H]. specialize (IH H). split; [|exact IH].
  constructor; [exact Hab|]. cbn [sasc] in IH. destruct IH as [IH _].
  rewrite Forall_forall in IH. apply Forall_forall. intros c Hc.
  eapply bltb_trans; [exact Hab|apply IH; exact Hc].
Qed.

Lemma sasc_NoDup l : sasc l -> NoDup l.
Proof.
  induction l as [|a l IH]; [constructor|]. cbn [sasc]. intros [H1 H2]. constructor; [|apply IH; exact H2].
  intros Hin. rewrite Forall_forall in H1. specialize (H1 a Hin). rewrite bltb_irrefl in H1. discriminate.
Qed.

(* two strictly ascending lists with the same elements are the same list *)
Lemma sasc_ext l1 : forall l2, sasc l1 -> sasc l2 -> (forall x, In x l1 <-> In x l2) -> l1 = l2.
Proof.
  induction l1 as [|a l1 IH]; intros l2 H1 H2 Hx.
  - destruct l2 as [|b l2]; [reflexivity|]. exfalso. apply (proj2 (Hx b)). left. reflexivity.
  - destruct l2 as [|b l2]; [exfalso; apply (proj1 (Hx a)); left; reflexivity|].
    cbn [sasc] in H1, H2. destruct H1 as [Ha H1], H2 as [Hb H2].
    rewrite Forall_forall in Ha, Hb.
    assert (a = b) as ->.
    { destruct (proj1 (Hx a) (or_introl eq_refl)) as [E|Hin]; [symmetry; exact E|].
      destruct (proj2 (Hx b) (or_introl eq_refl)) as [E|Hin']; [exact E|].
      pose proof (Hb a Hin) as L1. pose proof (Ha b Hin') as L2.
      rewrite (bltb_asym _ _ L1) in L2. discriminate. }
    f_equal. apply IH; [exact H1|exact H2|]. intros x. split; intros Hin.
    + destruct (proj1 (Hx x) (or_intror Hin)) as [E|Hin']; [|exact Hin'].
      subst x. specialize (Ha b Hin). rewrite bltb_irrefl in Ha. discriminate.
    + destruct (proj2 (Hx x) (or_intror Hin)) as [E|Hin']; [|exact Hin'].
      subst x. specialize (Hb b Hin). rewrite bltb_irrefl in Hb. discriminate.
Qed.

Lemma bltb_app_l p : forall a b, bltb (p ++ a) (p ++ b) = bltb a b.
Proof.
  induction p as [|x p IH]; intros a b; [reflexivity|]. cbn [app bltb].
  rewrite N.ltb_irrefl. apply IH.
Qed.

Lemma sasc_map_app p l : sasc l -> sasc (map (fun x => p ++ x) l).
Proof.
  induction l as [|a l IH]; [trivial|]. cbn [sasc map]. intros [H1 H2]. split; [|apply IH; exact H2].
  rewrite Forall_forall in H1. apply Forall_forall. intros y Hy. apply in_map_iff in Hy as [x [<- Hx]].
  rewrite bltb_app_l. apply H1. exact Hx.
Qed.

(* sort.Slice leaves an ascending list alone *)
Lemma sort_keys_sasc l : sasc l -> sort_keys l = l.
Proof.
  induction l as [|a l IH]; [reflexivity|]. cbn [sasc]. intros [H1 H2]. unfold sort_keys. cbn [fold_right].
  fold (sort_keys l). rewrite (IH H2). destruct l as [|b l]; [reflexivity|]. cbn [insert_key].
  inversion H1 as [|? ? Hab _]; subst. rewrite (bltb_asym _ _ Hab). reflexivity.
Qed.

Lemma dedup_In x l : In x (dedup l) <-> In x l.
Proof.
  revert x. induction l as [|a l IH]; intros x; [tauto|]. cbn [dedup In]. rewrite filter_In, IH.
  split.
  - intros [H|[H _]]; auto.
  - intros [H|H]; [left; exact H|]. destruct (beq a x) eqn:E.
    + left. apply beq_eq. exact E.
    + right. split; [exact H|reflexivity].
Qed.

Section SortedFilter.
Context {V : Type}.
Lemma lb_filter k (f : list N * V -> bool) m : lb k m -> lb k (filter f m).
Proof.
  induction m as [|[k' v] m IH]; cbn [lb filter]; [trivial|]. intros [H1 H2].
  destruct (f (k', v)); cbn [lb]; auto.
Qed.
Lemma sorted_filter (f : list N * V -> bool) m : sorted m -> sorted (filter f m).
Proof.
  induction m as [|[k' v] m IH]; cbn [sorted filter]; [trivial|]. intros [H1 H2].
  destruct (f (k', v)); cbn [sorted]; auto using lb_filter.
Qed.

(* folding sorted inserts of one flag *)
Lemma fold_set_sorted (b : V) l : forall m : list (list N * V), sorted m ->
  sorted (fold_left (fun m n => sm_set n b m) l m).
Proof.
  induction l as [|x l IH]; intros m Hm; [exact Hm|]. cbn [fold_left]. apply IH. apply sorted_set. exact Hm.
Qed.
Lemma fold_set_get (b : V) l : forall (m : list (list N * V)) n,
  sm_get n (fold_left (fun m n => sm_set n b m) l m) = if memb n l then Some b else sm_get n m.
Proof.
  induction l as [|x l IH]; intros m n; [reflexivity|]. cbn [fold_left]. rewrite IH.
  unfold memb. cbn [existsb]. fold (memb n l). destruct (memb n l); [rewrite orb_true_r; reflexivity|].
  rewrite orb_false_r. destruct (beq n x) eqn:E.
  - apply beq_eq in E. subst. apply get_set_eq.
  - apply get_set_neq. apply beq_neq. exact E.
Qed.
End SortedFilter.

(* ================================================================================================ *)
(* 2. paths: LastIndexByte, FilePrefix, Split, cleanKeyPath, directory entries                      *)
(* ================================================================================================ *)

Lemma mem_byte_app d a b : mem_byte d (a ++ b) = mem_byte d a || mem_byte d b.
Proof. unfold mem_byte. apply existsb_app. Qed.

Lemma mem_byte_cons d c s : mem_byte d (c :: s) = N.eqb d c || mem_byte d s.
Proof. reflexivity. Qed.

Lemma index_byte_none d s : index_byte d s = None <-> mem_byte d s = false.
Proof.
  induction s as [|c s IH]; [cbn; tauto|]. cbn [index_byte]. rewrite mem_byte_cons, (N.eqb_sym d c).
  destruct (N.eqb c d); cbn [orb]; [split; discriminate|].
  destruct (index_byte d s); [split; [discriminate|]|tauto].
  intros H. apply IH in H. discriminate.
Qed.

Lemma index_byte_app d a b : mem_byte d a = false -> index_byte d (a ++ d :: b) = Some (length a).
Proof.
  induction a as [|c a IH]; cbn [app index_byte length].
  - rewrite N.eqb_refl. reflexivity.
  - rewrite mem_byte_cons, (N.eqb_sym d c). intros H. apply orb_false_iff in H as [H1 H2].
    rewrite H1, (IH H2). reflexivity.
Qed.

Lemma last_index_byte_none d s : last_index_byte d s = None -> mem_byte d s = false.
Proof.
  induction s as [|c s IH]; [reflexivity|]. cbn [last_index_byte]. rewrite mem_byte_cons, (N.eqb_sym d c).
  destruct (last_index_byte d s); [discriminate|]. destruct (N.eqb c d); [discriminate|].
  intros _. apply IH. reflexivity.
Qed.

Lemma last_index_byte_some d s : forall i, last_index_byte d s = Some i ->
  s = firstn i s ++ d :: skipn (S i) s /\ mem_byte d (skipn (S i) s) = false.
Proof.
  induction s as [|c s IH]; intros i H; [discriminate|]. cbn [last_index_byte] in H.
  destruct (last_index_byte d s) as [j|] eqn:E.
  - inversion H; subst. destruct (IH j eq_refl) as [H1 H2]. cbn [firstn skipn app]. split; [|exact H2].
    f_equal. exact H1.
  - destruct (N.eqb c d) eqn:Ec; [|discriminate]. inversion H; subst. apply N.eqb_eq in Ec. subst c.
    cbn [firstn skipn app]. split; [reflexivity|]. apply last_index_byte_none. exact E.
Qed.

(* the prefix is "directory/partial name" *)
Lemma path_join_app dir n : path_join dir n = path_join dir [] ++ n.
Proof. destruct dir as [|c dir]; [reflexivity|]. cbn [path_join]. rewrite <- app_assoc. reflexivity. Qed.

Lemma file_prefix_shape pre : starts_with slash pre = false ->
  exists dir part, file_prefix pre (Some slash) = (dir, part, true) /\
    pre = path_join dir part /\ mem_byte slash part = false.
Proof.
  intros Hs. unfold file_prefix. rewrite N.eqb_refl. cbn [negb].
  destruct pre as [|c pre]; [exists [], []; cbn; auto|]. cbn [is_nil].
  destruct (last_index_byte slash (c :: pre)) as [i|] eqn:E.
  - destruct (last_index_byte_some _ _ _ E) as [H1 H2].
    exists (firstn i (c :: pre)), (skipn (S i) (c :: pre)). split; [reflexivity|]. split; [|exact H2].
    destruct i as [|i].
    + cbn [firstn skipn app] in H1. inversion H1 as [Hc]. cbn [starts_with] in Hs.
      rewrite Hc, N.eqb_refl in Hs. discriminate.
    + cbn [firstn path_join]. exact H1.
  - exists [], (c :: pre). split; [reflexivity|]. split; [reflexivity|]. apply last_index_byte_none. exact E.
Qed.

(* strings.Split distributes over a separator *)
Lemma split_app d a : forall b, split d (a ++ d :: b) = split d a ++ split d b.
Proof.
  induction a as [|c a IH]; intros b.
  - cbn [app split]. rewrite N.eqb_refl. reflexivity.
  - cbn [app]. destruct (N.eqb c d) eqn:E.
    + rewrite !(split_cons_eq _ _ _ E), IH. reflexivity.
    + destruct (split_cons_ne d c a E) as (h & t & E1 & E2). rewrite E2.
      destruct (split_cons_ne d c (a ++ d :: b) E) as (h' & t' & E1' & E2'). rewrite E2'.
      rewrite IH, E1 in E1'. cbn [app] in E1'. inversion E1'; subst. reflexivity.
Qed.

Lemma clean_nil : clean_key_path [] = false.
Proof. reflexivity. Qed.

Lemma clean_app a b : clean_key_path (a ++ slash :: b) = clean_key_path a && clean_key_path b.
Proof. unfold clean_key_path. rewrite split_app, forallb_app. reflexivity. Qed.

Lemma clean_slash_l b : clean_key_path (slash :: b) = false.
Proof. apply (clean_app [] b). Qed.

Lemma clean_join_nil dir : clean_key_path (path_join dir []) = false.
Proof.
  destruct dir as [|c dir]; [reflexivity|]. cbn [path_join]. rewrite clean_app, clean_nil. apply andb_false_r.
Qed.

(* a clean path is not "dir/" followed by "/..." *)
Lemma clean_join_slash dir r : clean_key_path (path_join dir [] ++ slash :: r) = false.
Proof.
  destruct dir as [|c dir]; [apply clean_slash_l|]. cbn [path_join]. rewrite <- app_assoc.
  change ([slash] ++ slash :: r) with (slash :: slash :: r).
  rewrite clean_app, clean_slash_l. apply andb_false_r.
Qed.

Lemma below_join dir n p : dir <> [] -> below dir p = true -> skipn (S (length dir)) p = n -> p = path_join dir n.
Proof.
  intros Hd Hb Hs. apply below_spec in Hb as [r ->]. destruct dir as [|c dir]; [contradiction|].
  cbn [path_join]. f_equal.
  replace (S (length (c :: dir))) with (length ((c :: dir) ++ [slash])) in Hs by (rewrite app_length; cbn; lia).
  change ((c :: dir) ++ slash :: r) with ((c :: dir) ++ [slash] ++ r) in Hs. rewrite app_assoc, skipn_app_len in Hs.
  subst. reflexivity.
Qed.

(* p is the entry n of directory dir *)
Lemma entry_name_spec dir p n :
  entry_name dir p = Some n <-> p = path_join dir n /\ mem_byte slash n = false /\ n <> [].
Proof.
  unfold entry_name. destruct dir as [|c dir].
  - cbn [path_join]. destruct (mem_byte slash p) eqn:E; cbn [orb].
    + split; [discriminate|]. intros (-> & H & _). congruence.
    + destruct p as [|x p]; cbn [is_nil].
      * split; [discriminate|]. intros (-> & _ & H). contradiction.
      * split; [intros H; inversion H; subst; repeat split; [exact E|discriminate]|].
        intros (-> & _ & _). reflexivity.
  - destruct (below (c :: dir) p) eqn:Eb.
    + remember (skipn (S (length (c :: dir))) p) as r eqn:Hr.
      assert (p = path_join (c :: dir) r) as Hp by (apply below_join; [discriminate|exact Eb|symmetry; exact Hr]).
      clear Hr.
      destruct (mem_byte slash r) eqn:E; cbn [orb].
      * split; [discriminate|]. intros (H1 & H2 & _). rewrite H1 in Hp. cbn [path_join] in Hp.
        apply app_inv_head in Hp. inversion Hp; subst. congruence.
      * destruct r as [|x r']; cbn [is_nil].
        -- split; [discriminate|]. intros (H1 & _ & H3). rewrite H1 in Hp. cbn [path_join] in Hp.
           apply app_inv_head in Hp. inversion Hp; subst. contradiction.
        -- split.
           ++ intros H. inversion H; subst n. repeat split; [exact Hp|exact E|discriminate].
           ++ intros (H1 & _ & _). rewrite H1 in Hp. cbn [path_join] in Hp.
              apply app_inv_head in Hp. inversion Hp; subst. reflexivity.
    + split; [discriminate|]. intros (-> & _ & _). cbn [path_join] in Eb.
      assert (below (c :: dir) ((c :: dir) ++ slash :: n) = true) by (apply below_spec; exists n; reflexivity).
      congruence.
Qed.

Lemma entry_names_In dir l n :
  In n (entry_names dir l) <-> In (path_join dir n) l /\ mem_byte slash n = false /\ n <> [].
Proof.
  unfold entry_names. rewrite in_flat_map. split.
  - intros [p [Hp H]]. destruct (entry_name dir p) as [m|] eqn:E; [|destruct H].
    destruct H as [->|[]]. apply entry_name_spec in E as (-> & H2 & H3). auto.
  - intros (H1 & H2 & H3). exists (path_join dir n). split; [exact H1|].
    rewrite (proj2 (entry_name_spec dir (path_join dir n) n)); [left; reflexivity|auto].
Qed.

Lemma path_join_inj dir a b : path_join dir a = path_join dir b -> a = b.
Proof.
  destruct dir as [|c dir]; [trivial|]. cbn [path_join]. intros H. apply app_inv_head in H. congruence.
Qed.

(* ================================================================================================ *)
(* 3. ReadDir                                                                                       *)
(* ================================================================================================ *)

Lemma read_dir_sorted t dir : sorted (read_dir t dir).
Proof. unfold read_dir. apply fold_set_sorted. apply fold_set_sorted. exact I. Qed.

Lemma read_dir_get t dir n :
  sm_get n (read_dir t dir) =
  if memb n (entry_names dir (t_dirs t)) then Some true
  else if memb n (entry_names dir (t_files t)) then Some false else None.
Proof. unfold read_dir. rewrite !fold_set_get. reflexivity. Qed.

Lemma read_dir_In t dir n b :
  In (n, b) (read_dir t dir) <-> sm_get n (read_dir t dir) = Some b.
Proof. split; [apply in_get; apply read_dir_sorted|apply get_in]. Qed.

(* a sub-directory entry: a directory of the tree whose parent is dir *)
Lemma read_dir_dir t dir n :
  In (n, true) (read_dir t dir) <-> In (path_join dir n) (t_dirs t) /\ mem_byte slash n = false /\ n <> [].
Proof.
  rewrite read_dir_In, read_dir_get, <- entry_names_In.
  destruct (memb n (entry_names dir (t_dirs t))) eqn:E.
  - apply memb_In in E. tauto.
  - apply memb_false in E. destruct (memb n (entry_names dir (t_files t))); split; try discriminate; tauto.
Qed.

(* a file entry: a file of the tree whose parent is dir (and that is not also a directory) *)
Lemma read_dir_file t dir n :
  In (n, false) (read_dir t dir) <->
  In (path_join dir n) (t_files t) /\ ~ In (path_join dir n) (t_dirs t) /\ mem_byte slash n = false /\ n <> [].
Proof.
  rewrite read_dir_In, read_dir_get.
  destruct (memb n (entry_names dir (t_dirs t))) eqn:E.
  - apply memb_In in E. apply entry_names_In in E. split; [discriminate|tauto].
  - apply memb_false in E. rewrite entry_names_In in E.
    destruct (memb n (entry_names dir (t_files t))) eqn:F.
    + apply memb_In in F. apply entry_names_In in F. split; [intros _|reflexivity]. tauto.
    + apply memb_false in F. rewrite entry_names_In in F. split; [discriminate|]. tauto.
Qed.

(* ================================================================================================ *)
(* 4. the loop of getBucketWithFilePrefixLocked                                                     *)
(* ================================================================================================ *)

Lemma skip_cond part n : negb (is_nil part) && negb (prefixb part n) = negb (prefixb part n).
Proof. destruct part; reflexivity. Qed.

(* the entries the loop keeps: name begins with the partial name, and file / directory *)
Definition sel (part : bytes) (b : bool) (e : bytes * bool) : bool :=
  prefixb part (fst e) && Bool.eqb (snd e) b.

Lemma loop_eq path part es : forall cs ps,
  fs_entries_loop path part es cs ps =
  (cs ++ map (fun e => path_join path (fst e)) (filter (sel part false) es),
   fold_left addp (map (fun e => path_join path (fst e) ++ [slash]) (filter (sel part true) es)) ps).
Proof.
  induction es as [|[n b] es IH]; intros cs ps.
  - cbn. rewrite app_nil_r. reflexivity.
  - cbn [fs_entries_loop]. rewrite skip_cond. cbn [filter].
    replace (sel part false (n, b)) with (prefixb part n && negb b) by (unfold sel; destruct b; reflexivity).
    replace (sel part true (n, b)) with (prefixb part n && b) by (unfold sel; destruct b; reflexivity).
    destruct (prefixb part n); cbn [negb andb]; [|apply IH].
    destruct b; cbn [negb]; rewrite IH; cbn [map fold_left fst].
    + reflexivity.
    + rewrite <- app_assoc. reflexivity.
Qed.

Definition fs_contents (t : tree) (dir part : bytes) : list bytes :=
  map (fun e => path_join dir (fst e)) (filter (sel part false) (read_dir t dir)).
Definition fs_prefixes (t : tree) (dir part : bytes) : list bytes :=
  dedup (map (fun e => path_join dir (fst e) ++ [slash]) (filter (sel part true) (read_dir t dir))).

Definition fs_exit (t : tree) (dir : bytes) : bool :=
  negb (is_nil dir) && (negb (is_dir t dir) || negb (clean_key_path dir)).

Lemma file_prefix_run t dir part :
  fs_list_file_prefix t dir part =
  Some (if fs_exit t dir then ([], []) else (fs_contents t dir part, fs_prefixes t dir part)).
Proof.
  unfold fs_list_file_prefix, fs_exit.
  destruct (negb (is_nil dir) && (negb (is_dir t dir) || negb (clean_key_path dir))) eqn:E; [reflexivity|].
  assert (is_dir t dir = true) as Hd.
  { unfold is_dir in *. destruct (is_nil dir); [reflexivity|]. cbn [negb andb orb] in *.
    apply orb_false_iff in E as [E _]. destruct (memb dir (t_dirs t)); [reflexivity|discriminate]. }
  unfold read_dir_opt. rewrite Hd, loop_eq. cbn [app]. unfold fs_contents, fs_prefixes.
  rewrite fold_addp_nil. reflexivity.
Qed.

(* the listing never fails *)
Lemma fs_list_total t pre delim : exists cs ps, fs_list t pre delim = Some (cs, ps).
Proof.
  unfold fs_list. destruct (file_prefix pre delim) as [[dir part] ok]. destruct ok.
  - rewrite file_prefix_run. destruct (fs_exit t dir); eauto.
  - unfold fs_list_arbitrary. eauto.
Qed.

Lemma fs_contents_In t dir part c :
  In c (fs_contents t dir part) <->
  exists n, c = path_join dir n /\ prefixb part n = true /\ In (n, false) (read_dir t dir).
Proof.
  unfold fs_contents. rewrite in_map_iff. split.
  - intros [[n b] [<- H]]. apply filter_In in H as [H1 H2]. unfold sel in H2. cbn [fst snd] in *.
    apply andb_prop in H2 as [H2 H3]. destruct b; [discriminate|]. exists n. auto.
  - intros [n (-> & H1 & H2)]. exists (n, false). split; [reflexivity|]. apply filter_In. split; [exact H2|].
    unfold sel. cbn [fst snd]. rewrite H1. reflexivity.
Qed.

Lemma fs_prefixes_In t dir part p :
  In p (fs_prefixes t dir part) <->
  exists n, p = path_join dir n ++ [slash] /\ prefixb part n = true /\ In (n, true) (read_dir t dir).
Proof.
  unfold fs_prefixes. rewrite dedup_In, in_map_iff. split.
  - intros [[n b] [<- H]]. apply filter_In in H as [H1 H2]. unfold sel in H2. cbn [fst snd] in *.
    apply andb_prop in H2 as [H2 H3]. destruct b; [|discriminate]. exists n. auto.
  - intros [n (-> & H1 & H2)]. exists (n, true). split; [reflexivity|]. apply filter_In. split; [exact H2|].
    unfold sel. cbn [fst snd]. rewrite H1. reflexivity.
Qed.

Lemma fs_contents_sasc t dir part : sasc (fs_contents t dir part).
Proof.
  unfold fs_contents.
  rewrite (map_ext _ (fun e => (fun x => path_join dir [] ++ x) (fst e))) by (intros e; apply path_join_app).
  rewrite <- (map_map fst (fun x => path_join dir [] ++ x)). apply sasc_map_app. apply sorted_sasc.
  apply sorted_filter. apply read_dir_sorted.
Qed.

Lemma fs_prefixes_NoDup t dir part : NoDup (fs_prefixes t dir part).
Proof. apply dedup_nodup. Qed.

(* ================================================================================================ *)
(* 5. the spec, by membership                                                                       *)
(* ================================================================================================ *)

Lemma mr_eqb_content m : mr_eqb m MContent = true <-> m = MContent.
Proof. destruct m; cbn; split; congruence. Qed.

Lemma spec_contents_In pre delim keys c :
  In c (spec_contents pre delim keys) <-> In c keys /\ classify pre delim c = MContent.
Proof. unfold spec_contents. rewrite filter_In, mr_eqb_content. tauto. Qed.

Lemma spec_prefixes_In pre delim keys p :
  In p (spec_prefixes pre delim keys) <-> exists k, In k keys /\ classify pre delim k = MCommon p.
Proof.
  unfold spec_prefixes. rewrite dedup_In, in_flat_map. split.
  - intros [k [Hk H]]. exists k. split; [exact Hk|]. destruct (classify pre delim k); try destruct H.
    + subst. reflexivity.
    + destruct H.
  - intros [k [Hk H]]. exists k. split; [exact Hk|]. rewrite H. left. reflexivity.
Qed.

Lemma spec_contents_sasc pre delim keys : sasc keys -> sasc (spec_contents pre delim keys).
Proof. apply sasc_filter. Qed.

Lemma classify_nomatch pre delim k : classify pre delim k = NoMatch <-> prefixb pre k = false.
Proof.
  unfold classify. destruct (prefixb pre k); [|tauto]. split; [|discriminate].
  destruct delim as [d|]; [|discriminate]. destruct (index_byte d (skipn (length pre) k)); discriminate.
Qed.

Lemma index_byte_split d s : forall i, index_byte d s = Some i ->
  exists a b, s = a ++ d :: b /\ mem_byte d a = false /\ firstn (S i) s = a ++ [d].
Proof.
  induction s as [|c s IH]; intros i H; [discriminate|].
  cbn [index_byte] in H. destruct (N.eqb c d) eqn:E.
  - inversion H; subst. apply N.eqb_eq in E; subst. exists [], s. repeat split; reflexivity.
  - destruct (index_byte d s) as [j|]; [|discriminate]. inversion H; subst.
    destruct (IH j eq_refl) as (a & b & Ha & Hm & Hb). exists (c :: a), b. repeat split.
    + cbn [app]. f_equal. exact Ha.
    + rewrite mem_byte_cons, (N.eqb_sym d c), E, Hm. reflexivity.
    + change (firstn (S (S j)) (c :: s)) with (c :: firstn (S j) s). rewrite Hb. reflexivity.
Qed.

Lemma firstn_app_S {A} (a : list A) x b : firstn (S (length a)) (a ++ x :: b) = a ++ [x].
Proof. induction a as [|y a IH]; [reflexivity|]. cbn [length app]. rewrite firstn_cons, IH. reflexivity. Qed.

Lemma classify_content_iff pre d c :
  classify pre (Some d) c = MContent <-> exists r, c = pre ++ r /\ mem_byte d r = false.
Proof.
  unfold classify. split.
  - destruct (prefixb pre c) eqn:E; [|discriminate]. apply prefixb_app in E.
    destruct (index_byte d (skipn (length pre) c)) eqn:F; [discriminate|]. intros _.
    exists (skipn (length pre) c). split; [exact E|]. apply index_byte_none. exact F.
  - intros [r [-> H]]. rewrite prefixb_app_r, skipn_app_len. apply index_byte_none in H. rewrite H. reflexivity.
Qed.

Lemma classify_common_iff pre d k p :
  classify pre (Some d) k = MCommon p <->
  exists r1 r2, k = pre ++ r1 ++ d :: r2 /\ mem_byte d r1 = false /\ p = pre ++ r1 ++ [d].
Proof.
  unfold classify. split.
  - destruct (prefixb pre k) eqn:E; [|discriminate]. apply prefixb_app in E.
    destruct (index_byte d (skipn (length pre) k)) as [i|] eqn:F; [|discriminate]. intros H.
    destruct (index_byte_split _ _ _ F) as (a & b & Ha & Hm & Hb). rewrite Hb in H. exists a, b.
    split; [rewrite <- Ha; exact E|]. split; [exact Hm|]. congruence.
  - intros (r1 & r2 & -> & Hm & ->). rewrite prefixb_app_r, skipn_app_len, (index_byte_app _ _ _ Hm), firstn_app_S.
    reflexivity.
Qed.

(* ================================================================================================ *)
(* 6. key sets a directory tree can hold, and their trees                                           *)
(* ================================================================================================ *)

Lemma storable_clean keys k : fs_storable keys = true -> In k keys -> clean_key_path k = true.
Proof.
  unfold fs_storable. intros H Hk. apply andb_prop in H as [H _]. rewrite forallb_forall in H. auto.
Qed.

Lemma storable_not_below keys k k' : fs_storable keys = true -> In k keys -> In k' keys -> below k k' = false.
Proof.
  unfold fs_storable. intros H Hk Hk'. apply andb_prop in H as [_ H]. rewrite forallb_forall in H.
  specialize (H k Hk). apply negb_true_iff in H. eapply existsb_below_false; eassumption.
Qed.

Lemma tree_dirs_In keys d : In d (t_dirs (tree_of keys)) <-> exists k, In k keys /\ below d k = true.
Proof.
  unfold tree_of. cbn [t_dirs]. rewrite In_tree_dirs. split.
  - intros [[k [H1 H2]]|[]]. exists k. split; [exact H1|apply ancestors_below; exact H2].
  - intros [k [H1 H2]]. left. exists k. split; [exact H1|apply ancestors_below; exact H2].
Qed.

Lemma below_join_spec dir n k : below (path_join dir [] ++ n) k = true <-> exists r, k = path_join dir [] ++ n ++ slash :: r.
Proof.
  rewrite below_spec. split; intros [r H]; exists r; rewrite H; [rewrite <- app_assoc|rewrite app_assoc]; reflexivity.
Qed.

Lemma path_join_app2 dir a b : path_join dir (a ++ b) = path_join dir a ++ b.
Proof. rewrite (path_join_app dir a), (path_join_app dir (a ++ b)), app_assoc. reflexivity. Qed.

(* in a tidy tree the directories are exactly the proper ancestors of the files *)
Definition dirs_are_ancestors (t : tree) : Prop :=
  forall d, In d (t_dirs t) <-> exists k, In k (t_files t) /\ below d k = true.

Lemma tidy_dirs t : tidy t -> dirs_are_ancestors t.
Proof.
  intros [H1 H2] d. split.
  - intros Hd. apply existsb_below. apply H1. exact Hd.
  - intros [k [Hk Hb]]. apply memb_In. apply (H2 k d Hk). apply ancestors_below. exact Hb.
Qed.

(* ================================================================================================ *)
(* 7. one ReadDir against the spec                                                                  *)
(* ================================================================================================ *)

Section Bridge.
Variables (t : tree) (dir part pre : bytes).
Hypothesis Hdirs : dirs_are_ancestors t.
Hypothesis Hst : fs_storable (t_files t) = true.
Hypothesis Hpre : pre = path_join dir part.
Hypothesis Hpart : mem_byte slash part = false.

Lemma bridge_contents c :
  In c (fs_contents t dir part) <-> In c (spec_contents pre (Some slash) (t_files t)).
Proof.
  rewrite fs_contents_In, spec_contents_In, classify_content_iff. split.
  - intros [n (-> & Hp & Hin)]. apply read_dir_file in Hin as (H1 & H2 & H3 & H4). split; [exact H1|].
    apply prefixb_spec in Hp as [r ->]. exists r. split; [rewrite Hpre; apply path_join_app2|].
    rewrite mem_byte_app in H3. apply orb_false_iff in H3. tauto.
  - intros [Hk [r [-> Hr]]]. exists (part ++ r). rewrite Hpre, <- path_join_app2 in *.
    split; [reflexivity|]. split; [apply prefixb_app_r|]. apply read_dir_file. split; [exact Hk|]. split; [|split].
    + intros Hd. apply Hdirs in Hd as [k [Hk' Hb]].
      rewrite (storable_not_below _ _ _ Hst Hk Hk') in Hb. discriminate.
    + rewrite mem_byte_app, Hpart, Hr. reflexivity.
    + intros E. rewrite E in Hk. pose proof (storable_clean _ _ Hst Hk) as Hc.
      rewrite clean_join_nil in Hc. discriminate.
Qed.

Lemma bridge_prefixes p :
  In p (fs_prefixes t dir part) <-> In p (spec_prefixes pre (Some slash) (t_files t)).
Proof.
  rewrite fs_prefixes_In, spec_prefixes_In. split.
  - intros [n (-> & Hp & Hin)]. apply read_dir_dir in Hin as (H1 & H2 & H3).
    apply Hdirs in H1 as [k [Hk Hb]]. exists k. split; [exact Hk|]. apply classify_common_iff.
    apply prefixb_spec in Hp as [r1 ->]. rewrite path_join_app2, <- Hpre in Hb.
    apply below_spec in Hb as [r2 ->]. exists r1, r2. rewrite mem_byte_app in H2. apply orb_false_iff in H2.
    rewrite path_join_app2, <- Hpre, <- !app_assoc. repeat split; tauto.
  - intros [k [Hk Hc]]. apply classify_common_iff in Hc as (r1 & r2 & -> & Hm & ->).
    exists (part ++ r1). rewrite path_join_app2, <- Hpre, <- app_assoc. split; [reflexivity|].
    split; [apply prefixb_app_r|]. apply read_dir_dir. split; [|split].
    + apply Hdirs. exists (pre ++ r1 ++ slash :: r2). split; [exact Hk|]. apply below_spec. exists r2.
      rewrite path_join_app2, <- Hpre, <- app_assoc. reflexivity.
    + rewrite mem_byte_app, Hpart, Hm. reflexivity.
    + intros E. apply app_eq_nil in E as [E1 E2]. subst part r1. cbn [app] in Hk. rewrite Hpre in Hk.
      pose proof (storable_clean _ _ Hst Hk) as Hc. rewrite clean_join_slash in Hc. discriminate.
Qed.

(* the early exit is taken only when no key begins with the prefix *)
Lemma exit_no_match k : fs_exit t dir = true -> In k (t_files t) -> prefixb pre k = false.
Proof.
  intros He Hk. destruct (prefixb pre k) eqn:E; [|reflexivity]. exfalso.
  apply prefixb_spec in E as [r ->]. unfold fs_exit in He. destruct dir as [|c dir']; [discriminate|].
  cbn [is_nil negb andb] in He. rewrite Hpre in Hk. cbn [path_join] in Hk. rewrite <- app_assoc in Hk.
  cbn [app] in Hk. change (c :: dir' ++ slash :: part ++ r) with ((c :: dir') ++ slash :: part ++ r) in Hk.
  pose proof (storable_clean _ _ Hst Hk) as Hc. rewrite clean_app in Hc. apply andb_prop in Hc as [Hc _].
  rewrite Hc in He. cbn [negb] in He. rewrite orb_false_r in He.
  assert (is_dir t (c :: dir') = true) as Hd.
  { unfold is_dir. cbn [is_nil orb]. apply memb_In. apply Hdirs. eexists. split; [exact Hk|].
    apply below_spec. eexists. reflexivity. }
  rewrite Hd in He. discriminate.
Qed.
End Bridge.

(* ================================================================================================ *)
(* 8. the theorems                                                                                  *)
(* ================================================================================================ *)

(* delimiter "/": Contents are the spec's, as a list; CommonPrefixes are the spec's, each once *)
Theorem fs_list_slash_tidy t pre :
  tidy t -> sasc (t_files t) -> fs_storable (t_files t) = true -> starts_with slash pre = false ->
  exists ps, fs_list t pre (Some slash) = Some (spec_contents pre (Some slash) (t_files t), ps) /\
             NoDup ps /\ (forall p, In p ps <-> In p (spec_prefixes pre (Some slash) (t_files t))).
Proof.
  intros Ht Hs Hst Hp. apply tidy_dirs in Ht.
  destruct (file_prefix_shape pre Hp) as (dir & part & Hf & Hpre & Hpart).
  unfold fs_list. rewrite Hf, file_prefix_run. destruct (fs_exit t dir) eqn:Ex.
  - assert (forall k, In k (t_files t) -> classify pre (Some slash) k = NoMatch) as Hn.
    { intros k Hk. apply classify_nomatch. eapply exit_no_match; eassumption. }
    exists []. split; [|split; [constructor|]].
    + f_equal. f_equal. apply sasc_ext; [exact I|apply spec_contents_sasc; exact Hs|].
      intros c. rewrite spec_contents_In. split; [intros []|]. intros [Hk Hc]. rewrite (Hn c Hk) in Hc. discriminate.
    + intros p. rewrite spec_prefixes_In. split; [intros []|]. intros [k [Hk Hc]]. rewrite (Hn k Hk) in Hc. discriminate.
  - exists (fs_prefixes t dir part). split; [|split; [apply fs_prefixes_NoDup|]].
    + f_equal. f_equal. apply sasc_ext; [apply fs_contents_sasc|apply spec_contents_sasc; exact Hs|].
      intros c. eapply bridge_contents; eassumption.
    + intros p. eapply bridge_prefixes; eassumption.
Qed.

Theorem fs_list_slash keys pre :
  ascending keys -> fs_storable keys = true -> starts_with slash pre = false ->
  exists ps, fs_list (tree_of keys) pre (Some slash) = Some (spec_contents pre (Some slash) keys, ps) /\
             NoDup ps /\ (forall p, In p ps <-> In p (spec_prefixes pre (Some slash) keys)) /\
             Permutation ps (spec_prefixes pre (Some slash) keys).
Proof.
  intros Ha Hst Hp.
  destruct (fs_list_slash_tidy (tree_of keys) pre (tree_of_tidy keys) (ascending_sasc _ Ha) Hst Hp)
    as (ps & H1 & H2 & H3).
  exists ps. repeat split; try assumption; try (apply H3).
  apply NoDup_Permutation; [exact H2|apply dedup_nodup|exact H3].
Qed.

Theorem fs_list_slash_contents_ascending keys pre : ascending keys ->
  ascending (spec_contents pre (Some slash) keys).
Proof. intros H. apply sasc_ascending, spec_contents_sasc, ascending_sasc, H. Qed.

(* no delimiter: the Walk, filtered and sorted, is the spec's Contents; no CommonPrefixes *)
Lemma classify_nodelim_cases pre k :
  negb (mr_eqb (classify pre None k) NoMatch) = mr_eqb (classify pre None k) MContent.
Proof. unfold classify. destruct (prefixb pre k); reflexivity. Qed.

Theorem fs_list_nodelim_files t pre : sasc (t_files t) ->
  fs_list t pre None = Some (spec_contents pre None (t_files t), []).
Proof.
  intros Hs. unfold fs_list, file_prefix, fs_list_arbitrary. f_equal. f_equal.
  rewrite (filter_ext _ (fun k => mr_eqb (classify pre None k) MContent)).
  - apply sort_keys_sasc. apply sasc_filter. exact Hs.
  - intros k. rewrite match_eq_classify_nodelim. apply classify_nodelim_cases.
Qed.

Theorem fs_list_nodelim keys pre : ascending keys ->
  fs_list (tree_of keys) pre None = Some (spec_contents pre None keys, []).
Proof. intros H. apply (fs_list_nodelim_files (tree_of keys)). apply ascending_sasc. exact H. Qed.

(* any other delimiter: every key that begins with the prefix is a Content, grouped or not, and
   there are no CommonPrefixes *)
Lemma classify_match_prefixb pre d k : negb (mr_eqb (classify pre (Some d) k) NoMatch) = prefixb pre k.
Proof.
  unfold classify. destruct (prefixb pre k); [|reflexivity].
  destruct (index_byte d (skipn (length pre) k)); reflexivity.
Qed.

Theorem fs_list_other_delimiter keys pre d :
  d <> slash -> ascending keys -> Forall (key_ok (Some d)) keys -> pre_ok (Some d) pre ->
  fs_list (tree_of keys) pre (Some d) = Some (filter (prefixb pre) keys, []).
Proof.
  intros Hd Ha Hk Hp. unfold fs_list, file_prefix. apply N.eqb_neq in Hd. rewrite Hd. cbn [negb].
  unfold fs_list_arbitrary. cbn [tree_of t_files]. f_equal. f_equal.
  rewrite (filter_ext_in _ (prefixb pre)).
  - apply sort_keys_sasc. apply sasc_filter. apply ascending_sasc. exact Ha.
  - intros k Hin. rewrite Forall_forall in Hk. rewrite (match_eq_classify pre (Some d) k Hp (Hk k Hin)).
    apply classify_match_prefixb.
Qed.

(* ---- the property in its own words ------------------------------------------------------------- *)

(* a key is shown -- under Contents, or by the common prefix "prefix + its segment up to and
   including the first /" -- iff it begins with the prefix; every Content is a key that begins with
   the prefix; every CommonPrefix is the group of some key that begins with the prefix; nothing is
   shown twice *)
Theorem fs_list_slash_shown keys pre cs ps :
  ascending keys -> fs_storable keys = true -> starts_with slash pre = false ->
  fs_list (tree_of keys) pre (Some slash) = Some (cs, ps) ->
  (forall k, In k keys ->
     (prefixb pre k = true <->
      In k cs \/ exists p, In p ps /\ classify pre (Some slash) k = MCommon p)) /\
  (forall c, In c cs -> In c keys /\ prefixb pre c = true /\ classify pre (Some slash) c = MContent) /\
  (forall p, In p ps -> exists k, In k keys /\ prefixb pre k = true /\ prefixb p k = true /\
                                  classify pre (Some slash) k = MCommon p) /\
  NoDup cs /\ NoDup ps /\ ascending cs.
Proof.
  intros Ha Hst Hp Hl. destruct (fs_list_slash keys pre Ha Hst Hp) as (ps' & H1 & H2 & H3 & _).
  rewrite Hl in H1. inversion H1; subst cs ps'. clear H1.
  assert (forall k, classify pre (Some slash) k <> NoMatch -> prefixb pre k = true) as Hm.
  { intros k H. destruct (prefixb pre k) eqn:E; [reflexivity|]. apply (proj2 (classify_nomatch pre (Some slash) k)) in E. contradiction. }
  split; [|split; [|split; [|split; [|split]]]].
  - intros k Hk. split.
    + intros Hpk. destruct (classify pre (Some slash) k) as [| |p] eqn:Ec.
      * apply classify_nomatch in Ec. congruence.
      * left. apply spec_contents_In. auto.
      * right. exists p. split; [|reflexivity]. apply H3. apply spec_prefixes_In. exists k. auto.
    + intros [Hc|[p [_ Hc]]].
      * apply spec_contents_In in Hc as [_ Hc]. apply Hm. congruence.
      * apply Hm. congruence.
  - intros c Hc. apply spec_contents_In in Hc as [Hk Hc]. repeat split; [exact Hk| |exact Hc]. apply Hm. congruence.
  - intros p Hin. apply H3 in Hin. apply spec_prefixes_In in Hin as [k [Hk Hc]]. exists k.
    repeat split; [exact Hk| | |exact Hc].
    + apply Hm. congruence.
    + apply (classify_common_is_prefix pre slash k p Hc).
  - apply sasc_NoDup, spec_contents_sasc, ascending_sasc, Ha.
  - exact H2.
  - apply fs_list_slash_contents_ascending. exact Ha.
Qed.

(* ================================================================================================ *)
(* 9. where algorithm and spec differ                                                               *)
(* ================================================================================================ *)

(* The statement one would like --
     fs_list (tree_of keys) pre (Some slash)
       = Some (spec_contents pre (Some slash) keys, spec_prefixes pre (Some slash) keys)
   -- is false: ReadDir sorts the directories by NAME ("a" < "a-b"), the spec (and S3, and the other
   backends) order the common prefixes as strings, that is by name + "/" ("a-b/" < "a/" because
   '-' < '/').  Keys a-b/x and a/x. *)
Definition ex_order_keys : list bytes := [[97; 45; 98; 47; 120]; [97; 47; 120]]%N.

Lemma fs_list_slash_prefix_order_refuted :
  exists keys pre, ascending keys /\ fs_storable keys = true /\ starts_with slash pre = false /\
    fs_list (tree_of keys) pre (Some slash)
    <> Some (spec_contents pre (Some slash) keys, spec_prefixes pre (Some slash) keys).
Proof.
  exists ex_order_keys, []. split; [vm_compute; auto|]. split; [vm_compute; reflexivity|].
  split; [reflexivity|]. vm_compute. discriminate.
Qed.

(* what the two sides are in that example *)
Example fs_list_slash_prefix_order_example :
  fs_list (tree_of ex_order_keys) [] (Some slash) = Some ([], [[97; 47]; [97; 45; 98; 47]]%N) /\
  spec_prefixes [] (Some slash) ex_order_keys = [[97; 45; 98; 47]; [97; 47]]%N.
Proof. vm_compute. auto. Qed.

(* With a delimiter other than "/" the backend groups nothing: keys a-1 and a-2, delimiter "-".  The
   spec has no Contents and the CommonPrefix "a-"; the backend answers both keys and no prefix. *)
Definition ex_dash_keys : list bytes := [[97; 45; 49]; [97; 45; 50]]%N.

Lemma fs_list_other_delimiter_refuted :
  exists keys pre d, d <> slash /\ ascending keys /\ fs_storable keys = true /\
    Forall (key_ok (Some d)) keys /\ pre_ok (Some d) pre /\
    exists cs ps, fs_list (tree_of keys) pre (Some d) = Some (cs, ps) /\
      cs <> spec_contents pre (Some d) keys /\ ps <> spec_prefixes pre (Some d) keys.
Proof.
  exists ex_dash_keys, [], 45%N. split; [discriminate|]. split; [vm_compute; auto|].
  split; [vm_compute; reflexivity|]. split; [repeat constructor|]. split; [reflexivity|].
  eexists. eexists. split; [vm_compute; reflexivity|]. split; vm_compute; discriminate.
Qed.

(* the hypothesis on the prefix is needed: prefix "/a", key "a" *)
Lemma fs_list_leading_slash_prefix_refuted :
  exists keys pre, ascending keys /\ fs_storable keys = true /\
    exists cs ps, fs_list (tree_of keys) pre (Some slash) = Some (cs, ps) /\
      cs <> spec_contents pre (Some slash) keys.
Proof.
  exists [[97]%N], [47; 97]%N. split; [exact I|]. split; [reflexivity|].
  eexists. eexists. split; [vm_compute; reflexivity|]. vm_compute. discriminate.
Qed.

(* ---- known finding D34: directories no key lies below ------------------------------------------ *)

(* a top-level directory without any file below it (Model/CrashDirs.v phantoms: what a killed
   upload or delete leaves) is listed as a common prefix although no key begins with it *)
Theorem fs_list_phantom_prefix t d :
  In d (phantoms t) -> mem_byte slash d = false -> d <> [] ->
  exists cs ps, fs_list t [] (Some slash) = Some (cs, ps) /\ In (d ++ [slash]) ps /\
                forall k, In k (t_files t) -> prefixb (d ++ [slash]) k = false.
Proof.
  intros Hd Hm Hn. unfold phantoms in Hd. apply filter_In in Hd as [Hd Hf].
  exists (fs_contents t [] []), (fs_prefixes t [] []). split; [|split].
  - unfold fs_list. cbn [file_prefix N.eqb slash Pos.eqb negb is_nil]. rewrite file_prefix_run. reflexivity.
  - apply fs_prefixes_In. exists d. split; [reflexivity|]. split; [reflexivity|]. apply read_dir_dir. auto.
  - intros k Hk. apply negb_true_iff in Hf. apply (existsb_below_false _ _ _ Hf Hk).
Qed.

(* and such a tree is not tidy: the main theorem does not apply to it *)
Lemma phantom_not_tidy t d : In d (phantoms t) -> ~ tidy t.
Proof.
  intros Hd [H1 _]. unfold phantoms in Hd. apply filter_In in Hd as [Hd Hf].
  rewrite (H1 d Hd) in Hf. discriminate.
Qed.

(* PUT e/f/g killed after MkdirAll, next to the key b: the listing shows e/ *)
Example fs_list_phantom_example :
  let t := run_dops (tree_of [[98]%N]) (firstn 1 (put_dops (tree_of [[98]%N]) [101; 47; 102; 47; 103]%N)) in
  phantoms t = [[101; 47; 102]; [101]]%N /\
  fs_list t [] (Some slash) = Some ([[98]%N], [[101; 47]%N]) /\
  spec_prefixes [] (Some slash) (t_files t) = [].
Proof. vm_compute. auto. Qed.

(* ================================================================================================ *)
(* 10. non-vacuity                                                                                  *)
(* ================================================================================================ *)

(* a-b/x  a/b/c  a/b/d  a/bc  a/e  b  c/.x  c/d *)
Definition ex_keys : list bytes :=
  [[97; 45; 98; 47; 120]; [97; 47; 98; 47; 99]; [97; 47; 98; 47; 100]; [97; 47; 98; 99];
   [97; 47; 101]; [98]; [99; 47; 46; 120]; [99; 47; 100]]%N.

Example ex_keys_storable : fs_storable ex_keys = true /\ ascending ex_keys.
Proof. vm_compute. auto 10. Qed.

(* a key above another key, a key with an empty segment: not storable *)
Example ex_not_storable :
  fs_storable [[97]; [97; 47; 98]]%N = false /\ fs_storable [[97; 47; 47; 98]]%N = false /\
  fs_storable [[46; 46; 47; 98]]%N = false /\ fs_storable [[]] = false.
Proof. vm_compute. auto. Qed.

(* prefix "a/b" *)
Example ex_list_a_b :
  fs_list (tree_of ex_keys) [97; 47; 98]%N (Some slash)
  = Some ([[97; 47; 98; 99]%N], [[97; 47; 98; 47]%N]) /\
  spec_contents [97; 47; 98]%N (Some slash) ex_keys = [[97; 47; 98; 99]%N] /\
  spec_prefixes [97; 47; 98]%N (Some slash) ex_keys = [[97; 47; 98; 47]%N].
Proof. vm_compute. auto. Qed.

(* early exits: "a/bc/" names a file, "a//" is not clean, "x/" does not exist *)
Example ex_list_exits :
  fs_list (tree_of ex_keys) [97; 47; 98; 99; 47]%N (Some slash) = Some ([], []) /\
  fs_list (tree_of ex_keys) [97; 47; 47]%N (Some slash) = Some ([], []) /\
  fs_list (tree_of ex_keys) [120; 47]%N (Some slash) = Some ([], []).
Proof. vm_compute. auto. Qed.

(* ================================================================================================ *)
(* 11. the order of the common prefixes, the domain of the memory theorems, the memory backend       *)
(* ================================================================================================ *)

Lemma sasc_map_filter {A} (f : A -> bytes) g l : sasc (map f l) -> sasc (map f (filter g l)).
Proof.
  induction l as [|a l IH]; [trivial|]. cbn [map sasc filter]. intros [H1 H2].
  destruct (g a); [|apply IH; exact H2]. cbn [map sasc]. split; [|apply IH; exact H2].
  rewrite Forall_forall in H1. apply Forall_forall. intros y Hy. apply H1.
  apply in_map_iff in Hy as [x [<- Hx]]. apply filter_In in Hx as [Hx _]. apply in_map. exact Hx.
Qed.

Lemma sasc_map_dedup (f : bytes -> bytes) l : sasc (map f l) -> sasc (map f (dedup l)).
Proof.
  induction l as [|a l IH]; [trivial|]. cbn [map sasc dedup]. intros [H1 H2]. split.
  - rewrite Forall_forall in H1. apply Forall_forall. intros y Hy. apply H1.
    apply in_map_iff in Hy as [x [<- Hx]]. apply filter_In in Hx as [Hx _]. apply (proj1 (dedup_In _ _)) in Hx.
    apply in_map. exact Hx.
  - apply sasc_map_filter. apply IH. exact H2.
Qed.

Lemma entries_paths_sasc t dir f :
  sasc (map (fun e => path_join dir (fst e)) (filter f (read_dir t dir))).
Proof.
  rewrite (map_ext _ (fun e => (fun x => path_join dir [] ++ x) (fst e))) by (intros e; apply path_join_app).
  rewrite <- (map_map fst (fun x => path_join dir [] ++ x)). apply sasc_map_app. apply sorted_sasc.
  apply sorted_filter. apply read_dir_sorted.
Qed.

(* the common prefixes come in the order of the directory names: ascending once the final "/" is
   taken off.  With NoDup and the membership this determines the list. *)
Lemma fs_prefixes_by_name t dir part : sasc (map (@removelast N) (fs_prefixes t dir part)).
Proof.
  unfold fs_prefixes. apply sasc_map_dedup. rewrite map_map.
  rewrite (map_ext _ (fun e => path_join dir (fst e))) by (intros e; apply removelast_last).
  apply entries_paths_sasc.
Qed.

Theorem fs_list_slash_prefixes_by_name t pre cs ps :
  fs_list t pre (Some slash) = Some (cs, ps) -> ascending (map (@removelast N) ps).
Proof.
  unfold fs_list. destruct (file_prefix pre (Some slash)) as [[dir part] ok] eqn:E.
  assert (ok = true) as ->.
  { unfold file_prefix in E. rewrite N.eqb_refl in E. cbn [negb] in E. destruct (is_nil pre); [congruence|].
    destruct (last_index_byte slash pre); congruence. }
  rewrite file_prefix_run. intros H. inversion H as [H']. destruct (fs_exit t dir); inversion H'; subst.
  - exact I.
  - apply sasc_ascending. apply fs_prefixes_by_name.
Qed.

(* storable keys are inside the domain of the memory theorems of C03 *)
Lemma clean_key_ok k : clean_key_path k = true -> key_ok (Some slash) k.
Proof.
  intros Hc. unfold key_ok, ends_with. split.
  - destruct k as [|c k]; [reflexivity|]. cbn [starts_with]. destruct (N.eqb c slash) eqn:E; [|reflexivity].
    apply N.eqb_eq in E. subst c. rewrite clean_slash_l in Hc. discriminate.
  - destruct (rev k) as [|c r] eqn:Er; [reflexivity|]. cbn [starts_with].
    destruct (N.eqb c slash) eqn:E; [|reflexivity]. apply N.eqb_eq in E. subst c.
    assert (k = rev r ++ [slash]) as -> by (rewrite <- (rev_involutive k), Er; reflexivity).
    rewrite clean_app, clean_nil, andb_false_r in Hc. discriminate.
Qed.

Lemma storable_key_ok keys : fs_storable keys = true -> Forall (key_ok (Some slash)) keys.
Proof. intros H. apply Forall_forall. intros k Hk. apply clean_key_ok. eapply storable_clean; eassumption. Qed.

(* the two backends side by side: a memory bucket and the directory tree of its live keys give the
   same Contents and the same set of CommonPrefixes *)
Theorem fs_list_agrees_with_memory (items : list (list N * obj)) pre :
  sorted items -> ListExact.data_some items -> fs_storable (live_keys items) = true ->
  starts_with slash pre = false ->
  exists ps, fs_list (tree_of (live_keys items)) pre (Some slash)
             = Some (map fst (lr_contents (unpaged pre (Some slash) items)), ps) /\
             Permutation ps (lr_prefixes (unpaged pre (Some slash) items)).
Proof.
  intros Hs Hd Hst Hp.
  assert (ascending (live_keys items)) as Ha by (apply sasc_ascending, sasc_live, sorted_sasc, Hs).
  destruct (fs_list_slash _ pre Ha Hst Hp) as (ps & H1 & _ & _ & H4). exists ps.
  assert (forall k, In k (live_keys items) -> prefix_match pre (Some slash) k = classify pre (Some slash) k) as Hm.
  { intros k Hk. apply match_eq_classify; [exact Hp|]. apply clean_key_ok. eapply storable_clean; eassumption. }
  rewrite (unpaged_contents pre (Some slash) items Hd), (unpaged_prefixes pre (Some slash) items Hd).
  unfold spec_contents, spec_prefixes, commons in *. split.
  - rewrite H1. f_equal. f_equal. apply filter_ext_in. intros k Hk. rewrite (Hm k Hk). reflexivity.
  - erewrite flat_map_ext_in'; [exact H4|]. intros k Hk. cbv beta. rewrite (Hm k Hk). reflexivity.
Qed.

(* ================================================================================================ *)
(* 12. the common prefixes as a list: equal to the spec's once sorted as strings                    *)
(* ================================================================================================ *)

Lemma insert_key_In k l x : In x (insert_key k l) <-> x = k \/ In x l.
Proof.
  induction l as [|a l IH]; cbn [insert_key In]; [intuition congruence|].
  destruct (bltb a k); cbn [In]; [rewrite IH|]; intuition congruence.
Qed.

Lemma sort_keys_In l x : In x (sort_keys l) <-> In x l.
Proof.
  induction l as [|a l IH]; [tauto|]. unfold sort_keys. cbn [fold_right]. fold (sort_keys l).
  rewrite insert_key_In, IH. cbn [In]. intuition congruence.
Qed.

Lemma insert_key_sasc k l : sasc l -> ~ In k l -> sasc (insert_key k l).
Proof.
  induction l as [|a l IH]; intros Hs Hn; [cbn; auto|]. cbn [sasc] in Hs. destruct Hs as [H1 H2].
  cbn [insert_key]. destruct (bltb a k) eqn:E.
  - cbn [sasc]. split; [|apply IH; [exact H2|intros H; apply Hn; right; exact H]].
    rewrite Forall_forall in H1. apply Forall_forall. intros y Hy. apply insert_key_In in Hy as [->|Hy]; auto.
  - assert (bltb k a = true) as Hka.
    { destruct (bltb k a) eqn:F; [reflexivity|]. exfalso. apply Hn. left. apply bltb_total; assumption. }
    cbn [sasc]. split; [|split; assumption]. constructor; [exact Hka|].
    rewrite Forall_forall in H1. apply Forall_forall. intros y Hy. eapply bltb_trans; [exact Hka|auto].
Qed.

Lemma sort_keys_NoDup_sasc l : NoDup l -> sasc (sort_keys l).
Proof.
  induction l as [|a l IH]; intros H; [exact I|]. inversion H as [|? ? Hn Hd]; subst.
  unfold sort_keys. cbn [fold_right]. fold (sort_keys l). apply insert_key_sasc; [apply IH; exact Hd|].
  rewrite sort_keys_In. exact Hn.
Qed.

(* groups of ascending keys ascend *)
Lemma group_lt d : forall r1 s1 r2 s2, mem_byte d r1 = false -> mem_byte d s1 = false ->
  bltb (r1 ++ d :: r2) (s1 ++ d :: s2) = true -> r1 = s1 \/ bltb (r1 ++ [d]) (s1 ++ [d]) = true.
Proof.
  induction r1 as [|x r1 IH]; intros [|y s1] r2 s2 Hr Hs H.
  - left. reflexivity.
  - right. rewrite mem_byte_cons in Hs. apply orb_false_iff in Hs as [Hs _]. cbn [app bltb] in *.
    destruct (N.ltb d y) eqn:E1; [reflexivity|]. destruct (N.ltb y d) eqn:E2; [discriminate|].
    apply N.ltb_ge in E1, E2. apply N.eqb_neq in Hs. lia.
  - right. rewrite mem_byte_cons in Hr. apply orb_false_iff in Hr as [Hr _]. cbn [app bltb] in *.
    destruct (N.ltb x d) eqn:E1; [reflexivity|]. destruct (N.ltb d x) eqn:E2; [discriminate|].
    apply N.ltb_ge in E1, E2. apply N.eqb_neq in Hr. lia.
  - rewrite mem_byte_cons in Hr, Hs. apply orb_false_iff in Hr as [_ Hr]. apply orb_false_iff in Hs as [_ Hs].
    cbn [app bltb] in *. destruct (N.ltb x y) eqn:E1; [right; reflexivity|].
    destruct (N.ltb y x) eqn:E2; [discriminate|]. apply N.ltb_ge in E1, E2. assert (x = y) by lia. subst y.
    destruct (IH s1 r2 s2 Hr Hs H) as [->|H']; [left; reflexivity|right; exact H'].
Qed.

Lemma classify_common_lt pre d k k' p q :
  classify pre (Some d) k = MCommon p -> classify pre (Some d) k' = MCommon q -> bltb k k' = true ->
  p = q \/ bltb p q = true.
Proof.
  intros Hp Hq Hlt. apply classify_common_iff in Hp as (r1 & r2 & -> & Hr & ->).
  apply classify_common_iff in Hq as (s1 & s2 & -> & Hs & ->). rewrite bltb_app_l in Hlt.
  destruct (group_lt d r1 s1 r2 s2 Hr Hs Hlt) as [->|H]; [left; reflexivity|right].
  rewrite bltb_app_l. exact H.
Qed.

(* weakly ascending *)
Fixpoint wasc (l : list bytes) : Prop :=
  match l with [] => True | a :: l' => Forall (fun b => a = b \/ bltb a b = true) l' /\ wasc l' end.

Lemma wasc_dedup l : wasc l -> sasc (dedup l).
Proof.
  induction l as [|a l IH]; [trivial|]. cbn [wasc dedup sasc]. intros [H1 H2]. split.
  - rewrite Forall_forall in H1. apply Forall_forall. intros y Hy. apply filter_In in Hy as [Hy Hne].
    apply (proj1 (dedup_In _ _)) in Hy. destruct (H1 y Hy) as [->|H]; [|exact H].
    rewrite beq_refl in Hne. discriminate.
  - apply sasc_filter. apply IH. exact H2.
Qed.

Lemma spec_prefixes_sasc pre d keys : sasc keys -> sasc (spec_prefixes pre (Some d) keys).
Proof.
  intros Hs. unfold spec_prefixes. apply wasc_dedup.
  induction keys as [|k keys IH]; [exact I|]. cbn [sasc] in Hs. destruct Hs as [H1 H2]. cbn [flat_map].
  specialize (IH H2). destruct (classify pre (Some d) k) as [| |p] eqn:Ec; cbn [app]; try exact IH.
  cbn [wasc]. split; [|exact IH]. rewrite Forall_forall in H1. apply Forall_forall. intros q Hq.
  apply in_flat_map in Hq as [k' [Hk' Hq]]. destruct (classify pre (Some d) k') as [| |q'] eqn:Ec'; try destruct Hq.
  - subst q'. eapply classify_common_lt; [exact Ec|exact Ec'|apply H1; exact Hk'].
  - destruct H.
Qed.

(* sorted as strings, the backend's common prefixes are the spec's list *)
Theorem fs_list_slash_sorted_prefixes keys pre cs ps :
  ascending keys -> fs_storable keys = true -> starts_with slash pre = false ->
  fs_list (tree_of keys) pre (Some slash) = Some (cs, ps) ->
  cs = spec_contents pre (Some slash) keys /\ sort_keys ps = spec_prefixes pre (Some slash) keys.
Proof.
  intros Ha Hst Hp Hl. destruct (fs_list_slash keys pre Ha Hst Hp) as (ps' & H1 & H2 & H3 & _).
  rewrite Hl in H1. inversion H1; subst cs ps'. split; [reflexivity|].
  apply sasc_ext; [apply sort_keys_NoDup_sasc; exact H2|apply spec_prefixes_sasc, ascending_sasc, Ha|].
  intros x. rewrite sort_keys_In. apply H3.
Qed.

(* and they are the spec's list as they stand exactly when they happen to ascend as strings *)
Theorem fs_list_slash_prefixes_eq_iff keys pre cs ps :
  ascending keys -> fs_storable keys = true -> starts_with slash pre = false ->
  fs_list (tree_of keys) pre (Some slash) = Some (cs, ps) ->
  (ps = spec_prefixes pre (Some slash) keys <-> sasc ps).
Proof.
  intros Ha Hst Hp Hl. destruct (fs_list_slash_sorted_prefixes keys pre cs ps Ha Hst Hp Hl) as [_ H]. split.
  - intros ->. apply spec_prefixes_sasc, ascending_sasc, Ha.
  - intros Hs. rewrite <- H. symmetry. apply sort_keys_sasc. exact Hs.
Qed.
