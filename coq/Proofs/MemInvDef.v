(* Invariant of the memory-backend model (definitions only; proofs in MemInv.v). *)
From GF Require Import Base.Bytes Base.SortedMap Model.Mem Model.Handlers Proofs.BytesFacts Proofs.SortedMapFacts.

(* archived versions: strictly ascending ids, all below [top] *)
Fixpoint vers_ok (top : N) (l : list vdata) : Prop :=
  match l with
  | [] => True
  | v :: l' => (vd_vid v < top)%N /\
               match l' with [] => True | w :: _ => (vd_vid v < vd_vid w)%N end /\ vers_ok top l'
  end.

(* every stored object has a current version, newer than all archived ones, and no id
   exceeds the counter *)
Definition obj_ok (next : N) (o : obj) : Prop :=
  exists cur, o_data o = Some cur /\ (vd_vid cur <= next)%N /\ (0 < vd_vid cur)%N /\
              vers_ok (vd_vid cur) (o_vers o) /\ Forall (fun v => (0 < vd_vid v)%N) (o_vers o).

(* in a bucket that never had versioning enabled nothing is archived and every version is a
   "null" version *)
Definition never_versioned_ok (bk : bucket) : Prop :=
  b_ver bk = VNone ->
  forall k o, In (k, o) (b_objs bk) ->
    o_vers o = [] /\ forall cur, o_data o = Some cur -> vd_null cur = true.

Definition bucket_ok (next : N) (bk : bucket) : Prop :=
  sorted (b_objs bk) /\ (forall k o, In (k, o) (b_objs bk) -> obj_ok next o) /\ never_versioned_ok bk.

Definition Inv (s : state) : Prop :=
  sorted (st_buckets s) /\ forall b bk, In (b, bk) (st_buckets s) -> bucket_ok (st_next s) bk.
