(* TASK T7.  The upload path (property C08) over Model/PutPath.v: a rejected upload leaves the
   state unchanged — for every reader failure point — and an upload with a Content-MD5 is accepted
   exactly when the digest matches the bytes received and the declared length is the body length.
   Statements fixed in content; add helper lemmas freely. *)
From GF Require Import Base.Bytes Base.Lit Base.Int64 Base.SortedMap Model.ParseInt Model.Mem Model.Handlers
  Model.Uploader Model.PutPath Proofs.BytesFacts Proofs.SortedMapFacts Proofs.MemProofs.
From Coq Require Import Lia ZifyBool ZifyNat ZifyN.
Open Scope Z_scope.

(* ---- helpers ------------------------------------------------------------- *)

(* the handler's bucket check is the identity on an existing bucket *)
Lemma ensure_bucket_exists c s b : get_bucket s b <> None -> ensure_bucket c s b = (s, None).
Proof.
  intros Hb. unfold ensure_bucket. destruct (get_bucket s b) as [bk|] eqn:Eb; [reflexivity|].
  exfalso. apply Hb. reflexivity.
Qed.

(* put_object only errs with NoSuchBucket *)
Lemma put_object_ok s b k body m bk :
  get_bucket s b = Some bk -> fst (snd (put_object s b k body m)) = None.
Proof.
  intros Hb. unfold put_object. rewrite Hb. unfold bucket_put. reflexivity.
Qed.

Lemma put_object_err_state s b k body m s' e vid :
  put_object s b k body m = (s', (Some e, vid)) -> s' = s.
Proof.
  unfold put_object. destruct (get_bucket s b) as [bk|] eqn:Eb.
  - unfold bucket_put. intros H. inversion H.
  - intros H. inversion H. reflexivity.
Qed.

(* a reader with a failure point fails, whatever the failure point and the declared size *)
Lemma read_all_declared_fail md5 expected data kf size :
  read_all_declared md5 expected {| br_data := data; br_fail_after := Some kf |} size = inl PInternal.
Proof.
  unfold read_all_declared. cbn [br_fail_after br_data].
  destruct (kf <? blen data); reflexivity.
Qed.

Lemma digest_bad_some_false md5 d data : digest_bad md5 (Some d) data = false <-> d = md5 data.
Proof.
  unfold digest_bad. split.
  - intros H. apply beq_eq. destruct (beq d (md5 data)); [reflexivity|discriminate H].
  - intros H. apply beq_eq in H. rewrite H. reflexivity.
Qed.

Lemma digest_bad_some_true md5 d data : digest_bad md5 (Some d) data = true <-> d <> md5 data.
Proof.
  unfold digest_bad. split.
  - intros H. apply beq_neq. destruct (beq d (md5 data)); [discriminate H|reflexivity].
  - intros H. apply beq_neq in H. rewrite H. reflexivity.
Qed.

(* a complete reader against a digest: accepted exactly on digest match and exact length *)
Lemma read_all_declared_accept md5 d data size :
  d = md5 data -> size = blen data ->
  read_all_declared md5 (Some d) {| br_data := data; br_fail_after := None |} size = inr data.
Proof.
  intros Hd Hs. unfold read_all_declared. cbn [br_fail_after br_data].
  apply (digest_bad_some_false md5) in Hd. rewrite Hd.
  destruct (blen data <? size) eqn:E1; [lia|].
  destruct (size <? blen data) eqn:E2; [lia|]. reflexivity.
Qed.

Lemma read_all_declared_inr md5 d data size body :
  read_all_declared md5 (Some d) {| br_data := data; br_fail_after := None |} size = inr body ->
  d = md5 data /\ size = blen data /\ body = data.
Proof.
  unfold read_all_declared. cbn [br_fail_after br_data].
  destruct (blen data <? size) eqn:E1.
  - destruct (digest_bad md5 (Some d) data); [discriminate|].
    destruct (blen data =? 0); discriminate.
  - destruct (digest_bad md5 (Some d) data) eqn:ED; [discriminate|].
    destruct (size <? blen data) eqn:E2; [discriminate|].
    intros H. injection H as H1. apply digest_bad_some_false in ED.
    split; [exact ED|]. split; [lia|symmetry; exact H1].
Qed.

(* an upload_part that reports an error leaves the pending uploads untouched *)
Lemma upload_part_err_state md5 hex u b k id pn body u' e et :
  upload_part md5 hex u b k id pn body = (u', (Some e, et)) -> u' = u.
Proof.
  unfold upload_part.
  destruct ((pn <=? 0) || (max_part_number <? pn)) eqn:E1; [intros H; inversion H; reflexivity|].
  destruct (blen body <=? 0) eqn:E2; [intros H; inversion H; reflexivity|].
  destruct (get_upload u b k id) as [mpu|] eqn:E3; [intros H; inversion H|intros H; inversion H; reflexivity].
Qed.

(* ---- (a) ----------------------------------------------------------------- *)

(* (a) object uploads: whatever is wrong with the request, a rejection returns the stored state
   untouched (the bucket exists, so auto-creation does not come into play) *)
Theorem put_rejected_frame md5 c integrity ml s b k h r tracked s' e :
  get_bucket s b <> None ->
  put_request md5 c integrity ml s b k h r tracked = (s', inl e) -> s' = s.
Proof.
  intros Hb. unfold put_request. rewrite (ensure_bucket_exists c s b Hb).
  remember (B "Content-Length") as CL eqn:HCL.
  destruct ((0 <? ml) && (ml <? meta_size h)) eqn:E1; [intros H; inversion H; reflexivity|].
  destruct (hget CL h) as [cl|] eqn:E2; [|intros H; inversion H; reflexivity].
  destruct cl as [|c0 cl']; [intros H; inversion H; reflexivity|].
  destruct (parse_int64 (c0 :: cl')) as [size|] eqn:E3; [|intros H; inversion H; reflexivity].
  destruct (size <? 0) eqn:E4; [intros H; inversion H; reflexivity|].
  destruct (key_limit <? blen k) eqn:E5; [intros H; inversion H; reflexivity|].
  destruct (expected_digest integrity h) as [e1|expected] eqn:E6; [intros H; inversion H; reflexivity|].
  destruct (read_all_declared md5 expected r size) as [e2|body] eqn:E7; [intros H; inversion H; reflexivity|].
  destruct (put_object s b k body (carry_meta s b k tracked)) as [s2 [[e3|] vid]] eqn:E8.
  - intros H. inversion H. subst s2. eapply put_object_err_state. exact E8.
  - intros H. inversion H.
Qed.

(* ---- (b) ----------------------------------------------------------------- *)

(* (b) a body reader that fails after k bytes — for EVERY k — is a rejection *)
Theorem put_reader_failure_rejected md5 c integrity ml s b k h data kf tracked :
  exists e, snd (put_request md5 c integrity ml s b k h {| br_data := data; br_fail_after := Some kf |} tracked) = inl e.
Proof.
  unfold put_request.
  remember (B "Content-Length") as CL eqn:HCL.
  destruct (ensure_bucket c s b) as [s1 [e0|]] eqn:E0; [eexists; reflexivity|].
  destruct ((0 <? ml) && (ml <? meta_size h)) eqn:E1; [eexists; reflexivity|].
  destruct (hget CL h) as [cl|] eqn:E2; [|eexists; reflexivity].
  destruct cl as [|c0 cl']; [eexists; reflexivity|].
  destruct (parse_int64 (c0 :: cl')) as [size|] eqn:E3; [|eexists; reflexivity].
  destruct (size <? 0) eqn:E4; [eexists; reflexivity|].
  destruct (key_limit <? blen k) eqn:E5; [eexists; reflexivity|].
  destruct (expected_digest integrity h) as [e1|expected] eqn:E6; [eexists; reflexivity|].
  rewrite read_all_declared_fail. eexists; reflexivity.
Qed.

(* ---- (c) ----------------------------------------------------------------- *)

(* under the well-formedness hypotheses of (c) the handler reduces to the reader + put_object *)
Lemma put_request_wellformed md5 c integrity ml s b k h r tracked size expected bk :
  get_bucket s b = Some bk ->
  negb ((0 <? ml) && (ml <? meta_size h)) = true ->
  (exists cl, hget (B "Content-Length") h = Some cl /\ cl <> [] /\ parse_int64 cl = Some size) -> 0 <= size ->
  blen k <= key_limit ->
  expected_digest integrity h = inr expected ->
  put_request md5 c integrity ml s b k h r tracked =
    match read_all_declared md5 expected r size with
    | inl e => (s, inl e)
    | inr body =>
        match put_object s b k body (carry_meta s b k tracked) with
        | (s2, (None, vid)) => (s2, inr (body, vid))
        | (s2, (Some _, _)) => (s2, inl PNoSuchBucket)
        end
    end.
Proof.
  intros Hb Hml [cl [Hcl [Hne Hparse]]] Hsize Hk Hexp.
  unfold put_request.
  assert (Hb' : get_bucket s b <> None) by (rewrite Hb; discriminate).
  rewrite (ensure_bucket_exists c s b Hb').
  remember (B "Content-Length") as CL eqn:HCL.
  apply Bool.negb_true_iff in Hml. rewrite Hml.
  rewrite Hcl.
  destruct cl as [|c0 cl']; [exfalso; apply Hne; reflexivity|].
  rewrite Hparse.
  destruct (size <? 0) eqn:E4; [lia|].
  destruct (key_limit <? blen k) eqn:E5; [lia|].
  rewrite Hexp. reflexivity.
Qed.

(* (c) with the integrity check on and a well-formed request carrying the digest d: accepted
   exactly when d is the MD5 of the bytes received and the declared length equals their count;
   then exactly those bytes are stored *)
Theorem put_accept_iff md5 c ml s b k h data tracked size d bk :
  get_bucket s b = Some bk ->
  negb ((0 <? ml) && (ml <? meta_size h)) = true ->
  (exists cl, hget (B "Content-Length") h = Some cl /\ cl <> [] /\ parse_int64 cl = Some size) -> 0 <= size ->
  blen k <= key_limit ->
  expected_digest true h = inr (Some d) ->
  let res := put_request md5 c true ml s b k h {| br_data := data; br_fail_after := None |} tracked in
  ((exists body vid, snd res = inr (body, vid)) <-> (d = md5 data /\ size = blen data)) /\
  (forall body vid, snd res = inr (body, vid) ->
     body = data /\ exists v sv, get_object (fst res) b k = OObj v sv /\ vd_body v = data /\
                               vd_meta v = carry_meta s b k tracked /\
                               (forall kv, In kv tracked -> In kv (vd_meta v))).
Proof.
  intros Hb Hml Hcl Hsize Hk Hexp res.
  assert (Hres : res =
    match read_all_declared md5 (Some d) {| br_data := data; br_fail_after := None |} size with
    | inl e => (s, inl e)
    | inr body =>
        match put_object s b k body (carry_meta s b k tracked) with
        | (s2, (None, vid)) => (s2, inr (body, vid))
        | (s2, (Some _, _)) => (s2, inl PNoSuchBucket)
        end
    end).
  { subst res. eapply put_request_wellformed; eassumption. }
  clearbody res. subst res.
  destruct (read_all_declared md5 (Some d) {| br_data := data; br_fail_after := None |} size)
    as [e|body0] eqn:ER.
  - (* rejected by the reader *)
    cbn [fst snd]. split.
    + split.
      * intros [body [vid H]]. discriminate H.
      * intros [Hd Hs]. rewrite (read_all_declared_accept md5 d data size Hd Hs) in ER. discriminate ER.
    + intros body vid H. discriminate H.
  - apply read_all_declared_inr in ER. destruct ER as [Hd [Hs Hbody]]. subst body0.
    pose proof (put_object_ok s b k data (carry_meta s b k tracked) bk Hb) as Hok.
    destruct (put_object s b k data (carry_meta s b k tracked)) as [s2 [[e3|] vid0]] eqn:EP.
    + cbn [fst snd] in Hok. discriminate Hok.
    + cbn [fst snd]. split.
      * split.
        -- intros _. split; assumption.
        -- intros _. exists data, vid0. reflexivity.
      * intros body vid H. inversion H. subst body vid. split; [reflexivity|].
        destruct (get_after_put s b k data (carry_meta s b k tracked) s2 vid0 EP) as [v [sv [Hg [Hvb [Hvm _]]]]].
        exists v, sv. split; [exact Hg|]. split; [exact Hvb|]. split; [exact Hvm|].
        intros kv Hin. rewrite Hvm. apply carry_meta_keeps. exact Hin.
Qed.

(* ---- (d) ----------------------------------------------------------------- *)

(* (d) with the integrity check off the digest header is ignored *)
Theorem put_integrity_off_ignores_digest h : expected_digest false h = inr None.
Proof.
  unfold expected_digest. reflexivity.
Qed.

(* ---- (e) ----------------------------------------------------------------- *)

(* (e) part uploads: a rejection leaves the pending uploads untouched; a failing reader is a
   rejection *)
Theorem part_rejected_frame md5 hex integrity u b k id pn h r u' e :
  part_request md5 hex integrity u b k id pn h r = (u', inl e) -> u' = u.
Proof.
  unfold part_request.
  remember (B "Content-Length") as CL eqn:HCL.
  destruct (parse_int64 pn) as [n|] eqn:E1; [|intros H; inversion H; reflexivity].
  destruct ((n <=? 0) || (max_part_number <? n)) eqn:E2; [intros H; inversion H; reflexivity|].
  destruct (parse_int64 (hval CL h)) as [size|] eqn:E3; [|intros H; inversion H; reflexivity].
  destruct (size <=? 0) eqn:E4; [intros H; inversion H; reflexivity|].
  destruct (expected_digest integrity h) as [e1|expected] eqn:E5; [intros H; inversion H; reflexivity|].
  destruct (br_fail_after r) as [kf|] eqn:E6; [intros H; inversion H; reflexivity|].
  destruct (digest_bad md5 expected (br_data r)) eqn:E7; [intros H; inversion H; reflexivity|].
  destruct (negb (blen (br_data r) =? size)) eqn:E8; [intros H; inversion H; reflexivity|].
  destruct (upload_part md5 hex u b k id n (br_data r)) as [u2 [[ue|] et]] eqn:E9.
  - apply upload_part_err_state in E9. subst u2.
    destruct ue; intros H; inversion H; reflexivity.
  - intros H. inversion H.
Qed.

Theorem part_reader_failure_rejected md5 hex integrity u b k id pn h data kf :
  exists e, snd (part_request md5 hex integrity u b k id pn h {| br_data := data; br_fail_after := Some kf |}) = inl e.
Proof.
  unfold part_request.
  remember (B "Content-Length") as CL eqn:HCL.
  destruct (parse_int64 pn) as [n|] eqn:E1; [|eexists; reflexivity].
  destruct ((n <=? 0) || (max_part_number <? n)) eqn:E2; [eexists; reflexivity|].
  destruct (parse_int64 (hval CL h)) as [size|] eqn:E3; [|eexists; reflexivity].
  destruct (size <=? 0) eqn:E4; [eexists; reflexivity|].
  destruct (expected_digest integrity h) as [e1|expected] eqn:E5; [eexists; reflexivity|].
  cbn [br_fail_after]. eexists; reflexivity.
Qed.

(* ---- (f) ----------------------------------------------------------------- *)

(* (f) part uploads with a digest: accepted only if the digest matches and the length is right *)
Theorem part_accept_only_if md5 hex u b k id pn h data d et u' :
  expected_digest true h = inr (Some d) ->
  part_request md5 hex true u b k id pn h {| br_data := data; br_fail_after := None |} = (u', inr et) ->
  d = md5 data /\ parse_int64 (hval (B "Content-Length") h) = Some (blen data).
Proof.
  intros Hexp. unfold part_request.
  remember (B "Content-Length") as CL eqn:HCL.
  destruct (parse_int64 pn) as [n|] eqn:E1; [|intros H; inversion H].
  destruct ((n <=? 0) || (max_part_number <? n)) eqn:E2; [intros H; inversion H|].
  destruct (parse_int64 (hval CL h)) as [size|] eqn:E3; [|intros H; inversion H].
  destruct (size <=? 0) eqn:E4; [intros H; inversion H|].
  rewrite Hexp. cbn [br_fail_after br_data].
  destruct (digest_bad md5 (Some d) data) eqn:E7; [intros H; inversion H|].
  destruct (negb (blen data =? size)) eqn:E8; [intros H; inversion H|].
  intros _. apply digest_bad_some_false in E7. split; [exact E7|].
  f_equal. lia.
Qed.

Print Assumptions put_rejected_frame.
Print Assumptions put_accept_iff.
