(* TASK T1.  On the property's domain (keys neither start nor end with the delimiter, the prefix
   does not start with it) the listing of the model is exactly the declarative spec, and the
   pagination walk is complete.  Combine PrefixProofs, ListExact and WalkProofs. *)
From GF Require Import Base.Bytes Base.SortedMap Model.Prefix Model.Mem Model.MemWalk Spec.ListSpec
  Proofs.BytesFacts Proofs.SortedMapFacts Proofs.PrefixProofs Proofs.ListExact Proofs.WalkProofs.
Open Scope Z_scope.

Definition key_ok (delim : option N) (k : list N) : Prop :=
  match delim with None => True | Some d => starts_with d k = false /\ ends_with d k = false end.
Definition pre_ok (delim : option N) (pre : list N) : Prop :=
  match delim with None => True | Some d => starts_with d pre = false end.

(* the matcher equals the declarative classification on the domain *)
Lemma match_eq_classify pre delim k : pre_ok delim pre -> key_ok delim k ->
  prefix_match pre delim k = classify pre delim k.
Proof.
Admitted.

(* C03: Contents and CommonPrefixes of the unpaginated listing are exactly the spec's *)
Lemma list_exact pre delim items :
  ListExact.data_some items -> pre_ok delim pre -> Forall (key_ok delim) (map fst items) ->
  map fst (lr_contents (unpaged pre delim items)) = spec_contents pre delim (live_keys items) /\
  lr_prefixes (unpaged pre delim items) = spec_prefixes pre delim (live_keys items).
Proof.
Admitted.

(* keys come out in strictly ascending byte order *)
Fixpoint ascending (l : list (list N)) : Prop :=
  match l with
  | a :: ((b :: _) as l') => bltb a b = true /\ ascending l'
  | _ => True
  end.
Lemma listed_keys_ascending pre delim (items : list (list N * obj)) :
  sorted items -> ListExact.data_some items ->
  ascending (map fst (lr_contents (unpaged pre delim items))).
Proof.
Admitted.

(* keys rolled up into one common prefix are contiguous in a sorted map (domain) *)
Lemma domain_groups_contiguous pre delim (objs : list (list N * obj)) :
  sorted objs -> pre_ok delim pre -> Forall (key_ok delim) (map fst objs) ->
  groups_contiguous pre delim (map fst objs).
Proof.
Admitted.

(* C04 on the domain: the walk terminates and its pages concatenate to the unpaginated listing *)
Theorem walk_complete_domain pre delim mk objs :
  1 <= mk -> sorted objs -> WalkProofs.data_some objs -> ~ In [] (map fst objs) ->
  pre_ok delim pre -> Forall (key_ok delim) (map fst objs) ->
  exists pages,
    walk (S (length objs)) pre delim mk objs [] = Some pages /\
    flat_map (fun r => map fst (lr_contents r)) pages = map fst (lr_contents (unpaged pre delim objs)) /\
    flat_map lr_prefixes pages = lr_prefixes (unpaged pre delim objs) /\
    Forall (fun r => entries r <= mk) pages /\
    (exists r, last (map Some pages) None = Some r /\ lr_truncated r = false).
Proof.
Admitted.

Print Assumptions list_exact.
Print Assumptions walk_complete_domain.
