(* TASK T1.  On the property's domain (keys neither start nor end with the delimiter, the prefix
   does not start with it) the listing of the model is exactly the declarative spec, and the
   pagination walk is complete.  Combine PrefixProofs, ListExact and WalkProofs. *)
From GF Require Import Base.Bytes Base.SortedMap Model.Prefix Model.Mem Model.MemWalk Spec.ListSpec
  Proofs.BytesFacts Proofs.SortedMapFacts Proofs.PrefixProofs Proofs.ListExact Proofs.WalkProofs.
From Coq Require Import Lia.
Open Scope Z_scope.

Definition key_ok (delim : option N) (k : list N) : Prop :=
  match delim with None => True | Some d => starts_with d k = false /\ ends_with d k = false end.
Definition pre_ok (delim : option N) (pre : list N) : Prop :=
  match delim with None => True | Some d => starts_with d pre = false end.

(* the matcher equals the declarative classification on the domain *)
Lemma match_eq_classify pre delim k : pre_ok delim pre -> key_ok delim k ->
  prefix_match pre delim k = classify pre delim k.
Proof.
  destruct delim as [d|]; unfold pre_ok, key_ok; intros Hp Hk.
  - destruct Hk as [Hs He]. apply match_eq_classify_delim; assumption.
  - apply match_eq_classify_nodelim.
Qed.

(* ---- helpers for list_exact ---- *)

Lemma live_keys_in items k : In k (live_keys items) -> In k (map fst items).
Proof.
  unfold live_keys. rewrite in_flat_map. intros [[k' o] [Hin H]]. cbn [fst snd] in H.
  destruct (o_data o) as [v|]; [|contradiction].
  destruct (vd_marker v); [contradiction|].
  destruct H as [H|[]]. subst k'. apply in_map_iff. exists (k, o). split; [reflexivity|exact Hin].
Qed.

Lemma flat_map_ext_in' {A B} (f g : A -> list B) l :
  (forall a, In a l -> f a = g a) -> flat_map f l = flat_map g l.
Proof.
  induction l as [|a l IH]; intros H; [reflexivity|]. cbn [flat_map].
  rewrite (H a (or_introl eq_refl)), IH; [reflexivity|].
  intros b Hb. apply H. right. exact Hb.
Qed.

Lemma match_eq_classify_live pre delim items :
  pre_ok delim pre -> Forall (key_ok delim) (map fst items) ->
  forall k, In k (live_keys items) -> prefix_match pre delim k = classify pre delim k.
Proof.
  intros Hp Hk k Hin. apply match_eq_classify; [exact Hp|].
  rewrite Forall_forall in Hk. apply Hk. apply live_keys_in. exact Hin.
Qed.

(* C03: Contents and CommonPrefixes of the unpaginated listing are exactly the spec's *)
Lemma list_exact pre delim items :
  ListExact.data_some items -> pre_ok delim pre -> Forall (key_ok delim) (map fst items) ->
  map fst (lr_contents (unpaged pre delim items)) = spec_contents pre delim (live_keys items) /\
  lr_prefixes (unpaged pre delim items) = spec_prefixes pre delim (live_keys items).
Proof.
  intros Hd Hp Hk.
  pose proof (match_eq_classify_live pre delim items Hp Hk) as Hl.
  rewrite (unpaged_contents pre delim items Hd), (unpaged_prefixes pre delim items Hd).
  unfold spec_contents, spec_prefixes, commons. split.
  - apply filter_ext_in. intros k Hin. rewrite (Hl k Hin). reflexivity.
  - f_equal. apply flat_map_ext_in'. intros k Hin. rewrite (Hl k Hin). reflexivity.
Qed.

(* keys come out in strictly ascending byte order *)
Fixpoint ascending (l : list (list N)) : Prop :=
  match l with
  | a :: ((b :: _) as l') => bltb a b = true /\ ascending l'
  | _ => True
  end.
(* strongly ascending: every element is below every later one *)
Fixpoint sasc (l : list (list N)) : Prop :=
  match l with [] => True | a :: l' => Forall (fun b => bltb a b = true) l' /\ sasc l' end.

Lemma lb_forall {V} k (m : list (list N * V)) :
  lb k m -> Forall (fun b => bltb k b = true) (map fst m).
Proof.
  induction m as [|[k' v] m IH]; cbn [lb map fst]; intros H; constructor; [tauto|].
  apply IH. tauto.
Qed.

Lemma sorted_sasc {V} (m : list (list N * V)) : sorted m -> sasc (map fst m).
Proof.
  induction m as [|[k v] m IH]; cbn [sorted map fst sasc]; [trivial|]. intros [H1 H2].
  split; [apply lb_forall; exact H1|apply IH; exact H2].
Qed.

Lemma sasc_live items : sasc (map fst items) -> sasc (live_keys items).
Proof.
  induction items as [|[k o] rest IH]; [trivial|].
  cbn [map fst sasc]. intros [H1 H2]. unfold live_keys. cbn [flat_map fst snd].
  fold (live_keys rest). specialize (IH H2).
  destruct (o_data o) as [v|]; [|exact IH]. destruct (vd_marker v); [exact IH|].
  cbn [app sasc]. split; [|exact IH].
  apply Forall_forall. intros b Hb. rewrite Forall_forall in H1. apply H1.
  apply live_keys_in. exact Hb.
Qed.

Lemma sasc_filter f l : sasc l -> sasc (filter f l).
Proof.
  induction l as [|a l IH]; [trivial|]. cbn [sasc filter]. intros [H1 H2].
  destruct (f a); [|apply IH; exact H2]. cbn [sasc]. split; [|apply IH; exact H2].
  apply Forall_forall. intros b Hb. apply filter_In in Hb. rewrite Forall_forall in H1.
  apply H1. tauto.
Qed.

Lemma sasc_ascending l : sasc l -> ascending l.
Proof.
  induction l as [|a l IH]; [intros _; exact I|]. cbn [sasc]. intros [H1 H2].
  destruct l as [|b l]; [exact I|].
  cbn [ascending]. split; [inversion H1; assumption|apply IH; exact H2].
Qed.

Lemma sasc_app_r l1 l2 : sasc (l1 ++ l2) -> sasc l2.
Proof.
  induction l1 as [|a l1 IH]; cbn [app sasc]; [trivial|]. intros [_ H]. apply IH. exact H.
Qed.

Lemma sasc_mid l2 k2 l3 k : sasc (l2 ++ k2 :: l3) -> In k l2 -> bltb k k2 = true.
Proof.
  induction l2 as [|a l2 IH]; intros H Hin; [destruct Hin|].
  cbn [app sasc] in H. destruct H as [H1 H2]. destruct Hin as [->|Hin].
  - rewrite Forall_forall in H1. apply H1. apply in_or_app. right. left. reflexivity.
  - apply IH; assumption.
Qed.

Lemma listed_keys_ascending pre delim (items : list (list N * obj)) :
  sorted items -> ListExact.data_some items ->
  ascending (map fst (lr_contents (unpaged pre delim items))).
Proof.
  intros Hs Hd. rewrite (unpaged_contents pre delim items Hd).
  apply sasc_ascending, sasc_filter, sasc_live, sorted_sasc. exact Hs.
Qed.

(* ---- byte-string facts for contiguity ---- *)

(* strings between two strings sharing a prefix share that prefix *)
Lemma prefixb_between p : forall a b c, prefixb p a = true -> prefixb p c = true ->
  bltb a b = true -> bltb b c = true -> prefixb p b = true.
Proof.
  induction p as [|x p IH]; intros a b c Ha Hc Hab Hbc; [reflexivity|].
  destruct a as [|x1 a]; [discriminate|]. destruct c as [|x2 c]; [discriminate|].
  cbn [prefixb] in Ha, Hc. apply andb_prop in Ha as [Ex1 Ha]. apply andb_prop in Hc as [Ex2 Hc].
  apply N.eqb_eq in Ex1, Ex2. subst x1 x2.
  destruct b as [|y b]; [cbn [bltb] in Hab; discriminate|].
  cbn [bltb] in Hab, Hbc. cbn [prefixb]. revert Hab Hbc.
  destruct (N.ltb x y) eqn:Exy; destruct (N.ltb y x) eqn:Eyx; intros Hab Hbc; try discriminate.
  - apply N.ltb_lt in Exy, Eyx. lia.
  - apply N.ltb_ge in Exy, Eyx. assert (x = y) by lia. subst y. rewrite N.eqb_refl. cbn [andb].
    exact (IH a b c Ha Hc Hab Hbc).
Qed.

Lemma skipn_app_len {A} (a b : list A) : skipn (length a) (a ++ b) = b.
Proof. induction a as [|x a IH]; [reflexivity|]. cbn [length app skipn]. exact IH. Qed.

(* the first occurrence of d depends only on the bytes up to and including it *)
Lemma index_byte_firstn d s : forall i, index_byte d s = Some i -> forall t,
  index_byte d (firstn (S i) s ++ t) = Some i /\
  firstn (S i) (firstn (S i) s ++ t) = firstn (S i) s.
Proof.
  induction s as [|c s IH]; intros i H t; [discriminate|].
  cbn [index_byte] in H. destruct (N.eqb c d) eqn:E.
  - inversion H; subst. change (firstn 1 (c :: s)) with [c]. cbn [app index_byte].
    rewrite E. split; reflexivity.
  - destruct (index_byte d s) as [j|]; [|discriminate]. inversion H; subst.
    destruct (IH j eq_refl t) as [E1 E2].
    change (firstn (S (S j)) (c :: s)) with (c :: firstn (S j) s). cbn [app index_byte].
    rewrite E, E1. split; [reflexivity|].
    change (firstn (S (S j)) (c :: firstn (S j) s ++ t)) with (c :: firstn (S j) (firstn (S j) s ++ t)).
    rewrite E2. reflexivity.
Qed.

(* every key extending a common prefix is classified into that common prefix *)
Lemma classify_common_ext pre d k1 p k :
  classify pre (Some d) k1 = MCommon p -> prefixb p k = true ->
  classify pre (Some d) k = MCommon p.
Proof.
  unfold classify. destruct (prefixb pre k1) eqn:Hpk; [|discriminate].
  destruct (index_byte d (skipn (length pre) k1)) as [i|] eqn:Hi; [|discriminate].
  intros H Hp.
  assert (Hpe : p = pre ++ firstn (S i) (skipn (length pre) k1)) by congruence. clear H.
  assert (exists t, k = p ++ t) as [t ->] by (eexists; apply prefixb_app; exact Hp).
  clear Hp. subst p. rewrite <- app_assoc. rewrite prefixb_app_r, skipn_app_len.
  destruct (index_byte_firstn d _ i Hi t) as [E1 E2]. rewrite E1, E2. reflexivity.
Qed.

Lemma nodelim_no_common pre k p : prefix_match pre None k <> MCommon p.
Proof.
  unfold prefix_match. destruct pre as [|c pre]; [discriminate|].
  destruct (prefixb (c :: pre) k); discriminate.
Qed.

(* keys rolled up into one common prefix are contiguous in a sorted map (domain) *)
Lemma domain_groups_contiguous pre delim (objs : list (list N * obj)) :
  sorted objs -> pre_ok delim pre -> Forall (key_ok delim) (map fst objs) ->
  groups_contiguous pre delim (map fst objs).
Proof.
  intros Hs Hp Hk l1 k1 l2 k2 l3 p E M1 M2 k Hin.
  destruct delim as [d|]; [|exfalso; exact (nodelim_no_common _ _ _ M1)].
  rewrite Forall_forall in Hk.
  assert (I1 : In k1 (map fst objs))
    by (rewrite E; apply in_or_app; right; left; reflexivity).
  assert (I2 : In k2 (map fst objs))
    by (rewrite E; apply in_or_app; right; right; apply in_or_app; right; left; reflexivity).
  assert (I0 : In k (map fst objs))
    by (rewrite E; apply in_or_app; right; right; apply in_or_app; left; exact Hin).
  rewrite (match_eq_classify pre (Some d) k1 Hp (Hk _ I1)) in M1.
  rewrite (match_eq_classify pre (Some d) k2 Hp (Hk _ I2)) in M2.
  rewrite (match_eq_classify pre (Some d) k Hp (Hk _ I0)).
  apply (classify_common_ext pre d k1 p k M1).
  destruct (classify_common_is_prefix _ _ _ _ M1) as [P1 _].
  destruct (classify_common_is_prefix _ _ _ _ M2) as [P2 _].
  pose proof (sorted_sasc objs Hs) as Sa. rewrite E in Sa. apply sasc_app_r in Sa.
  cbn [sasc] in Sa. destruct Sa as [F Sa].
  apply (prefixb_between p k1 k k2 P1 P2).
  - rewrite Forall_forall in F. apply F. apply in_or_app. left. exact Hin.
  - eapply sasc_mid; eassumption.
Qed.

(* C04 on the domain: the walk terminates and its pages concatenate to the unpaginated listing *)
Theorem walk_complete_domain pre delim mk objs :
  1 <= mk -> sorted objs -> WalkProofs.data_some objs -> ~ In [] (map fst objs) ->
  pre_ok delim pre -> Forall (key_ok delim) (map fst objs) ->
  exists pages,
    walk (S (length objs)) pre delim mk objs [] = Some pages /\
    flat_map (fun r => map fst (lr_contents r)) pages = map fst (lr_contents (unpaged pre delim objs)) /\
    flat_map lr_prefixes pages = lr_prefixes (unpaged pre delim objs) /\
    Forall (fun r => entries r <= mk) pages /\
    (exists r, last (map Some pages) None = Some r /\ lr_truncated r = false).
Proof.
  intros Hmk Hs Hd Hne Hp Hk. apply walk_complete_nonempty_keys; try assumption.
  apply domain_groups_contiguous; assumption.
Qed.

Print Assumptions list_exact.
Print Assumptions walk_complete_domain.
