(* TASK A.  Prefix.Match (Model/Prefix.v prefix_match) equals the declarative classification
   (Spec/ListSpec.v classify) on the property's domain.  Statements are fixed; fill in proofs. *)
From GF Require Import Base.Bytes Model.Prefix Spec.ListSpec Proofs.BytesFacts Proofs.NameProofs.

Definition starts_with (d : N) (s : list N) : bool := match s with c :: _ => N.eqb c d | [] => false end.
Definition ends_with (d : N) (s : list N) : bool := starts_with d (rev s).

(* without a delimiter: a plain string-prefix test *)
Lemma match_eq_classify_nodelim pre key : prefix_match pre None key = classify pre None key.
Proof.
Admitted.

(* with a delimiter d: for every key that neither starts nor ends with d and every prefix that
   does not start with d *)
Lemma match_eq_classify_delim d pre key :
  starts_with d key = false -> ends_with d key = false -> starts_with d pre = false ->
  prefix_match pre (Some d) key = classify pre (Some d) key.
Proof.
Admitted.

(* consequence used by the listing theorems: a common prefix is a literal prefix of the key and
   ends with the delimiter *)
Lemma classify_common_is_prefix pre d key p :
  classify pre (Some d) key = MCommon p -> prefixb p key = true /\ prefixb pre p = true /\ last p 0%N = d.
Proof.
Admitted.

Print Assumptions match_eq_classify_delim.
