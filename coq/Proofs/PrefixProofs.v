(* TASK A.  Prefix.Match (Model/Prefix.v prefix_match) equals the declarative classification
   (Spec/ListSpec.v classify) on the property's domain.  Statements are fixed; fill in proofs. *)
From GF Require Import Base.Bytes Model.Prefix Spec.ListSpec Proofs.BytesFacts Proofs.NameProofs.

Definition starts_with (d : N) (s : list N) : bool := match s with c :: _ => N.eqb c d | [] => false end.
Definition ends_with (d : N) (s : list N) : bool := starts_with d (rev s).

(* ---------- general facts: trim_left, split, join ---------- *)

Lemma trim_left_id d s : starts_with d s = false -> trim_left d s = s.
Proof. destruct s as [|c s]; cbn; [reflexivity|]. intros ->. reflexivity. Qed.

Lemma ends_with_snoc d s : ends_with d (s ++ [d]) = true.
Proof. unfold ends_with. rewrite rev_unit. cbn. apply N.eqb_refl. Qed.

Lemma split_cons_eq d c s : N.eqb c d = true -> split d (c :: s) = [] :: split d s.
Proof. intros H. cbn. rewrite H. reflexivity. Qed.

Lemma join_cons d x X : X <> [] -> join d (x :: X) = x ++ d :: join d X.
Proof. destruct X; [contradiction|reflexivity]. Qed.

Lemma join_cons_cons d c h Y : join d ((c :: h) :: Y) = c :: join d (h :: Y).
Proof. destruct Y; reflexivity. Qed.

Lemma join_split d s : join d (split d s) = s.
Proof.
  induction s as [|c s IH]; [reflexivity|].
  destruct (N.eqb c d) eqn:E.
  - rewrite (split_cons_eq _ _ _ E). rewrite join_cons by apply split_nonempty.
    rewrite IH. apply N.eqb_eq in E. subst. reflexivity.
  - destruct (split_cons_ne d c s E) as (h & t & E1 & E2).
    rewrite E2, join_cons_cons, <- E1, IH. reflexivity.
Qed.

Lemma firstn_split_nonempty d s t :
  firstn (length (split d s)) (split d t) <> [].
Proof.
  pose proof (split_nonempty d s) as Hs. pose proof (split_nonempty d t) as Ht.
  destruct (split d s); [contradiction|]. destruct (split d t); [contradiction|].
  cbn. discriminate.
Qed.

(* ---------- prefixb / index_byte ---------- *)

Lemma prefixb_app p s : prefixb p s = true -> s = p ++ skipn (length p) s.
Proof.
  revert s. induction p as [|x p IH]; intros s H; [reflexivity|].
  destruct s as [|y s]; [discriminate|]. cbn [prefixb] in H.
  apply andb_prop in H as [Hx H]. apply N.eqb_eq in Hx. subst y.
  cbn [length skipn app]. f_equal. apply IH. exact H.
Qed.

Lemma prefixb_app_r p s : prefixb p (p ++ s) = true.
Proof.
  induction p as [|x p IH]; [reflexivity|]. cbn [app prefixb].
  rewrite N.eqb_refl, IH. reflexivity.
Qed.

Lemma index_byte_some d s : forall i, index_byte d s = Some i ->
  exists a b, s = a ++ d :: b /\ firstn (S i) s = a ++ [d].
Proof.
  induction s as [|c s IH]; intros i H; [discriminate|].
  cbn [index_byte] in H. destruct (N.eqb c d) eqn:E.
  - inversion H; subst. apply N.eqb_eq in E; subst. exists [], s. split; reflexivity.
  - destruct (index_byte d s) as [j|]; [|discriminate]. inversion H; subst.
    destruct (IH j eq_refl) as (a & b & Ha & Hb). exists (c :: a), b. split.
    + cbn [app]. f_equal. exact Ha.
    + change (firstn (S (S j)) (c :: s)) with (c :: firstn (S j) s). rewrite Hb. reflexivity.
Qed.

(* ---------- parts_match ---------- *)

Lemma parts_match_one p k K : parts_match [p] (k :: K) = prefixb p k.
Proof. reflexivity. Qed.

Lemma parts_match_more p q r k K :
  parts_match (p :: q :: r) (k :: K) = beq p k && parts_match (q :: r) K.
Proof. reflexivity. Qed.

Lemma parts_match_nil_r p P : parts_match (p :: P) [] = false.
Proof. destruct P; reflexivity. Qed.

Lemma parts_match_length P : forall K, parts_match P K = true -> (length P <= length K)%nat.
Proof.
  induction P as [|p P IH]; intros K H; [cbn; lia|].
  destruct K as [|k K]; [rewrite parts_match_nil_r in H; discriminate|].
  destruct P as [|q r]; [cbn; lia|].
  rewrite parts_match_more in H. apply andb_prop in H as [_ H]. apply IH in H.
  cbn [length] in *. lia.
Qed.

(* the part-wise comparison on splits is exactly the string-prefix test (no side condition) *)
Lemma parts_match_split d pre : forall key,
  parts_match (split d pre) (split d key) = prefixb pre key.
Proof.
  induction pre as [|c pre IH]; intros key.
  - cbn [split]. destruct (split d key) as [|k K] eqn:E;
      [exfalso; eapply split_nonempty; eassumption|]. reflexivity.
  - destruct (N.eqb c d) eqn:Ec.
    + rewrite (split_cons_eq _ _ _ Ec).
      destruct (split d pre) as [|h t] eqn:EP; [exfalso; eapply split_nonempty; eassumption|].
      destruct key as [|c' key].
      * cbn [split prefixb]. rewrite parts_match_more, parts_match_nil_r. reflexivity.
      * destruct (N.eqb c' d) eqn:Ec'.
        -- rewrite (split_cons_eq _ _ _ Ec'). rewrite parts_match_more.
           cbn [beq andb prefixb]. rewrite IH.
           apply N.eqb_eq in Ec, Ec'. subst. rewrite N.eqb_refl. reflexivity.
        -- destruct (split_cons_ne d c' key Ec') as (h' & t' & E1 & E2). rewrite E2.
           rewrite parts_match_more. cbn [beq andb prefixb].
           apply N.eqb_eq in Ec. subst c. rewrite N.eqb_sym, Ec'. reflexivity.
    + destruct (split_cons_ne d c pre Ec) as (h & t & E1 & E2). rewrite E2. rewrite E1 in IH.
      destruct key as [|c' key].
      * cbn [split prefixb]. destruct t; reflexivity.
      * destruct (N.eqb c' d) eqn:Ec'.
        -- rewrite (split_cons_eq _ _ _ Ec').
           assert (Hcc : N.eqb c c' = false) by (apply N.eqb_eq in Ec'; subst; exact Ec).
           cbn [prefixb]. rewrite Hcc. destruct t; reflexivity.
        -- destruct (split_cons_ne d c' key Ec') as (h' & t' & E1' & E2'). rewrite E2'.
           specialize (IH key). rewrite E1' in IH. cbn [prefixb]. rewrite <- IH.
           destruct t as [|q r].
           ++ rewrite !parts_match_one. reflexivity.
           ++ rewrite !parts_match_more. cbn [beq]. rewrite andb_assoc. reflexivity.
Qed.

(* ---------- shape of the output ---------- *)

Lemma index_split_base d key :
  match index_byte d key with
  | None => length (split d key) = 1%nat
  | Some i => length (split d key) <> 1%nat /\
              join d (firstn 1 (split d key)) ++ [d] = firstn (S i) key
  end.
Proof.
  induction key as [|c key IH]; [reflexivity|].
  cbn [index_byte]. destruct (N.eqb c d) eqn:E.
  - rewrite (split_cons_eq _ _ _ E). split.
    + pose proof (split_nonempty d key) as Hn.
      destruct (split d key); [contradiction|cbn [length]; lia].
    + cbn. apply N.eqb_eq in E. subst. reflexivity.
  - destruct (split_cons_ne d c key E) as (h & t & E1 & E2). rewrite E2. rewrite E1 in IH.
    destruct (index_byte d key) as [i|].
    + destruct IH as [IH1 IH2]. split; [exact IH1|].
      change (firstn (S (S i)) (c :: key)) with (c :: firstn (S i) key).
      rewrite <- IH2. reflexivity.
    + exact IH.
Qed.

(* number of parts and the re-joined matched parts, in terms of the first delimiter after
   the prefix (no side condition) *)
Lemma prefix_core d pre : forall key, prefixb pre key = true ->
  match index_byte d (skipn (length pre) key) with
  | None => length (split d key) = length (split d pre)
  | Some i => length (split d key) <> length (split d pre) /\
      join d (firstn (length (split d pre)) (split d key)) ++ [d]
      = pre ++ firstn (S i) (skipn (length pre) key)
  end.
Proof.
  induction pre as [|c pre IH]; intros key H.
  - cbn [length skipn split app]. apply index_split_base.
  - destruct key as [|c' key]; [discriminate|]. cbn [prefixb] in H.
    apply andb_prop in H as [Hc H]. apply N.eqb_eq in Hc. subst c'.
    specialize (IH key H). cbn [length skipn].
    destruct (N.eqb c d) eqn:E.
    + rewrite !(split_cons_eq _ _ _ E). cbn [length].
      destruct (index_byte d (skipn (length pre) key)) as [i|].
      * destruct IH as [IH1 IH2]. split; [lia|]. cbn [firstn].
        rewrite join_cons by apply firstn_split_nonempty. cbn [app]. rewrite IH2.
        apply N.eqb_eq in E. subst. reflexivity.
      * lia.
    + destruct (split_cons_ne d c pre E) as (h & t & E1 & E2).
      destruct (split_cons_ne d c key E) as (h' & t' & E1' & E2').
      rewrite E2, E2'. rewrite E1, E1' in IH. cbn [length] in *.
      destruct (index_byte d (skipn (length pre) key)) as [i|].
      * destruct IH as [IH1 IH2]. split; [exact IH1|].
        change (firstn (S (length t)) ((c :: h') :: t')) with ((c :: h') :: firstn (length t) t').
        change (firstn (S (length t)) (h' :: t')) with (h' :: firstn (length t) t') in IH2.
        rewrite join_cons_cons. cbn [app]. f_equal. exact IH2.
      * exact IH.
Qed.

(* ---------- the three task lemmas ---------- *)

(* without a delimiter: a plain string-prefix test *)
Lemma match_eq_classify_nodelim pre key : prefix_match pre None key = classify pre None key.
Proof.
  unfold prefix_match, classify. destruct pre as [|c pre]; [reflexivity|].
  destruct (prefixb (c :: pre) key); reflexivity.
Qed.

(* with a delimiter d: for every key that neither starts nor ends with d and every prefix that
   does not start with d *)
Lemma match_eq_classify_delim d pre key :
  starts_with d key = false -> ends_with d key = false -> starts_with d pre = false ->
  prefix_match pre (Some d) key = classify pre (Some d) key.
Proof.
  intros Hk He Hp. unfold prefix_match, classify. cbv zeta.
  rewrite (trim_left_id _ _ Hk), (trim_left_id _ _ Hp).
  rewrite parts_match_split.
  destruct (prefixb pre key) eqn:Hpk.
  - cbn [negb].
    assert (Hlen : (length (split d pre) <= length (split d key))%nat)
      by (apply parts_match_length; rewrite parts_match_split; exact Hpk).
    destruct (Nat.ltb (length (split d key)) (length (split d pre))) eqn:Hlt;
      [apply Nat.ltb_lt in Hlt; lia|].
    pose proof (prefix_core d pre key Hpk) as Hc.
    destruct (index_byte d (skipn (length pre) key)) as [i|] eqn:Hi.
    + destruct Hc as [Hne Hout].
      destruct (Nat.eqb (length (split d key)) (length (split d pre))) eqn:Heq;
        [apply Nat.eqb_eq in Heq; contradiction|].
      cbn [negb]. rewrite Hout.
      destruct (beq (pre ++ firstn (S i) (skipn (length pre) key)) key) eqn:Hb; [|reflexivity].
      exfalso. apply beq_eq in Hb.
      destruct (index_byte_some _ _ _ Hi) as (a & b & Ha & Hb2).
      rewrite Hb2 in Hb. rewrite <- Hb in He. rewrite app_assoc in He.
      rewrite ends_with_snoc in He. discriminate.
    + rewrite <- Hc. rewrite Nat.eqb_refl. cbn [negb]. rewrite app_nil_r.
      rewrite firstn_all, join_split, beq_refl. reflexivity.
  - cbn [negb]. destruct (Nat.ltb (length (split d key)) (length (split d pre))); reflexivity.
Qed.

(* consequence used by the listing theorems: a common prefix is a literal prefix of the key and
   ends with the delimiter *)
Lemma classify_common_is_prefix pre d key p :
  classify pre (Some d) key = MCommon p -> prefixb p key = true /\ prefixb pre p = true /\ last p 0%N = d.
Proof.
  unfold classify. destruct (prefixb pre key) eqn:Hpk; [|discriminate].
  destruct (index_byte d (skipn (length pre) key)) as [i|] eqn:Hi; [|discriminate].
  intros H. replace p with (pre ++ firstn (S i) (skipn (length pre) key)) by congruence.
  clear H p. destruct (index_byte_some _ _ _ Hi) as (a & b & Ha & Hb). rewrite Hb.
  split; [|split].
  - pose proof (prefixb_app _ _ Hpk) as Hkey. rewrite Ha in Hkey. rewrite Hkey.
    replace (pre ++ a ++ d :: b) with ((pre ++ a ++ [d]) ++ b)
      by (rewrite <- !app_assoc; reflexivity).
    apply prefixb_app_r.
  - apply prefixb_app_r.
  - rewrite app_assoc. apply last_last.
Qed.

Print Assumptions match_eq_classify_delim.
