From GF Require Import Base.Bytes Base.SortedMap Proofs.BytesFacts.
From Coq Require Import Sorted.

Section Facts.
Context {V : Type}.
Notation map_ := (list (list N * V)).

(* strictly ascending keys *)
Fixpoint lb (k : list N) (m : map_) : Prop :=       (* k below every key of m *)
  match m with [] => True | (k', _) :: m' => bltb k k' = true /\ lb k m' end.
Fixpoint sorted (m : map_) : Prop :=
  match m with [] => True | (k, _) :: m' => lb k m' /\ sorted m' end.

Lemma lb_trans k k' (m : map_) : bltb k k' = true -> lb k' m -> lb k m.
Proof.
  induction m as [|[k2 v2] m IH]; cbn; [trivial|]. intros H [H1 H2]. split.
  - eapply bltb_trans; eassumption.
  - apply IH; assumption.
Qed.

Lemma lb_get_none k (m : map_) : lb k m -> sm_get k m = None.
Proof.
  induction m as [|[k2 v2] m IH]; cbn; [trivial|]. intros [H1 H2].
  rewrite (proj2 (beq_neq k k2) (bltb_neq _ _ H1)). apply IH. exact H2.
Qed.

Lemma get_set_eq k v (m : map_) : sm_get k (sm_set k v m) = Some v.
Proof.
  induction m as [|[k2 v2] m IH]; cbn.
  - rewrite beq_refl. reflexivity.
  - destruct (beq k k2) eqn:E; cbn.
    + rewrite beq_refl. reflexivity.
    + destruct (bltb k k2); cbn.
      * rewrite beq_refl. reflexivity.
      * rewrite E. exact IH.
Qed.

Lemma get_set_neq k k' v (m : map_) : k' <> k -> sm_get k' (sm_set k v m) = sm_get k' m.
Proof.
  intros Hne. apply beq_neq in Hne.
  induction m as [|[k2 v2] m IH]; cbn.
  - rewrite Hne. reflexivity.
  - destruct (beq k k2) eqn:E; cbn.
    + apply beq_eq in E. subst k2. rewrite Hne. reflexivity.
    + destruct (bltb k k2); cbn.
      * rewrite Hne. reflexivity.
      * destruct (beq k' k2); [reflexivity|exact IH].
Qed.

Lemma lb_set k0 k v (m : map_) : bltb k0 k = true -> lb k0 m -> lb k0 (sm_set k v m).
Proof.
  induction m as [|[k2 v2] m IH]; cbn; intros H0 Hlb.
  - auto.
  - destruct Hlb as [H1 H2]. destruct (beq k k2) eqn:E; cbn.
    + auto.
    + destruct (bltb k k2); cbn; auto.
Qed.

Lemma sorted_set k v (m : map_) : sorted m -> sorted (sm_set k v m).
Proof.
  induction m as [|[k2 v2] m IH]; cbn; intros Hs.
  - auto.
  - destruct Hs as [H1 H2]. destruct (beq k k2) eqn:E; cbn.
    + apply beq_eq in E. subst. auto.
    + destruct (bltb k k2) eqn:L; cbn.
      * split; [split; [exact L|]|auto]. eapply lb_trans; eassumption.
      * split; [|apply IH; exact H2]. apply lb_set; [|exact H1].
        apply beq_neq in E. destruct (bltb k2 k) eqn:L2; [reflexivity|].
        exfalso. apply E. apply bltb_total; assumption.
Qed.

Lemma lb_del k0 k (m : map_) : lb k0 m -> lb k0 (sm_del k m).
Proof.
  induction m as [|[k2 v2] m IH]; cbn; [trivial|]. intros [H1 H2].
  destruct (beq k k2); cbn; auto.
Qed.

Lemma sorted_del k (m : map_) : sorted m -> sorted (sm_del k m).
Proof.
  induction m as [|[k2 v2] m IH]; cbn; [trivial|]. intros [H1 H2].
  destruct (beq k k2); cbn; [exact H2|]. split; [apply lb_del; exact H1|apply IH; exact H2].
Qed.

Lemma get_del_eq k (m : map_) : sorted m -> sm_get k (sm_del k m) = None.
Proof.
  induction m as [|[k2 v2] m IH]; cbn; [trivial|]. intros [H1 H2].
  destruct (beq k k2) eqn:E; cbn.
  - apply beq_eq in E. subst. apply lb_get_none. exact H1.
  - rewrite E. apply IH. exact H2.
Qed.

Lemma get_del_neq k k' (m : map_) : k' <> k -> sm_get k' (sm_del k m) = sm_get k' m.
Proof.
  intros Hne. induction m as [|[k2 v2] m IH]; cbn; [trivial|].
  destruct (beq k k2) eqn:E; cbn.
  - apply beq_eq in E. subst. rewrite (proj2 (beq_neq k' k2) Hne). reflexivity.
  - destruct (beq k' k2); [reflexivity|exact IH].
Qed.

Lemma del_absent k (m : map_) : sm_get k m = None -> sm_del k m = m.
Proof.
  induction m as [|[k2 v2] m IH]; cbn; [trivial|].
  destruct (beq k k2); [discriminate|]. intros H. rewrite IH; auto.
Qed.
End Facts.
