From GF Require Import Base.Bytes Base.SortedMap Model.Mem Proofs.BytesFacts Proofs.SortedMapFacts.

Lemma get_bucket_set_eq s b bk : get_bucket (set_bucket s b bk) b = Some bk.
Proof. unfold get_bucket, set_bucket; cbn. apply get_set_eq. Qed.

(* read-your-writes at the backend level: after an accepted put, get returns that body *)
Lemma get_after_put s b k body m s' vid :
  put_object s b k body m = (s', (None, vid)) ->
  exists v sv, get_object s' b k = OObj v sv /\ vd_body v = body /\ vd_meta v = m /\ vd_marker v = false.
Proof.
  unfold put_object. destruct (get_bucket s b) as [bk|] eqn:Eb; [|discriminate].
  unfold bucket_put. intros H. inversion H; subst; clear H.
  unfold get_object, get_bucket; cbn [st_buckets]. rewrite get_set_eq. cbn [b_objs]. rewrite get_set_eq.
  cbn [o_data vd_marker]. eexists _, _. split; [reflexivity|]. cbn. auto.
Qed.

(* an accepted put leaves every other key of every bucket as it was *)
Lemma get_put_other s b k body m s' r b' k' :
  put_object s b k body m = (s', r) -> (b', k') <> (b, k) -> get_object s' b' k' = get_object s b' k'.
Proof.
  unfold put_object. destruct (get_bucket s b) as [bk|] eqn:Eb.
  2:{ intros H; inversion H; subst. reflexivity. }
  unfold bucket_put. intros H Hne. inversion H; subst; clear H.
  unfold get_object, get_bucket in *; cbn [st_buckets].
  destruct (beq b' b) eqn:Ebb.
  - apply beq_eq in Ebb. subst b'. rewrite get_set_eq. rewrite Eb. cbn [b_objs b_ver].
    rewrite get_set_neq by (intros ->; apply Hne; reflexivity). reflexivity.
  - apply beq_neq in Ebb. rewrite get_set_neq by exact Ebb. reflexivity.
Qed.

(* carry_meta (MergeMetadata): what the upload sends is kept, what the replaced object had is kept
   for every header the upload does not send, and nothing is added when there is no current object *)
Lemma carry_meta_keeps s b k m kv : In kv m -> In kv (carry_meta s b k m).
Proof.
  intros Hin. unfold carry_meta. destruct (get_object s b k) as [e|v sv]; [exact Hin|].
  destruct (vd_marker v); [exact Hin|]. apply in_or_app. left. exact Hin.
Qed.

Lemma carry_meta_absent s b k m e : get_object s b k = OErr e -> carry_meta s b k m = m.
Proof. intros Hg. unfold carry_meta. rewrite Hg. reflexivity. Qed.

Lemma carry_meta_src s b k m v sv kv :
  get_object s b k = OObj v sv -> vd_marker v = false -> In kv (vd_meta v) ->
  meta_has (fst kv) m = false -> In kv (carry_meta s b k m).
Proof.
  intros Hg Hm Hin Hh. unfold carry_meta. rewrite Hg, Hm. apply in_or_app. right.
  apply filter_In. split; [exact Hin|]. rewrite Hh. reflexivity.
Qed.
