(* The property C11 as mathematics: no machine integers, no wrap-around. *)
From GF Require Export Base.Bytes Base.Int64 Model.Range.
Open Scope Z_scope.

(* A syntactically valid single range, numbers already read as int64-representable
   integers (a number that does not fit is "malformed"). *)
Inductive range_form :=
| FirstLast (first last : Z)     (* first-last *)
| FirstOnly (first : Z)          (* first-     *)
| Suffix (k : Z).                (* -k         *)

Definition form_of_req (r : range_req) : range_form :=
  if rq_from_end r then Suffix (rq_end r)
  else if Z.eqb (rq_end r) range_no_end then FirstOnly (rq_start r)
  else FirstLast (rq_start r) (rq_end r).

(* bytes [a, b] inclusive of data *)
Definition sub_bytes (data : bytes) (a b : Z) : bytes :=
  firstn (Z.to_nat (b - a + 1)) (skipn (Z.to_nat a) data).

Inductive spec_answer :=
| S416
| SPartial (first last : Z) (body : bytes).

Definition answer (f : range_form) (data : bytes) : spec_answer :=
  let n := blen data in
  match f with
  | FirstLast a b =>
      if (0 <=? a) && (a <=? b) && (a <? n)
      then let l := Z.min b (n - 1) in SPartial a l (sub_bytes data a l) else S416
  | FirstOnly a =>
      if (0 <=? a) && (a <? n) then SPartial a (n - 1) (sub_bytes data a (n - 1)) else S416
  | Suffix k =>
      if (1 <=? k) && (k <=? n) then SPartial (n - k) (n - 1) (sub_bytes data (n - k) (n - 1))
      else S416
  end.

Definition to_spec (a : get_range_answer) : option spec_answer :=
  match a with
  | A416 => Some S416
  | APartial f l b => Some (SPartial f l b)
  | _ => None
  end.
