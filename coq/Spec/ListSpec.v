(* C03 in words: a key matches iff it starts with the prefix; with a delimiter it is a
   Content when no delimiter occurs after the prefix, otherwise it is represented by the
   common prefix "prefix + segment up to and including the first delimiter". *)
From GF Require Export Base.Bytes Model.Prefix.

Definition classify (pre : list N) (delim : option N) (key : list N) : match_result :=
  if prefixb pre key then
    match delim with
    | None => MContent
    | Some d =>
        let rest := skipn (length pre) key in
        match index_byte d rest with
        | None => MContent
        | Some i => MCommon (pre ++ firstn (S i) rest)
        end
    end
  else NoMatch.

(* The exact listing of a key list (given in ascending order): contents in order, common
   prefixes each once, in order of first appearance. *)
Fixpoint dedup (l : list (list N)) : list (list N) :=
  match l with
  | [] => []
  | x :: l' => x :: filter (fun y => negb (beq x y)) (dedup l')
  end.

Definition spec_contents (pre : list N) (delim : option N) (keys : list (list N)) : list (list N) :=
  filter (fun k => mr_eqb (classify pre delim k) MContent) keys.

Definition spec_prefixes (pre : list N) (delim : option N) (keys : list (list N)) : list (list N) :=
  dedup (flat_map (fun k => match classify pre delim k with MCommon p => [p] | _ => [] end) keys).
