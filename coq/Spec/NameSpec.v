(* C17 in the property's own words. *)
From GF Require Export Base.Bytes Model.BucketName.
Open Scope N_scope.

(* lowercase letters, digits and hyphens *)
Definition ldh (c : N) : bool := alnum c || (c =? hyphen).

(* a label: at least three characters, all LDH, begins and ends with a letter or digit *)
Definition label_ok (l : bytes) : bool :=
  (3 <=? length l)%nat && forallb ldh l && alnum (hd 0 l) && alnum (last l 0).

(* 3..63 characters, labels separated by single dots (an empty label is not a label),
   every label ok, not formatted as an (IPv4) address *)
Definition valid (s : bytes) : bool :=
  len_ok s && forallb label_ok (split dot s) && negb (is_ipv4 s).
