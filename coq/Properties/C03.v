(* C03 — Listings are the exact, sorted, correctly grouped view of the live keys.
   Model: Model/Prefix.v prefix_match (Prefix.Match), Model/Mem.v scan (the ListBucket loop),
   Model/MemWalk.v unpaged / live_keys.  Spec: Spec/ListSpec.v classify, spec_contents,
   spec_prefixes. *)
From GF Require Import Base.Bytes Base.SortedMap Model.Prefix Model.Mem Model.MemWalk Spec.ListSpec
  Proofs.SortedMapFacts Proofs.PrefixProofs Proofs.ListExact Proofs.ListDomain.

(* Prefix.Match = the declarative classification, for every delimiter byte, every key that
   neither starts nor ends with it and every prefix that does not start with it *)
Theorem C03_match_spec : forall d pre key,
  starts_with d key = false -> ends_with d key = false -> starts_with d pre = false ->
  prefix_match pre (Some d) key = classify pre (Some d) key.
Proof. exact match_eq_classify_delim. Qed.
Print Assumptions C03_match_spec.

Theorem C03_match_spec_nodelim : forall pre key, prefix_match pre None key = classify pre None key.
Proof. exact match_eq_classify_nodelim. Qed.
Print Assumptions C03_match_spec_nodelim.

(* a common prefix is "prefix + segment up to and including the first delimiter": a literal
   prefix of the key that extends the request prefix and ends with the delimiter *)
Theorem C03_common_prefix_shape : forall pre d key p,
  classify pre (Some d) key = MCommon p -> prefixb p key = true /\ prefixb pre p = true /\ last p 0%N = d.
Proof. exact classify_common_is_prefix. Qed.
Print Assumptions C03_common_prefix_shape.

(* the unpaginated listing is exactly the spec: Contents = live keys that start with the
   prefix and have no delimiter after it; CommonPrefixes = each group once; for every bucket
   content, prefix and delimiter of the domain *)
Theorem C03_list_exact : forall pre delim items,
  ListExact.data_some items -> pre_ok delim pre -> Forall (key_ok delim) (map fst items) ->
  map fst (lr_contents (unpaged pre delim items)) = spec_contents pre delim (live_keys items) /\
  lr_prefixes (unpaged pre delim items) = spec_prefixes pre delim (live_keys items).
Proof. exact list_exact. Qed.
Print Assumptions C03_list_exact.

(* each exactly once *)
Theorem C03_common_prefixes_once : forall l, NoDup (dedup l).
Proof. exact dedup_nodup. Qed.
Print Assumptions C03_common_prefixes_once.

(* ascending byte order *)
Theorem C03_keys_ascending : forall pre delim (items : list (list N * obj)),
  sorted items -> ListExact.data_some items ->
  ascending (map fst (lr_contents (unpaged pre delim items))).
Proof. exact listed_keys_ascending. Qed.
Print Assumptions C03_keys_ascending.

(* Size and ETag derive from the body of the key's current, not delete-marked, version *)
Theorem C03_entry_is_current_version : forall pre delim items k body,
  ListExact.data_some items -> In (k, body) (lr_contents (unpaged pre delim items)) ->
  exists o v, In (k, o) items /\ o_data o = Some v /\ vd_marker v = false /\ vd_body v = body.
Proof. exact unpaged_bodies. Qed.
Print Assumptions C03_entry_is_current_version.

(* non-vacuity *)
Definition c03_obj (body : list N) (marker : bool) : obj :=
  {| o_data := Some {| vd_vid := 1; vd_null := true; vd_marker := marker; vd_body := body; vd_meta := [] |}; o_vers := [] |}.
Example C03_ex :
  let items := [([97;47;49]%N, c03_obj [1]%N false); ([97;47;50]%N, c03_obj [2]%N true);
                ([97;47;51]%N, c03_obj [3]%N false); ([98]%N, c03_obj [4]%N false)] in
  (map fst (lr_contents (unpaged [] (Some 47%N) items)), lr_prefixes (unpaged [] (Some 47%N) items))
  = ([[98]%N], [[97;47]%N]).
Proof. vm_compute. reflexivity. Qed.
