(* C12 — aws-chunked streaming uploads decode to the payload however they arrive.
   Model: Model/Chunk.v — chunkedReader.Read as a state machine (cr_remain, cr_not_first) over an
   inner reader that delivers, per call, between 1 and the requested number of bytes according to
   an arbitrary fragmentation schedule (optionally EOF together with the last data), driven by
   the two consumers the backends use. *)
From GF Require Import Base.Bytes Model.Chunk Proofs.ChunkProofs.
Open Scope Z_scope.

(* consumer ReadAll(reader, declared size) — all backends: for EVERY payload, chunking
   (non-empty chunks of any size), transport fragmentation and EOF style the decoded object is
   exactly the concatenation of the chunk payloads *)
Theorem C12_decode_any_schedule : forall sig chunks sched eofw,
  sig_ok sig -> Forall (fun c => c <> [] /\ blen c < 2 ^ 62) chunks ->
  decode_readall (mk (encode sig chunks) sched eofw) (blen (concat chunks)) = DOk (concat chunks).
Proof. exact decode_readall_any_schedule. Qed.
Print Assumptions C12_decode_any_schedule.

(* consumer copy loop with ANY buffer size >= 1 (1 byte ... larger than any chunk) *)
Theorem C12_decode_copy_any_buffer : forall sig chunks sched eofw bufsz,
  sig_ok sig -> Forall (fun c => c <> [] /\ blen c < 2 ^ 62) chunks -> 1 <= bufsz ->
  decode_copy (mk (encode sig chunks) sched eofw) bufsz = concat chunks.
Proof. exact decode_copy_any_schedule. Qed.
Print Assumptions C12_decode_copy_any_buffer.

(* a declared decoded length that differs from the payload length is never accepted *)
Theorem C12_wrong_length_rejected : forall sig chunks sched eofw declared,
  sig_ok sig -> Forall (fun c => c <> [] /\ blen c < 2 ^ 62) chunks ->
  0 <= declared -> declared <> blen (concat chunks) ->
  forall p, decode_readall (mk (encode sig chunks) sched eofw) declared <> DOk p.
Proof. exact decode_wrong_length_rejected. Qed.
Print Assumptions C12_wrong_length_rejected.

(* one Read call, any buffer, any state reached while decoding: delivers exactly the next
   min(want, remaining) payload bytes (the functional specification of chunkedReader.Read) *)
Theorem C12_read_spec : forall sig, sig_ok sig -> forall fuel c P want racc,
  cinv sig c P -> (length (rd_buf (cr_inner c)) < fuel)%nat ->
  exists c', cread fuel want c racc =
             (rev_append (firstn (Z.to_nat want) P) racc, (if blen P <? want then REOF else RNone), c') /\
             (want <= blen P -> cinv sig c' (skipn (Z.to_nat want) P)).
Proof. exact cread_spec. Qed.
Print Assumptions C12_read_spec.

(* anything that does not start like a chunk header after the closing chunk makes the upload
   fail, whatever length was declared, however the transport fragments it (the decoder does
   not stop at the zero-length chunk: it reads on until the transport ends) *)
Theorem C12_trailing_garbage_rejected : forall sig chunks g0 g sched eofw size,
  sig_ok sig -> Forall (fun c => c <> [] /\ blen c < 2 ^ 62) chunks ->
  hexval g0 = None ->
  forall p, decode_readall (mk (encode sig chunks ++ g0 :: g) sched eofw) size <> DOk p.
Proof. exact trailing_garbage_rejected. Qed.
Print Assumptions C12_trailing_garbage_rejected.

(* non-vacuity / regression witness for the short-read defect: 5-byte chunk, 2-byte consumer
   buffer, 1-byte transport reads *)
Example C12_ex :
  decode_copy (mk (encode (repeat 120%N 80) [[1;2;3;4;5]%N; [6]%N]) [1;1;1;1;1;1;1;1;1;1;1;1;1;1;1;1;1;1;1;1] false) 2
  = [1;2;3;4;5;6]%N.
Proof. vm_compute. reflexivity. Qed.
