(* C12 (growing) *)
From GF Require Import Base.Bytes Model.Chunk.
From Coq Require Import Lia ZifyBool ZifyN.
Open Scope Z_scope.
Theorem C12_hexval_digit : forall c v, hexval c = Some v -> 0 <= v < 16.
Proof.
  intros c v. unfold hexval.
  destruct ((48 <=? c)%N && (c <=? 57)%N) eqn:E1; [intros H; inversion H; lia|].
  destruct ((97 <=? c)%N && (c <=? 102)%N) eqn:E2; [intros H; inversion H; lia|].
  destruct ((65 <=? c)%N && (c <=? 70)%N) eqn:E3; [intros H; inversion H; lia|]. discriminate.
Qed.
Print Assumptions C12_hexval_digit.
