(* C10 — Buckets and keys are independent namespaces.  (growing) *)
From GF Require Import Base.Bytes Base.SortedMap Model.Mem Model.BucketName Model.Handlers
  Proofs.MemInvDef Proofs.MemInv Proofs.MemProofs.

(* a put addressed to (b,k) changes no other (bucket, key) *)
Theorem C10_put_frame : forall c s b k body m b' k',
  (b', k') <> (b, k) -> get_bucket s b' <> None ->
  get_object (fst (step c s (OPut b k body m))) b' k' = get_object s b' k'.
Proof. exact law_put_frame. Qed.
Print Assumptions C10_put_frame.

(* a delete addressed to (b,k) changes no other (bucket, key) *)
Theorem C10_delete_frame : forall c s b k bk,
  Inv s -> get_bucket s b = Some bk -> b_ver bk = VNone ->
  let s1 := fst (step c s (ODelete b k)) in
  (forall b' k', (b', k') <> (b, k) -> get_object s1 b' k' = get_object s b' k').
Proof. intros c s b k bk Hi Hb Hv. exact (proj2 (proj2 (law_delete c s b k bk Hi Hb Hv))). Qed.
Print Assumptions C10_delete_frame.

(* a name that was never created as a bucket is not served *)
Theorem C10_unknown_bucket_not_served : forall c s b k,
  cfg_auto_bucket c = false -> get_bucket s b = None ->
  snd (step c s (OGet b k None)) = RErr ENoSuchBucket /\
  step c s (ODeleteBucket b) = (s, RErr ENoSuchBucket) /\
  (forall body m, step c s (OPut b k body m) = (s, RErr ENoSuchBucket)).
Proof. exact law_missing_bucket. Qed.
Print Assumptions C10_unknown_bucket_not_served.

(* nor, with auto-bucket on, is a name that create-bucket would refuse: nothing is created *)
Theorem C10_unknown_invalid_bucket_not_served_auto : forall c s b k,
  cfg_auto_bucket c = true -> get_bucket s b = None -> validate b = false ->
  snd (step c s (OGet b k None)) = RErr EInvalidBucketName /\
  step c s (ODeleteBucket b) = (s, RErr EInvalidBucketName) /\
  (forall body m, step c s (OPut b k body m) = (s, RErr EInvalidBucketName)).
Proof. exact law_missing_bucket_auto_invalid. Qed.
Print Assumptions C10_unknown_invalid_bucket_not_served_auto.

(* a refused operation changes nothing *)
Theorem C10_error_frame : forall c s o e,
  cfg_auto_bucket c = false -> snd (step c s o) = RErr e -> fst (step c s o) = s.
Proof. exact law_error_frame. Qed.
Print Assumptions C10_error_frame.
