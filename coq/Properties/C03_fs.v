(* C03 on the filesystem backends — the listing algorithm of backend/s3afero (one ReadDir of the
   prefix's directory for the delimiter "/", a Walk over every file otherwise) against the same
   declarative spec as the memory backend.
   Model: Model/FsList.v (file_prefix = Prefix.FilePrefix, clean_key_path = cleanKeyPath, read_dir,
   fs_list_file_prefix = getBucketWithFilePrefixLocked, fs_list_arbitrary =
   getBucketWithArbitraryPrefixLocked, fs_list = ListBucket) over the directory tree of
   Model/CrashDirs.v.  Spec: Spec/ListSpec.v classify, spec_contents, spec_prefixes.
   Proofs: Proofs/FsListProofs.v. *)
From GF Require Import Base.Bytes Base.SortedMap Model.Prefix Model.Mem Model.MemWalk Model.CrashDirs
  Model.FsList Spec.ListSpec Proofs.SortedMapFacts Proofs.PrefixProofs Proofs.ListExact
  Proofs.ListDomain Proofs.FsListProofs.
From Coq Require Import Permutation.

(* The main result.  Take any key list in strictly ascending byte order that a directory tree can
   hold (fs_storable: every key is non-empty and has no empty, "." or ".." segment -- so it neither
   begins nor ends with "/" -- and no key is a directory above another key), build the tree a live
   server builds for it (the keys as files, exactly their ancestors as directories), and take any
   prefix that does not begin with "/".  Then the delimiter-"/" listing of the backend succeeds; its
   Contents are, as a list, exactly the spec's Contents (the keys that begin with the prefix and have
   no "/" after it, in ascending order); and its CommonPrefixes are exactly the spec's common
   prefixes, each once (same elements, no duplicates, hence a permutation). *)
Theorem C03_fs_list_slash : forall keys pre,
  ascending keys -> fs_storable keys = true -> starts_with slash pre = false ->
  exists ps, fs_list (tree_of keys) pre (Some slash) = Some (spec_contents pre (Some slash) keys, ps) /\
             NoDup ps /\ (forall p, In p ps <-> In p (spec_prefixes pre (Some slash) keys)) /\
             Permutation ps (spec_prefixes pre (Some slash) keys).
Proof. exact fs_list_slash. Qed.
Print Assumptions C03_fs_list_slash.

(* The same for any tidy tree (Model/CrashDirs.v: every directory has a file somewhere below it and
   every file's ancestors exist) -- what every uninterrupted sequence of puts and deletes keeps
   (C15_fs_dirs theorems) -- not only for the tree built from a key list. *)
Theorem C03_fs_list_slash_tidy : forall t pre,
  tidy t -> sasc (t_files t) -> fs_storable (t_files t) = true -> starts_with slash pre = false ->
  exists ps, fs_list t pre (Some slash) = Some (spec_contents pre (Some slash) (t_files t), ps) /\
             NoDup ps /\ (forall p, In p ps <-> In p (spec_prefixes pre (Some slash) (t_files t))).
Proof. exact fs_list_slash_tidy. Qed.
Print Assumptions C03_fs_list_slash_tidy.

(* The Contents of the spec -- hence of the backend, by the theorem above -- are in strictly
   ascending byte order. *)
Theorem C03_fs_contents_ascending : forall keys pre,
  ascending keys -> ascending (spec_contents pre (Some slash) keys).
Proof. exact fs_list_slash_contents_ascending. Qed.
Print Assumptions C03_fs_contents_ascending.

(* The order of the CommonPrefixes: the backend answers them in the order of the directory NAMES
   (ReadDir sorts by name), i.e. ascending once the final "/" is taken off, for every tree and
   prefix.  Together with "each once" and "the spec's set" this fixes the list. *)
Theorem C03_fs_prefixes_by_name : forall t pre cs ps,
  fs_list t pre (Some slash) = Some (cs, ps) -> ascending (map (@removelast N) ps).
Proof. exact fs_list_slash_prefixes_by_name. Qed.
Print Assumptions C03_fs_prefixes_by_name.

(* ... and that is NOT the order of the spec (S3 and the other backends order common prefixes as
   strings, i.e. by name + "/"): equality of the CommonPrefixes as lists is refuted.  Keys a-b/x and
   a/x, empty prefix: the backend answers [a/; a-b/], the spec [a-b/; a/], because "a" < "a-b" but
   "a-b/" < "a/" ('-' = 45 < '/' = 47).  Any two sibling directories one of whose names extends the
   other by a byte below '/' (a space, or one of ! # $ % & + , - . among others) show it. *)
Theorem C03_fs_list_slash_prefix_order_refuted :
  exists keys pre, ascending keys /\ fs_storable keys = true /\ starts_with slash pre = false /\
    fs_list (tree_of keys) pre (Some slash)
    <> Some (spec_contents pre (Some slash) keys, spec_prefixes pre (Some slash) keys).
Proof. exact fs_list_slash_prefix_order_refuted. Qed.
Print Assumptions C03_fs_list_slash_prefix_order_refuted.

(* Up to that order the lists are the same: sorted as strings (sort_keys, the byte-order insertion
   sort of the model) the backend's CommonPrefixes ARE the spec's list, and its Contents are the
   spec's list as they stand.  This is the form a checker can run: compare Contents as lists and
   CommonPrefixes after sorting. *)
Theorem C03_fs_list_slash_sorted_prefixes : forall keys pre cs ps,
  ascending keys -> fs_storable keys = true -> starts_with slash pre = false ->
  fs_list (tree_of keys) pre (Some slash) = Some (cs, ps) ->
  cs = spec_contents pre (Some slash) keys /\ sort_keys ps = spec_prefixes pre (Some slash) keys.
Proof. exact fs_list_slash_sorted_prefixes. Qed.
Print Assumptions C03_fs_list_slash_sorted_prefixes.

(* The backend's CommonPrefixes equal the spec's list as they stand exactly when they happen to
   ascend as strings. *)
Theorem C03_fs_list_slash_prefixes_eq_iff : forall keys pre cs ps,
  ascending keys -> fs_storable keys = true -> starts_with slash pre = false ->
  fs_list (tree_of keys) pre (Some slash) = Some (cs, ps) ->
  (ps = spec_prefixes pre (Some slash) keys <-> sasc ps).
Proof. exact fs_list_slash_prefixes_eq_iff. Qed.
Print Assumptions C03_fs_list_slash_prefixes_eq_iff.

(* Without a delimiter the backend walks every file, keeps those that begin with the prefix and
   sorts: its Contents are the spec's Contents as a list (every key that begins with the prefix, in
   ascending order) and it answers no CommonPrefixes.  Needs only the ascending order of the keys. *)
Theorem C03_fs_list_nodelim : forall keys pre, ascending keys ->
  fs_list (tree_of keys) pre None = Some (spec_contents pre None keys, []).
Proof. exact fs_list_nodelim. Qed.
Print Assumptions C03_fs_list_nodelim.

(* The property in its own words, delimiter "/": a key is shown -- under Contents, or by the common
   prefix that is the prefix plus the key's segment up to and including the first "/" -- if and only
   if it begins with the prefix; every Content is a key that begins with the prefix and has no "/"
   after it; every CommonPrefix is that group of some key that begins with the prefix (and is a
   literal prefix of it); no Content and no CommonPrefix is answered twice; Contents ascend. *)
Theorem C03_fs_list_slash_shown : forall keys pre cs ps,
  ascending keys -> fs_storable keys = true -> starts_with slash pre = false ->
  fs_list (tree_of keys) pre (Some slash) = Some (cs, ps) ->
  (forall k, In k keys ->
     (prefixb pre k = true <->
      In k cs \/ exists p, In p ps /\ classify pre (Some slash) k = MCommon p)) /\
  (forall c, In c cs -> In c keys /\ prefixb pre c = true /\ classify pre (Some slash) c = MContent) /\
  (forall p, In p ps -> exists k, In k keys /\ prefixb pre k = true /\ prefixb p k = true /\
                                  classify pre (Some slash) k = MCommon p) /\
  NoDup cs /\ NoDup ps /\ ascending cs.
Proof. exact fs_list_slash_shown. Qed.
Print Assumptions C03_fs_list_slash_shown.

(* A delimiter other than "/" (on the domain of the memory theorems: keys neither begin nor end
   with it, the prefix does not begin with it): the backend answers every key that begins with the
   prefix under Contents and never a CommonPrefix -- it asks Prefix.Match only whether the key
   matches and throws the grouping away. *)
Theorem C03_fs_list_other_delimiter : forall keys pre d,
  d <> slash -> ascending keys -> Forall (key_ok (Some d)) keys -> pre_ok (Some d) pre ->
  fs_list (tree_of keys) pre (Some d) = Some (filter (prefixb pre) keys, []).
Proof. exact fs_list_other_delimiter. Qed.
Print Assumptions C03_fs_list_other_delimiter.

(* ... so for such a delimiter the backend does not meet the spec: keys a-1 and a-2, delimiter "-",
   empty prefix.  Spec: no Contents, CommonPrefix "a-".  Backend: both keys, no CommonPrefix. *)
Theorem C03_fs_list_other_delimiter_refuted :
  exists keys pre d, d <> slash /\ ascending keys /\ fs_storable keys = true /\
    Forall (key_ok (Some d)) keys /\ pre_ok (Some d) pre /\
    exists cs ps, fs_list (tree_of keys) pre (Some d) = Some (cs, ps) /\
      cs <> spec_contents pre (Some d) keys /\ ps <> spec_prefixes pre (Some d) keys.
Proof. exact fs_list_other_delimiter_refuted. Qed.
Print Assumptions C03_fs_list_other_delimiter_refuted.

(* The hypothesis on the prefix is needed (it is the property's own domain): prefix "/a" over the
   key "a" lists the key, which does not begin with "/a" (FilePrefix cuts at the "/", the directory
   part is empty, the bucket root is read). *)
Theorem C03_fs_list_leading_slash_prefix_refuted :
  exists keys pre, ascending keys /\ fs_storable keys = true /\
    exists cs ps, fs_list (tree_of keys) pre (Some slash) = Some (cs, ps) /\
      cs <> spec_contents pre (Some slash) keys.
Proof. exact fs_list_leading_slash_prefix_refuted. Qed.
Print Assumptions C03_fs_list_leading_slash_prefix_refuted.

(* Known finding D34 from the listing side: in ANY tree, a top-level directory without a file below
   it (Model/CrashDirs.v phantoms -- what a PUT killed after MkdirAll or a DELETE killed before the
   pruning leaves) is answered as the common prefix "d/" of the root listing although no key begins
   with "d/"; and such a tree is not tidy, so the theorems above do not speak about it. *)
Theorem C03_fs_list_phantom_prefix : forall t d,
  In d (phantoms t) -> mem_byte slash d = false -> d <> [] ->
  exists cs ps, fs_list t [] (Some slash) = Some (cs, ps) /\ In (d ++ [slash]) ps /\
                forall k, In k (t_files t) -> prefixb (d ++ [slash]) k = false.
Proof. exact fs_list_phantom_prefix. Qed.
Print Assumptions C03_fs_list_phantom_prefix.

Theorem C03_fs_phantom_not_tidy : forall t d, In d (phantoms t) -> ~ tidy t.
Proof. exact phantom_not_tidy. Qed.
Print Assumptions C03_fs_phantom_not_tidy.

(* The listing of the model never takes the error return: the bucket directory exists, and a prefix
   directory that passed IsDir can be read. *)
Theorem C03_fs_list_total : forall t pre delim, exists cs ps, fs_list t pre delim = Some (cs, ps).
Proof. exact fs_list_total. Qed.
Print Assumptions C03_fs_list_total.

(* The key sets a directory tree can hold lie inside the domain of the memory theorems of C03 (no
   key begins or ends with "/") ... *)
Theorem C03_fs_storable_in_domain : forall keys,
  fs_storable keys = true -> Forall (key_ok (Some slash)) keys.
Proof. exact storable_key_ok. Qed.
Print Assumptions C03_fs_storable_in_domain.

(* ... and on them the two algorithms agree: a memory bucket (Model/Mem.v, any versions and delete
   markers) and the directory tree of its live keys answer the same Contents, in the same order, and
   the same set of CommonPrefixes for the delimiter "/". *)
Theorem C03_fs_list_agrees_with_memory : forall (items : list (list N * obj)) pre,
  sorted items -> ListExact.data_some items -> fs_storable (live_keys items) = true ->
  starts_with slash pre = false ->
  exists ps, fs_list (tree_of (live_keys items)) pre (Some slash)
             = Some (map fst (lr_contents (unpaged pre (Some slash) items)), ps) /\
             Permutation ps (lr_prefixes (unpaged pre (Some slash) items)).
Proof. exact fs_list_agrees_with_memory. Qed.
Print Assumptions C03_fs_list_agrees_with_memory.

(* non-vacuity: a-b/x a/b/c a/b/d a/bc a/e b c/.x c/d is ascending and storable; a key above another
   key, a key with an empty or ".." segment and the empty key are not; one listing and the early
   exits computed; the killed upload of D34 computed *)
Example C03_fs_storable_example : fs_storable ex_keys = true /\ ascending ex_keys.
Proof. exact ex_keys_storable. Qed.

Example C03_fs_not_storable_example :
  fs_storable [[97]; [97; 47; 98]]%N = false /\ fs_storable [[97; 47; 47; 98]]%N = false /\
  fs_storable [[46; 46; 47; 98]]%N = false /\ fs_storable [[]] = false.
Proof. exact ex_not_storable. Qed.

Example C03_fs_list_example :
  fs_list (tree_of ex_keys) [97; 47; 98]%N (Some slash)
  = Some ([[97; 47; 98; 99]%N], [[97; 47; 98; 47]%N]) /\
  spec_contents [97; 47; 98]%N (Some slash) ex_keys = [[97; 47; 98; 99]%N] /\
  spec_prefixes [97; 47; 98]%N (Some slash) ex_keys = [[97; 47; 98; 47]%N].
Proof. exact ex_list_a_b. Qed.

Example C03_fs_list_phantom_example :
  let t := run_dops (tree_of [[98]%N]) (firstn 1 (put_dops (tree_of [[98]%N]) [101; 47; 102; 47; 103]%N)) in
  phantoms t = [[101; 47; 102]; [101]]%N /\
  fs_list t [] (Some slash) = Some ([[98]%N], [[101; 47]%N]) /\
  spec_prefixes [] (Some slash) (t_files t) = [].
Proof. exact fs_list_phantom_example. Qed.
