(* C13 — Version listings show each version once, flag the true latest, page completely.
   Model: Model/MemVersions.v (obj_versions, take_versions, scan_versions, list_versions) and
   Model/VersionWalk.v (a client following NextKeyMarker / NextVersionIdMarker). *)
From GF Require Import Base.Bytes Base.SortedMap Model.Prefix Model.Mem Model.MemVersions Model.VersionWalk
  Proofs.SortedMapFacts Proofs.MemInvDef Proofs.VersionListProofs.
Open Scope Z_scope.

(* the unpaginated listing is exactly every stored version and delete marker of every listed
   key, grouped by key in ascending key order, and is not truncated *)
Theorem C13_exact : forall pre delim items,
  vl_entries (vunpaged pre delim items) = all_versions pre delim items /\
  vl_truncated (vunpaged pre delim items) = false.
Proof. exact vunpaged_exact. Qed.
Print Assumptions C13_exact.

(* exactly one entry per key is flagged IsLatest: the current version ... *)
Theorem C13_one_latest : forall k o next,
  obj_ok next o ->
  exists c pre_entries,
    o_data o = Some c /\
    obj_versions k o = pre_entries ++ [{| ve_key := k; ve_vid := vd_vid c; ve_marker := vd_marker c;
                                          ve_latest := true; ve_body := vd_body c |}] /\
    Forall (fun e => ve_latest e = false) pre_entries.
Proof. exact one_latest. Qed.
Print Assumptions C13_one_latest.

(* ... which is the version an unqualified read resolves to (NoSuchKey for a delete marker) *)
Theorem C13_latest_is_what_get_serves : forall s b k bk o c,
  get_bucket s b = Some bk -> sm_get k (b_objs bk) = Some o -> o_data o = Some c ->
  (vd_marker c = false -> exists sv, get_object s b k = OObj c sv) /\
  (vd_marker c = true -> get_object s b k = OErr ENoSuchKey).
Proof. exact latest_is_what_get_serves. Qed.
Print Assumptions C13_latest_is_what_get_serves.

(* every version appears once: the ids within a key are strictly ascending *)
Theorem C13_each_version_once : forall k o next, obj_ok next o -> vids_ascending (obj_versions k o).
Proof. exact obj_versions_ascending. Qed.
Print Assumptions C13_each_version_once.

(* following the markers of truncated responses terminates (fuel = number of entries + 1) and the
   pages concatenate to exactly the unpaginated listing: none skipped, none repeated; every page
   respects max-keys *)
Theorem C13_paging_complete : forall pre delim mk objs next,
  1 <= mk -> sorted objs -> (forall k o, In (k, o) objs -> obj_ok next o) -> ~ In [] (map fst objs) ->
  exists pages,
    vwalk (S (length (all_versions pre delim objs))) pre delim mk objs [] None = Some pages /\
    flat_map vl_entries pages = vl_entries (vunpaged pre delim objs) /\
    Forall (fun r => Z.of_nat (length (vl_entries r)) <= mk) pages /\
    (exists r, last (map Some pages) None = Some r /\ vl_truncated r = false).
Proof. exact vwalk_complete. Qed.
Print Assumptions C13_paging_complete.

(* every prefix and every marker pair get a listing as answer, never an error: the page of the
   client walk from that marker (the memory backend used to answer 500 InternalError when the
   key marker did not match the prefix) *)
Theorem C13_any_marker_any_prefix_answered : forall s b bk pre delim km vm mk,
  get_bucket s b = Some bk ->
  exists show, list_versions s b pre delim km vm mk =
               VLOk (vpage pre delim mk (b_objs bk) km (match km with [] => None | _ => vm end)) show.
Proof. exact list_versions_answers. Qed.
Print Assumptions C13_any_marker_any_prefix_answered.

(* ... and when the marker's key is not itself listed under the prefix / delimiter (it lies
   outside the prefix or inside a common prefix), nothing is filtered: the page is a prefix, of
   at most max-keys entries, of every listed version of the keys from the marker on, and all of
   them when it is not truncated *)
Theorem C13_marker_outside_prefix_resumes : forall pre delim km vm mk objs,
  1 <= mk -> prefix_match pre delim km <> MContent -> km <> [] ->
  exists l1 l2, all_versions pre delim (sm_seek km objs) = l1 ++ l2 /\
    vl_entries (vpage pre delim mk objs km vm) = l1 /\ Z.of_nat (length l1) <= mk /\
    (vl_truncated (vpage pre delim mk objs km vm) = false -> l2 = []).
Proof. exact vpage_marker_unlisted. Qed.
Print Assumptions C13_marker_outside_prefix_resumes.

(* a truncated page holds at least one entry and its markers name the last entry it holds: a page
   that says "truncated" always says where to go on from *)
Theorem C13_truncated_page_names_its_last_entry : forall pre delim km vm mk objs,
  1 <= mk -> vl_truncated (vpage pre delim mk objs km vm) = true ->
  exists l e, vl_entries (vpage pre delim mk objs km vm) = l ++ [e] /\
    vl_next_key (vpage pre delim mk objs km vm) = ve_key e /\
    vl_next_vid (vpage pre delim mk objs km vm) = ve_vid e.
Proof. exact vpage_truncated_names_last. Qed.
Print Assumptions C13_truncated_page_names_its_last_entry.

(* a key marker behind the last key (made up, or handed out before the keys behind it were removed):
   the page is empty and final *)
Theorem C13_marker_behind_every_key_ends_the_walk : forall pre delim km vm mk objs,
  km <> [] -> (forall kv, In kv objs -> bltb (fst kv) km = true) ->
  vl_entries (vpage pre delim mk objs km vm) = [] /\ (vl_truncated (vpage pre delim mk objs km vm) = false).
Proof. exact vpage_marker_behind_every_key. Qed.
Print Assumptions C13_marker_behind_every_key_ends_the_walk.

(* non-vacuity: two versions and a delete marker of one key, paged one entry at a time *)
Definition c13_v (id : N) (mk : bool) : vdata := {| vd_vid := id; vd_null := false; vd_marker := mk; vd_body := [id]; vd_meta := [] |}.
Definition c13_objs : list (list N * obj) := [([107]%N, {| o_data := Some (c13_v 3 true); o_vers := [c13_v 1 false; c13_v 2 false] |})].
Example C13_ex :
  option_map (map (fun r => map ve_vid (vl_entries r))) (vwalk 4 [] None 1 c13_objs [] None) = Some [[1%N]; [2%N]; [3%N]].
Proof. vm_compute. reflexivity. Qed.

(* the request that used to answer 500: prefix "k", key marker "a" (a key that exists in c13_objs2) *)
Definition c13_objs2 : list (list N * obj) :=
  [([97]%N, {| o_data := Some (c13_v 1 false); o_vers := [] |}); ([107]%N, {| o_data := Some (c13_v 3 true); o_vers := [c13_v 2 false] |})].
Example C13_ex_marker_outside_prefix :
  map ve_vid (vl_entries (vpage [107]%N None 5 c13_objs2 [97]%N (Some 1%N))) = [2%N; 3%N].
Proof. vm_compute. reflexivity. Qed.

(* a marker behind the only key: nothing, and not truncated *)
Example C13_ex_marker_behind_last_key :
  let r := vpage [] None 1 c13_objs [122; 122]%N None in (vl_entries r, vl_truncated r) = ([], false).
Proof. vm_compute. reflexivity. Qed.
