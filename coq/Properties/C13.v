(* C13 (growing) *)
From GF Require Import Base.Bytes Model.Mem Model.MemVersions.
Theorem C13_latest_is_current : forall k o e, In e (obj_versions k o) -> ve_latest e = true ->
  exists c, o_data o = Some c /\ ve_vid e = vd_vid c.
Proof.
  intros k o e H Hl. unfold obj_versions in H. apply in_app_or in H as [H|H].
  - apply in_map_iff in H as (v & <- & _). discriminate.
  - destruct (o_data o) as [c|]; [|contradiction]. destruct H as [<-|[]]. exists c. split; reflexivity.
Qed.
Print Assumptions C13_latest_is_current.
