(* C15 — Acknowledged state of the persistent backends survives restart.
   Clean restart: observables are a function of the persistent component.
   Kill: the filesystem backends are modelled at the granularity of their state-changing
   file-system calls (Model/Crash.v); the theorems below say exactly which part of the kill
   clause holds for them (other keys intact at every crash point, DeleteObject atomic, every
   crash state classified and repaired by the next PUT) and which does not (PutObject is not
   crash-atomic: [C15_fs_put_not_crash_atomic_refuted], recorded as known finding D31).
   PARTIAL: the atomicity of a bbolt Update transaction and the durability of the page cache
   are properties of bbolt / the OS; the model treats a bolt mutation as one step. *)
From GF Require Import Base.Bytes Base.Lit Base.SortedMap Model.Mem Model.Handlers Model.Uploader Model.MemWalk
  Proofs.MemInvDef Proofs.MemInv Model.Crash Proofs.CrashProofs.

(* a server = persistent backend state + volatile uploader state; restart drops the latter *)
Definition server := (state * ustate)%type.
Definition restart (sv : server) : server := (fst sv, uinit).

(* every object-API operation answers from the persistent state only: the same before and
   after any number of restarts, in every state, for every operation *)
Theorem C15_restart_preserves_answers : forall c (sv : server) o,
  step c (fst (restart sv)) o = step c (fst sv) o.
Proof. intros c [s u] o. reflexivity. Qed.
Print Assumptions C15_restart_preserves_answers.

(* ... hence whole operation sequences after a restart behave as if it had not happened *)
Theorem C15_restart_preserves_histories : forall c (sv : server) ops,
  run c (fst (restart sv)) ops = run c (fst sv) ops.
Proof. intros c [s u] ops. reflexivity. Qed.
Print Assumptions C15_restart_preserves_histories.

(* the state that is persisted is always well-formed (what a reopened store is read back into) *)
Theorem C15_persistent_state_wellformed : forall c ops, Inv (fst (run c init ops)).
Proof. exact run_inv. Qed.
Print Assumptions C15_persistent_state_wellformed.

(* pending multipart uploads are volatile: a restart forgets them (documented limitation of the
   in-memory uploader, not part of the property) *)
Theorem C15_uploads_are_volatile : forall (sv : server) b k id, get_upload (snd (restart sv)) b k id = None.
Proof. intros sv b k id. reflexivity. Qed.
Print Assumptions C15_uploads_are_volatile.

(* ---- kill -9 on the filesystem backends ------------------------------------------------- *)

(* an uninterrupted PutObject (unlink, create, write, metadata) is the abstract put: the key
   answers the new body, its MD5 and the new metadata; every other key answers as before *)
Theorem C15_fs_put_complete : forall md5 d k b u,
  DInv md5 d ->
  let d' := run_ops d (put_ops md5 d k b u) in
  observe md5 d' k = Some (b, md5 b, u) /\
  (forall k', k' <> k -> observe md5 d' k' = observe md5 d k') /\
  DInv md5 d'.
Proof. exact put_complete. Qed.
Print Assumptions C15_fs_put_complete.

(* whatever the crash point inside a PutObject or DeleteObject (before any call, or half way
   through a write), every other key — every acknowledged write — is served exactly as before *)
Theorem C15_fs_crash_leaves_other_keys_intact : forall md5 d k b u n p k',
  k' <> k ->
  observe md5 (run_ops d (crash_prefix (put_ops md5 d k b u) n p)) k' = observe md5 d k' /\
  observe md5 (run_ops d (crash_prefix (del_ops d k) n p)) k' = observe md5 d k'.
Proof. intros md5 d k b u n p k' H. split; [apply put_crash_frame | apply del_crash_frame]; exact H. Qed.
Print Assumptions C15_fs_crash_leaves_other_keys_intact.

(* DeleteObject is crash-atomic: at every crash point the key is as before or gone *)
Theorem C15_fs_delete_crash_atomic : forall md5 d k n p,
  let o := observe md5 (run_ops d (crash_prefix (del_ops d k) n p)) k in
  o = observe md5 d k \/ o = None.
Proof. exact del_crash_atomic. Qed.
Print Assumptions C15_fs_delete_crash_atomic.

(* every state a kill inside PutObject can leave for its key: old, new, or one of the listed
   partial states (absent; empty / half / whole new body with the previous or no metadata) *)
Theorem C15_fs_put_crash_outcomes : forall md5 d k b u n p,
  DInv md5 d ->
  In (observe md5 (run_ops d (crash_prefix (put_ops md5 d k b u) n p)) k)
     (observe md5 d k :: Some (b, md5 b, u) :: partial_states md5 d k b).
Proof. exact put_crash_outcomes. Qed.
Print Assumptions C15_fs_put_crash_outcomes.

(* ... the store stays well-formed and the next complete PUT of the key repairs it *)
Theorem C15_fs_put_crash_repaired_by_next_put : forall md5 d k b u n p b2 u2,
  DInv md5 d ->
  let dc := run_ops d (crash_prefix (put_ops md5 d k b u) n p) in
  DInv md5 dc /\ observe md5 (run_ops dc (put_ops md5 dc k b2 u2)) k = Some (b2, md5 b2, u2).
Proof. intros md5 d k b u n p b2 u2 H. split; [apply put_crash_inv; exact H | apply put_crash_repair; exact H]. Qed.
Print Assumptions C15_fs_put_crash_repaired_by_next_put.

(* the kill clause does NOT hold for PutObject of the filesystem backends: there is a crash
   point after which the key is neither its acknowledged old object nor the new one *)
Theorem C15_fs_put_not_crash_atomic_refuted : forall md5, exists d k b u n p,
  DInv md5 d /\
  observe md5 (run_ops d (crash_prefix (put_ops md5 d k b u) n p)) k <> observe md5 d k /\
  observe md5 (run_ops d (crash_prefix (put_ops md5 d k b u) n p)) k <> Some (b, md5 b, u).
Proof. exact put_crash_not_atomic. Qed.
Print Assumptions C15_fs_put_not_crash_atomic_refuted.

(* non-vacuity: a disk written by a live server satisfies the invariant, and the crash points of
   an overwrite really produce each kind of outcome *)
Example C15_crash_example :
  let md := fun b : bytes => 99%N :: b in
  let d0 := disk_of md [(B "a", (B "old!", [(B "c", B "blue")])); (B "d", (B "dd", []))] in
  map (fun n => observe md (run_ops d0 (crash_prefix (put_ops md d0 (B "a") (B "NEWW") [(B "c", B "red")]) n false)) (B "a"))
      [0; 1; 2; 3; 4; 5]%nat =
  [Some (B "old!", md (B "old!"), [(B "c", B "blue")]); None; Some ([], md [], [(B "c", B "blue")]);
   Some (B "NEWW", md (B "NEWW"), [(B "c", B "blue")]); Some (B "NEWW", md (B "NEWW"), []);
   Some (B "NEWW", md (B "NEWW"), [(B "c", B "red")])].
Proof. vm_compute. reflexivity. Qed.

(* ---- kill -9 on the filesystem backends: the directory side ------------------------------ *)
(* A key "e/f/g" is a file g in the directory e/f (Model/CrashDirs.v): PutObject makes the
   missing parent directories before it writes, DeleteObject prunes the parents it left empty.
   A tree is tidy when every directory has a file below it and every file's parents exist. *)
From GF Require Import Model.CrashDirs Proofs.CrashDirProofs.

(* an uninterrupted PutObject leaves a tidy tree tidy *)
Theorem C15_fs_dirs_put_complete_tidy : forall t k, tidy t -> tidy (run_dops t (put_dops t k)).
Proof. exact put_complete_tidy. Qed.
Print Assumptions C15_fs_dirs_put_complete_tidy.

(* an uninterrupted DeleteObject leaves a tidy tree tidy: the pruning loop removes every
   parent the delete left without a file ... *)
Theorem C15_fs_dirs_delete_complete_tidy : forall t k, tidy t -> tidy (run_dops t (del_dops t k)).
Proof. exact del_complete_tidy. Qed.
Print Assumptions C15_fs_dirs_delete_complete_tidy.

(* ... and nothing else: what is left is exactly the other files and the directories that still
   have one of them below *)
Theorem C15_fs_dirs_delete_complete_exact : forall t k, tidy t -> memb k (t_files t) = true ->
  let t' := run_dops t (del_dops t k) in
  t_files t' = remb k (t_files t) /\
  forall d, In d (t_dirs t') <-> In d (t_dirs t) /\ existsb (below d) (remb k (t_files t)) = true.
Proof. exact del_complete_exact. Qed.
Print Assumptions C15_fs_dirs_delete_complete_exact.

(* whatever call of a PutObject a kill precedes, the only directories left without a file are
   parents of the key being written *)
Theorem C15_fs_dirs_put_crash_confined : forall t k n d, tidy t ->
  In d (phantoms (run_dops t (firstn n (put_dops t k)))) -> In d (ancestors k).
Proof. exact put_crash_confined. Qed.
Print Assumptions C15_fs_dirs_put_crash_confined.

(* the same for a killed DeleteObject *)
Theorem C15_fs_dirs_delete_crash_confined : forall t k n d, tidy t ->
  In d (phantoms (run_dops t (firstn n (del_dops t k)))) -> In d (ancestors k).
Proof. exact del_crash_confined. Qed.
Print Assumptions C15_fs_dirs_delete_crash_confined.

(* no other key's file is touched at any crash point of either operation (in any tree) *)
Theorem C15_fs_dirs_crash_keeps_other_files : forall t k n k', beq k k' = false ->
  memb k' (t_files (run_dops t (firstn n (put_dops t k)))) = memb k' (t_files t) /\
  memb k' (t_files (run_dops t (firstn n (del_dops t k)))) = memb k' (t_files t).
Proof. exact crash_keeps_other_files_both. Qed.
Print Assumptions C15_fs_dirs_crash_keeps_other_files.

(* PutObject is not crash-atomic on the directory side either: a kill after MkdirAll leaves
   directories with no key below them (visible as a common prefix of a delimiter listing) *)
Theorem C15_fs_dirs_put_crash_leaves_empty_directory_refuted :
  exists t k n, tidy t /\ phantoms (run_dops t (firstn n (put_dops t k))) <> [].
Proof. exact put_crash_leaves_empty_directory_refuted. Qed.
Print Assumptions C15_fs_dirs_put_crash_leaves_empty_directory_refuted.

(* nor is DeleteObject: the file is unlinked, its directory not yet pruned *)
Theorem C15_fs_dirs_delete_crash_leaves_empty_directory_refuted :
  exists t k n, tidy t /\ phantoms (run_dops t (firstn n (del_dops t k))) <> [].
Proof. exact del_crash_leaves_empty_directory_refuted. Qed.
Print Assumptions C15_fs_dirs_delete_crash_leaves_empty_directory_refuted.

(* a complete PutObject of the same key after the kill leaves a tidy tree again *)
Theorem C15_fs_dirs_next_put_repairs : forall t k n, tidy t ->
  tidy (let t' := run_dops t (firstn n (put_dops t k)) in run_dops t' (put_dops t' k)).
Proof. exact next_put_repairs. Qed.
Print Assumptions C15_fs_dirs_next_put_repairs.

Theorem C15_fs_dirs_next_put_repairs_after_delete : forall t k n, tidy t ->
  tidy (let t' := run_dops t (firstn n (del_dops t k)) in run_dops t' (put_dops t' k)).
Proof. exact next_put_repairs_after_delete. Qed.
Print Assumptions C15_fs_dirs_next_put_repairs_after_delete.

(* a store that never crashed is tidy (so the hypothesis above is that of a live server) *)
Theorem C15_fs_dirs_live_tree_tidy : forall keys, tidy (tree_of keys).
Proof. exact tree_of_tidy. Qed.
Print Assumptions C15_fs_dirs_live_tree_tidy.

(* non-vacuity: the tree of three keys, the calls a nested PUT and a nested DELETE make in it,
   and the common prefixes a delimiter listing shows of the empty directories after one call *)
Example C15_dirs_example :
  let t0 := tree_of [B "a/b"; B "d"; B "p/q/r"] in
  t0 = {| t_files := [B "a/b"; B "d"; B "p/q/r"]; t_dirs := [B "p/q"; B "p"; B "a"] |} /\
  put_dops t0 (B "e/f/g") = [DMkdirAll (B "e/f/g"); DCreate (B "e/f/g")] /\
  del_dops t0 (B "p/q/r") = [DUnlink (B "p/q/r"); DRmdir (B "p/q"); DRmdir (B "p")] /\
  phantoms (run_dops t0 (firstn 1 (put_dops t0 (B "e/f/g")))) = [B "e/f"; B "e"] /\
  phantom_prefixes (run_dops t0 (firstn 1 (put_dops t0 (B "e/f/g")))) = [B "e/"] /\
  phantoms (run_dops t0 (firstn 2 (del_dops t0 (B "p/q/r")))) = [B "p"] /\
  phantom_prefixes (run_dops t0 (firstn 1 (del_dops t0 (B "p/q/r")))) = [B "p/"] /\
  phantoms (run_dops t0 (del_dops t0 (B "p/q/r"))) = [].
Proof. vm_compute. repeat split; reflexivity. Qed.
