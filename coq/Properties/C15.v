(* C15 — Acknowledged state of the persistent backends survives restart.  PARTIAL: the model
   covers the clean-restart clause (observables are a function of the persistent component);
   crash atomicity (kill -9) depends on bbolt / the filesystem and is not exhibited by the model. *)
From GF Require Import Base.Bytes Base.SortedMap Model.Mem Model.Handlers Model.Uploader Model.MemWalk
  Proofs.MemInvDef Proofs.MemInv.

(* a server = persistent backend state + volatile uploader state; restart drops the latter *)
Definition server := (state * ustate)%type.
Definition restart (sv : server) : server := (fst sv, uinit).

(* every object-API operation answers from the persistent state only: the same before and
   after any number of restarts, in every state, for every operation *)
Theorem C15_restart_preserves_answers : forall c (sv : server) o,
  step c (fst (restart sv)) o = step c (fst sv) o.
Proof. intros c [s u] o. reflexivity. Qed.
Print Assumptions C15_restart_preserves_answers.

(* ... hence whole operation sequences after a restart behave as if it had not happened *)
Theorem C15_restart_preserves_histories : forall c (sv : server) ops,
  run c (fst (restart sv)) ops = run c (fst sv) ops.
Proof. intros c [s u] ops. reflexivity. Qed.
Print Assumptions C15_restart_preserves_histories.

(* the state that is persisted is always well-formed (what a reopened store is read back into) *)
Theorem C15_persistent_state_wellformed : forall c ops, Inv (fst (run c init ops)).
Proof. exact run_inv. Qed.
Print Assumptions C15_persistent_state_wellformed.

(* pending multipart uploads are volatile: a restart forgets them (documented limitation of the
   in-memory uploader, not part of the property) *)
Theorem C15_uploads_are_volatile : forall (sv : server) b k id, get_upload (snd (restart sv)) b k id = None.
Proof. intros sv b k id. reflexivity. Qed.
Print Assumptions C15_uploads_are_volatile.
