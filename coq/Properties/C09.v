(* C09 — Every request gets a well-formed answer; no panic, hang or wedged state.  PARTIAL: the
   model makes every index / slice / nil dereference of the modelled handlers an explicit Panic
   outcome and proves it unreachable; panics inside libraries and blocking cannot be exhibited. *)
From GF Require Import Base.Bytes Base.Int64 Base.SortedMap Model.Mem Model.Handlers Model.Range Model.Uploader Model.Errors
  Proofs.MemInvDef Proofs.MemInv Proofs.RangeProofs Proofs.UploaderProofs Proofs.UploadListProofs.
Open Scope Z_scope.

(* no object-API request panics in any reachable state (incl. versioned states with delete
   markers: the nil current version that used to be reachable is excluded by the invariant) *)
Theorem C09_no_panic : forall c s o, Inv s -> snd (step c s o) <> RErr EPanic.
Proof. exact step_no_panic. Qed.
Print Assumptions C09_no_panic.

Theorem C09_reachable_inv : forall c ops, Inv (fst (run c init ops)).
Proof. exact run_inv. Qed.
Print Assumptions C09_reachable_inv.

(* no Range header, however absurd, makes the slicing fail *)
Theorem C09_no_range_panic : forall hdr data, blen data <= max64 -> get_range hdr data <> APanic.
Proof. exact get_range_no_panic. Qed.
Print Assumptions C09_no_range_panic.

(* a request answered with an error leaves the state as it was: later requests are answered as
   if it had not happened *)
Theorem C09_error_frame : forall c s o e,
  cfg_auto_bucket c = false -> snd (step c s o) = RErr e -> fst (step c s o) = s.
Proof. exact law_error_frame. Qed.
Print Assumptions C09_error_frame.

(* complete-multipart with any part number (negative, huge, never uploaded) is a clean refusal *)
Theorem C09_complete_hostile_part : forall md5 hex u s b k id req mpu n et0,
  get_upload u b k id = Some mpu -> In (n, et0) req ->
  (n < 0 \/ nth_error (up_parts mpu) (Z.to_nat n) = None \/ nth_error (up_parts mpu) (Z.to_nat n) = Some None) ->
  exists e, snd (complete_upload md5 hex u s b k id req) = (Some e, []) /\ (forall be, e <> UBackend be).
Proof. exact complete_rejects_unknown_part. Qed.
Print Assumptions C09_complete_hostile_part.

(* ListParts answers for every numeric marker, also beyond the highest part *)
Theorem C09_list_parts_any_marker : forall u b k id mpu marker limit,
  get_upload u b k id = Some mpu -> 0 <= marker -> 0 <= limit ->
  exists r, list_parts u b k id marker limit = inr r /\
    let rest := filter (fun np => Nat.leb (Z.to_nat marker) (fst np)) (held_parts mpu) in
    pr_parts r = firstn (Z.to_nat limit) rest /\
    (pr_truncated r = false -> skipn (Z.to_nat limit) rest = []) /\
    (pr_truncated r = true -> exists p tl, skipn (Z.to_nat limit) rest = (pr_next r, p) :: tl).
Proof. exact list_parts_page. Qed.
Print Assumptions C09_list_parts_any_marker.

(* every code of the table has a 3xx/4xx/5xx status; unknown codes answer 500 *)
Theorem C09_status_table_sane : forallb (fun cs => (300 <=? snd cs) && (snd cs <=? 599)) status_table = true.
Proof. vm_compute. reflexivity. Qed.
Print Assumptions C09_status_table_sane.
