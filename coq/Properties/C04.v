(* C04 — Paginated listing visits every key exactly once and terminates.
   Model: Model/Mem.v scan / skip_group, Base/SortedMap.v sm_after, Model/MemWalk.v page / walk
   (a client that follows the continuation the server returns). *)
From GF Require Import Base.Bytes Base.Lit Base.SortedMap Model.Prefix Model.Mem Model.MemWalk
  Proofs.SortedMapFacts Proofs.WalkProofs Proofs.ListDomain.
Open Scope Z_scope.

(* never more entries than the page size (and the loop never dereferences nil) *)
Theorem C04_page_bound : forall pre delim mk items,
  1 <= mk -> WalkProofs.data_some items ->
  entries (scan pre delim mk items 0 None empty_list) <= mk /\
  lr_panic (scan pre delim mk items 0 None empty_list) = false.
Proof. exact page_bound. Qed.
Print Assumptions C04_page_bound.

(* progress: a truncated page returns a marker that is a key of the bucket, strictly after the
   marker it was asked with *)
Theorem C04_progress : forall pre delim mk objs marker,
  1 <= mk -> sorted objs -> WalkProofs.data_some objs -> ~ In [] (map fst objs) ->
  let r := page pre delim mk objs marker in
  lr_truncated r = true ->
  In (lr_next r) (map fst objs) /\ (marker <> [] -> bltb marker (lr_next r) = true) /\ lr_next r <> [].
Proof. exact page_progress_nonempty_keys. Qed.
Print Assumptions C04_progress.

(* the walk terminates within |keys|+1 pages (the fuel is part of the statement) and the
   concatenation of its pages is exactly the unpaginated listing: every key once, in order, and
   every common prefix once; IsTruncated is false on the last page *)
Theorem C04_walk_complete : forall pre delim mk objs,
  1 <= mk -> sorted objs -> WalkProofs.data_some objs -> ~ In [] (map fst objs) ->
  pre_ok delim pre -> Forall (key_ok delim) (map fst objs) ->
  exists pages,
    walk (S (length objs)) pre delim mk objs [] = Some pages /\
    flat_map (fun r => map fst (lr_contents r)) pages = map fst (lr_contents (unpaged pre delim objs)) /\
    flat_map lr_prefixes pages = lr_prefixes (unpaged pre delim objs) /\
    Forall (fun r => entries r <= mk) pages /\
    (exists r, last (map Some pages) None = Some r /\ lr_truncated r = false).
Proof. exact walk_complete_domain. Qed.
Print Assumptions C04_walk_complete.

(* any marker / start-after value, present in the bucket or not: only keys strictly after it *)
Theorem C04_any_start_after : forall pre delim mk objs marker k body,
  marker <> [] -> sorted objs -> WalkProofs.data_some objs ->
  In (k, body) (lr_contents (page pre delim mk objs marker)) -> bltb marker k = true.
Proof. exact page_after_marker. Qed.
Print Assumptions C04_any_start_after.

(* the empty key is excluded for a reason: with it the walk would never terminate.  The HTTP API
   routes an empty object name to the bucket handlers, and since fix 22ff0db ("POST /bucket?uploads"
   and browser-form uploads with an empty key are refused) no request can create it any more; before
   that fix it was reachable through a multipart upload, which the C09 check now guards. *)
(* a marker at or behind the last key ends the walk: the page is empty and not truncated *)
Theorem C04_marker_behind_every_key_ends_the_walk : forall pre delim mk objs marker,
  marker <> [] -> (forall kv, In kv objs -> bleb (fst kv) marker = true) ->
  page pre delim mk objs marker = empty_list /\ lr_truncated empty_list = false /\
  lr_contents empty_list = [] /\ lr_prefixes empty_list = [].
Proof. intros pre delim mk objs marker Hm Hall. split; [exact (page_marker_behind_every_key pre delim mk objs marker Hm Hall)|]. repeat split. Qed.
Print Assumptions C04_marker_behind_every_key_ends_the_walk.

Theorem C04_empty_key_refuted :
  exists objs, sorted objs /\ WalkProofs.data_some objs /\ forall n, walk n [] None 1 objs [] = None.
Proof.
  exists cex_objs. destruct walk_empty_key_refuted as (H1 & H2 & _ & _ & _ & H6). auto.
Qed.
Print Assumptions C04_empty_key_refuted.

(* keys that begin with the delimiter are excluded ([key_ok]) for a reason as well: Prefix.Match
   strips leading delimiters from a key, so "/a/x" and "a/y" fall under the same common prefix
   "a/" although "0" sorts between them; an unpaginated listing reports it once, a walk with
   max-keys 1 reports it on two pages.  Such keys are reachable (PUT /bucket//a/x on the
   key-value backends): known finding D32. *)
Definition c04_lead_obj (k : list N) : list N * obj :=
  (k, {| o_data := Some {| vd_vid := 1%N; vd_null := true; vd_marker := false; vd_body := []; vd_meta := [] |}; o_vers := [] |}).
Definition c04_lead_objs := [c04_lead_obj (B "/a/x"); c04_lead_obj (B "0"); c04_lead_obj (B "a/y")].
Theorem C04_leading_delimiter_key_refuted :
  exists objs pages,
    sorted objs /\ WalkProofs.data_some objs /\ ~ In [] (map fst objs) /\
    walk (S (length objs)) [] (Some 47%N) 1 objs [] = Some pages /\
    flat_map lr_prefixes pages = [B "a/"; B "a/"] /\
    lr_prefixes (unpaged [] (Some 47%N) objs) = [B "a/"].
Proof.
  exists c04_lead_objs. eexists.
  split; [cbn; auto|]. split; [repeat constructor; discriminate|].
  split; [cbn; intros [H|[H|[H|[]]]]; discriminate H|].
  split; [vm_compute; reflexivity|]. split; vm_compute; reflexivity.
Qed.
Print Assumptions C04_leading_delimiter_key_refuted.
