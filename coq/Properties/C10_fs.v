(* C10 on the filesystem backends -- which uploads backend/s3afero refuses, and why that refusal is
   exactly what lets it behave like the key -> object map on every key set it accepts.
   Model: Model/FsPut.v (fs_stat, fs_put_decision = multi.go / single.go PutObject up to the first
   file-system change: cleanKeyPath, then util.go belowFile -- "is a directory" first, "a parent is
   an object" second; fs_put; fs_delete = deleteObjectLocked; fs_get_decision = HeadObject /
   GetObject; fs_put_reason / fs_put_refused = the same decision from the stored key set alone;
   fs_run / abstract_run) over the directory tree of Model/CrashDirs.v, with fs_storable of
   Model/FsList.v.  Every refusal is errUnsupportedKey = 400 InvalidArgument.
   Proofs: Proofs/FsPutProofs.v (the examples are proved there by vm_compute). *)
From Coq Require Import List NArith ZArith Bool Permutation.
From GF Require Import Base.Bytes Base.Lit Model.Errors Model.CrashDirs Model.FsList Model.FsPut
  Proofs.FsPutProofs.
Import ListNotations.

(* ---- agreement ----------------------------------------------------------------------------------------- *)

(* Take any key set a directory tree can hold and the tree a live server builds for it.  The outcome
   PutObject reaches on the tree (Stat calls) is the outcome computed from the key set alone: same
   acceptance, same reason for a refusal. *)
Theorem C10_fs_put_agreement_outcome : forall keys k, fs_storable keys = true ->
  fs_put_decision (tree_of keys) k = fs_put_reason keys k.
Proof. exact put_agreement_outcome. Qed.
Print Assumptions C10_fs_put_agreement_outcome.

(* ... hence: refused on the tree iff refused by the key-set test, with the same S3 error code. *)
Theorem C10_fs_put_agreement : forall keys k, fs_storable keys = true ->
  (fs_put_decision (tree_of keys) k <> PutAccepted <-> fs_put_refused keys k <> None) /\
  fs_put_error (fs_put_decision (tree_of keys) k) = fs_put_refused keys k.
Proof. exact put_agreement. Qed.
Print Assumptions C10_fs_put_agreement.

(* The same for any tidy tree with storable files, not only the tree built from a key list. *)
Theorem C10_fs_put_agreement_tidy : forall t k, tidy t -> fs_storable (t_files t) = true ->
  fs_put_decision t k = fs_put_reason (t_files t) k.
Proof. exact decision_reason. Qed.
Print Assumptions C10_fs_put_agreement_tidy.

(* fs_storable is needed: with "a" and "a/b" both stored (no file system holds that) the tree accepts
   "a/b/c" and the key-set test refuses it. *)
Theorem C10_fs_put_agreement_unstorable_refuted :
  exists keys k, fs_storable keys = false /\
    fs_put_decision (tree_of keys) k = PutAccepted /\ fs_put_refused keys k <> None.
Proof. exact put_agreement_unstorable_refuted. Qed.
Print Assumptions C10_fs_put_agreement_unstorable_refuted.

(* Every refusal is answered InvalidArgument with status 400. *)
Theorem C10_fs_refusal_status : forall o, o <> PutAccepted ->
  fs_put_error o = Some (B "InvalidArgument") /\ fs_put_status o = 400%Z.
Proof. exact refusal_status. Qed.
Print Assumptions C10_fs_refusal_status.

(* ---- the refusal is complete and exact ------------------------------------------------------------------ *)

(* An upload is refused only for one of three reasons: the key is not a clean path, a stored key
   lies below it (it is a directory), or it lies below a stored key (an object). *)
Theorem C10_fs_refused_reasons : forall keys k c, fs_put_refused keys k = Some c ->
  c = err_unsupported_key /\
  (clean_key_path k = false \/ (exists s, In s keys /\ below k s = true) \/
   (exists s, In s keys /\ below s k = true)).
Proof. exact refused_reasons. Qed.
Print Assumptions C10_fs_refused_reasons.

(* The reason recorded is the first test of the code that applies: unclean; else directory; else
   below an object. *)
Theorem C10_fs_reason_cases : forall keys k,
  match fs_put_reason keys k with
  | PutAccepted => clean_key_path k = true /\ (forall s, In s keys -> below k s = false) /\
                   (forall s, In s keys -> below s k = false)
  | PutUncleanKey => clean_key_path k = false
  | PutIsDirectory => clean_key_path k = true /\ exists s, In s keys /\ below k s = true
  | PutBelowObject => clean_key_path k = true /\ (forall s, In s keys -> below k s = false) /\
                      exists s, In s keys /\ below s k = true
  end.
Proof. exact reason_cases. Qed.
Print Assumptions C10_fs_reason_cases.

(* Each reason really makes the key unrepresentable, whatever else is stored: *)
Theorem C10_fs_unclean_unstorable : forall keys k,
  clean_key_path k = false -> fs_storable (k :: keys) = false.
Proof. exact unclean_unstorable. Qed.
Print Assumptions C10_fs_unclean_unstorable.

Theorem C10_fs_directory_unstorable : forall keys k s,
  In s keys -> below k s = true -> fs_storable (k :: keys) = false.
Proof. exact directory_unstorable. Qed.
Print Assumptions C10_fs_directory_unstorable.

Theorem C10_fs_below_object_unstorable : forall keys k s,
  In s keys -> below s k = true -> fs_storable (k :: keys) = false.
Proof. exact below_object_unstorable. Qed.
Print Assumptions C10_fs_below_object_unstorable.

(* ... so a refused key could not have been added to the key set. *)
Theorem C10_fs_refused_unstorable : forall keys k,
  fs_put_refused keys k <> None -> fs_storable (k :: keys) = false.
Proof. exact refused_unstorable. Qed.
Print Assumptions C10_fs_refused_unstorable.

(* Exactness: over a representable key set an upload is accepted if and only if the key set with
   the new key is representable.  The backends refuse nothing they could store. *)
Theorem C10_fs_accepted_iff_storable : forall keys k, fs_storable keys = true ->
  (fs_put_refused keys k = None <-> fs_storable (k :: keys) = true).
Proof. exact accepted_iff_storable. Qed.
Print Assumptions C10_fs_accepted_iff_storable.

(* ---- the invariant --------------------------------------------------------------------------------------- *)

(* An accepted upload into a bucket built from a storable duplicate-free key list: the files are the
   key and the others (as a list: k :: the others; as a set: keys with k added), again storable and
   duplicate-free, and the tree is tidy. *)
Theorem C10_fs_put_accepted : forall keys k, fs_storable keys = true -> NoDup keys ->
  fs_put_decision (tree_of keys) k = PutAccepted ->
  let t' := fst (fs_put (tree_of keys) k) in
  Permutation (t_files t') (k :: remb k keys) /\
  Permutation (t_files t') (if memb k keys then keys else k :: keys) /\
  fs_storable (t_files t') = true /\ NoDup (t_files t') /\ tidy t'.
Proof. exact put_accepted_perm. Qed.
Print Assumptions C10_fs_put_accepted.

(* The same for any tree that satisfies the invariant (tidy, files storable and duplicate-free). *)
Theorem C10_fs_put_accepted_inv : forall t k, fs_inv t -> fs_put_decision t k = PutAccepted ->
  fs_put t k = (run_dops t (put_dops t k), PutAccepted) /\
  t_files (fst (fs_put t k)) = abs_insert k (t_files t) /\
  fs_inv (fst (fs_put t k)).
Proof. exact put_accepted. Qed.
Print Assumptions C10_fs_put_accepted_inv.

(* A refused upload changes nothing (any tree). *)
Theorem C10_fs_put_refused_unchanged : forall t k,
  fs_put_decision t k <> PutAccepted -> fs_put t k = (t, fs_put_decision t k).
Proof. exact put_refused. Qed.
Print Assumptions C10_fs_put_refused_unchanged.

(* A delete removes exactly the key -- nothing when the key is unclean, a directory, below an object
   or absent -- and keeps the invariant. *)
Theorem C10_fs_delete : forall t k, fs_inv t ->
  t_files (fs_delete t k) = remb k (t_files t) /\ fs_inv (fs_delete t k).
Proof. exact delete_step. Qed.
Print Assumptions C10_fs_delete.

Theorem C10_fs_delete_exact : forall t k x, fs_inv t ->
  (In x (t_files (fs_delete t k)) <-> In x (t_files t) /\ x <> k).
Proof. exact delete_exact. Qed.
Print Assumptions C10_fs_delete_exact.

(* ---- refinement ------------------------------------------------------------------------------------------- *)

(* Every sequence of uploads and deletes from the empty bucket: the tree is tidy, the stored keys
   are storable and duplicate-free, they are -- as a list -- the keys of the abstract key -> object
   map that ignores exactly the refused uploads, and every answer (accepted, or the S3 error code)
   is the abstract one. *)
Theorem C10_fs_run_refines : forall ops,
  tidy (fs_run ops) /\ fs_storable (t_files (fs_run ops)) = true /\ NoDup (t_files (fs_run ops)) /\
  t_files (fs_run ops) = abstract_run ops /\
  fs_answers_from empty_tree ops = abstract_answers_from [] ops.
Proof. exact run_refines. Qed.
Print Assumptions C10_fs_run_refines.

Theorem C10_fs_run_refines_perm : forall ops, Permutation (t_files (fs_run ops)) (abstract_run ops).
Proof. exact run_refines_perm. Qed.
Print Assumptions C10_fs_run_refines_perm.

(* The same from any state that satisfies the invariant. *)
Theorem C10_fs_run_from_refines : forall ops t, fs_inv t ->
  fs_inv (fs_run_from t ops) /\
  t_files (fs_run_from t ops) = abstract_run_from (t_files t) ops /\
  fs_answers_from t ops = abstract_answers_from (t_files t) ops.
Proof. exact run_from_refines. Qed.
Print Assumptions C10_fs_run_from_refines.

(* What a step of the abstract map does to membership: insert adds the key unless refused, remove
   takes exactly the key away. *)
Theorem C10_fs_abs_step_In : forall keys o x,
  In x (abs_step keys o) <->
  match o with
  | FPut k => if fs_put_refused keys k then In x keys else (x = k \/ In x keys)
  | FDel k => In x keys /\ x <> k
  end.
Proof. exact abs_step_In. Qed.
Print Assumptions C10_fs_abs_step_In.

(* ---- reads ------------------------------------------------------------------------------------------------ *)

(* HeadObject / GetObject find exactly the stored keys -- for every key asked, clean or not. *)
Theorem C10_fs_get : forall keys k, fs_storable keys = true ->
  (fs_get_decision (tree_of keys) k = true <-> In k keys).
Proof. exact get_decision. Qed.
Print Assumptions C10_fs_get.

Theorem C10_fs_get_inv : forall t k, fs_inv t -> (fs_get_decision t k = true <-> In k (t_files t)).
Proof. exact get_decision_inv. Qed.
Print Assumptions C10_fs_get_inv.

(* Unclean keys, directories and keys below an object are answered NoSuchKey. *)
Theorem C10_fs_get_not_found : forall keys k, fs_storable keys = true ->
  clean_key_path k = false \/ (exists s, In s keys /\ below k s = true) \/
  (exists s, In s keys /\ below s k = true) ->
  fs_get_decision (tree_of keys) k = false.
Proof. exact get_not_found. Qed.
Print Assumptions C10_fs_get_not_found.

(* Read-your-writes: after an accepted upload the key is found and the others as before; after a
   delete the key is not found and the others as before. *)
Theorem C10_fs_get_after_put : forall t k k', fs_inv t -> fs_put_decision t k = PutAccepted ->
  fs_get_decision (fst (fs_put t k)) k' = true <-> (k' = k \/ fs_get_decision t k' = true).
Proof. exact get_after_put. Qed.
Print Assumptions C10_fs_get_after_put.

Theorem C10_fs_get_after_delete : forall t k k', fs_inv t ->
  fs_get_decision (fs_delete t k) k' = true <-> (fs_get_decision t k' = true /\ k' <> k).
Proof. exact get_after_delete. Qed.
Print Assumptions C10_fs_get_after_delete.

(* ---- examples (computed in Proofs/FsPutProofs.v) ------------------------------------------------------------ *)

(* a storable key set with nested keys: a/b/c, a/b/d, a/e, f; its directories are a/b and a *)
Example C10_fs_storable_example : fs_storable ex_put_keys = true /\ NoDup ex_put_keys /\
  t_dirs (tree_of ex_put_keys) = [B "a/b"; B "a"].
Proof. exact ex_put_keys_storable. Qed.

(* a refused upload of each kind, with its reason, S3 code and status *)
Example C10_fs_refusal_example :
  fs_put (tree_of ex_put_keys) (B "a//x") = (tree_of ex_put_keys, PutUncleanKey) /\
  fs_put (tree_of ex_put_keys) (B "a/./x") = (tree_of ex_put_keys, PutUncleanKey) /\
  fs_put (tree_of ex_put_keys) (B "../x") = (tree_of ex_put_keys, PutUncleanKey) /\
  fs_put (tree_of ex_put_keys) (B "a/e/") = (tree_of ex_put_keys, PutUncleanKey) /\
  fs_put (tree_of ex_put_keys) [] = (tree_of ex_put_keys, PutUncleanKey) /\
  fs_put (tree_of ex_put_keys) (B "a/b") = (tree_of ex_put_keys, PutIsDirectory) /\
  fs_put (tree_of ex_put_keys) (B "a") = (tree_of ex_put_keys, PutIsDirectory) /\
  fs_put (tree_of ex_put_keys) (B "f/g") = (tree_of ex_put_keys, PutBelowObject) /\
  fs_put (tree_of ex_put_keys) (B "a/e/x/y") = (tree_of ex_put_keys, PutBelowObject) /\
  fs_put_refused ex_put_keys (B "a//x") = Some (B "InvalidArgument") /\
  fs_put_refused ex_put_keys (B "a/b") = Some (B "InvalidArgument") /\
  fs_put_refused ex_put_keys (B "f/g") = Some (B "InvalidArgument") /\
  fs_put_reason ex_put_keys (B "a//x") = PutUncleanKey /\
  fs_put_reason ex_put_keys (B "a/b") = PutIsDirectory /\
  fs_put_reason ex_put_keys (B "f/g") = PutBelowObject /\
  fs_put_status PutUncleanKey = 400%Z /\ fs_put_status PutIsDirectory = 400%Z /\
  fs_put_status PutBelowObject = 400%Z.
Proof. exact ex_put_refusals. Qed.

(* the order of the tests: unclean decides before "below an object" / "is a directory" *)
Example C10_fs_order_example :
  fs_put_decision (tree_of ex_put_keys) (B "f//g") = PutUncleanKey /\
  fs_put_decision (tree_of ex_put_keys) (B "a/b/") = PutUncleanKey /\
  fs_put_reason ex_put_keys (B "f//g") = PutUncleanKey.
Proof. exact ex_put_order. Qed.

(* accepted uploads: into an existing directory, with new directories, an overwrite *)
Example C10_fs_accepted_example :
  fs_put (tree_of ex_put_keys) (B "a/b/x") =
    ({| t_files := B "a/b/x" :: ex_put_keys; t_dirs := [B "a/b"; B "a"] |}, PutAccepted) /\
  fs_put (tree_of ex_put_keys) (B "g/h/i") =
    ({| t_files := B "g/h/i" :: ex_put_keys; t_dirs := [B "g/h"; B "g"; B "a/b"; B "a"] |}, PutAccepted) /\
  fs_put (tree_of ex_put_keys) (B "a/e") =
    ({| t_files := [B "a/e"; B "a/b/c"; B "a/b/d"; B "f"]; t_dirs := [B "a/b"; B "a"] |}, PutAccepted) /\
  fs_put_decision (tree_of ex_put_keys) (B "a/bc") = PutAccepted /\
  fs_put_decision (tree_of ex_put_keys) (B "f.g") = PutAccepted /\
  fs_put_refused ex_put_keys (B "a/b/x") = None /\
  fs_put_status PutAccepted = 200%Z /\
  fs_storable (B "a/b/x" :: ex_put_keys) = true /\
  fs_storable (B "a/b" :: ex_put_keys) = false /\ fs_storable (B "f/g" :: ex_put_keys) = false /\
  fs_storable (B "a//x" :: ex_put_keys) = false.
Proof. exact ex_put_accepted. Qed.

(* deletes: a stored key (its emptied directories go too), a directory, an unclean key, a key below
   an object, an absent key *)
Example C10_fs_delete_example :
  fs_delete (tree_of ex_put_keys) (B "a/e") = tree_of [B "a/b/c"; B "a/b/d"; B "f"] /\
  fs_delete (tree_of [B "a/b/c"; B "f"]) (B "a/b/c") = tree_of [B "f"] /\
  fs_delete (tree_of ex_put_keys) (B "a/b") = tree_of ex_put_keys /\
  fs_delete (tree_of ex_put_keys) (B "a/b/../e") = tree_of ex_put_keys /\
  fs_delete (tree_of ex_put_keys) (B "f/g") = tree_of ex_put_keys /\
  fs_delete (tree_of ex_put_keys) (B "zz") = tree_of ex_put_keys.
Proof. exact ex_delete. Qed.

(* reads *)
Example C10_fs_get_example :
  fs_get_decision (tree_of ex_put_keys) (B "a/b/c") = true /\
  fs_get_decision (tree_of ex_put_keys) (B "f") = true /\
  fs_get_decision (tree_of ex_put_keys) (B "a/b") = false /\
  fs_get_decision (tree_of ex_put_keys) (B "a") = false /\
  fs_get_decision (tree_of ex_put_keys) (B "a//e") = false /\
  fs_get_decision (tree_of ex_put_keys) (B "a/b/../e") = false /\
  fs_get_decision (tree_of ex_put_keys) (B "f/g") = false /\
  fs_get_decision (tree_of ex_put_keys) (B "zz") = false /\
  fs_get_decision (tree_of ex_put_keys) [] = false.
Proof. exact ex_get. Qed.

(* a history with refusals of each kind, a delete that turns a directory back into a free name, and
   the abstract map's keys *)
Example C10_fs_run_example :
  fs_run ex_ops = {| t_files := [B "d/e/f"; B "a"]; t_dirs := [B "d/e"; B "d"] |} /\
  abstract_run ex_ops = [B "d/e/f"; B "a"] /\
  fs_answers_from empty_tree ex_ops =
    [None; Some (B "InvalidArgument"); Some (B "InvalidArgument"); Some (B "InvalidArgument"); None; None;
     Some (B "InvalidArgument"); None; None].
Proof. exact ex_run. Qed.
