(* C17 — Bucket names are accepted exactly when they satisfy the documented S3 rules. *)
From GF Require Import Base.Lit Model.BucketName Spec.NameSpec Proofs.NameProofs.
From GF Require Import Base.SortedMap Model.Mem Model.Handlers Proofs.MemInv.

(* The validator (regexp matcher, IP test, per-label regexp — in the order the Go code applies
   them) decides exactly the declarative rule, for EVERY byte string of any length. *)
Theorem C17_validator_eq_spec : forall s, validate s = valid s.
Proof. exact validate_eq_valid. Qed.
Print Assumptions C17_validator_eq_spec.

(* modelling net.ParseIP by its IPv4 branch is sound for names that reach it *)
Theorem C17_only_ipv4_reachable : forall s, pattern s = true -> ~ In 58%N s /\ ~ In 37%N s.
Proof. exact pattern_no_colon. Qed.
Print Assumptions C17_only_ipv4_reachable.

(* create succeeds iff the name is valid and not present; a refusal creates nothing *)
Theorem C17_create_iff : forall existing name,
  snd (name_create existing name) = true <->
  valid name = true /\ existsb (beq name) existing = false.
Proof. exact create_iff. Qed.
Print Assumptions C17_create_iff.

Theorem C17_refused_creates_nothing : forall existing name,
  snd (name_create existing name) = false -> fst (name_create existing name) = existing.
Proof. exact create_refused_creates_nothing. Qed.
Print Assumptions C17_refused_creates_nothing.

(* handler level, every configuration (WithAutoBucket included): buckets are created only by
   create-bucket and by the first use of an absent bucket under auto-bucket, and both apply the
   validator — so no operation adds a bucket with an invalid name, and every bucket of every
   state reached from the empty one by any operation sequence has a valid name *)
Theorem C17_auto_bucket_never_creates_invalid_name :
  (forall c s o,
     (forall b bk, In (b, bk) (st_buckets s) -> validate b = true) ->
     forall b bk, In (b, bk) (st_buckets (fst (step c s o))) -> validate b = true) /\
  (forall c ops b bk, In (b, bk) (st_buckets (fst (run c init ops))) -> validate b = true).
Proof. exact auto_bucket_never_creates_invalid_name. Qed.
Print Assumptions C17_auto_bucket_never_creates_invalid_name.

Example C17_ex_ok : validate (B "my-bucket.v20.example") = true. Proof. reflexivity. Qed.
Example C17_ex_ip : validate (B "100.200.100.200") = false. Proof. reflexivity. Qed.
Example C17_ex_notip : validate (B "256.100.100.100") = true. Proof. reflexivity. Qed.
Example C17_ex_short_label : validate (B "abc.de") = false. Proof. reflexivity. Qed.
Example C17_ex_upper : validate (B "Abc") = false. Proof. reflexivity. Qed.
Example C17_ex_len64 : validate (repeat 97%N 64) = false. Proof. reflexivity. Qed.
Example C17_ex_len63 : validate (repeat 97%N 63) = true. Proof. reflexivity. Qed.
