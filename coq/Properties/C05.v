(* C05 — versioning (growing) *)
From GF Require Import Base.Bytes Model.Mem Proofs.MemProofs.
Theorem C05_read_after_write : forall s b k body m s' vid,
  put_object s b k body m = (s', (None, vid)) ->
  exists v sv, get_object s' b k = OObj v sv /\ vd_body v = body /\ vd_meta v = m /\ vd_marker v = false.
Proof. exact get_after_put. Qed.
Print Assumptions C05_read_after_write.
