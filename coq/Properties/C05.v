(* C05 — Versioning never loses history and always serves the newest remaining version.
   Model: Model/Mem.v (bucket_put / bucket_rm / bucket_rm_version / get_object_version) under the
   handlers of Model/Handlers.v.  Every statement holds in every state satisfying the invariant,
   which holds after every operation sequence (C05_reachable_inv). *)
From GF Require Import Base.Bytes Base.SortedMap Model.Mem Model.BucketName Model.Handlers
  Proofs.MemInvDef Proofs.MemInv Proofs.VersionProofs.

Theorem C05_reachable_inv : forall c ops, Inv (fst (run c init ops)).
Proof. exact run_inv. Qed.
Print Assumptions C05_reachable_inv.

(* every upload into an Enabled bucket gets an id greater than every id stored before — fresh and
   unique — and is retrievable under that id with exactly its bytes and metadata *)
Theorem C05_fresh_ids : forall c s b k body m s1 id,
  Inv s -> step c s (OPut b k body m) = (s1, RPut (Some id)) ->
  (forall b' k' id' v sv, get_object_version s b' k' id' = OObj v sv -> (id' < id)%N) /\
  exists v sv, get_object_version s1 b k id = OObj v sv /\ vd_body v = body /\
               vd_meta v = carry_meta (fst (ensure_bucket c s b)) b k m /\
               (forall kv, In kv m -> In kv (vd_meta v)) /\
               vd_null v = false /\ vd_marker v = false.
Proof. exact put_fresh_id. Qed.
Print Assumptions C05_fresh_ids.

(* a version created while versioning was Enabled stays retrievable by id, unchanged, through
   EVERY operation (puts, plain deletes, suspension, writes while suspended, deletes of other
   versions, multi-deletes) except the deletion of that very version *)
Theorem C05_old_version_retrievable_until_deleted : forall c s o b k id v sv,
  Inv s -> get_object_version s b k id = OObj v sv -> vd_null v = false ->
  ~ deletes_version o b k id ->
  exists sv', get_object_version (fst (step c s o)) b k id = OObj v sv'.
Proof. exact version_survives. Qed.
Print Assumptions C05_old_version_retrievable_until_deleted.

(* a plain delete only adds a delete marker: the key reads NoSuchKey (its versions remain by the
   previous theorem) *)
Theorem C05_plain_delete_adds_marker : forall c s b k bk o0,
  Inv s -> get_bucket s b = Some bk -> b_ver bk = VEnabled -> sm_get k (b_objs bk) = Some o0 ->
  exists s1 id, step c s (ODelete b k) = (s1, RDel true (Some id)) /\
                get_object s1 b k = OErr ENoSuchKey /\
                exists mk sv, get_object_version s1 b k id = OObj mk sv /\ vd_marker mk = true.
Proof. exact plain_delete_adds_marker. Qed.
Print Assumptions C05_plain_delete_adds_marker.

(* deleting a specific version removes just that version *)
Theorem C05_delete_version_removes_only_it : forall c s b k id,
  Inv s -> cfg_versioned c = true -> get_bucket s b <> None ->
  let s1 := fst (step c s (ODeleteVersion b k id)) in
  (forall v sv, get_object_version s1 b k id <> OObj v sv) /\
  (forall b' k' id' v sv, (b', k', id') <> (b, k, id) ->
      get_object_version s b' k' id' = OObj v sv -> get_object_version s1 b' k' id' = OObj v sv).
Proof. exact delete_version_only_that. Qed.
Print Assumptions C05_delete_version_removes_only_it.

(* an unqualified read serves the most recently created remaining version, or NoSuchKey when
   that is a delete marker *)
Theorem C05_unqualified_serves_newest_remaining : forall s b k bk o,
  Inv s -> get_bucket s b = Some bk -> sm_get k (b_objs bk) = Some o ->
  exists cur, o_data o = Some cur /\
    (forall id v sv, get_object_version s b k id = OObj v sv -> (vd_vid v <= vd_vid cur)%N) /\
    (vd_marker cur = false -> exists sv, get_object s b k = OObj cur sv) /\
    (vd_marker cur = true -> get_object s b k = OErr ENoSuchKey).
Proof. exact unqualified_is_newest. Qed.
Print Assumptions C05_unqualified_serves_newest_remaining.

(* no reachable state has a nil current version: no request panics *)
Theorem C05_no_nil_current_version : forall c s o, Inv s -> snd (step c s o) <> RErr EPanic.
Proof. exact step_no_panic. Qed.
Print Assumptions C05_no_nil_current_version.

(* non-vacuity / regression witness: delete the current version while an older one remains, then
   write and delete while suspended; the Enabled-era version 1 survives it all *)
Definition c05_cfg := {| cfg_auto_bucket := false; cfg_versioned := true; cfg_pages := true; cfg_fail_unimpl_page := false |}.
Definition c05_b : list N := [98;107;116]%N.
Definition c05_ops : list op :=
  [OCreateBucket c05_b; OSetVersioning c05_b true; OPut c05_b [107]%N [1]%N []; OPut c05_b [107]%N [2]%N [];
   ODeleteVersion c05_b [107]%N 2; OGet c05_b [107]%N None;
   OSetVersioning c05_b false; OPut c05_b [107]%N [3]%N []; ODelete c05_b [107]%N; OGet c05_b [107]%N (Some 1%N)].
Example C05_ex_history :
  map (fun r => match r with RObj v _ => Some (vd_body v) | _ => None end) (snd (run c05_cfg init c05_ops))
  = [None; None; None; None; None; Some [1]%N; None; None; None; Some [1]%N].
Proof. vm_compute. reflexivity. Qed.
