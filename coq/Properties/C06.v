(* C06 — Completing a multipart upload stores exactly the listed parts, once, or nothing.
   Model: Model/Uploader.v over the backend model Model/Mem.v; md5 and hex are universally
   quantified (the theorems hold for every hash function). *)
From GF Require Import Base.Bytes Base.SortedMap Model.Mem Model.Handlers Model.Uploader Proofs.UploaderProofs.
Open Scope Z_scope.

(* the uploader invariant holds initially and is preserved by every operation *)
Theorem C06_inv_init : UInv uinit.
Proof. exact uinv_init. Qed.
Print Assumptions C06_inv_init.
Theorem C06_inv_create : forall u b k m, UInv u -> UInv (fst (create_upload u b k m)).
Proof. exact (create_upload_inv (fun x => x) (fun x => x)). Qed.
Print Assumptions C06_inv_create.
Theorem C06_inv_part : forall md5 hex u b k id pn body, UInv u -> UInv (fst (upload_part md5 hex u b k id pn body)).
Proof. exact upload_part_inv. Qed.
Print Assumptions C06_inv_part.
Theorem C06_inv_abort : forall u b k id, UInv u -> UInv (fst (abort_upload u b k id)).
Proof. exact (abort_upload_inv (fun x => x) (fun x => x)). Qed.
Print Assumptions C06_inv_abort.
Theorem C06_inv_complete : forall md5 hex u s b k id req,
  UInv u -> UInv (fst (fst (complete_upload md5 hex u s b k id req))).
Proof. exact complete_upload_inv. Qed.
Print Assumptions C06_inv_complete.

(* several uploads of one key are independent: a new upload has a fresh id, no parts *)
Theorem C06_fresh_upload : forall u b k m u1 id,
  UInv u -> create_upload u b k m = (u1, id) ->
  (forall b' k', get_upload u b' k' id = None) /\
  exists mpu, get_upload u1 b k id = Some mpu /\ up_parts mpu = [] /\ up_meta mpu = m /\
  (forall b' k' id', id' <> id -> get_upload u1 b' k' id' = get_upload u b' k' id').
Proof. exact (create_upload_fresh (fun x => x) (fun x => x)). Qed.
Print Assumptions C06_fresh_upload.

(* the most recent upload of a part number wins; other parts and uploads are untouched *)
Theorem C06_latest_part_wins : forall md5 hex u b k id pn body u1 et,
  UInv u -> upload_part md5 hex u b k id pn body = (u1, (None, et)) ->
  et = part_etag md5 hex body /\
  exists mpu mpu1, get_upload u b k id = Some mpu /\ get_upload u1 b k id = Some mpu1 /\
    nth_error (up_parts mpu1) (Z.to_nat pn) = Some (Some {| pt_body := body; pt_etag := et |}) /\
    (forall n, n <> Z.to_nat pn -> (n < length (up_parts mpu))%nat -> nth_error (up_parts mpu1) n = nth_error (up_parts mpu) n) /\
    up_meta mpu1 = up_meta mpu /\
    (forall b' k' id', id' <> id -> get_upload u1 b' k' id' = get_upload u b' k' id').
Proof. exact upload_part_latest. Qed.
Print Assumptions C06_latest_part_wins.

(* accepted complete: ascending list; body = concatenation of the currently held (= most recent)
   upload of each listed part, in order; composite ETag; initiation metadata; upload id gone;
   unlisted parts are discarded with it *)
Theorem C06_complete_ok : forall md5 hex u s b k id req u1 s1 et,
  UInv u -> complete_upload md5 hex u s b k id req = (u1, s1, (None, et)) ->
  exists mpu ps,
    get_upload u b k id = Some mpu /\
    ints_sorted (map fst req) = true /\
    Forall2 (fun r p => 0 <= fst r /\ nth_error (up_parts mpu) (Z.to_nat (fst r)) = Some (Some p)) req ps /\
    et = complete_etag md5 hex ps /\
    (exists v sv, get_object s1 b k = OObj v sv /\ vd_body v = flat_map pt_body ps /\
                 vd_meta v = carry_meta s b k (up_meta mpu) /\
                 (forall kv, In kv (up_meta mpu) -> In kv (vd_meta v))) /\
    get_upload u1 b k id = None /\
    (forall b' k' id', id' <> id -> get_upload u1 b' k' id' = get_upload u b' k' id').
Proof. exact complete_ok. Qed.
Print Assumptions C06_complete_ok.

(* rejected complete: stored objects AND pending uploads exactly as they were *)
Theorem C06_complete_rejected_frame : forall md5 hex u s b k id req u1 s1 e et,
  complete_upload md5 hex u s b k id req = (u1, s1, (Some e, et)) ->
  (forall be, e <> UBackend be) -> u1 = u /\ s1 = s.
Proof. exact complete_rejected_frame. Qed.
Print Assumptions C06_complete_rejected_frame.

(* what is rejected *)
Theorem C06_rejects_unknown_part : forall md5 hex u s b k id req mpu n et0,
  get_upload u b k id = Some mpu -> In (n, et0) req ->
  (n < 0 \/ nth_error (up_parts mpu) (Z.to_nat n) = None \/ nth_error (up_parts mpu) (Z.to_nat n) = Some None) ->
  exists e, snd (complete_upload md5 hex u s b k id req) = (Some e, []) /\ (forall be, e <> UBackend be).
Proof. exact complete_rejects_unknown_part. Qed.
Print Assumptions C06_rejects_unknown_part.

Theorem C06_rejects_stale_etag : forall md5 hex u s b k id req mpu n et0 p,
  get_upload u b k id = Some mpu -> In (n, et0) req -> 0 <= n ->
  nth_error (up_parts mpu) (Z.to_nat n) = Some (Some p) -> trim_quotes et0 <> trim_quotes (pt_etag p) ->
  exists e, snd (complete_upload md5 hex u s b k id req) = (Some e, []) /\ (forall be, e <> UBackend be).
Proof. exact complete_rejects_stale_etag. Qed.
Print Assumptions C06_rejects_stale_etag.

Theorem C06_rejects_out_of_order : forall md5 hex u s b k id req l1 a l2 c l3,
  map fst req = l1 ++ a :: l2 ++ c :: l3 -> c < a ->
  exists e, snd (complete_upload md5 hex u s b k id req) = (Some e, []) /\ (forall be, e <> UBackend be).
Proof. exact complete_rejects_descent. Qed.
Print Assumptions C06_rejects_out_of_order.

(* abort discards the upload and nothing else; it cannot touch the object: the backend state is
   not an argument of abort_upload *)
Theorem C06_abort_frame : forall u b k id u1,
  UInv u -> abort_upload u b k id = (u1, None) ->
  get_upload u1 b k id = None /\
  (forall b' k' id', id' <> id -> get_upload u1 b' k' id' = get_upload u b' k' id').
Proof. exact abort_frame. Qed.
Print Assumptions C06_abort_frame.

(* non-vacuity / regression witness: parts 2,1 listed out of order are refused (this was accepted
   before the fix), 1,2 is accepted and assembled in order *)
Definition c06_md5 (b : list N) : list N := [N.of_nat (length b)].
Definition c06_hex (b : list N) : list N := b.
Definition c06_bk : list N := [98;107;116]%N.
Definition c06_state :=
  let s0 := fst (Mem.create_bucket init c06_bk) in
  let '(u1, id) := create_upload uinit c06_bk [107]%N [] in
  let u2 := fst (upload_part c06_md5 c06_hex u1 c06_bk [107]%N id 1 [65;65]%N) in
  let u3 := fst (upload_part c06_md5 c06_hex u2 c06_bk [107]%N id 2 [66]%N) in
  (u3, s0, id).
Example C06_ex_out_of_order_refused :
  let '(u, s, id) := c06_state in
  fst (snd (complete_upload c06_md5 c06_hex u s c06_bk [107]%N id [(2, quote [1]%N); (1, quote [2]%N)])) = Some UInvalidPartOrder.
Proof. vm_compute. reflexivity. Qed.
Example C06_ex_in_order_accepted :
  let '(u, s, id) := c06_state in
  let '(_, s1, r) := complete_upload c06_md5 c06_hex u s c06_bk [107]%N id [(1, quote [2]%N); (2, quote [1]%N)] in
  (fst r, match get_object s1 c06_bk [107]%N with OObj v _ => Some (vd_body v) | _ => None end) = (None, Some [65;65;66]%N).
Proof. vm_compute. reflexivity. Qed.
