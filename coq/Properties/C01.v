(* C01 — Stored objects come back byte-for-byte with matching size, ETag and metadata.
   Model: Model/Handlers.v over Model/Mem.v.  The ETag is a function of the stored body
   (quote (hex (md5 body)), computed outside the model for EVERY hash function), so "body equal"
   gives "ETag and Content-Length equal". *)
From GF Require Import Base.Bytes Base.SortedMap Model.Prefix Model.Mem Model.BucketName Model.Handlers Model.MemWalk
  Proofs.MemInvDef Proofs.MemInv Proofs.MemProofs Proofs.ListExact.

(* after an acknowledged upload, GET returns exactly the uploaded bytes and the metadata sent —
   for every body (any length, empty included), key, metadata set, state and configuration *)
Theorem C01_roundtrip : forall c s b k body m s1 vid,
  step c s (OPut b k body m) = (s1, RPut vid) ->
  exists v sv, snd (step c s1 (OGet b k None)) = RObj v sv /\ vd_body v = body /\
               vd_meta v = carry_meta (fst (ensure_bucket c s b)) b k m /\
               (forall kv, In kv m -> In kv (vd_meta v)).
Proof. exact law_get_after_put. Qed.
Print Assumptions C01_roundtrip.

(* HEAD reports the same entity as GET (same version record: same length, ETag, metadata) *)
Theorem C01_head_agrees_with_get : forall c s b k v sv,
  snd (step c s (OGet b k None)) = RObj v sv ->
  snd (step c s (OHead b k None)) = RObj v true /\ fst (step c s (OHead b k None)) = fst (step c s (OGet b k None)).
Proof.
  intros c s b k v sv. cbn [step].
  destruct (ensure_bucket c s b) as [s1 [e|]]; cbn [snd fst]; [discriminate|].
  destruct (get_object s1 b k) as [e|v' sv']; cbn [snd fst]; [discriminate|].
  intros H. inversion H; subst. split; reflexivity.
Qed.
Print Assumptions C01_head_agrees_with_get.

(* a copy delivers the source's bytes at the destination *)
Theorem C01_copy_roundtrip : forall c s sb sk b k m s1 body,
  step c s (OCopy sb sk b k m) = (s1, RCopy body) ->
  (exists v sv, get_object s sb sk = OObj v sv /\ vd_body v = body) /\
  (exists v' sv', get_object s1 b k = OObj v' sv' /\ vd_body v' = body) /\
  ((sb, sk) <> (b, k) -> get_bucket s sb <> None -> get_object s1 sb sk = get_object s sb sk).
Proof. exact law_copy. Qed.
Print Assumptions C01_copy_roundtrip.

(* ... and the metadata of the copy request completed by the source's; the source keeps its own
   (third clause of the previous theorem: the whole source object is unchanged) *)
Theorem C01_copy_metadata : forall c s sb sk b k m s1 body,
  step c s (OCopy sb sk b k m) = (s1, RCopy body) ->
  exists v sv v' sv', get_object s sb sk = OObj v sv /\ get_object s1 b k = OObj v' sv' /\
                      vd_meta v' = carry_meta (fst (ensure_bucket c s b)) b k (merge_meta m (vd_meta v)) /\
                      (forall kv, In kv (merge_meta m (vd_meta v)) -> In kv (vd_meta v')) /\
                      vd_marker v' = false.
Proof. exact law_copy_meta. Qed.
Print Assumptions C01_copy_metadata.

(* the answer is stable: operations on other keys do not change it *)
Theorem C01_stable_under_other_puts : forall c s b k body m b' k',
  (b', k') <> (b, k) -> get_bucket s b' <> None ->
  get_object (fst (step c s (OPut b k body m))) b' k' = get_object s b' k'.
Proof. exact law_put_frame. Qed.
Print Assumptions C01_stable_under_other_puts.

(* the listing entry of a key carries the body (hence Size and ETag) of its current version *)
Theorem C01_list_agrees : forall pre delim items k body,
  data_some items -> In (k, body) (lr_contents (unpaged pre delim items)) ->
  exists o v, In (k, o) items /\ o_data o = Some v /\ vd_marker v = false /\ vd_body v = body.
Proof. exact unpaged_bodies. Qed.
Print Assumptions C01_list_agrees.
