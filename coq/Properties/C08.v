(* C08 (growing) *)
From GF Require Import Base.Bytes Model.PutPath Proofs.BytesFacts.
Theorem C08_digest_mismatch_is_bad : forall md5 d body, d <> md5 body -> digest_bad md5 (Some d) body = true.
Proof.
  intros md5 d body H. unfold digest_bad. apply beq_neq in H. rewrite H. reflexivity.
Qed.
Print Assumptions C08_digest_mismatch_is_bad.
