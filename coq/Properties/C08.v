(* C08 — Corrupt or short uploads are rejected and never change stored state.
   Model: Model/PutPath.v (createObject / putMultipartUploadPart validation order, metadataHeaders
   size, Content-MD5 decoding, hashingReader digest test, ReadAll declared-length test, body-reader
   failure) over Model/Mem.v and Model/Uploader.v.  md5/hex are universally quantified. *)
From GF Require Import Base.Bytes Base.Lit Base.Int64 Base.SortedMap Model.ParseInt Model.Mem Model.Handlers
  Model.Uploader Model.PutPath Proofs.PutPathProofs.
Open Scope Z_scope.

(* whatever is wrong with an object upload, a rejection leaves the stored state exactly as it was *)
Theorem C08_rejected_frame : forall md5 c integrity ml s b k h r tracked s' e,
  get_bucket s b <> None ->
  put_request md5 c integrity ml s b k h r tracked = (s', inl e) -> s' = s.
Proof. exact put_rejected_frame. Qed.
Print Assumptions C08_rejected_frame.

(* a body reader that fails after k bytes is a rejection — for EVERY k and every body *)
Theorem C08_reader_failure_rejected : forall md5 c integrity ml s b k h data kf tracked,
  exists e, snd (put_request md5 c integrity ml s b k h {| br_data := data; br_fail_after := Some kf |} tracked) = inl e.
Proof. exact put_reader_failure_rejected. Qed.
Print Assumptions C08_reader_failure_rejected.

(* integrity check on, well-formed request with digest d: accepted EXACTLY when d is the MD5 of
   the bytes received and the declared length is their count; then exactly those bytes are stored
   with the metadata sent *)
Theorem C08_accept_iff : forall md5 c ml s b k h data tracked size d bk,
  get_bucket s b = Some bk ->
  negb ((0 <? ml) && (ml <? meta_size h)) = true ->
  (exists cl, hget (B "Content-Length") h = Some cl /\ cl <> [] /\ parse_int64 cl = Some size) -> 0 <= size ->
  blen k <= key_limit ->
  expected_digest true h = inr (Some d) ->
  let res := put_request md5 c true ml s b k h {| br_data := data; br_fail_after := None |} tracked in
  ((exists body vid, snd res = inr (body, vid)) <-> (d = md5 data /\ size = blen data)) /\
  (forall body vid, snd res = inr (body, vid) ->
     body = data /\ exists v sv, get_object (fst res) b k = OObj v sv /\ vd_body v = data /\
                               vd_meta v = carry_meta s b k tracked /\
                               (forall kv, In kv tracked -> In kv (vd_meta v))).
Proof. exact put_accept_iff. Qed.
Print Assumptions C08_accept_iff.

(* integrity check off: the digest header is ignored *)
Theorem C08_integrity_off : forall h, expected_digest false h = inr None.
Proof. exact put_integrity_off_ignores_digest. Qed.
Print Assumptions C08_integrity_off.

(* part uploads: a rejection leaves every pending upload untouched; a failing reader is rejected;
   with a digest, acceptance implies digest and length are right *)
Theorem C08_part_rejected_frame : forall md5 hex integrity u b k id pn h r u' e,
  part_request md5 hex integrity u b k id pn h r = (u', inl e) -> u' = u.
Proof. exact part_rejected_frame. Qed.
Print Assumptions C08_part_rejected_frame.

Theorem C08_part_reader_failure_rejected : forall md5 hex integrity u b k id pn h data kf,
  exists e, snd (part_request md5 hex integrity u b k id pn h {| br_data := data; br_fail_after := Some kf |}) = inl e.
Proof. exact part_reader_failure_rejected. Qed.
Print Assumptions C08_part_reader_failure_rejected.

Theorem C08_part_accept_only_if : forall md5 hex u b k id pn h data d et u',
  expected_digest true h = inr (Some d) ->
  part_request md5 hex true u b k id pn h {| br_data := data; br_fail_after := None |} = (u', inr et) ->
  d = md5 data /\ parse_int64 (hval (B "Content-Length") h) = Some (blen data).
Proof. exact part_accept_only_if. Qed.
Print Assumptions C08_part_accept_only_if.

(* non-vacuity: base64 of 16 zero bytes decodes; a 5-byte digest and a malformed one are refused *)
Example C08_ex_b64 : option_map (@length N) (b64_decode (B "AAAAAAAAAAAAAAAAAAAAAA==")) = Some 16%nat. Proof. reflexivity. Qed.
Example C08_ex_digest :
  (expected_digest true [(B "Content-Md5", B "MTIzNDU=")], expected_digest true [(B "Content-Md5", B "!!!")], expected_digest true [(B "Content-Md5", [])])
  = (inl PInvalidDigest, inl PInvalidDigest, inl PInvalidDigest).
Proof. vm_compute. reflexivity. Qed.
