(* C14 (growing) *)
From GF Require Import Base.Bytes Model.Mem Proofs.MemProofs.
Theorem C14_put_frame : forall s b k body m s' r b' k',
  put_object s b k body m = (s', r) -> (b', k') <> (b, k) -> get_object s' b' k' = get_object s b' k'.
Proof. exact get_put_other. Qed.
Print Assumptions C14_put_frame.
