(* C14 — Multipart bookkeeping listings are exact and page completely.
   Model: Model/Uploader.v list_parts / parts_from, scan_uploads / take_uploads / next_entry. *)
From GF Require Import Base.Bytes Base.SortedMap Model.Prefix Model.Mem Model.Handlers Model.Uploader
  Proofs.UploadListProofs.
Open Scope Z_scope.

(* ListParts lists exactly the parts currently held, with their true numbers *)
Theorem C14_parts_membership : forall idx l n p,
  In (n, p) (parts_from idx l) <-> (idx <= n)%nat /\ nth_error l (n - idx) = Some (Some p).
Proof. exact parts_from_spec. Qed.
Print Assumptions C14_parts_membership.

(* ... in ascending part-number order *)
Theorem C14_parts_ascending : forall idx l a b rest,
  (exists pre, parts_from idx l = pre ++ a :: b :: rest) -> (fst a < fst b)%nat.
Proof. exact parts_from_ascending. Qed.
Print Assumptions C14_parts_ascending.

Theorem C14_parts_exact : forall u b k id mpu limit,
  get_upload u b k id = Some mpu -> Z.of_nat (length (held_parts mpu)) <= limit ->
  list_parts u b k id 0 limit = inr {| pr_parts := held_parts mpu; pr_truncated := false; pr_next := 0 |}.
Proof. exact list_parts_exact. Qed.
Print Assumptions C14_parts_exact.

(* any numeric marker — also beyond the highest part — is answered without failure *)
Theorem C14_parts_any_marker : forall u b k id mpu marker limit,
  get_upload u b k id = Some mpu -> 0 <= marker -> 0 <= limit ->
  exists r, list_parts u b k id marker limit = inr r /\
    let rest := filter (fun np => Nat.leb (Z.to_nat marker) (fst np)) (held_parts mpu) in
    pr_parts r = firstn (Z.to_nat limit) rest /\
    (pr_truncated r = false -> skipn (Z.to_nat limit) rest = []) /\
    (pr_truncated r = true -> exists p tl, skipn (Z.to_nat limit) rest = (pr_next r, p) :: tl).
Proof. exact list_parts_page. Qed.
Print Assumptions C14_parts_any_marker.

(* following NextPartNumberMarker visits every part exactly once, for every page size >= 1 *)
Theorem C14_parts_walk_complete : forall u b k id mpu limit,
  get_upload u b k id = Some mpu -> 1 <= limit ->
  parts_walk (S (length (held_parts mpu))) u b k id 0 limit = Some (held_parts mpu).
Proof. exact parts_walk_complete. Qed.
Print Assumptions C14_parts_walk_complete.

(* ListMultipartUploads (unpaginated): exactly the pending uploads whose key is a Content for the
   prefix/delimiter, ordered by key then initiation; each common prefix once *)
Theorem C14_uploads_exact : forall pre delim items limit,
  Z.of_nat (length (index_entries items)) < limit ->
  Forall (fun kv => snd kv <> []) items ->
  let r := scan_uploads pre delim limit items None 0 [] [] in
  ur_uploads r = index_entries (filter (fun kv => mr_eqb (prefix_match pre delim (fst kv)) MContent) items) /\
  ur_truncated r = false /\
  (forall p, In p (ur_prefixes r) <-> exists k ids, In (k, ids) items /\ prefix_match pre delim k = MCommon p) /\
  NoDup (ur_prefixes r).
Proof. exact list_uploads_exact. Qed.
Print Assumptions C14_uploads_exact.

(* a key marker behind every key with a pending upload ends the walk: an empty page, not truncated *)
Theorem C14_uploads_marker_behind_every_key : forall u b bu pre delim km idm limit,
  sm_get b (u_buckets u) = Some bu -> km <> [] ->
  (forall kv, In kv (bu_index bu) -> bltb (fst kv) km = true) ->
  exists r, list_uploads u b pre delim km idm limit = inr r /\
    ur_uploads r = [] /\ ur_prefixes r = [] /\ ur_truncated r = false.
Proof. exact list_uploads_marker_behind_every_key. Qed.
Print Assumptions C14_uploads_marker_behind_every_key.

Example C14_ex : parts_from 0 [None; Some {| pt_body := [1]%N; pt_etag := [] |}; None; Some {| pt_body := [2]%N; pt_etag := [] |}]
               = [(1%nat, {| pt_body := [1]%N; pt_etag := [] |}); (3%nat, {| pt_body := [2]%N; pt_etag := [] |})].
Proof. reflexivity. Qed.
