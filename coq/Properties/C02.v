(* C02 — every operation sequence follows S3 bucket/object semantics.  (growing) *)
From GF Require Import Base.Bytes Model.Mem Proofs.MemProofs.

Theorem C02_read_after_write : forall s b k body m s' vid,
  put_object s b k body m = (s', (None, vid)) ->
  exists v sv, get_object s' b k = OObj v sv /\ vd_body v = body /\ vd_meta v = m /\ vd_marker v = false.
Proof. exact get_after_put. Qed.
Print Assumptions C02_read_after_write.

Theorem C02_put_frame : forall s b k body m s' r b' k',
  put_object s b k body m = (s', r) -> (b', k') <> (b, k) -> get_object s' b' k' = get_object s b' k'.
Proof. exact get_put_other. Qed.
Print Assumptions C02_put_frame.
