(* C02 — Every operation sequence follows S3 bucket/object semantics.
   Model: Model/Mem.v + Model/Handlers.v (step/run).  The laws below hold in EVERY state that
   satisfies the invariant, and the invariant holds after EVERY operation sequence — so each law
   holds after every history, for any buckets, keys, bodies and configuration. *)
From GF Require Import Base.Bytes Base.SortedMap Model.Mem Model.BucketName Model.Handlers
  Proofs.MemInvDef Proofs.MemInv Proofs.MemProofs.

(* every reachable state satisfies the invariant (sorted maps, every object has a current version) *)
Theorem C02_reachable_inv : forall c ops, Inv (fst (run c init ops)).
Proof. exact run_inv. Qed.
Print Assumptions C02_reachable_inv.

Theorem C02_step_inv : forall c s o, Inv s -> Inv (fst (step c s o)).
Proof. exact step_inv. Qed.
Print Assumptions C02_step_inv.

(* reads return the most recent acknowledged write *)
Theorem C02_read_after_write : forall c s b k body m s1 vid,
  step c s (OPut b k body m) = (s1, RPut vid) ->
  exists v sv, snd (step c s1 (OGet b k None)) = RObj v sv /\ vd_body v = body /\
               vd_meta v = carry_meta (fst (ensure_bucket c s b)) b k m /\
               (forall kv, In kv m -> In kv (vd_meta v)).
Proof. exact law_get_after_put. Qed.
Print Assumptions C02_read_after_write.

(* ... and a write changes no other key of any bucket *)
Theorem C02_put_frame : forall c s b k body m b' k',
  (b', k') <> (b, k) -> get_bucket s b' <> None ->
  get_object (fst (step c s (OPut b k body m))) b' k' = get_object s b' k'.
Proof. exact law_put_frame. Qed.
Print Assumptions C02_put_frame.

(* deleted keys answer NoSuchKey, deletes are idempotent, other keys are untouched *)
Theorem C02_delete : forall c s b k bk,
  Inv s -> get_bucket s b = Some bk -> b_ver bk = VNone ->
  let s1 := fst (step c s (ODelete b k)) in
  get_object s1 b k = OErr ENoSuchKey /\
  fst (step c s1 (ODelete b k)) = s1 /\
  (forall b' k', (b', k') <> (b, k) -> get_object s1 b' k' = get_object s b' k').
Proof. exact law_delete. Qed.
Print Assumptions C02_delete.

(* operations on absent buckets answer NoSuchBucket and change nothing *)
Theorem C02_missing_bucket : forall c s b k,
  cfg_auto_bucket c = false -> get_bucket s b = None ->
  snd (step c s (OGet b k None)) = RErr ENoSuchBucket /\
  step c s (ODeleteBucket b) = (s, RErr ENoSuchBucket) /\
  (forall body m, step c s (OPut b k body m) = (s, RErr ENoSuchBucket)).
Proof. exact law_missing_bucket. Qed.
Print Assumptions C02_missing_bucket.

(* with auto-bucket on, an absent bucket is created on first use only under a valid name: an
   invalid name is refused with InvalidBucketName and nothing is created *)
Theorem C02_missing_bucket_auto_invalid_name : forall c s b k,
  cfg_auto_bucket c = true -> get_bucket s b = None -> validate b = false ->
  snd (step c s (OGet b k None)) = RErr EInvalidBucketName /\
  step c s (ODeleteBucket b) = (s, RErr EInvalidBucketName) /\
  (forall body m, step c s (OPut b k body m) = (s, RErr EInvalidBucketName)).
Proof. exact law_missing_bucket_auto_invalid. Qed.
Print Assumptions C02_missing_bucket_auto_invalid_name.

(* re-creating a bucket answers BucketAlreadyExists *)
Theorem C02_recreate_conflict : forall c s b bk,
  get_bucket s b = Some bk -> validate b = true ->
  step c s (OCreateBucket b) = (s, RErr EBucketAlreadyExists).
Proof. exact law_create_existing. Qed.
Print Assumptions C02_recreate_conflict.

(* deleting a non-empty bucket answers BucketNotEmpty; an emptied bucket can be deleted *)
Theorem C02_delete_nonempty_refused : forall c s b bk,
  get_bucket s b = Some bk -> b_objs bk <> [] ->
  step c s (ODeleteBucket b) = (s, RErr EBucketNotEmpty).
Proof. exact law_delete_nonempty_bucket. Qed.
Print Assumptions C02_delete_nonempty_refused.

Theorem C02_delete_emptied_ok : forall c s b bk,
  Inv s -> get_bucket s b = Some bk -> b_objs bk = [] ->
  exists s1, step c s (ODeleteBucket b) = (s1, ROk) /\ get_bucket s1 b = None /\
             (forall b', b' <> b -> get_bucket s1 b' = get_bucket s b').
Proof. exact law_delete_empty_bucket. Qed.
Print Assumptions C02_delete_emptied_ok.

(* a copy leaves the destination equal to the source and the source unchanged *)
Theorem C02_copy : forall c s sb sk b k m s1 body,
  step c s (OCopy sb sk b k m) = (s1, RCopy body) ->
  (exists v sv, get_object s sb sk = OObj v sv /\ vd_body v = body) /\
  (exists v' sv', get_object s1 b k = OObj v' sv' /\ vd_body v' = body) /\
  ((sb, sk) <> (b, k) -> get_bucket s sb <> None -> get_object s1 sb sk = get_object s sb sk).
Proof. exact law_copy. Qed.
Print Assumptions C02_copy.

(* an operation answered with an error changes nothing *)
Theorem C02_error_frame : forall c s o e,
  cfg_auto_bucket c = false -> snd (step c s o) = RErr e -> fst (step c s o) = s.
Proof. exact law_error_frame. Qed.
Print Assumptions C02_error_frame.

(* non-vacuity: a concrete history reaches a state where the hypotheses hold *)
Definition c02_cfg := {| cfg_auto_bucket := false; cfg_versioned := true; cfg_pages := true; cfg_fail_unimpl_page := false |}.
Example C02_ex_history :
  map (fun r => match r with RErr e => Some e | _ => None end)
      (snd (run c02_cfg init
        [OCreateBucket [98;107;116]%N; OPut [98;107;116]%N [97]%N [1;2]%N []; OCreateBucket [98;107;116]%N;
         ODeleteBucket [98;107;116]%N; ODelete [98;107;116]%N [97]%N; OGet [98;107;116]%N [97]%N None;
         ODeleteBucket [98;107;116]%N; OGet [98;107;116]%N [97]%N None]))
  = [None; None; Some EBucketAlreadyExists; Some EBucketNotEmpty; None; Some ENoSuchKey; None; Some ENoSuchBucket].
Proof. vm_compute. reflexivity. Qed.
