(* C16 (growing) *)
From GF Require Import Base.Bytes Model.Routing.
Theorem C16_host_none : forall host path, route HostNone host path = split_path path.
Proof. reflexivity. Qed.
Print Assumptions C16_host_none.
