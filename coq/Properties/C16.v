(* C16 — Path-style and virtual-host-style addressing reach the same bucket and key.
   Model: Model/Routing.v (routeBase's bucket/object split and the two host middlewares). Every
   handler is a function of (method, bucket, object, query, headers, body) only, so equal routes
   give equal answers (the correspondence check compares the answers of twin servers). *)
From GF Require Import Base.Bytes Model.Routing Proofs.RoutingProofs.

(* host-bucket mode: host "<bucket>.<base>" + path "/<key>" routes like "/<bucket>/<key>", for
   every label, every key path (any bytes, empty, nested, trailing slashes) and every base *)
Theorem C16_host_eq_path : forall bucket base rest,
  label bucket ->
  route HostBucket (bucket ++ dotc :: base) (slash :: rest) = route HostNone [] (slash :: bucket ++ slash :: rest).
Proof. exact host_bucket_eq_path. Qed.
Print Assumptions C16_host_eq_path.

(* host-bucket-base mode with any list of bases (configured with or without stray dots / a port):
   "<label>.<base>" for ANY configured base routes like path-style, whichever base matches first *)
Theorem C16_host_base_eq_path : forall bases base bucket rest,
  label bucket -> In base bases ->
  route (HostBases bases) (bucket ++ dotc :: trim dotc base) (slash :: rest)
  = route HostNone [] (slash :: bucket ++ slash :: rest).
Proof. exact host_base_eq_path. Qed.
Print Assumptions C16_host_base_eq_path.

(* a match means exactly "<single non-empty label>.<configured base>" *)
Theorem C16_match_sound : forall bases host b,
  match_bucket bases host = Some b ->
  exists base, In base bases /\ host = b ++ dotc :: trim dotc base /\ ~ In dotc b /\ b <> [].
Proof. exact match_bucket_sound. Qed.
Print Assumptions C16_match_sound.

(* every other host (the base itself, multi-label prefixes, an empty label ".<base>", unrelated
   hosts) falls back to path-style with the path unchanged; by match_bucket_none_inv the
   hypothesis is exactly "match_bucket finds nothing" *)
Theorem C16_fallback : forall bases host path,
  (forall base b, In base bases -> host = b ++ dotc :: trim dotc base -> In dotc b \/ b = []) ->
  route (HostBases bases) host path = route HostNone host path.
Proof. exact host_base_fallback. Qed.
Print Assumptions C16_fallback.

(* the empty-label host ".<base>" yields no bucket and is served path-style, whatever other bases
   are configured (a prefix left in front of any other base is empty or starts with '.') *)
Theorem C16_empty_label_no_bucket : forall bases base,
  match_bucket bases (dotc :: trim dotc base) = None.
Proof. exact match_bucket_empty_label. Qed.
Print Assumptions C16_empty_label_no_bucket.

Theorem C16_empty_label_is_path_style : forall bases base path,
  route (HostBases bases) (dotc :: trim dotc base) path
  = route HostNone (dotc :: trim dotc base) path.
Proof. exact host_base_empty_label. Qed.
Print Assumptions C16_empty_label_is_path_style.

(* extra slashes before the bucket or at the end of the path do not change the address *)
Theorem C16_slashes : forall n m path,
  split_path (repeat slash n ++ path ++ repeat slash m) = split_path path.
Proof. exact extra_slashes. Qed.
Print Assumptions C16_slashes.

Example C16_ex : route (HostBases [[46;115;51;46;116;46]%N (* ".s3.t." *)]) [98;107;116;46;115;51;46;116]%N (* "bkt.s3.t" *) [47;100;47;101]%N
               = ([98;107;116]%N, [100;47;101]%N).
Proof. vm_compute. reflexivity. Qed.

(* ".s3.t" against the base ".s3.t.": no bucket, the path is routed as it stands *)
Example C16_ex_empty_label : route (HostBases [[46;115;51;46;116;46]%N]) [46;115;51;46;116]%N [47;100;47;101]%N
               = ([100]%N, [101]%N).
Proof. vm_compute. reflexivity. Qed.
