(* C07 — Concurrent clients see linearizable behaviour.  PARTIAL.
   Model: Model/Conc.v — every request is Pre (no lock: the body is read and validated; this is
   where a slow uploader spends its time) / Commit (under the backend lock: the whole effect on
   the shared state and the capture of everything the response needs) / Post (no lock: streaming
   the captured response; where a slow reader spends its time); a schedule is ANY interleaving of
   the clients' sections.  The lock discipline itself (sync.RWMutex atomicity, absence of data races
   inside a section, the Go memory model) is assumed, not modelled. *)
From GF Require Import Base.Bytes Model.Mem Model.Handlers Model.Conc Proofs.ConcProofs.

(* for every number of clients, every program per client and EVERY schedule: the shared state is
   the one reached by executing the committed operations one after the other in Commit order *)
Theorem C07_state_is_sequential : forall c s cls sched,
  let '(s1, cls1, log) := run_sched c s cls sched in
  fst (run_log c s log) = s1.
Proof. exact interleaved_state_is_sequential. Qed.
Print Assumptions C07_state_is_sequential.

(* ... and every client is handed exactly the responses the sequential execution gives it (one
   committed operation may still be waiting for its Post section) *)
Theorem C07_results_are_sequential : forall c s cls sched i cl cl1,
  Forall fresh cls -> nth_error cls i = Some cl ->
  let '(s1, cls1, log) := run_sched c s cls sched in
  nth_error cls1 i = Some cl1 ->
  let seq := results_of i (snd (run_log c s log)) in
  cl_results cl1 = seq \/
  (exists r, cl_phase cl1 = PPost /\ cl_captured cl1 = Some r /\ seq = cl_results cl1 ++ [r]).
Proof. exact interleaved_results_are_sequential. Qed.
Print Assumptions C07_results_are_sequential.

(* the linearization order respects each client's program order *)
Theorem C07_respects_program_order : forall c s cls sched i cl,
  Forall fresh cls -> nth_error cls i = Some cl ->
  let '(s1, cls1, log) := run_sched c s cls sched in
  exists rest, cl_todo cl = map snd (filter (fun io => Nat.eqb (fst io) i) log) ++ rest.
Proof. exact log_respects_program_order. Qed.
Print Assumptions C07_respects_program_order.

(* no torn reads: Post delivers exactly what Commit captured — one version record, body together
   with its own metadata and ETag source — whatever happened to the key in between *)
Theorem C07_delivered_is_captured : forall c s cl o rest r,
  cl_todo cl = o :: rest -> cl_phase cl = PPost -> cl_captured cl = Some r ->
  let '(s1, cl1, committed) := section c s cl in
  s1 = s /\ committed = None /\ cl_results cl1 = cl_results cl ++ [r] /\ cl_todo cl1 = rest.
Proof. exact delivered_is_captured. Qed.
Print Assumptions C07_delivered_is_captured.

(* a slow uploader or a slow reader holds no lock: only Commit touches the shared state *)
Theorem C07_only_commit_touches_state : forall c s cl,
  cl_phase cl <> PCommit -> let '(s1, _, committed) := section c s cl in s1 = s /\ committed = None.
Proof. exact only_commit_touches_state. Qed.
Print Assumptions C07_only_commit_touches_state.

(* non-vacuity: two clients, a PUT overlapping a GET of the same key in both orders *)
Definition c07_cfg := {| cfg_auto_bucket := true; cfg_versioned := false; cfg_pages := true; cfg_fail_unimpl_page := false |}.
Definition c07_b : list N := [98;107;116]%N.
Example C07_ex :
  let cls := [new_client [OPut c07_b [107]%N [1]%N []]; new_client [OGet c07_b [107]%N None]] in
  (* get commits between the put's Pre and Commit: it sees no object; the other way round it sees [1] *)
  (map (fun cl => map (fun r => match r with RObj v _ => Some (vd_body v) | _ => None end) (cl_results cl))
       (snd (fst (run_sched c07_cfg init cls [0;1;1;1;0;0]%nat))),
   map (fun cl => map (fun r => match r with RObj v _ => Some (vd_body v) | _ => None end) (cl_results cl))
       (snd (fst (run_sched c07_cfg init cls [0;1;0;1;1;0]%nat))))
  = ([[None]; [None]], [[None]; [Some [1]%N]]).
Proof. vm_compute. reflexivity. Qed.
