(* C11 — Range reads return exactly the requested bytes or InvalidRange.
   Only statements, each closed by an exact lemma; Print Assumptions under each. *)
From GF Require Import Base.Lit Base.Int64 Model.Range Spec.RangeSpec Proofs.RangeProofs.
Open Scope Z_scope.

(* For every header string and every object (any size below 2^63): a missing header gives
   the whole object, a malformed one 416, several ranges 501, and a well-formed single range
   exactly what the wrap-free mathematical spec [answer] says — bytes first..min(last,n-1),
   Content-Range first-last/size, or 416. The Go int64 arithmetic is modelled with explicit
   wrap-around, so this covers every int64 value of first/last/suffix. *)
Theorem C11_range_correct :
  forall hdr data, blen data <= max64 -> header_answer_ok hdr data.
Proof. exact get_range_correct. Qed.
Print Assumptions C11_range_correct.

(* No range value causes a failure other than 416/501: the slice handed to the backends is
   always inside the object. *)
Theorem C11_no_other_failure :
  forall hdr data, blen data <= max64 -> get_range hdr data <> APanic.
Proof. exact get_range_no_panic. Qed.
Print Assumptions C11_no_other_failure.

(* What a partial answer of the spec is: the inclusive byte interval, clipped, with length
   last-first+1 (= Content-Length). *)
Theorem C11_partial_is_requested_bytes :
  forall f data a b body, answer f data = SPartial a b body ->
    0 <= a <= b /\ b < blen data /\ body = sub_bytes data a b /\ blen body = b - a + 1.
Proof. exact answer_partial_shape. Qed.
Print Assumptions C11_partial_is_requested_bytes.

(* Every request the parser produces is in the domain of the arithmetic theorem. *)
Theorem C11_parser_output_wellformed :
  forall s r, parse_range_header s = HReq r -> wf_req r.
Proof. exact parse_range_header_wf. Qed.
Print Assumptions C11_parser_output_wellformed.

(* Non-vacuity and regression witnesses (the two inputs that failed before the fix). *)
Example C11_ex_clip :
  get_range (B "bytes=5-9223372036854775807") (B "0123456789") = APartial 5 9 (B "56789").
Proof. vm_compute. reflexivity. Qed.
Example C11_ex_full :
  get_range (B "bytes=0-9223372036854775807") (B "0123456789") = APartial 0 9 (B "0123456789").
Proof. vm_compute. reflexivity. Qed.
Example C11_ex_suffix : get_range (B "bytes=-3") (B "0123456789") = APartial 7 9 (B "789").
Proof. vm_compute. reflexivity. Qed.
Example C11_ex_416 : get_range (B "bytes=10-") (B "0123456789") = A416.
Proof. vm_compute. reflexivity. Qed.
