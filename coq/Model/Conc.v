(* Concurrency model of the memory / bolt backends (lock structure of s3mem/backend.go and of
   the handlers): every request is a sequence of three atomic sections
     Pre    — no lock: the request body is read and validated (PutObject reads the body before
              taking the lock), nothing shared is touched;
     Commit — under the backend lock: the whole effect on the shared state and the capture of
              everything the response needs (GetObject captures an immutable slice + headers);
     Post   — no lock: the response is streamed from the captured values.
   A schedule is any interleaving of the clients' sections. *)
From GF Require Export Base.Bytes Model.Mem Model.Handlers.

Inductive phase := PPre | PCommit | PPost.

Record client := {
  cl_todo : list op;            (* operations still to issue, in program order *)
  cl_phase : phase;             (* next section of the current operation *)
  cl_captured : option resp;    (* what Commit captured for the current operation *)
  cl_results : list resp;       (* responses delivered so far, oldest first *)
}.

Definition new_client (ops : list op) : client :=
  {| cl_todo := ops; cl_phase := PPre; cl_captured := None; cl_results := [] |}.

(* one section of client [cl] against the shared state *)
Definition section (c : config) (s : state) (cl : client) : state * client * option op (* committed *) :=
  match cl_todo cl with
  | [] => (s, cl, None)
  | o :: rest =>
      match cl_phase cl with
      | PPre => (s, {| cl_todo := cl_todo cl; cl_phase := PCommit; cl_captured := None; cl_results := cl_results cl |}, None)
      | PCommit =>
          let '(s', r) := step c s o in
          (s', {| cl_todo := cl_todo cl; cl_phase := PPost; cl_captured := Some r; cl_results := cl_results cl |}, Some o)
      | PPost =>
          (s, {| cl_todo := rest; cl_phase := PPre; cl_captured := None;
                 cl_results := cl_results cl ++ match cl_captured cl with Some r => [r] | None => [] end |}, None)
      end
  end.

Fixpoint set_nth_client (i : nat) (cl : client) (l : list client) : list client :=
  match i, l with
  | O, _ :: l' => cl :: l'
  | S i', x :: l' => x :: set_nth_client i' cl l'
  | _, [] => []
  end.

(* run a schedule (list of client indices); returns the final shared state, the clients and
   the operations in the order their Commit sections happened, tagged with the client *)
Fixpoint run_sched (c : config) (s : state) (cls : list client) (sched : list nat)
  : state * list client * list (nat * op) :=
  match sched with
  | [] => (s, cls, [])
  | i :: sched' =>
      match nth_error cls i with
      | None => run_sched c s cls sched'
      | Some cl =>
          let '(s', cl', committed) := section c s cl in
          let '(s'', cls'', log) := run_sched c s' (set_nth_client i cl' cls) sched' in
          (s'', cls'', match committed with Some o => (i, o) :: log | None => log end)
      end
  end.

(* the sequential execution of a commit log: one operation after the other *)
Fixpoint run_log (c : config) (s : state) (log : list (nat * op)) : state * list (nat * resp) :=
  match log with
  | [] => (s, [])
  | (i, o) :: log' =>
      let '(s', r) := step c s o in
      let '(s'', rs) := run_log c s' log' in (s'', (i, r) :: rs)
  end.

Definition results_of (i : nat) (rs : list (nat * resp)) : list resp :=
  map snd (filter (fun ir => Nat.eqb (fst ir) i) rs).
