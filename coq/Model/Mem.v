(* backend/s3mem (backend.go, bucket.go, versionid.go) together with the handler-level
   decisions of gofakes3.go that sit directly on top of it (ensureBucketExists, auto-bucket,
   copy = get + put).  Version ids are modelled by their issue rank (the generator is a
   counter printed with fixed width, so string order = issue order). *)
From GF Require Export Base.Bytes Base.SortedMap Model.Prefix Model.BucketName.
Open Scope Z_scope.

Definition meta := list (list N * list N).

Record vdata := {
  vd_vid : N;               (* issue rank of the version id, always generated *)
  vd_null : bool;           (* created while versioning was not Enabled ("null" version) *)
  vd_marker : bool;         (* delete marker *)
  vd_body : list N;
  vd_meta : meta;           (* metadata sent with the upload that created it *)
}.

Record obj := {
  o_data : option vdata;    (* current version; None is Go's nil (reachable, see rm_version) *)
  o_vers : list vdata;      (* older versions, ascending by version id *)
}.

Inductive vstatus := VNone | VEnabled | VSuspended.

Record bucket := {
  b_ver : vstatus;
  b_objs : list (list N * obj);    (* skiplist.NewStringMap: ascending key order *)
}.

Record state := {
  st_buckets : list (list N * bucket);   (* Go map; kept sorted for canonical listing *)
  st_next : N;                           (* version counter *)
}.

Definition init : state := {| st_buckets := []; st_next := 0 |}.

Inductive err :=
| ENoSuchBucket | ENoSuchKey | EBucketAlreadyExists | EBucketNotEmpty | EInvalidBucketName
| ENoSuchVersion | ENotImplemented | EInternal | EInvalidArgument | EPanic.

Definition get_bucket (s : state) (b : list N) : option bucket := sm_get b (st_buckets s).
Definition set_bucket (s : state) (b : list N) (bk : bucket) : state :=
  {| st_buckets := sm_set b bk (st_buckets s); st_next := st_next s |}.

(* ---- bucket level ------------------------------------------------------- *)

Definition create_bucket (s : state) (b : list N) : state * option err :=
  match get_bucket s b with
  | Some _ => (s, Some EBucketAlreadyExists)
  | None => (set_bucket s b {| b_ver := VNone; b_objs := [] |}, None)
  end.

Definition delete_bucket (s : state) (b : list N) : state * option err :=
  match get_bucket s b with
  | None => (s, Some ENoSuchBucket)
  | Some bk =>
      match b_objs bk with
      | [] => ({| st_buckets := sm_del b (st_buckets s); st_next := st_next s |}, None)
      | _ => (s, Some EBucketNotEmpty)
      end
  end.

Definition list_buckets (s : state) : list (list N) := sm_keys (st_buckets s).

(* ---- versions ----------------------------------------------------------- *)

(* versions skiplist keyed by version id *)
Fixpoint vers_insert (v : vdata) (l : list vdata) : list vdata :=
  match l with
  | [] => [v]
  | w :: l' => if N.eqb (vd_vid v) (vd_vid w) then v :: l'
               else if N.ltb (vd_vid v) (vd_vid w) then v :: l
               else w :: vers_insert v l'
  end.

Fixpoint vers_get (id : N) (l : list vdata) : option vdata :=
  match l with
  | [] => None
  | w :: l' => if N.eqb id (vd_vid w) then Some w else vers_get id l'
  end.

Fixpoint vers_del (id : N) (l : list vdata) : list vdata :=
  match l with
  | [] => []
  | w :: l' => if N.eqb id (vd_vid w) then l' else w :: vers_del id l'
  end.

(* bucket.put: always draws a fresh id; archives the current version when versioning is
   Enabled or when that version was created while it was Enabled (so a write made while
   Suspended replaces only a "null" version) *)
Definition is_enabled (v : vstatus) : bool := match v with VEnabled => true | _ => false end.

Definition bucket_put (bk : bucket) (next : N) (k : list N) (marker : bool) (body : list N) (m : meta)
  : bucket * N * N (* new bucket, new counter, id given *) :=
  let id := (next + 1)%N in
  let item := {| vd_vid := id; vd_null := negb (is_enabled (b_ver bk)); vd_marker := marker;
                 vd_body := body; vd_meta := m |} in
  let o := match sm_get k (b_objs bk) with Some o => o | None => {| o_data := None; o_vers := [] |} end in
  let vers' :=
    match o_data o with
    | Some cur => if is_enabled (b_ver bk) || negb (vd_null cur) then vers_insert cur (o_vers o)
                  else o_vers o
    | None => o_vers o
    end in
  ({| b_ver := b_ver bk; b_objs := sm_set k {| o_data := Some item; o_vers := vers' |} (b_objs bk) |}, id, id).

(* the newest of the archived versions (SeekToLast) *)
Definition vers_last (l : list vdata) : option vdata := last (map Some l) None.
Definition vers_but_last (l : list vdata) : list vdata := removelast l.

(* drop the current version: the newest archived version becomes current, or the object
   disappears when nothing remains *)
Definition drop_current (bk : bucket) (k : list N) (o : obj) : bucket :=
  match vers_last (o_vers o) with
  | Some nv => {| b_ver := b_ver bk;
                  b_objs := sm_set k {| o_data := Some nv; o_vers := vers_but_last (o_vers o) |} (b_objs bk) |}
  | None => {| b_ver := b_ver bk; b_objs := sm_del k (b_objs bk) |}
  end.

(* bucket.rm *)
Definition bucket_rm (bk : bucket) (next : N) (k : list N) : bucket * N * (bool * option N) :=
  match sm_get k (b_objs bk) with
  | None => (bk, next, (false, None))
  | Some o =>
      let keep_history :=
        match b_ver bk, o_data o with
        | VEnabled, _ => true
        | VSuspended, Some cur => negb (vd_null cur)
        | _, _ => false
        end in
      if keep_history then
        let '(bk', next', id) := bucket_put bk next k true [] [] in
        (bk', next', (true, if is_enabled (b_ver bk) then Some id else None))
      else (drop_current bk k o, next, (false, None))
  end.

(* bucket.rmVersion: deleting the current version promotes the newest archived one *)
Definition bucket_rm_version (bk : bucket) (k : list N) (id : N) : bucket * (bool * option N) :=
  match sm_get k (b_objs bk) with
  | None => (bk, (false, None))
  | Some o =>
      match o_data o with
      | Some cur =>
          if N.eqb (vd_vid cur) id then (drop_current bk k o, (vd_marker cur, Some id))
          else
            match vers_get id (o_vers o) with
            | None => (bk, (false, None))
            | Some v => ({| b_ver := b_ver bk;
                            b_objs := sm_set k {| o_data := o_data o; o_vers := vers_del id (o_vers o) |} (b_objs bk) |},
                         (vd_marker v, Some id))
            end
      | None =>      (* Go: data == nil falls through to the versions list *)
          match vers_get id (o_vers o) with
          | None => (bk, (false, None))
          | Some v =>
              match vers_del id (o_vers o) with
              | [] => ({| b_ver := b_ver bk; b_objs := sm_del k (b_objs bk) |}, (vd_marker v, Some id))
              | vs => ({| b_ver := b_ver bk;
                          b_objs := sm_set k {| o_data := None; o_vers := vs |} (b_objs bk) |},
                       (vd_marker v, Some id))
              end
          end
      end
  end.

(* ---- object level (Backend API) ----------------------------------------- *)

Inductive obj_result :=
| OErr (e : err)
| OObj (v : vdata) (show_vid : bool).

(* GetObject / HeadObject without version: nil current version = nil dereference *)
Definition get_object (s : state) (b k : list N) : obj_result :=
  match get_bucket s b with
  | None => OErr ENoSuchBucket
  | Some bk =>
      match sm_get k (b_objs bk) with
      | None => OErr ENoSuchKey
      | Some o =>
          match o_data o with
          | None => OErr EPanic
          | Some v => if vd_marker v then OErr ENoSuchKey
                      else OObj v (match b_ver bk with VEnabled => true | _ => false end)
          end
      end
  end.

(* objectVersion *)
Definition get_object_version (s : state) (b k : list N) (id : N) : obj_result :=
  match get_bucket s b with
  | None => OErr ENoSuchBucket
  | Some bk =>
      match sm_get k (b_objs bk) with
      | None => OErr ENoSuchKey
      | Some o =>
          match o_data o with
          | Some cur => if N.eqb (vd_vid cur) id then OObj cur true
                        else match vers_get id (o_vers o) with
                             | None => OErr ENoSuchVersion
                             | Some v => OObj v true
                             end
          | None => match vers_get id (o_vers o) with
                    | None => OErr ENoSuchVersion
                    | Some v => OObj v true
                    end
          end
      end
  end.

(* MergeMetadata (backend.go), called by every backend's PutObject: metadata the previous current
   object of the key carries is kept for every header the new upload does not send itself (a
   header sent with an empty value counts as sent); nothing is carried over from a delete marker *)
Definition meta_has (k : list N) (m : meta) : bool := existsb (fun kv => beq k (fst kv)) m.
Definition carry_meta (s : state) (b k : list N) (m : meta) : meta :=
  match get_object s b k with
  | OObj v _ => if vd_marker v then m else m ++ filter (fun kv => negb (meta_has (fst kv) m)) (vd_meta v)
  | OErr _ => m
  end.

Definition put_object (s : state) (b k body : list N) (m : meta) : state * (option err * option N) :=
  match get_bucket s b with
  | None => (s, (Some ENoSuchBucket, None))
  | Some bk =>
      let '(bk', next', id) := bucket_put bk (st_next s) k false body m in
      ({| st_buckets := sm_set b bk' (st_buckets s); st_next := next' |},
       (None, match b_ver bk with VEnabled => Some id | _ => None end))
  end.

Definition delete_object (s : state) (b k : list N) : state * (option err * (bool * option N)) :=
  match get_bucket s b with
  | None => (s, (Some ENoSuchBucket, (false, None)))
  | Some bk =>
      let '(bk', next', r) := bucket_rm bk (st_next s) k in
      ({| st_buckets := sm_set b bk' (st_buckets s); st_next := next' |}, (None, r))
  end.

Definition delete_object_version (s : state) (b k : list N) (id : N)
  : state * (option err * (bool * option N)) :=
  match get_bucket s b with
  | None => (s, (Some ENoSuchBucket, (false, None)))
  | Some bk =>
      let '(bk', r) := bucket_rm_version bk k id in
      ({| st_buckets := sm_set b bk' (st_buckets s); st_next := st_next s |}, (None, r))
  end.

(* DeleteMulti / DeleteMultiVersions: every listed key is reported deleted *)
Fixpoint delete_multi (s : state) (b : list N) (ks : list (list N * option N)) : state :=
  match ks with
  | [] => s
  | (k, None) :: ks' => delete_multi (fst (delete_object s b k)) b ks'
  | (k, Some id) :: ks' => delete_multi (fst (delete_object_version s b k id)) b ks'
  end.

Definition set_versioning (s : state) (b : list N) (enable : bool) : state * option err :=
  match get_bucket s b with
  | None => (s, Some ENoSuchBucket)
  | Some bk =>
      let v' := if enable then VEnabled
                else match b_ver bk with VEnabled => VSuspended | v => v end in
      (set_bucket s b {| b_ver := v'; b_objs := b_objs bk |}, None)
  end.

(* ---- listing ------------------------------------------------------------ *)

Record list_result := {
  lr_contents : list (list N * list N);       (* key, body (size and etag derive from it) *)
  lr_prefixes : list (list N);
  lr_truncated : bool;
  lr_next : list N;                           (* NextMarker; [] = none *)
  lr_panic : bool;
}.

(* ObjectList.AddPrefix *)
Definition add_prefix (p : list N) (ps : list (list N)) : list (list N) :=
  if existsb (beq p) ps then ps else ps ++ [p].

(* after the page is full: skip the rest of the current common-prefix group so that the
   next page does not report it again (fix D11), then IsTruncated = something remains *)
Fixpoint skip_group (pre : list N) (delim : option N) (grp : list N) (last_key : list N)
    (rest : list (list N * obj)) : list N * list (list N * obj) :=
  match rest with
  | [] => (last_key, [])
  | (k, o) :: rest' =>
      match prefix_match pre delim k with
      | MCommon p => if beq p grp then skip_group pre delim grp k rest' else (last_key, rest)
      | _ => (last_key, rest)
      end
  end.

(* the for iter.Next() loop of ListBucket; [cnt] counts entries, [lastp] is lastMatchedPart *)
Fixpoint scan (pre : list N) (delim : option N) (maxkeys : Z) (items : list (list N * obj))
    (cnt : Z) (lastp : option (list N)) (acc : list_result) : list_result :=
  match items with
  | [] => acc
  | (k, o) :: rest =>
      match o_data o with
      | None => {| lr_contents := lr_contents acc; lr_prefixes := lr_prefixes acc;
                   lr_truncated := false; lr_next := []; lr_panic := true |}
      | Some v =>
          let full (acc' : list_result) (is_common : option (list N)) :=
            if (0 <? maxkeys) && (maxkeys <=? cnt + 1) then
              let '(nm, rest') := match is_common with
                                  | Some g => skip_group pre delim g k rest
                                  | None => (k, rest)
                                  end in
              Some {| lr_contents := lr_contents acc'; lr_prefixes := lr_prefixes acc';
                      lr_truncated := match rest' with [] => false | _ => true end;
                      lr_next := nm; lr_panic := false |}
            else None in
          match prefix_match pre delim k with
          | NoMatch => scan pre delim maxkeys rest cnt lastp acc
          | MContent =>
              if vd_marker v then scan pre delim maxkeys rest cnt lastp acc else
              let acc' := {| lr_contents := lr_contents acc ++ [(k, vd_body v)];
                             lr_prefixes := lr_prefixes acc; lr_truncated := false;
                             lr_next := []; lr_panic := false |} in
              match full acc' None with
              | Some r => r
              | None => scan pre delim maxkeys rest (cnt + 1) lastp acc'
              end
          | MCommon p =>
              if vd_marker v then scan pre delim maxkeys rest cnt lastp acc else
              if match lastp with Some q => beq p q | None => false end
              then scan pre delim maxkeys rest cnt lastp acc
              else
                let acc' := {| lr_contents := lr_contents acc;
                               lr_prefixes := add_prefix p (lr_prefixes acc); lr_truncated := false;
                               lr_next := []; lr_panic := false |} in
                match full acc' (Some p) with
                | Some r => r
                | None => scan pre delim maxkeys rest (cnt + 1) (Some p) acc'
                end
          end
      end
  end.

Definition empty_list : list_result :=
  {| lr_contents := []; lr_prefixes := []; lr_truncated := false; lr_next := []; lr_panic := false |}.

(* Seek(marker); skip the marker itself  ==  keys strictly greater than the marker *)
Definition list_bucket (s : state) (b pre : list N) (delim : option N) (marker : list N) (maxkeys : Z)
  : option list_result :=
  match get_bucket s b with
  | None => None
  | Some bk =>
      let items := match marker with [] => b_objs bk | _ => sm_after marker (b_objs bk) end in
      Some (scan pre delim maxkeys items 0 None empty_list)
  end.
