(* range.go: parseRangeHeader, ObjectRangeRequest.Range, and the slicing done by the
   backends (s3mem/bucket.go toObject, s3bolt/schema.go, s3afero seek+limit). *)
From GF Require Export Base.Bytes Base.Int64 Model.ParseInt.
Open Scope Z_scope.

Record range_req := { rq_start : Z; rq_end : Z; rq_from_end : bool }.

Inductive hdr_result :=
| HNone                       (* no Range header: whole object *)
| HInvalid                    (* ErrInvalidRange *)
| HNotImplemented             (* multiple ranges *)
| HReq (r : range_req).

Definition bytes_eq_prefix : bytes := [98; 121; 116; 101; 115; 61]%N. (* "bytes=" *)

Definition range_no_end : Z := -1.

Definition parse_range_header (s : bytes) : hdr_result :=
  match s with
  | [] => HNone
  | _ =>
    if negb (prefixb bytes_eq_prefix s) then HInvalid else
    let rest := skipn 6 s in
    match split 44 rest with       (* "," *)
    | [r0] =>
        let rnge := trim_space r0 in
        match rnge with
        | [] => HInvalid
        | _ =>
          match cut 45 rnge with   (* first "-" *)
          | (_, None) => HInvalid
          | (a, Some b) =>
              let st := trim_space a in
              let en := trim_space b in
              match st with
              | [] =>
                  match parse_int64 en with
                  | None => HInvalid
                  | Some i => HReq {| rq_start := 0; rq_end := i; rq_from_end := true |}
                  end
              | _ =>
                  match parse_int64 st with
                  | None => HInvalid
                  | Some i =>
                      if Z.ltb i 0 then HInvalid else
                      match en with
                      | [] => HReq {| rq_start := i; rq_end := range_no_end; rq_from_end := false |}
                      | _ => match parse_int64 en with
                             | None => HInvalid
                             | Some j => if Z.ltb j i then HInvalid
                                         else HReq {| rq_start := i; rq_end := j; rq_from_end := false |}
                             end
                      end
                  end
              end
          end
        end
    | _ => HNotImplemented
    end
  end.

Inductive range_result :=
| RInvalid
| ROk (start length : Z).

(* ObjectRangeRequest.Range(size), int64 arithmetic explicit *)
Definition range_go (o : range_req) (size : Z) : range_result :=
  let '(start, length) :=
    if negb (rq_from_end o) then
      let start := rq_start o in
      let en := rq_end o in
      if Z.eqb en range_no_end || Z.leb size en
      then (start, sub64 size start)
      else (start, add64 (sub64 en start) 1)
    else
      let en := rq_end o in
      let start := sub64 size en in
      (start, sub64 size start) in
  if Z.ltb start 0 || Z.ltb length 0 || Z.leb size start then RInvalid
  else if Z.ltb size (add64 start length) then ROk start (sub64 size start)
  else ROk start length.

(* what a GET answers *)
Inductive get_range_answer :=
| AWhole                               (* 200, full body *)
| A416
| A501
| APartial (first last : Z) (body : bytes)   (* 206: Content-Range first-last/size *)
| APanic.                              (* slice bounds out of range *)

Definition slice (data : bytes) (start length : Z) : option bytes :=
  if Z.ltb start 0 || Z.ltb length 0 || Z.ltb (blen data) (start + length) then None
  else Some (firstn (Z.to_nat length) (skipn (Z.to_nat start) data)).

Definition get_range (hdr : bytes) (data : bytes) : get_range_answer :=
  match parse_range_header hdr with
  | HNone => AWhole
  | HInvalid => A416
  | HNotImplemented => A501
  | HReq r =>
      match range_go r (blen data) with
      | RInvalid => A416
      | ROk st len =>
          match slice data st len with
          | None => APanic
          | Some b => APartial st (add64 (add64 st len) (-1)) b
          end
      end
  end.
