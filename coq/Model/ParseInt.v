(* strconv.ParseInt(s, 10, 64) and strings.TrimSpace restricted to ASCII input. *)
From GF Require Export Base.Bytes Base.Int64.
Open Scope Z_scope.

Definition is_digit (c : N) : bool := (N.leb 48 c && N.leb c 57)%N.

(* Accumulate decimal digits; None on a non-digit. Unbounded: the range test comes after,
   which is equivalent to strconv's cutoff test (it reports ErrRange, an error, too). *)
Fixpoint digits_val (s : bytes) (acc : Z) : option Z :=
  match s with
  | [] => Some acc
  | c :: s' => if is_digit c then digits_val s' (acc * 10 + (Z.of_N c - 48)) else None
  end.

Definition parse_digits_signed (neg : bool) (ds : bytes) : option Z :=
  match ds with
  | [] => None
  | _ => match digits_val ds 0 with
         | None => None
         | Some v => let v' := if neg then - v else v in
                     if in64b v' then Some v' else None
         end
  end.

(* result: Some v  = (v, nil error); None = any error (syntax or range) *)
Definition parse_int64 (s : bytes) : option Z :=
  match s with
  | [] => None
  | c :: s' =>
      if N.eqb c 43 then parse_digits_signed false s'
      else if N.eqb c 45 then parse_digits_signed true s'
      else parse_digits_signed false s
  end.

(* unicode.IsSpace on ASCII: \t \n \v \f \r and space *)
Definition is_space (c : N) : bool :=
  (N.eqb c 32 || (N.leb 9 c && N.leb c 13))%N.

Fixpoint trim_space_left (s : bytes) : bytes :=
  match s with
  | c :: s' => if is_space c then trim_space_left s' else s
  | [] => []
  end.
Definition trim_space (s : bytes) : bytes := rev (trim_space_left (rev (trim_space_left s))).
