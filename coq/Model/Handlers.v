(* gofakes3.go handlers over a backend model: the decisions each handler takes before and
   after calling the Backend (ensureBucketExists / auto-bucket, name validation, key length,
   versioned-backend tests, copy = head + get + put, paging fallback). *)
From GF Require Export Base.Bytes Base.Lit Model.Mem Model.BucketName.
Open Scope Z_scope.

(* copyObject: the metadata headers of the copy request win, the source's fill in the rest;
   the ACL is not carried over *)
Definition merge_meta (req src : meta) : meta :=
  req ++ filter (fun kv => negb (meta_has (fst kv) req) && negb (beq (fst kv) (B "X-Amz-Acl"))) src.

Record config := {
  cfg_auto_bucket : bool;        (* WithAutoBucket *)
  cfg_versioned : bool;          (* backend implements VersionedBackend and not WithoutVersioning *)
  cfg_pages : bool;              (* backend implements pagination (s3mem); others fall back *)
  cfg_fail_unimpl_page : bool;   (* WithUnimplementedPageError *)
}.

Inductive op :=
| OCreateBucket (b : list N)
| ODeleteBucket (b : list N)
| OHeadBucket (b : list N)
| OListBuckets
| OPut (b k body : list N) (m : meta)
| OGet (b k : list N) (vid : option N)
| OHead (b k : list N) (vid : option N)
| ODelete (b k : list N)
| ODeleteVersion (b k : list N) (vid : N)
| OMultiDelete (b : list N) (ks : list (list N * option N))
| OCopy (sb sk b k : list N) (m : meta)
| OSetVersioning (b : list N) (enable : bool)
| OList (b pre : list N) (delim : option N) (marker : list N) (has_marker : bool) (maxkeys : Z).

Inductive resp :=
| RErr (e : err)
| ROk
| RNames (l : list (list N))
| RPut (vid : option N)
| RObj (v : vdata) (show_vid : bool)
| RMarker (vid : N)                          (* GET ?versionId of a delete marker: 404 + marker headers *)
| RDel (marker : bool) (vid : option N)
| RMulti (ks : list (list N))
| RCopy (body : list N)
| RList (r : list_result).

Definition key_size_limit : nat := 1024.

Definition ensure_bucket (c : config) (s : state) (b : list N) : state * option err :=
  match get_bucket s b with
  | Some _ => (s, None)
  | None => if cfg_auto_bucket c then
              (* the name rule of create-bucket applies to a bucket made on first use as well *)
              (if validate b then (fst (Mem.create_bucket s b), None) else (s, Some EInvalidBucketName))
            else (s, Some ENoSuchBucket)
  end.

Definition step (c : config) (s : state) (o : op) : state * resp :=
  match o with
  | OCreateBucket b =>
      if negb (validate b) then (s, RErr EInvalidBucketName) else
      match Mem.create_bucket s b with
      | (s', None) => (s', ROk)
      | (s', Some e) => (s', RErr e)
      end
  | ODeleteBucket b =>
      match ensure_bucket c s b with
      | (s1, Some e) => (s1, RErr e)
      | (s1, None) => match delete_bucket s1 b with
                      | (s2, None) => (s2, ROk)
                      | (s2, Some e) => (s2, RErr e)
                      end
      end
  | OHeadBucket b =>
      match ensure_bucket c s b with
      | (s1, Some e) => (s1, RErr e)
      | (s1, None) => (s1, ROk)
      end
  | OListBuckets => (s, RNames (list_buckets s))
  | OPut b k body m =>
      match ensure_bucket c s b with
      | (s1, Some e) => (s1, RErr e)
      | (s1, None) =>
          match put_object s1 b k body (carry_meta s1 b k m) with
          | (s2, (None, vid)) => (s2, RPut vid)
          | (s2, (Some e, _)) => (s2, RErr e)
          end
      end
  | OGet b k vid =>
      match ensure_bucket c s b with
      | (s1, Some e) => (s1, RErr e)
      | (s1, None) =>
          match vid with
          | None => match get_object s1 b k with
                    | OErr e => (s1, RErr e)
                    | OObj v sv => (s1, RObj v sv)
                    end
          | Some id =>
              if negb (cfg_versioned c) then (s1, RErr ENotImplemented) else
              match get_object_version s1 b k id with
              | OErr e => (s1, RErr e)
              | OObj v sv => if vd_marker v then (s1, RMarker (vd_vid v)) else (s1, RObj v sv)
              end
          end
      end
  | OHead b k vid =>
      match ensure_bucket c s b with
      | (s1, Some e) => (s1, RErr e)
      | (s1, None) =>
          match vid with
          | None => match get_object s1 b k with
                    | OErr e => (s1, RErr e)
                    | OObj v _ => (s1, RObj v true)
                    end
          | Some id =>
              if negb (cfg_versioned c) then (s1, RErr ENotImplemented) else
              match get_object_version s1 b k id with
              | OErr e => (s1, RErr e)
              | OObj v sv => if vd_marker v then (s1, RMarker (vd_vid v)) else (s1, RObj v sv)
              end
          end
      end
  | ODelete b k =>
      match ensure_bucket c s b with
      | (s1, Some e) => (s1, RErr e)
      | (s1, None) =>
          match delete_object s1 b k with
          | (s2, (None, (mk, vid))) => (s2, RDel mk vid)
          | (s2, (Some e, _)) => (s2, RErr e)
          end
      end
  | ODeleteVersion b k id =>
      if negb (cfg_versioned c) then (s, RErr ENotImplemented) else
      match ensure_bucket c s b with
      | (s1, Some e) => (s1, RErr e)
      | (s1, None) =>
          match delete_object_version s1 b k id with
          | (s2, (None, (mk, vid))) => (s2, RDel mk vid)
          | (s2, (Some e, _)) => (s2, RErr e)
          end
      end
  | OMultiDelete b ks =>
      match ensure_bucket c s b with
      | (s1, Some e) => (s1, RErr e)
      | (s1, None) =>
          let ks' := if cfg_versioned c then ks else map (fun kv => (fst kv, None)) ks in
          (delete_multi s1 b ks', RMulti (map fst ks))
      end
  | OCopy sb sk b k m =>
      match ensure_bucket c s b with
      | (s1, Some e) => (s1, RErr e)
      | (s1, None) =>
          match get_object s1 sb sk with
          | OErr e => (s1, RErr e)
          | OObj v _ =>
              match put_object s1 b k (vd_body v) (carry_meta s1 b k (merge_meta m (vd_meta v))) with
              | (s2, (None, _)) => (s2, RCopy (vd_body v))
              | (s2, (Some e, _)) => (s2, RErr e)
              end
          end
      end
  | OSetVersioning b enable =>
      match ensure_bucket c s b with
      | (s1, Some e) => (s1, RErr e)
      | (s1, None) =>
          if negb (cfg_versioned c) then (s1, if enable then RErr ENotImplemented else ROk) else
          match set_versioning s1 b enable with
          | (s2, None) => (s2, ROk)
          | (s2, Some e) => (s2, RErr e)
          end
      end
  | OList b pre delim marker has_marker maxkeys =>
      match ensure_bucket c s b with
      | (s1, Some e) => (s1, RErr e)
      | (s1, None) =>
          let paged := has_marker || negb (beq marker []) || negb (maxkeys =? 0) in
          if paged && negb (cfg_pages c) && cfg_fail_unimpl_page c then (s1, RErr ENotImplemented) else
          let '(marker', maxkeys') := if paged && negb (cfg_pages c) then ([], 0) else (marker, maxkeys) in
          match list_bucket s1 b pre delim marker' maxkeys' with
          | None => (s1, RErr ENoSuchBucket)
          | Some r => (s1, if lr_panic r then RErr EPanic else RList r)
          end
      end
  end.

Fixpoint run (c : config) (s : state) (ops : list op) : state * list resp :=
  match ops with
  | [] => (s, [])
  | o :: ops' => let '(s1, r) := step c s o in
                 let '(s2, rs) := run c s1 ops' in (s2, r :: rs)
  end.
