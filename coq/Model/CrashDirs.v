(* The directory side of the filesystem backends' writes (backend/s3afero multi.go / single.go
   PutObject, deleteObjectLocked): a key "e/f/g" is a file g in the directory e/f, PutObject makes
   the missing parent directories (one MkdirAll call) before it unlinks the old file and creates
   the new one, DeleteObject removes the file and then prunes the parents it left empty, deepest
   first (one Remove call each). A killed process leaves the tree after a prefix of these calls.

   Directories are not objects, but they are visible: a delimiter listing reports a directory as
   a common prefix whether or not a key lies below it, an upload to a key that is a directory is
   refused, and a bucket with a directory in it is not empty.  [phantoms] are the directories
   without any file below them.

   This model is independent of Model/Crash.v (which follows the object file and its metadata
   record); the two are tied to the code by the same crash points of the harness. *)
From Coq Require Import List NArith Bool.
From GF Require Import Base.Bytes Base.Lit.
Import ListNotations.

Definition slash : N := 47%N.

(* the proper directory prefixes of a key, outermost first: "e/f/g" -> ["e"; "e/f"] *)
Fixpoint ancestors_from (acc : bytes) (k : bytes) : list bytes :=
  match k with
  | [] => []
  | c :: k' => if N.eqb c slash then rev acc :: ancestors_from (c :: acc) k'
               else ancestors_from (c :: acc) k'
  end.
Definition ancestors (k : bytes) : list bytes := ancestors_from [] k.

Record tree := { t_files : list bytes; t_dirs : list bytes }.

Definition memb (x : bytes) (l : list bytes) : bool := existsb (beq x) l.
Definition remb (x : bytes) (l : list bytes) : list bytes := filter (fun y => negb (beq x y)) l.
Definition addb (x : bytes) (l : list bytes) : list bytes := if memb x l then l else x :: l.

(* d is a directory above the path p *)
Definition below (d p : bytes) : bool := prefixb (d ++ [slash]) p.

(* a directory is empty when neither a file nor another directory lies below it *)
Definition dir_empty (t : tree) (d : bytes) : bool :=
  negb (existsb (below d) (t_files t)) && negb (existsb (below d) (t_dirs t)).

Inductive dop :=
| DMkdirAll (k : bytes)     (* MkdirAll(dir of k): every missing ancestor of k *)
| DUnlink (k : bytes)       (* Remove of the object file *)
| DCreate (k : bytes)       (* Create of the object file *)
| DRmdir (d : bytes).       (* Remove of an empty directory *)

Definition apply_dop (t : tree) (o : dop) : tree :=
  match o with
  | DMkdirAll k => {| t_files := t_files t; t_dirs := fold_left (fun ds a => addb a ds) (ancestors k) (t_dirs t) |}
  | DUnlink k => {| t_files := remb k (t_files t); t_dirs := t_dirs t |}
  | DCreate k => {| t_files := addb k (t_files t); t_dirs := t_dirs t |}
  | DRmdir d => {| t_files := t_files t; t_dirs := remb d (t_dirs t) |}
  end.

Definition run_dops (t : tree) (ops : list dop) : tree := fold_left apply_dop ops t.

(* PutObject: MkdirAll (a state change only if an ancestor is missing), unlink the previous
   file if there is one, create *)
Definition put_dops (t : tree) (k : bytes) : list dop :=
  (if forallb (fun a => memb a (t_dirs t)) (ancestors k) then [] else [DMkdirAll k]) ++
  (if memb k (t_files t) then [DUnlink k] else []) ++ [DCreate k].

(* the pruning loop of deleteObjectLocked: from the deepest ancestor upwards, remove while empty *)
Fixpoint prune_dops (t : tree) (ds : list bytes) : list dop :=
  match ds with
  | [] => []
  | d :: ds' => if memb d (t_dirs t)
                then (if dir_empty t d then DRmdir d :: prune_dops (apply_dop t (DRmdir d)) ds' else [])
                else prune_dops t ds'   (* never made: its parents may have been *)
  end.

Definition del_dops (t : tree) (k : bytes) : list dop :=
  if memb k (t_files t)
  then DUnlink k :: prune_dops (apply_dop t (DUnlink k)) (rev (ancestors k))
  else [].

(* directories no key lies below *)
Definition phantoms (t : tree) : list bytes :=
  filter (fun d => negb (existsb (below d) (t_files t))) (t_dirs t).

(* what a delimiter listing of the bucket shows of them: the outermost directory of each phantom
   chain, as a common prefix, unless a key lies below that directory *)
Definition top_of (d : bytes) : bytes :=
  match ancestors d with a :: _ => a | [] => d end.
Definition phantom_prefixes (t : tree) : list bytes :=
  fold_right (fun d acc => let p := top_of d ++ [slash] in if memb p acc then acc else p :: acc) []
             (filter (fun d => negb (existsb (below (top_of d)) (t_files t))) (t_dirs t)).

(* the tree of a store written by a live server that never crashed: the keys and exactly their
   ancestors *)
Definition tree_of (keys : list bytes) : tree :=
  {| t_files := keys; t_dirs := fold_left (fun ds k => fold_left (fun ds' a => addb a ds') (ancestors k) ds) keys [] |}.

(* every directory holds a file (possibly deeper down) and every file's ancestors exist *)
Definition tidy (t : tree) : Prop :=
  (forall d, In d (t_dirs t) -> existsb (below d) (t_files t) = true) /\
  (forall k a, In k (t_files t) -> In a (ancestors k) -> memb a (t_dirs t) = true).

Definition dop_name (o : dop) : bytes :=
  match o with
  | DMkdirAll _ => B "data:MkdirAll"
  | DUnlink _ => B "data:Remove"
  | DCreate _ => B "data:Create"
  | DRmdir _ => B "data:Rmdir"
  end.
