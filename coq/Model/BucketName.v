(* validation.go: ValidateBucketName.  The regexp ^[a-z0-9]([a-z0-9\.-]+)[a-z0-9]$ is
   hand-compiled to the structural matcher [pattern]; net.ParseIP is modelled by its
   dotted-quad branch (netip.parseIPv4Fields), the only one reachable for strings that
   passed the pattern (they contain neither ':' nor '%'). *)
From GF Require Export Base.Bytes.
Open Scope N_scope.

Definition is_lower (c : N) : bool := (97 <=? c) && (c <=? 122).
Definition is_dig (c : N) : bool := (48 <=? c) && (c <=? 57).
Definition alnum (c : N) : bool := is_lower c || is_dig c.
Definition dot : N := 46.
Definition hyphen : N := 45.
Definition class (c : N) : bool := alnum c || (c =? dot) || (c =? hyphen).   (* [a-z0-9\.-] *)

(* s = mid ++ [last] with mid (possibly empty) in class and last alnum *)
Fixpoint tail_ok (s : bytes) : bool :=
  match s with
  | [] => false
  | [d] => alnum d
  | c :: rest => class c && tail_ok rest
  end.

Definition pattern (s : bytes) : bool :=
  match s with
  | c1 :: c2 :: rest => alnum c1 && class c2 && tail_ok rest
  | _ => false
  end.

(* one IPv4 field as netip.parseIPv4Fields reads it: 1+ digits, no leading zero unless "0",
   value <= 255 *)
Fixpoint octet_val (s : bytes) (diglen : nat) (val : N) : option N :=
  match s with
  | [] => match diglen with O => None | _ => Some val end
  | c :: s' =>
      if is_dig c then
        if (Nat.eqb diglen 1) && (val =? 0) then None
        else let v := val * 10 + (c - 48) in
             if 255 <? v then None else octet_val s' (S diglen) v
      else None
  end.
Definition octet_ok (s : bytes) : bool :=
  match octet_val s 0 0 with Some _ => true | None => false end.

Definition is_ipv4 (s : bytes) : bool :=
  match split dot s with
  | [a; b; c; d] => octet_ok a && octet_ok b && octet_ok c && octet_ok d
  | _ => false
  end.

Definition len_ok (s : bytes) : bool := (3 <=? length s)%nat && (length s <=? 63)%nat.

(* ValidateBucketName(name) == nil *)
Definition validate (name : bytes) : bool :=
  if negb (len_ok name) then false
  else if negb (pattern name) then false
  else if is_ipv4 name then false
  else forallb pattern (split dot name).
