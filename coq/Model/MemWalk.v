(* A client walking the pages of ListObjects with the continuation the server returns. *)
From GF Require Export Model.Mem.
Open Scope Z_scope.

Definition page (pre : list N) (delim : option N) (maxkeys : Z) (objs : list (list N * obj))
    (marker : list N) : list_result :=
  scan pre delim maxkeys (match marker with [] => objs | _ => sm_after marker objs end) 0 None empty_list.

(* unpaginated listing: max-keys 0 means "no limit" in the backend *)
Definition unpaged (pre : list N) (delim : option N) (objs : list (list N * obj)) : list_result :=
  scan pre delim 0 objs 0 None empty_list.

Fixpoint walk (fuel : nat) (pre : list N) (delim : option N) (maxkeys : Z)
    (objs : list (list N * obj)) (marker : list N) : option (list list_result) :=
  match fuel with
  | O => None                                   (* out of fuel: did not terminate *)
  | S f =>
      let r := page pre delim maxkeys objs marker in
      if lr_truncated r then
        match walk f pre delim maxkeys objs (lr_next r) with
        | Some rs => Some (r :: rs)
        | None => None
        end
      else Some [r]
  end.

(* keys of the live (not delete-marked) objects, in map order *)
Definition live_keys (items : list (list N * obj)) : list (list N) :=
  flat_map (fun kv => match o_data (snd kv) with
                      | Some v => if vd_marker v then [] else [fst kv]
                      | None => []
                      end) items.
