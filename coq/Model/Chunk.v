(* chunk.go: chunkedReader.Read over an inner reader that may return fewer bytes than asked
   for (fragmentation schedule), driven by a consumer (ReadAll or io.Copy).  After the fix the
   branch "buffer smaller than the rest of the chunk" subtracts the bytes DELIVERED.
   Sizes are Z (Go ints), loops run on explicit fuel; output is accumulated reversed. *)
From GF Require Export Base.Bytes.
Open Scope Z_scope.

(* inner reader: remaining bytes; per-call cap on the number of bytes returned (when the
   schedule is exhausted calls are uncapped); optionally the last data comes with EOF *)
Record reader := { rd_buf : list N; rd_sched : list Z; rd_eof_with_data : bool }.

Inductive rerr := RNone | REOF | RErrOther.   (* nil / io.EOF / any other error *)

(* up to n leading elements *)
Fixpoint take_upto (l : list N) (n : Z) : list N * list N :=
  match l with
  | [] => ([], [])
  | x :: l' => if n <=? 0 then ([], l) else let '(a, b) := take_upto l' (n - 1) in (x :: a, b)
  end.

Definition inner_read (want : Z) (r : reader) : list N * rerr * reader :=
  match rd_buf r with
  | [] => ([], REOF, r)
  | _ =>
      let cap := match rd_sched r with [] => want | c :: _ => Z.min want (Z.max c 1) end in
      let '(out, rest) := take_upto (rd_buf r) cap in
      let r' := {| rd_buf := rest; rd_sched := tl (rd_sched r); rd_eof_with_data := rd_eof_with_data r |} in
      (out, match rest with [] => if rd_eof_with_data r then REOF else RNone | _ => RNone end, r')
  end.

(* io.CopyN(ioutil.Discard, inner, k): k bytes must be available *)
Fixpoint discard (fuel : nat) (k : Z) (r : reader) : bool * reader :=
  if k <=? 0 then (true, r) else
  match fuel with
  | O => (false, r)
  | S f =>
      let '(out, e, r') := inner_read k r in
      let got := blen out in
      if got =? k then (true, r')
      else match e with
           | RNone => if got =? 0 then (false, r') else discard f (k - got) r'
           | _ => (false, r')
           end
  end.

Definition hexval (c : N) : option Z :=
  if (48 <=? c)%N && (c <=? 57)%N then Some (Z.of_N c - 48)
  else if (97 <=? c)%N && (c <=? 102)%N then Some (Z.of_N c - 87)
  else if (65 <=? c)%N && (c <=? 70)%N then Some (Z.of_N c - 55)
  else None.

(* fmt.Fscanf(inner, "%x;", &n): hex digits (at least one) then ';', read one byte at a time.
   None = any scan error (including EOF). *)
Fixpoint scan_hex (fuel : nat) (r : reader) (acc : option Z) : option Z * reader :=
  match fuel with
  | O => (None, r)
  | S f =>
      let '(out, e, r') := inner_read 1 r in
      match out with
      | [c] =>
          match hexval c with
          | Some v => scan_hex f r' (Some (match acc with Some a => a * 16 + v | None => v end))
          | None => if N.eqb c 59 then (acc, r') else (None, r')
          end
      | _ => (None, r')
      end
  end.

Record creader := { cr_inner : reader; cr_remain : Z; cr_not_first : bool }.

Definition cnew (r : reader) : creader := {| cr_inner := r; cr_remain := 0; cr_not_first := false |}.

Definition header_skip : Z := 82.    (* "chunk-signature=" + 64 + CRLF *)

(* chunkedReader.Read(p) with len(p) = want; [racc] = bytes delivered so far, reversed *)
Fixpoint cread (fuel : nat) (want : Z) (c : creader) (racc : list N) : list N * rerr * creader :=
  if want <=? 0 then (racc, RNone, c) else
  match fuel with
  | O => (racc, RErrOther, c)
  | S f =>
      if want <? cr_remain c then
        let '(out, e, r') := inner_read want (cr_inner c) in
        let c' := {| cr_inner := r'; cr_remain := cr_remain c - blen out; cr_not_first := cr_not_first c |} in
        match e with
        | RNone => cread f (want - blen out) c' (rev_append out racc)
        | _ => (rev_append out racc, e, c')
        end
      else if 0 <? cr_remain c then
        let '(out, e, r') := inner_read (cr_remain c) (cr_inner c) in
        let c' := {| cr_inner := r'; cr_remain := cr_remain c - blen out; cr_not_first := cr_not_first c |} in
        match e with
        | RNone => cread f (want - blen out) c' (rev_append out racc)
        | _ => (rev_append out racc, e, c')
        end
      else
        let '(ok1, r1) := if cr_not_first c then discard 4 2 (cr_inner c) else (true, cr_inner c) in
        if negb ok1 then (racc, REOF, {| cr_inner := r1; cr_remain := cr_remain c; cr_not_first := true |}) else
        match scan_hex 20 r1 None with
        | (None, r2) =>
            (* fmt.Fscanf: io.EOF only when the input ends before the first byte of the header; a byte
               that is not a hex digit, a missing ';' or an end inside the number are errors *)
            (racc, match rd_buf r1 with [] => REOF | _ => RErrOther end,
             {| cr_inner := r2; cr_remain := cr_remain c; cr_not_first := true |})
        | (Some sz, r2) =>
            let '(ok3, r3) := discard 100 header_skip r2 in
            let c' := {| cr_inner := r3; cr_remain := sz; cr_not_first := true |} in
            if negb ok3 then (racc, REOF, c') else cread f want c' racc
        end
  end.

(* enough fuel for one Read over a reader holding [buf]: every iteration consumes at least
   one byte of it or parses one header (which consumes at least 3 bytes) *)
Definition read_fuel (r : reader) : nat := S (S (length (rd_buf r))).

(* consumers *)
Inductive decode_result := DOk (payload : list N) | DShort (got : list N) | DLong | DError.

(* io.ReadFull(r, buf) with len(buf) = want *)
Fixpoint read_full (fuel : nat) (want : Z) (c : creader) (racc : list N) : list N * rerr * creader :=
  if want <=? 0 then (racc, RNone, c) else
  match fuel with
  | O => (racc, RErrOther, c)
  | S f =>
      let '(rout, e, c') := cread (read_fuel (cr_inner c)) want c [] in
      let n := blen rout in
      match e with
      | RNone => if n =? 0 then (racc, RErrOther, c')
                 else read_full f (want - n) c' (rout ++ racc)
      | _ => (rout ++ racc, e, c')
      end
  end.

(* read until EOF with a buffer of [bufsz] *)
Fixpoint drain (fuel : nat) (bufsz : Z) (c : creader) (racc : list N) : list N * rerr :=
  match fuel with
  | O => (racc, RErrOther)
  | S f =>
      let '(rout, e, c') := cread (read_fuel (cr_inner c)) bufsz c [] in
      match e with
      | RNone => match rout with [] => (racc, RErrOther) | _ => drain f bufsz c' (rout ++ racc) end
      | REOF => (rout ++ racc, REOF)
      | RErrOther => (rout ++ racc, RErrOther)
      end
  end.

(* mem / bolt: util.go ReadAll(reader, size) *)
Definition decode_readall (r : reader) (size : Z) : decode_result :=
  let '(rgot, e, c) := read_full (read_fuel r) size (cnew r) [] in
  if blen rgot <? size then (match e with RErrOther => DError | _ => DShort (rev_append rgot []) end) else
  let '(rextra, e') := drain (read_fuel r) 512 c [] in
  match e' with
  | RErrOther => DError          (* ioutil.ReadAll of the rest fails: the upload is refused *)
  | _ => match rextra with
         | [] => DOk (rev_append rgot [])
         | _ => DLong
         end
  end.

(* fs backends: io.Copy with a buffer until EOF *)
Definition decode_copy (r : reader) (bufsz : Z) : list N :=
  rev_append (fst (drain (read_fuel r) bufsz (cnew r) [])) [].

(* the encoder (client side): hex size; signature; CRLF; data; CRLF ... final zero chunk *)
Definition hexdig (z : Z) : N := if z <? 10 then Z.to_N (48 + z) else Z.to_N (87 + z).
Fixpoint hex_fuel (fuel : nat) (z : Z) (acc : list N) : list N :=
  match fuel with
  | O => acc
  | S f => if z <? 16 then hexdig z :: acc else hex_fuel f (z / 16) (hexdig (z mod 16) :: acc)
  end.
Definition hex_of_Z (z : Z) : list N := hex_fuel (S (Z.to_nat (Z.log2 z))) z [].

Definition crlf : list N := [13; 10]%N.
Definition chunk_header (n : Z) (sig : list N) : list N :=
  hex_of_Z n ++ [59%N] ++ sig ++ crlf.      (* sig = "chunk-signature=" ++ 64 bytes *)

Fixpoint encode (sig : list N) (chunks : list (list N)) : list N :=
  match chunks with
  | [] => chunk_header 0 sig ++ crlf
  | c :: cs => chunk_header (blen c) sig ++ c ++ crlf ++ encode sig cs
  end.
