(* error.go ErrorCode.Status: the HTTP status that goes with each S3 error code. *)
From GF Require Export Base.Bytes.
From GF Require Import Base.Lit.
Open Scope Z_scope.

Definition status_table : list (list N * Z) :=
  [ (B "BucketAlreadyExists", 409); (B "BucketNotEmpty", 409);
    (B "BadDigest", 400); (B "IllegalVersioningConfigurationException", 400); (B "IncompleteBody", 400);
    (B "IncorrectNumberOfFilesInPostRequest", 400); (B "InlineDataTooLarge", 400); (B "InvalidArgument", 400);
    (B "InvalidBucketName", 400); (B "InvalidDigest", 400); (B "InvalidPart", 400); (B "InvalidPartOrder", 400);
    (B "InvalidToken", 400); (B "InvalidURI", 400); (B "KeyTooLongError", 400); (B "MetadataTooLarge", 400);
    (B "MethodNotAllowed", 400); (B "MalformedPOSTRequest", 400); (B "MalformedXML", 400); (B "TooManyBuckets", 400);
    (B "RequestTimeTooSkewed", 403);
    (B "InvalidRange", 416);
    (B "NoSuchBucket", 404); (B "NoSuchKey", 404); (B "NoSuchUpload", 404); (B "NoSuchVersion", 404);
    (B "NotImplemented", 501); (B "NotModified", 304); (B "MissingContentLength", 411); (B "InternalError", 500) ].

Fixpoint status_for (code : list N) (t : list (list N * Z)) : Z :=
  match t with
  | [] => 500                           (* unknown codes map to InternalServerError *)
  | (c, s) :: t' => if beq c code then s else status_for code t'
  end.
Definition status_of_code (code : list N) : Z := status_for code status_table.
