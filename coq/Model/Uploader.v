(* uploader.go (in-memory multipart uploader, used with every backend), messages.go
   partsAreSorted, and the multipart handlers of gofakes3.go.  [md5] is a parameter: the
   theorems hold for every hash function. *)
From GF Require Export Base.Bytes Base.SortedMap Model.Prefix Model.Mem Model.Handlers.
Open Scope Z_scope.

Section Uploader.
Variable md5 : list N -> list N.
Variable hex : list N -> list N.              (* lower-case hex encoding *)

Record part := { pt_body : list N; pt_etag : list N }.       (* etag = quoted hex md5 *)

Record upload := {
  up_id : N;
  up_key : list N;
  up_meta : meta;
  up_parts : list (option part);      (* index = part number; parts[0] is never set *)
}.

Record bucket_uploads := {
  bu_uploads : list (N * upload);                 (* Go map id -> upload *)
  bu_index : list (list N * list N);              (* skiplist: object key -> upload ids in initiation order *)
}.

Record ustate := {
  u_next : N;                                     (* upload id counter *)
  u_buckets : list (list N * bucket_uploads);     (* only buckets that ever had an upload *)
}.

Definition uinit : ustate := {| u_next := 0; u_buckets := [] |}.

Inductive uerr := UNoSuchUpload | UInvalidPart | UInvalidPartOrder | UNoSuchBucket | UMissingContentLength
                | UPanic | UBackend (e : err).

Fixpoint up_get (id : N) (l : list (N * upload)) : option upload :=
  match l with [] => None | (i, u) :: l' => if N.eqb i id then Some u else up_get id l' end.
Fixpoint up_set (id : N) (u : upload) (l : list (N * upload)) : list (N * upload) :=
  match l with
  | [] => [(id, u)]
  | (i, u') :: l' => if N.eqb i id then (id, u) :: l' else (i, u') :: up_set id u l'
  end.
Fixpoint up_del (id : N) (l : list (N * upload)) : list (N * upload) :=
  match l with [] => [] | (i, u) :: l' => if N.eqb i id then l' else (i, u) :: up_del id l' end.

Definition quote (s : list N) : list N := 34%N :: s ++ [34%N].
Definition part_etag (body : list N) : list N := quote (hex (md5 body)).

(* CreateMultipartUpload *)
Definition create_upload (u : ustate) (b k : list N) (m : meta) : ustate * N :=
  let id := (u_next u + 1)%N in
  let bu := match sm_get b (u_buckets u) with
            | Some bu => bu | None => {| bu_uploads := []; bu_index := [] |} end in
  let mpu := {| up_id := id; up_key := k; up_meta := m; up_parts := [] |} in
  let ids := match sm_get k (bu_index bu) with Some ids => ids ++ [id] | None => [id] end in
  ({| u_next := id;
      u_buckets := sm_set b {| bu_uploads := up_set id mpu (bu_uploads bu);
                               bu_index := sm_set k ids (bu_index bu) |} (u_buckets u) |}, id).

(* getUnlocked *)
Definition get_upload (u : ustate) (b k : list N) (id : N) : option upload :=
  match sm_get b (u_buckets u) with
  | None => None
  | Some bu => match up_get id (bu_uploads bu) with
               | Some mpu => if beq (up_key mpu) k then Some mpu else None
               | None => None
               end
  end.

(* bucketUploads.remove *)
Definition remove_upload (u : ustate) (b : list N) (id : N) : ustate :=
  match sm_get b (u_buckets u) with
  | None => u
  | Some bu =>
      match up_get id (bu_uploads bu) with
      | None => u
      | Some mpu =>
          let ids := match sm_get (up_key mpu) (bu_index bu) with Some ids => ids | None => [] end in
          let ids' := filter (fun i => negb (N.eqb i id)) ids in
          let idx' := match ids' with
                      | [] => sm_del (up_key mpu) (bu_index bu)
                      | _ => sm_set (up_key mpu) ids' (bu_index bu)
                      end in
          {| u_next := u_next u;
             u_buckets := sm_set b {| bu_uploads := up_del id (bu_uploads bu); bu_index := idx' |} (u_buckets u) |}
      end
  end.

Definition set_upload (u : ustate) (b : list N) (mpu : upload) : ustate :=
  match sm_get b (u_buckets u) with
  | None => u
  | Some bu => {| u_next := u_next u;
                  u_buckets := sm_set b {| bu_uploads := up_set (up_id mpu) mpu (bu_uploads bu);
                                           bu_index := bu_index bu |} (u_buckets u) |}
  end.

(* parts[n] = p, growing the slice with nils *)
Fixpoint set_nth (n : nat) (p : part) (l : list (option part)) : list (option part) :=
  match n, l with
  | O, [] => [Some p]
  | O, _ :: l' => Some p :: l'
  | S n', [] => None :: set_nth n' p []
  | S n', x :: l' => x :: set_nth n' p l'
  end.

Definition max_part_number : Z := 10000.

(* putMultipartUploadPart + UploadPart; [pn] is the parsed partNumber, [declared] the
   Content-Length; the body has been read completely *)
Definition upload_part (u : ustate) (b k : list N) (id : N) (pn : Z) (body : list N)
  : ustate * (option uerr * list N) :=
  if (pn <=? 0) || (max_part_number <? pn) then (u, (Some UInvalidPart, [])) else
  if blen body <=? 0 then (u, (Some UMissingContentLength, [])) else
  match get_upload u b k id with
  | None => (u, (Some UNoSuchUpload, []))
  | Some mpu =>
      let et := part_etag body in
      let mpu' := {| up_id := up_id mpu; up_key := up_key mpu; up_meta := up_meta mpu;
                     up_parts := set_nth (Z.to_nat pn) {| pt_body := body; pt_etag := et |} (up_parts mpu) |} in
      (set_upload u b mpu', (None, et))
  end.

Definition abort_upload (u : ustate) (b k : list N) (id : N) : ustate * option uerr :=
  match get_upload u b k id with
  | None => (u, Some UNoSuchUpload)
  | Some _ => (remove_upload u b id, None)
  end.

(* sort.IntsAreSorted on the part numbers in the order given *)
Fixpoint ints_sorted (l : list Z) : bool :=
  match l with
  | a :: ((b :: _) as l') => (a <=? b) && ints_sorted l'
  | _ => true
  end.

Definition trim_quotes (s : list N) : list N := trim 34%N s.

(* validation loop of CompleteMultipartUpload: Some bodies+raw etags, or the error *)
Fixpoint check_parts (parts : list (option part)) (req : list (Z * list N))
  : option uerr + list part :=
  match req with
  | [] => inr []
  | (n, et) :: req' =>
      if n <? 0 then inl (Some UInvalidPart) else
      match nth_error parts (Z.to_nat n) with
      | Some (Some p) =>
          if negb (beq (trim_quotes et) (trim_quotes (pt_etag p))) then inl (Some UInvalidPart) else
          match check_parts parts req' with
          | inl e => inl e
          | inr ps => inr (p :: ps)
          end
      | _ => inl (Some UInvalidPart)
      end
  end.

Definition unhex_etag (p : part) : list N := md5 (pt_body p).   (* hex.DecodeString of the stored etag *)

Definition complete_etag (ps : list part) : list N :=
  quote (hex (md5 (flat_map unhex_etag ps)) ++ 45%N :: dec (Z.of_nat (length ps))).

(* CompleteMultipartUpload over a backend state *)
Definition complete_upload (u : ustate) (s : state) (b k : list N) (id : N) (req : list (Z * list N))
  : ustate * state * (option uerr * list N) :=
  match get_upload u b k id with
  | None => (u, s, (Some UNoSuchUpload, []))
  | Some mpu =>
      if Nat.ltb (length (up_parts mpu)) (length req) then (u, s, (Some UInvalidPart, [])) else
      if negb (ints_sorted (map fst req)) then (u, s, (Some UInvalidPartOrder, [])) else
      match check_parts (up_parts mpu) req with
      | inl (Some e) => (u, s, (Some e, []))
      | inl None => (u, s, (Some UInvalidPart, []))
      | inr ps =>
          let body := flat_map pt_body ps in
          match put_object s b k body (carry_meta s b k (up_meta mpu)) with
          | (s', (None, _)) => (remove_upload u b id, s', (None, complete_etag ps))
          | (s', (Some e, _)) => (u, s', (Some (UBackend e), []))
          end
      end
  end.

(* ListParts: parts from index [marker] on (inclusive), true part numbers; a marker beyond
   the slice lists nothing; NextPartNumberMarker = first part not returned *)
Fixpoint parts_from (idx : nat) (l : list (option part)) : list (nat * part) :=
  match l with
  | [] => []
  | None :: l' => parts_from (S idx) l'
  | Some p :: l' => (idx, p) :: parts_from (S idx) l'
  end.

Record parts_result := { pr_parts : list (nat * part); pr_truncated : bool; pr_next : nat }.

Definition list_parts (u : ustate) (b k : list N) (id : N) (marker : Z) (limit : Z)
  : option uerr + parts_result :=
  match get_upload u b k id with
  | None => inl (Some UNoSuchUpload)
  | Some mpu =>
      (* clamp before leaving Z: a marker of 2^40 must not become a unary numeral *)
      let m := Z.to_nat (Z.min marker (Z.of_nat (length (up_parts mpu)))) in
      let all := parts_from m (skipn m (up_parts mpu)) in
      let lim := Z.to_nat limit in
      let shown := firstn lim all in
      match skipn lim all with
      | [] => inr {| pr_parts := shown; pr_truncated := false; pr_next := 0 |}
      | (n, _) :: _ => inr {| pr_parts := shown; pr_truncated := true; pr_next := n |}
      end
  end.

(* ListMultipartUploads *)
Record uploads_result := {
  ur_uploads : list (list N * N);          (* key, upload id *)
  ur_prefixes : list (list N);
  ur_truncated : bool;
  ur_next_key : list N; ur_next_id : N;
}.

Fixpoint drop_until (id : N) (ids : list N) : option (list N) :=
  match ids with
  | [] => None
  | i :: ids' => if N.eqb i id then Some ids else drop_until id ids'
  end.

(* after the page: the first remaining key that still has to be reported (an upload, or a
   common prefix not yet seen) *)
Fixpoint next_entry (pre : list N) (delim : option N) (seen : list (list N))
    (items : list (list N * list N)) : option (list N * N) :=
  match items with
  | [] => None
  | (k, ids) :: rest =>
      match prefix_match pre delim k, ids with
      | MContent, i :: _ => Some (k, i)
      | MCommon p, i :: _ => if existsb (beq p) seen then next_entry pre delim seen rest else Some (k, i)
      | _, _ => next_entry pre delim seen rest
      end
  end.

(* take uploads of one key until the page is full *)
Fixpoint take_uploads (k : list N) (ids : list N) (cnt limit : Z) (acc : list (list N * N))
  : list (list N * N) * Z * option N (* filled: Some next id of same key / None *) * bool (* filled *) :=
  match ids with
  | [] => (acc, cnt, None, false)
  | i :: ids' =>
      let acc' := acc ++ [(k, i)] in
      if limit <=? cnt + 1 then (acc', cnt + 1, hd_error ids', true)
      else take_uploads k ids' (cnt + 1) limit acc'
  end.

Fixpoint scan_uploads (pre : list N) (delim : option N) (limit : Z) (items : list (list N * list N))
    (found : option N) (* Some id: still looking for upload-id-marker *)
    (cnt : Z) (acc : list (list N * N)) (seen : list (list N)) : uploads_result :=
  match items with
  | [] => {| ur_uploads := acc; ur_prefixes := seen; ur_truncated := false; ur_next_key := []; ur_next_id := 0 |}
  | (k, ids) :: rest =>
      match prefix_match pre delim k with
      | NoMatch => scan_uploads pre delim limit rest found cnt acc seen
      | mr =>
          let ids_opt := match found with
                         | None => Some ids
                         | Some mid => drop_until mid ids
                         end in
          match ids_opt with
          | None => scan_uploads pre delim limit rest found cnt acc seen    (* marker id not in this key *)
          | Some ids1 =>
              match mr with
              | MCommon p =>
                  scan_uploads pre delim limit rest None cnt acc (if existsb (beq p) seen then seen else seen ++ [p])
              | _ =>
                  let '(acc', cnt', nxt, filled) := take_uploads k ids1 cnt limit acc in
                  if filled then
                    match nxt with
                    | Some ni => {| ur_uploads := acc'; ur_prefixes := seen; ur_truncated := true;
                                    ur_next_key := k; ur_next_id := ni |}
                    | None =>
                        match next_entry pre delim seen rest with
                        | Some (nk, ni) => {| ur_uploads := acc'; ur_prefixes := seen; ur_truncated := true;
                                              ur_next_key := nk; ur_next_id := ni |}
                        | None => {| ur_uploads := acc'; ur_prefixes := seen; ur_truncated := false;
                                     ur_next_key := []; ur_next_id := 0 |}
                        end
                    end
                  else scan_uploads pre delim limit rest None cnt' acc' seen
              end
          end
      end
  end.

Definition list_uploads (u : ustate) (b : list N) (pre : list N) (delim : option N)
    (key_marker : list N) (id_marker : option N) (limit : Z) : option uerr + uploads_result :=
  match sm_get b (u_buckets u) with
  | None => inl (Some UNoSuchUpload)
  | Some bu =>
      let items := match key_marker with [] => bu_index bu | _ => sm_seek key_marker (bu_index bu) end in
      let found := match key_marker with [] => None | _ => id_marker end in
      inr (scan_uploads pre delim limit items found 0 [] [])
  end.

End Uploader.
