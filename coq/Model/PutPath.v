(* The upload path: gofakes3.go createObject / putMultipartUploadPart (validation order),
   metadataHeaders, hash.go hashingReader (Content-MD5), util.go ReadAll (declared length),
   uploader.go UploadPart (io.ReadAll + length check), encoding/base64 StdEncoding (modelled). *)
From GF Require Export Base.Bytes Base.Int64 Model.ParseInt Model.Mem Model.Handlers Model.Uploader.
From GF Require Import Base.Lit.
Open Scope Z_scope.

(* ---- base64.StdEncoding.DecodeString (strict padding; CR and LF ignored) ---- *)
Definition b64val (c : N) : option N :=
  if (65 <=? c)%N && (c <=? 90)%N then Some (c - 65)%N
  else if (97 <=? c)%N && (c <=? 122)%N then Some (c - 71)%N
  else if (48 <=? c)%N && (c <=? 57)%N then Some (c + 4)%N
  else if (c =? 43)%N then Some 62%N
  else if (c =? 47)%N then Some 63%N
  else None.

Fixpoint b64_quanta (fuel : nat) (s : list N) : option (list N) :=
  match fuel with
  | O => None
  | S f =>
      match s with
      | [] => Some []
      | [a; b; c; d] =>
          match b64val a, b64val b with
          | Some x, Some y =>
              if (c =? 61)%N && (d =? 61)%N then Some [(x * 4 + y / 16) mod 256]%N
              else match b64val c with
                   | Some z =>
                       if (d =? 61)%N then Some [(x * 4 + y / 16) mod 256; ((y mod 16) * 16 + z / 4) mod 256]%N
                       else match b64val d with
                            | Some w => Some [(x * 4 + y / 16) mod 256; ((y mod 16) * 16 + z / 4) mod 256; ((z mod 4) * 64 + w) mod 256]%N
                            | None => None
                            end
                   | None => None
                   end
          | _, _ => None
          end
      | a :: b :: c :: d :: rest =>
          match b64val a, b64val b, b64val c, b64val d, b64_quanta f rest with
          | Some x, Some y, Some z, Some w, Some tl =>
              Some ([(x * 4 + y / 16) mod 256; ((y mod 16) * 16 + z / 4) mod 256; ((z mod 4) * 64 + w) mod 256]%N ++ tl)
          | _, _, _, _, _ => None
          end
      | _ => None
      end
  end.

Definition b64_decode (s : list N) : option (list N) :=
  let s' := filter (fun c => negb ((c =? 13)%N || (c =? 10)%N)) s in
  b64_quanta (S (length s')) s'.

(* ---- request as net/http presents it ---- *)
Definition headers := list (list N * list N).      (* canonical name -> first value *)

Fixpoint hget (k : list N) (h : headers) : option (list N) :=
  match h with [] => None | (k', v) :: h' => if beq k k' then Some v else hget k h' end.
Definition hval (k : list N) (h : headers) : list N := match hget k h with Some v => v | None => [] end.

(* metadataHeaders: X-Amz-*, Content-Type, Content-Disposition, Content-Encoding; plus
   Last-Modified (13 + 29 bytes) for the size test *)
Definition is_meta_header (k : list N) : bool :=
  prefixb (B "X-Amz-") k || beq k (B "Content-Type") || beq k (B "Content-Disposition") || beq k (B "Content-Encoding").
Definition stored_meta (h : headers) : headers := filter (fun kv => is_meta_header (fst kv)) h.
Definition meta_size (h : headers) : Z :=
  fold_right (fun kv acc => blen (fst kv) + blen (snd kv) + acc) 42 (stored_meta h).

Inductive perr :=
| PNoSuchBucket | PMetadataTooLarge | PMissingContentLength | PBadRequestNoCode | PKeyTooLong
| PInvalidDigest | PBadDigest | PIncompleteBody | PInternal | PInvalidPart | PNoSuchUpload.

Record body_reader := { br_data : list N; br_fail_after : option Z }.   (* Some k: non-EOF error after k bytes *)

(* hashingReader over the body, consumed by ReadAll(reader, size) *)
Definition digest_bad (md5 : list N -> list N) (expected : option (list N)) (received : list N) : bool :=
  match expected with Some d => negb (beq d (md5 received)) | None => false end.

Definition read_all_declared (md5 : list N -> list N) (expected : option (list N)) (r : body_reader) (size : Z)
  : perr + list N :=
  let n := blen (br_data r) in
  match br_fail_after r with
  | Some k => if k <? n then inl PInternal            (* the transport error surfaces, before or after ReadFull *)
              else (* failure point beyond the data: behaves like a complete body followed by an error instead of EOF *)
                   inl PInternal
  | None =>
      if n <? size then
        (if digest_bad md5 expected (br_data r) then inl PBadDigest
         else if n =? 0 then inl PInternal           (* io.EOF from ReadFull is passed through *)
         else inl PIncompleteBody)
      else if digest_bad md5 expected (br_data r) then inl PBadDigest
      else if size <? n then inl PIncompleteBody
      else inr (br_data r)
  end.

Definition key_limit : Z := 1024.

(* Content-MD5 handling shared by object and part uploads: the expected digest or an error *)
Definition expected_digest (integrity : bool) (h : headers) : perr + option (list N) :=
  if negb integrity then inr None else
  match hget (B "Content-Md5") h with
  | None => inr None
  | Some [] => inl PInvalidDigest
  | Some v => match b64_decode v with
              | Some d => if Nat.eqb (length d) 16 then inr (Some d) else inl PInvalidDigest
              | None => inl PInvalidDigest
              end
  end.

(* createObject (plain, not aws-chunked, not a copy) *)
Definition put_request (md5 : list N -> list N) (c : config) (integrity : bool) (meta_limit : Z)
    (s : state) (b k : list N) (h : headers) (r : body_reader) (tracked : meta)
  : state * (perr + (list N * option N)) (* received bytes, version id *) :=
  match ensure_bucket c s b with
  | (s1, Some _) => (s1, inl PNoSuchBucket)
  | (s1, None) =>
      if (0 <? meta_limit) && (meta_limit <? meta_size h) then (s1, inl PMetadataTooLarge) else
      match hget (B "Content-Length") h with
      | None | Some [] => (s1, inl PMissingContentLength)
      | Some cl =>
          match parse_int64 cl with
          | None => (s1, inl PBadRequestNoCode)
          | Some size =>
              if size <? 0 then (s1, inl PBadRequestNoCode) else
              if key_limit <? blen k then (s1, inl PKeyTooLong) else
              match expected_digest integrity h with
              | inl e => (s1, inl e)
              | inr expected =>
                  match read_all_declared md5 expected r size with
                  | inl e => (s1, inl e)
                  | inr body =>
                      match put_object s1 b k body (carry_meta s1 b k tracked) with
                      | (s2, (None, vid)) => (s2, inr (body, vid))
                      | (s2, (Some _, _)) => (s2, inl PNoSuchBucket)
                      end
                  end
              end
          end
      end
  end.

(* putMultipartUploadPart + UploadPart: io.ReadAll of the body, then the length test *)
Definition part_request (md5 hex : list N -> list N) (integrity : bool)
    (u : ustate) (b k : list N) (id : N) (pn_text : list N) (h : headers) (r : body_reader)
  : ustate * (perr + list N) :=
  match parse_int64 pn_text with
  | None => (u, inl PInvalidPart)
  | Some pn =>
      if (pn <=? 0) || (max_part_number <? pn) then (u, inl PInvalidPart) else
      match parse_int64 (hval (B "Content-Length") h) with
      | None => (u, inl PMissingContentLength)
      | Some size =>
          if size <=? 0 then (u, inl PMissingContentLength) else
          match expected_digest integrity h with
          | inl e => (u, inl e)
          | inr expected =>
              match br_fail_after r with
              | Some _ => (u, inl PInternal)
              | None =>
                  if digest_bad md5 expected (br_data r) then (u, inl PBadDigest) else
                  if negb (blen (br_data r) =? size) then (u, inl PIncompleteBody) else
                  match upload_part md5 hex u b k id pn (br_data r) with
                  | (u', (None, et)) => (u', inr et)
                  | (u', (Some UNoSuchUpload, _)) => (u', inl PNoSuchUpload)
                  | (u', (Some _, _)) => (u', inl PInvalidPart)
                  end
              end
          end
      end
  end.
