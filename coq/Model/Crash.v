(* Crash model of the filesystem backends (backend/s3afero multi.go / single.go PutObject,
   DeleteObject; meta.go loadMeta): an object is an object file plus a metadata file, a write is
   a sequence of state-changing file-system calls, and a killed process leaves the disk after a
   prefix of that sequence.  What a new process then answers for a key is [observe].

   The granularity is that of the harness's crash points (harness/crashfs.go): the process dies
   immediately before a state-changing call, or half way through a file write. *)
From Coq Require Import List NArith ZArith Bool.
From GF Require Import Base.Bytes Base.Lit.
Import ListNotations.
Local Open Scope Z_scope.

Definition umeta := list (bytes * bytes).

(* object file: content + modification stamp (every creation / write gets a fresh one) *)
Record dfile := { df_body : bytes; df_stamp : N }.
(* metadata file: readable JSON or not; the record it holds *)
Record mfile := { mf_ok : bool; mf_hash : bytes; mf_size : Z; mf_stamp : N; mf_user : umeta }.
Record disk := { d_data : list (bytes * dfile); d_meta : list (bytes * mfile); d_clock : N }.

Section Assoc.
Context {V : Type}.
Fixpoint aget (k : bytes) (m : list (bytes * V)) : option V :=
  match m with
  | [] => None
  | (k', v) :: m' => if beq k k' then Some v else aget k m'
  end.
Fixpoint adel (k : bytes) (m : list (bytes * V)) : list (bytes * V) :=
  match m with
  | [] => []
  | (k', v) :: m' => if beq k k' then adel k m' else (k', v) :: adel k m'
  end.
Definition aset (k : bytes) (v : V) (m : list (bytes * V)) : list (bytes * V) := (k, v) :: adel k m.
End Assoc.

Inductive fsop :=
| FUnlink (k : bytes)                 (* data: Remove of an existing object file *)
| FCreate (k : bytes)                 (* data: Create -> empty file *)
| FWrite (k : bytes) (b : bytes)      (* data: Write of the whole body *)
| FWritePart (k : bytes) (b : bytes)  (* data: the process dies inside the write: half of it is there *)
| MTrunc (k : bytes)                  (* meta: OpenFile(create|trunc) -> empty file *)
| MWrite (k : bytes) (m : mfile)      (* meta: Write of the JSON record *)
| MWritePart (k : bytes)              (* meta: half of the JSON: unreadable *)
| MRemove (k : bytes).                (* meta: Remove *)

Definition tick (d : disk) : N := N.succ (d_clock d).
Definition bad_meta : mfile := {| mf_ok := false; mf_hash := []; mf_size := 0; mf_stamp := 0; mf_user := [] |}.

Definition apply_op (d : disk) (o : fsop) : disk :=
  match o with
  | FUnlink k => {| d_data := adel k (d_data d); d_meta := d_meta d; d_clock := d_clock d |}
  | FCreate k => {| d_data := aset k {| df_body := []; df_stamp := tick d |} (d_data d); d_meta := d_meta d; d_clock := tick d |}
  | FWrite k b => {| d_data := aset k {| df_body := b; df_stamp := tick d |} (d_data d); d_meta := d_meta d; d_clock := tick d |}
  | FWritePart k b =>
      {| d_data := aset k {| df_body := firstn (Nat.div2 (length b)) b; df_stamp := tick d |} (d_data d);
         d_meta := d_meta d; d_clock := tick d |}
  | MTrunc k => {| d_data := d_data d; d_meta := aset k bad_meta (d_meta d); d_clock := d_clock d |}
  | MWrite k m => {| d_data := d_data d; d_meta := aset k m (d_meta d); d_clock := d_clock d |}
  | MWritePart k => {| d_data := d_data d; d_meta := aset k bad_meta (d_meta d); d_clock := d_clock d |}
  | MRemove k => {| d_data := d_data d; d_meta := adel k (d_meta d); d_clock := d_clock d |}
  end.

Definition run_ops (d : disk) (ops : list fsop) : disk := fold_left apply_op ops d.

Section WithMD5.
Variable md5 : bytes -> bytes.

(* PutObject: unlink the previous file, create, write, close, stat, write the metadata record
   (hash, size and modification time of the file just written, user metadata) *)
Definition put_ops (d : disk) (k body : bytes) (u : umeta) : list fsop :=
  (match aget k (d_data d) with Some _ => [FUnlink k] | None => [] end) ++
  [FCreate k; FWrite k body; MTrunc k;
   MWrite k {| mf_ok := true; mf_hash := md5 body; mf_size := blen body;
               mf_stamp := N.succ (N.succ (d_clock d)); mf_user := u |}].

(* DeleteObject: remove the file, then its metadata *)
Definition del_ops (d : disk) (k : bytes) : list fsop :=
  (match aget k (d_data d) with Some _ => [FUnlink k] | None => [] end) ++
  (match aget k (d_meta d) with Some _ => [MRemove k] | None => [] end).

(* the variant of a call sequence in which the process dies inside the n-th call (only writes
   can be cut; for the others dying inside = dying before) *)
Definition cut_op (o : fsop) : list fsop :=
  match o with
  | FWrite k b => [FWritePart k b]
  | MWrite k _ => [MWritePart k]
  | _ => []
  end.
Definition crash_prefix (ops : list fsop) (n : nat) (partial : bool) : list fsop :=
  firstn n ops ++ (if partial then match nth_error ops n with Some o => cut_op o | None => [] end else []).

(* what a new process answers for key k: body, hash (ETag), user metadata.  loadMeta keeps the
   stored record iff it is readable and its size and modification time match the file;
   otherwise it rehashes the object and keeps whatever user metadata was readable *)
Definition meta_fresh (f : dfile) (m : mfile) : bool :=
  mf_ok m && negb (beq (mf_hash m) []) && (mf_size m =? blen (df_body f)) && N.eqb (mf_stamp m) (df_stamp f).

Definition observe (d : disk) (k : bytes) : option (bytes * bytes * umeta) :=
  match aget k (d_data d) with
  | None => None
  | Some f =>
      match aget k (d_meta d) with
      | Some m => if meta_fresh f m then Some (df_body f, mf_hash m, mf_user m)
                  else Some (df_body f, md5 (df_body f), if mf_ok m then mf_user m else [])
      | None => Some (df_body f, md5 (df_body f), [])
      end
  end.

(* a disk written by a live server (no crash yet): every object has a fresh metadata record *)
Definition disk_of (objs : list (bytes * (bytes * umeta))) : disk :=
  let n := N.of_nat (length objs) in
  {| d_data := map (fun '(k, (b, _)) => (k, {| df_body := b; df_stamp := 1 |})) objs;
     d_meta := map (fun '(k, (b, u)) => (k, {| mf_ok := true; mf_hash := md5 b; mf_size := blen b; mf_stamp := 1; mf_user := u |})) objs;
     d_clock := 1 |}.

(* names of the calls, as the harness logs them *)
Definition op_name (o : fsop) : bytes :=
  match o with
  | FUnlink _ => B "data:Remove"
  | FCreate _ => B "data:Create"
  | FWrite _ _ | FWritePart _ _ => B "data:Write"
  | MTrunc _ => B "meta:OpenFile(create/trunc)"
  | MWrite _ _ | MWritePart _ => B "meta:Write"
  | MRemove _ => B "meta:Remove"
  end.

End WithMD5.
