(* routing.go routeBase (bucket/object split) and the two virtual-host middlewares of
   gofakes3.go (hostBucketMiddleware, hostBucketBaseMiddleware). *)
From GF Require Export Base.Bytes.

Definition slash : N := 47.
Definition dotc : N := 46.

(* strings.Trim(path, "/") then SplitN(_, "/", 2) *)
Definition split_path (path : list N) : list N * list N :=
  match cut slash (trim slash path) with
  | (b, None) => (b, [])
  | (b, Some o) => (b, o)
  end.

(* rq.URL.Path = "/" + bucket; if p != "/" { += p } *)
Definition rewrite (bucket p : list N) : list N :=
  slash :: bucket ++ (if beq p [slash] then [] else p).

(* hostBucketMiddleware: bucket = SplitN(Host, ".", 2)[0] *)
Definition host_bucket (host : list N) : list N := fst (cut dotc host).

(* hostBucketBaseMiddleware.matchBucket: first base "."+trim(base,".") that is a suffix of the
   host and leaves a non-empty prefix without '.' *)
Definition strip_suffix (suf s : list N) : option (list N) :=
  if suffixb suf s then Some (firstn (length s - length suf) s) else None.

Fixpoint match_bucket (bases : list (list N)) (host : list N) : option (list N) :=
  match bases with
  | [] => None
  | base :: rest =>
      match strip_suffix (dotc :: trim dotc base) host with
      | Some b => if mem_byte dotc b then match_bucket rest host
                  else match b with [] => match_bucket rest host | _ => Some b end   (* ".base": no bucket *)
      | None => match_bucket rest host
      end
  end.

Inductive host_mode := HostNone | HostBucket | HostBases (bases : list (list N)).

(* the path the router sees *)
Definition effective_path (m : host_mode) (host path : list N) : list N :=
  match m with
  | HostNone => path
  | HostBucket => rewrite (host_bucket host) path
  | HostBases [] => path
  | HostBases bases =>
      match match_bucket bases host with
      | Some b => rewrite b path
      | None => path
      end
  end.

Definition route (m : host_mode) (host path : list N) : list N * list N :=
  split_path (effective_path m host path).
