(* s3mem ListBucketVersions (backend.go) after the paging fix: entries of a key in ascending
   version-id order (archived versions, then the current one), markers name the last entry of
   the previous page and the listing continues strictly after it. *)
From GF Require Export Base.Bytes Base.SortedMap Model.Prefix Model.Mem.
Open Scope Z_scope.

Record ventry := {
  ve_key : list N; ve_vid : N; ve_marker : bool; ve_latest : bool; ve_body : list N;
}.

Record vl_result := {
  vl_entries : list ventry;
  vl_prefixes : list (list N);
  vl_truncated : bool;
  vl_next_key : list N;
  vl_next_vid : N;            (* meaningful when truncated *)
}.

(* bucketObjectIterator: the versions skiplist ascending, then data *)
Definition obj_versions (k : list N) (o : obj) : list ventry :=
  map (fun v => {| ve_key := k; ve_vid := vd_vid v; ve_marker := vd_marker v; ve_latest := false; ve_body := vd_body v |})
      (o_vers o) ++
  match o_data o with
  | Some c => [{| ve_key := k; ve_vid := vd_vid c; ve_marker := vd_marker c; ve_latest := true; ve_body := vd_body c |}]
  | None => []
  end.

(* append entries of one key until the page is full: (acc', cnt', filled, rest of this key) *)
Fixpoint take_versions (vs : list ventry) (maxkeys cnt : Z) (acc : list ventry)
  : list ventry * Z * option (ventry * list ventry) :=
  match vs with
  | [] => (acc, cnt, None)
  | v :: vs' =>
      let acc' := acc ++ [v] in
      if (0 <? maxkeys) && (maxkeys <=? cnt + 1) then (acc', cnt + 1, Some (v, vs'))
      else take_versions vs' maxkeys (cnt + 1) acc'
  end.

Fixpoint scan_versions (pre : list N) (delim : option N) (km : list N) (vm : option N) (maxkeys : Z)
    (items : list (list N * obj)) (cnt : Z) (acc : list ventry) (ps : list (list N)) : vl_result :=
  match items with
  | [] => {| vl_entries := acc; vl_prefixes := ps; vl_truncated := false; vl_next_key := []; vl_next_vid := 0 |}
  | (k, o) :: rest =>
      match prefix_match pre delim k with
      | NoMatch => scan_versions pre delim km vm maxkeys rest cnt acc ps
      | MCommon p => scan_versions pre delim km vm maxkeys rest cnt acc (add_prefix p ps)
      | MContent =>
          let at_marker := negb (beq km []) && beq k km in
          match at_marker, vm with
          | true, None => scan_versions pre delim km vm maxkeys rest cnt acc ps
          | _, _ =>
              let vs := obj_versions k o in
              let vs' := match at_marker, vm with
                         | true, Some m => filter (fun v => N.ltb m (ve_vid v)) vs
                         | _, _ => vs
                         end in
              match take_versions vs' maxkeys cnt acc with
              | (acc', cnt', None) => scan_versions pre delim km vm maxkeys rest cnt' acc' ps
              | (acc', cnt', Some (last_v, more)) =>
                  let trunc := match more, rest with [], [] => false | _, _ => true end in
                  {| vl_entries := acc'; vl_prefixes := ps; vl_truncated := trunc;
                     vl_next_key := if trunc then ve_key last_v else [];
                     vl_next_vid := if trunc then ve_vid last_v else 0 |}
              end
          end
      end
  end.

Inductive vl_outcome := VLNoBucket | VLOk (r : vl_result) (show_ids : bool).

Definition list_versions (s : state) (b pre : list N) (delim : option N) (km : list N) (vm : option N)
    (maxkeys : Z) : vl_outcome :=
  match get_bucket s b with
  | None => VLNoBucket
  | Some bk =>
      match km with
      | [] => VLOk (scan_versions pre delim [] None maxkeys (b_objs bk) 0 [] [])
                   (match b_ver bk with VNone => false | _ => true end)
      | _ =>
          (* the marker only says where the listing resumes: it need not match the prefix *)
          VLOk (scan_versions pre delim km vm maxkeys (sm_seek km (b_objs bk)) 0 [] [])
               (match b_ver bk with VNone => false | _ => true end)
      end
  end.
