(* The decisions the filesystem backends (backend/s3afero) make BEFORE they touch the directory
   tree: which uploads they refuse and with which error, which deletes they skip, and which reads
   they answer NoSuchKey -- over the flat directory tree of Model/CrashDirs.v (one bucket: the
   object files and the directories, as slash-separated paths relative to the bucket directory).

   A key "a/b/c" is the file c in the directory a/b, so a bucket cannot hold every key set:
     - a key with an empty, "." or ".." segment names no path of its own       (cleanKeyPath),
     - a key below an object would need that object (a file) to be a directory (belowFile, loop),
     - a key that is a directory (other keys lie below it) would need the directory to be a file
                                                                               (belowFile, first test).
   PutObject refuses all three with the SAME error, errUnsupportedKey (util.go):
     gofakes3.ErrorMessagef(gofakes3.ErrInvalidArgument, "key %q cannot be stored by this backend ...")
   = an *ErrorResponse with Code "InvalidArgument"; gofakes3.go httpError writes
   resp.ErrorCode().Status(), and error.go ErrorCode.Status() lists ErrInvalidArgument under
   http.StatusBadRequest: the handler answers  400 InvalidArgument  (Model/Errors.v status_table).

   The ORDER of the tests in the Go code (the first that applies decides; here all three give the
   same answer, so the order only shows in the reason [fs_put_outcome] records):
     1. cleanKeyPath(objectName)            multi.go PutObject "if !cleanKeyPath(objectName) { return
                                            result, errUnsupportedKey(objectName) }" -- the first
                                            statement, before the body is read and before the lock;
                                            single.go the same, after "if bucketName != db.name"
     (the body is read: gofakes3.ReadAll, MergeMetadata; multi.go then checks that the bucket exists)
     2. belowFile(fs, path), under the lock multi.go "if belowFile(db.bucketFs, objectPath)" with
                                            objectPath = path.Join(bucketName, objectName);
                                            single.go "if belowFile(db.fs, objectName)"
        2a. util.go belowFile, first statement: "if stat, err := fs.Stat(p); err == nil &&
            stat.IsDir() { return true }"           -- the key IS a directory
        2b. then the loop "for dir := path.Dir(p); dir != "." && dir != "/"; dir = path.Dir(dir)
            { if stat, err := fs.Stat(dir); err == nil && !stat.IsDir() { return true } }"
                                                    -- the key lies BELOW an object, deepest parent first
     3. MkdirAll (if objectDir != "."), Remove of the old file, Create: Model/CrashDirs.v put_dops.
   Difference between the two backends: in multi.go the path handed to belowFile begins with the
   bucket directory, so the loop of 2b also Stats the bucket directory itself (it exists and is a
   directory: bucketExistsLocked was asked just before, so it is never a hit) and MkdirAll is always
   called (objectDir is never "."); in single.go the loop stops at "." and MkdirAll is only called
   for keys with a "/".  single.go tests the bucket name before the key, multi.go tests the bucket
   (under the lock) after the key is found clean and the body is read.  Neither difference is
   visible in this one-bucket model.

   Executable definitions only (structural recursion, no proofs).  Proofs: Proofs/FsPutProofs.v;
   statements: Properties/C10_fs.v.

   Left out: the bucket lookup (the bucket exists here), body / metadata / ETag, the metadata
   store, I/O errors other than "no such file", the lock. *)
From Coq Require Import List NArith ZArith Bool.
From GF Require Import Base.Bytes Base.Lit Model.Errors Model.CrashDirs Model.FsList.
Import ListNotations.

(* ---- Stat ---------------------------------------------------------------------------------------- *)

(* a parent of p is a regular file: the file system answers ENOTDIR for p (a real one) or ENOENT
   (afero's MemMapFs, a flat table of names) -- util.go noSuchFile accepts both *)
Definition under_file (t : tree) (p : bytes) : bool :=
  existsb (fun a => memb a (t_files t)) (ancestors p).

(* fs.Stat(p) of a clean path p below the bucket directory:
   Some true = a directory, Some false = a regular file, None = an error for which noSuchFile(err)
   holds (os.IsNotExist, ENOTDIR; ENAMETOOLONG is not modelled). *)
Definition fs_stat (t : tree) (p : bytes) : option bool :=
  if under_file t p then None
  else if memb p (t_dirs t) then Some true
  else if memb p (t_files t) then Some false
  else None.

(* "err == nil && stat.IsDir()" and "err == nil && !stat.IsDir()" *)
Definition stat_is_dir (t : tree) (p : bytes) : bool :=
  match fs_stat t p with Some true => true | _ => false end.
Definition stat_is_file (t : tree) (p : bytes) : bool :=
  match fs_stat t p with Some false => true | _ => false end.

(* ---- PutObject ----------------------------------------------------------------------------------- *)

Inductive fs_put_outcome :=
| PutAccepted
| PutUncleanKey      (* test 1:  !cleanKeyPath(objectName)                      -> 400 InvalidArgument *)
| PutIsDirectory     (* test 2a: belowFile, Stat(p) succeeds and IsDir()        -> 400 InvalidArgument *)
| PutBelowObject.    (* test 2b: belowFile, a parent of p is a regular file     -> 400 InvalidArgument *)

Definition fs_put_outcome_eqb (a b : fs_put_outcome) : bool :=
  match a, b with
  | PutAccepted, PutAccepted | PutUncleanKey, PutUncleanKey
  | PutIsDirectory, PutIsDirectory | PutBelowObject, PutBelowObject => true
  | _, _ => false
  end.

(* util.go errUnsupportedKey: the S3 error code of the answer; one code for the three refusals *)
Definition err_unsupported_key : bytes := B "InvalidArgument".

Definition fs_put_error (o : fs_put_outcome) : option bytes :=
  match o with
  | PutAccepted => None
  | PutUncleanKey | PutIsDirectory | PutBelowObject => Some err_unsupported_key
  end.

(* the HTTP status of the answer: error.go ErrorCode.Status() through Model/Errors.v; 200 for an
   accepted upload (gofakes3.go putObject writes the ETag header and no status) *)
Definition fs_put_status (o : fs_put_outcome) : Z :=
  match fs_put_error o with Some c => status_of_code c | None => 200%Z end.

(* util.go belowFile, the loop (2b): path.Dir(p), path.Dir(path.Dir(p)), ... are the ancestors of p,
   deepest first; any hit gives the same answer *)
Definition below_file_loop (t : tree) (k : bytes) : bool :=
  existsb (stat_is_file t) (rev (ancestors k)).

(* multi.go / single.go PutObject up to the first file-system change, in the order of the code *)
Definition fs_put_decision (t : tree) (k : bytes) : fs_put_outcome :=
  if negb (clean_key_path k) then PutUncleanKey          (* 1  *)
  else if stat_is_dir t k then PutIsDirectory             (* 2a *)
  else if below_file_loop t k then PutBelowObject         (* 2b *)
  else PutAccepted.

(* PutObject: the decision and, when the key is accepted, the file-system calls of
   Model/CrashDirs.v put_dops (MkdirAll of the missing parents, Remove of the old file, Create).
   A refused upload returns before any of them. *)
Definition fs_put (t : tree) (k : bytes) : tree * fs_put_outcome :=
  match fs_put_decision t k with
  | PutAccepted => (run_dops t (put_dops t k), PutAccepted)
  | o => (t, o)
  end.

(* ---- DeleteObject -------------------------------------------------------------------------------- *)

(* multi.go / single.go deleteObjectLocked (also every key of DeleteMulti); every case answers
   success (S3 does not report the deletion of a key that does not exist):
     if !cleanKeyPath(objectName) { return nil }            -- cannot have been stored; path.Join /
                                                               the file system would resolve it to
                                                               some other file or directory
     if stat, err := fs.Stat(fullPath); err == nil && stat.IsDir() { return nil }
                                                            -- a directory is not an object
     if err := fs.Remove(fullPath); err != nil && !noSuchFile(err) { return err }
                                                            -- absent, or below a file (ENOTDIR):
                                                               noSuchFile, carried on
     deleteMeta; pruneEmptyDirsLocked                       -- Model/CrashDirs.v del_dops
   del_dops makes no call for a key that is not a file (absent or below an object): the pruning
   loop the code still runs then finds, in a tidy tree, either no directory (noSuchFile: continue)
   or a directory that is not empty (break).  multi.go and single.go differ only in the path
   (bucket directory in front) and in where the pruning loop stops (at the bucket directory / at
   "."). *)
Definition fs_delete (t : tree) (k : bytes) : tree :=
  if negb (clean_key_path k) then t
  else if stat_is_dir t k then t
  else run_dops t (del_dops t k).

(* ---- HeadObject / GetObject ---------------------------------------------------------------------- *)

(* multi.go / single.go HeadObject:  true = the object is served, false = NoSuchKey (404)
     if !cleanKeyPath(objectName) { return nil, gofakes3.KeyNotFound(objectName) }
     stat, err := fs.Stat(fullPath)
     if noSuchFile(err) { return KeyNotFound }   -- absent, or below an object (ENOTDIR)
     else if err != nil { return nil, err }      -- not modelled (no other I/O error here)
     else if stat.IsDir() { return KeyNotFound } -- a directory is not an object
   GetObject decides the same way with fs.Open and f.Stat() in place of fs.Stat.  single.go tests
   the bucket name first; multi.go tests the bucket (under the lock) after cleanKeyPath. *)
Definition fs_get_decision (t : tree) (k : bytes) : bool :=
  clean_key_path k && stat_is_file t k.

(* ---- the same decision from the set of stored keys alone ------------------------------------------ *)

(* what PutObject answers to an upload of k into a bucket holding exactly [keys], in the order of
   the code: k is not a clean path; k is a proper directory-ancestor of a stored key (k is a
   directory); a stored key is a proper directory-ancestor of k (k lies below an object). *)
Definition fs_put_reason (keys : list bytes) (k : bytes) : fs_put_outcome :=
  if negb (clean_key_path k) then PutUncleanKey
  else if existsb (below k) keys then PutIsDirectory
  else if existsb (fun s => below s k) keys then PutBelowObject
  else PutAccepted.

(* None = accepted, Some code = refused with that S3 error code *)
Definition fs_put_refused (keys : list bytes) (k : bytes) : option bytes :=
  fs_put_error (fs_put_reason keys k).

(* HeadObject / GetObject from the stored keys: found iff stored *)
Definition fs_get_found (keys : list bytes) (k : bytes) : bool := memb k keys.

(* ---- sequences of uploads and deletes ------------------------------------------------------------- *)

Inductive fs_op :=
| FPut (k : bytes)
| FDel (k : bytes).

Definition empty_tree : tree := {| t_files := []; t_dirs := [] |}.

Definition fs_step (t : tree) (o : fs_op) : tree :=
  match o with
  | FPut k => fst (fs_put t k)
  | FDel k => fs_delete t k
  end.

(* the bucket directory after the operations, from an empty bucket *)
Definition fs_run_from (t : tree) (ops : list fs_op) : tree := fold_left fs_step ops t.
Definition fs_run (ops : list fs_op) : tree := fs_run_from empty_tree ops.

(* the answers to the uploads among the operations (None for a delete: always success) *)
Fixpoint fs_answers_from (t : tree) (ops : list fs_op) : list (option bytes) :=
  match ops with
  | [] => []
  | FPut k :: ops' => fs_put_error (snd (fs_put t k)) :: fs_answers_from (fst (fs_put t k)) ops'
  | FDel k :: ops' => None :: fs_answers_from (fs_delete t k) ops'
  end.

(* the abstract key -> object map, as the list of its keys (newest first): insert, remove; it
   knows nothing of files and directories and ignores exactly the uploads fs_put_refused refuses *)
Definition abs_insert (k : bytes) (keys : list bytes) : list bytes := k :: remb k keys.
Definition abs_remove (k : bytes) (keys : list bytes) : list bytes := remb k keys.

Definition abs_step (keys : list bytes) (o : fs_op) : list bytes :=
  match o with
  | FPut k => match fs_put_refused keys k with
              | None => abs_insert k keys
              | Some _ => keys
              end
  | FDel k => abs_remove k keys
  end.

Definition abstract_run_from (keys : list bytes) (ops : list fs_op) : list bytes := fold_left abs_step ops keys.
Definition abstract_run (ops : list fs_op) : list bytes := abstract_run_from [] ops.

Fixpoint abstract_answers_from (keys : list bytes) (ops : list fs_op) : list (option bytes) :=
  match ops with
  | [] => []
  | FPut k :: ops' => fs_put_refused keys k :: abstract_answers_from (abs_step keys (FPut k)) ops'
  | FDel k :: ops' => None :: abstract_answers_from (abs_step keys (FDel k)) ops'
  end.
