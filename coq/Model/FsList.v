(* The listing algorithm of the filesystem backends (backend/s3afero/multi.go and single.go:
   ListBucket, getBucketWithFilePrefixLocked, getBucketWithArbitraryPrefixLocked; util.go:
   cleanKeyPath; prefix.go: Prefix.FilePrefix), over the flat directory tree of Model/CrashDirs.v.

   A bucket is a [tree]: the object files (slash-separated paths relative to the bucket
   directory) and the directories.  With the delimiter "/" the backends do ONE ReadDir of the
   directory named by the prefix up to its last "/" and turn sub-directories into common
   prefixes and files into contents; with any other delimiter, or none, they Walk over every
   file, keep those Prefix.Match accepts, and sort.

   Executable definitions only (structural recursion, no proofs): this file is extracted and run
   against the real backends.  Proofs: Proofs/FsListProofs.v; statements: Properties/C03_fs.v.

   Left out (see REPORT.md): bucket lookup and its errors (the bucket directory always exists
   here), metadata loading / ETag / Size / LastModified of each content, the backend lock,
   pagination (the backends answer ErrInternalPageNotImplemented to a non-empty page and the
   handler retries without one), I/O errors. *)
From Coq Require Import List NArith Bool.
From GF Require Import Base.Bytes Base.SortedMap Model.Prefix Model.Mem Model.CrashDirs.
Import ListNotations.

Definition is_nil (s : bytes) : bool := match s with [] => true | _ :: _ => false end.

(* strings.LastIndexByte(s, d) *)
Fixpoint last_index_byte (d : N) (s : bytes) : option nat :=
  match s with
  | [] => None
  | c :: s' =>
      match last_index_byte d s' with
      | Some i => Some (S i)
      | None => if N.eqb c d then Some 0%nat else None
      end
  end.

(* prefix.go Prefix.FilePrefix (lines "func (p Prefix) FilePrefix() (path, remaining string, ok
   bool)"): (path, remaining, ok).  HasPrefix is "the prefix is not empty" (prefixFromQuery),
   HasDelimiter is "a delimiter is given"; the delimiter is one byte as in Model/Prefix.v.
     if !p.HasPrefix || !p.HasDelimiter || p.Delimiter != "/" { return "", "", p.Delimiter == "/" }
     idx := strings.LastIndexByte(p.Prefix, '/')
     if idx < 0 { return "", p.Prefix, true } else { return p.Prefix[:idx], p.Prefix[idx+1:], true } *)
Definition file_prefix (pre : bytes) (delim : option N) : bytes * bytes * bool :=
  match delim with
  | None => ([], [], false)
  | Some d =>
      if negb (N.eqb d slash) then ([], [], false)
      else if is_nil pre then ([], [], true)
      else match last_index_byte slash pre with
           | None => ([], pre, true)
           | Some idx => (firstn idx pre, skipn (S idx) pre, true)
           end
  end.

(* util.go cleanKeyPath: no empty, "." or ".." segment
     for _, seg := range strings.Split(p, "/") { if seg == "" || seg == "." || seg == ".." { return false } } *)
Definition dot : N := 46%N.
Definition bad_segment (seg : bytes) : bool := beq seg [] || beq seg [dot] || beq seg [dot; dot].
Definition clean_key_path (p : bytes) : bool := forallb (fun seg => negb (bad_segment seg)) (split slash p).

(* ---- the file system: ReadDir, IsDir, path.Join ---------------------------------------------- *)

(* the name of path p as an entry of directory dir ("" = the bucket directory): p is dir/name
   with a non-empty name without "/" *)
Definition entry_name (dir p : bytes) : option bytes :=
  let name_of (n : bytes) := if mem_byte slash n || is_nil n then None else Some n in
  match dir with
  | [] => name_of p
  | _ :: _ => if below dir p then name_of (skipn (S (length dir)) p) else None
  end.

Definition entry_names (dir : bytes) (paths : list bytes) : list bytes :=
  flat_map (fun p => match entry_name dir p with Some n => [n] | None => [] end) paths.

(* afero.ReadDir: the entries of a directory sorted by name, each (name, IsDir()).  A directory
   holds one entry per name, so the entries are kept as a map from names to the IsDir flag in
   ascending byte order of the names (sm_set = sorted insert, Base/SortedMap.v). *)
Definition read_dir (t : tree) (dir : bytes) : list (bytes * bool) :=
  fold_left (fun m n => sm_set n true m) (entry_names dir (t_dirs t))
    (fold_left (fun m n => sm_set n false m) (entry_names dir (t_files t)) []).

(* afero.IsDir / DirExists of a path below the bucket; the bucket directory itself exists.  Only
   asked of clean paths (for a path with "", "." or ".." segments the file system would resolve
   them; the code returns early for those whatever IsDir says, see below). *)
Definition is_dir (t : tree) (p : bytes) : bool := is_nil p || memb p (t_dirs t).

(* ReadDir with its error: None = os.IsNotExist *)
Definition read_dir_opt (t : tree) (dir : bytes) : option (list (bytes * bool)) :=
  if is_dir t dir then Some (read_dir t dir) else None.

(* path.Join(prefixPath, object) for a clean (or empty) prefixPath and an entry name *)
Definition path_join (dir name : bytes) : bytes :=
  match dir with [] => name | _ :: _ => dir ++ slash :: name end.

(* ---- getBucketWithFilePrefixLocked ------------------------------------------------------------ *)

(* the loop "for _, entry := range dirEntries":
     object := entry.Name(); objectPath := path.Join(prefixPath, object)
     if prefixPart != "" && !strings.HasPrefix(object, prefixPart) { continue }
     if entry.IsDir() { response.AddPrefix(path.Join(prefixPath, entry.Name()) + "/") }
     else { ...loadMeta...; response.Add(&Content{Key: objectPath, ...}) }
   cs / ps are response.Contents (keys only) / response.CommonPrefixes so far; AddPrefix
   (backend.go) ignores a prefix it already has: Model/Mem.v add_prefix. *)
Fixpoint fs_entries_loop (prefixPath prefixPart : bytes) (entries : list (bytes * bool))
    (cs ps : list bytes) : list bytes * list bytes :=
  match entries with
  | [] => (cs, ps)
  | (object, isdir) :: rest =>
      let objectPath := path_join prefixPath object in
      if negb (is_nil prefixPart) && negb (prefixb prefixPart object)
      then fs_entries_loop prefixPath prefixPart rest cs ps
      else if isdir
           then fs_entries_loop prefixPath prefixPart rest cs (add_prefix (objectPath ++ [slash]) ps)
           else fs_entries_loop prefixPath prefixPart rest (cs ++ [objectPath]) ps
  end.

(* multi.go getBucketWithFilePrefixLocked (single.go: the same without the bucket test):
     if prefixPath != "" {
        ... bucket exists ...
        if isDir, _ := afero.IsDir(fs, bucketPath); !isDir || !cleanKeyPath(prefixPath) { return response, nil } }
     dirEntries, err := afero.ReadDir(fs, bucketPath)
     if os.IsNotExist(err) { return nil, BucketNotFound } ...
   Some (contents, common prefixes); None = the error return (unreachable here: the bucket
   directory exists and a prefixPath that passed IsDir can be read). *)
Definition fs_list_file_prefix (t : tree) (prefixPath prefixPart : bytes)
    : option (list bytes * list bytes) :=
  if negb (is_nil prefixPath) && (negb (is_dir t prefixPath) || negb (clean_key_path prefixPath))
  then Some ([], [])
  else match read_dir_opt t prefixPath with
       | None => None
       | Some entries => Some (fs_entries_loop prefixPath prefixPart entries [] [])
       end.

(* ---- getBucketWithArbitraryPrefixLocked ------------------------------------------------------- *)

(* sort.Slice(response.Contents, Key <): insertion sort in byte order *)
Fixpoint insert_key (k : bytes) (l : list bytes) : list bytes :=
  match l with
  | [] => [k]
  | x :: l' => if bltb x k then x :: insert_key k l' else k :: l
  end.
Definition sort_keys (l : list bytes) : list bytes := fold_right insert_key [] l.

(* afero.Walk over the bucket: every regular file, directories skipped ("if err != nil ||
   info.IsDir() { return err }"); "if !prefix.Match(objectName, nil) { return nil }"; every file
   that matches is added to Contents -- whether Match calls it a content or a member of a common
   prefix (the match itself is thrown away: the second argument is nil) -- and AddPrefix is
   never called, so CommonPrefixes stays empty; then the contents are sorted by key.  Walk's
   visiting order is not modelled: the order of t_files stands for it and the sort erases it. *)
Definition fs_list_arbitrary (t : tree) (pre : bytes) (delim : option N)
    : option (list bytes * list bytes) :=
  let matching := filter (fun k => negb (mr_eqb (prefix_match pre delim k) NoMatch)) (t_files t) in
  Some (sort_keys matching, []).

(* ---- ListBucket -------------------------------------------------------------------------------- *)

(* path, part, ok := prefix.FilePrefix()
   if ok { return db.getBucketWithFilePrefixLocked(bucket, path, part) }
   else  { return db.getBucketWithArbitraryPrefixLocked(bucket, prefix) }
   The HTTP handler (gofakes3.go listBucket) copies objects.Contents and objects.CommonPrefixes
   into the response as they are: it neither sorts nor groups. *)
Definition fs_list (t : tree) (pre : bytes) (delim : option N) : option (list bytes * list bytes) :=
  let '(path, part, ok) := file_prefix pre delim in
  if ok then fs_list_file_prefix t path part else fs_list_arbitrary t pre delim.

(* ---- the key sets a directory tree can hold ---------------------------------------------------- *)

(* every key is a clean path (not empty; no empty, "." or ".." segment, hence neither a leading nor
   a trailing "/") and no key is a directory above another key: PutObject refuses the others
   (errUnsupportedKey: cleanKeyPath, belowFile). *)
Definition fs_storable (keys : list bytes) : bool :=
  forallb clean_key_path keys && forallb (fun k => negb (existsb (below k) keys)) keys.
