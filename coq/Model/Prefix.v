(* prefix.go: Prefix.Match.  The delimiter is a single byte (the property quantifies over
   single-character delimiters); a prefix is "present" iff non-empty (prefixFromQuery). *)
From GF Require Export Base.Bytes.

Inductive match_result :=
| NoMatch
| MContent
| MCommon (p : list N).

Definition mr_eqb (a b : match_result) : bool :=
  match a, b with
  | NoMatch, NoMatch => true
  | MContent, MContent => true
  | MCommon p, MCommon q => beq p q
  | _, _ => false
  end.

(* the loop over preParts: all but the last must be equal, the last a string prefix *)
Fixpoint parts_match (pre key : list (list N)) : bool :=
  match pre, key with
  | [], _ => true
  | [p], k :: _ => prefixb p k
  | p :: pre', k :: key' => beq p k && parts_match pre' key'
  | _ :: _, [] => false
  end.

Definition prefix_match (pre : list N) (delim : option N) (key : list N) : match_result :=
  match delim with
  | None =>
      match pre with
      | [] => MContent
      | _ => if prefixb pre key then MContent else NoMatch
      end
  | Some d =>
      let keyParts := split d (trim_left d key) in
      let preParts := split d (trim_left d pre) in
      if Nat.ltb (length keyParts) (length preParts) then NoMatch else
      let appendDelim := negb (Nat.eqb (length keyParts) (length preParts)) in
      if negb (parts_match preParts keyParts) then NoMatch else
      let matched := length preParts in
      let out := join d (firstn matched keyParts) ++ (if appendDelim then [d] else []) in
      if beq out key then MContent else MCommon out
  end.
