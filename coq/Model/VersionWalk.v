(* A client paging through ListObjectVersions with the markers the server returns. *)
From GF Require Export Model.MemVersions.
Open Scope Z_scope.

Definition vpage (pre : list N) (delim : option N) (maxkeys : Z) (objs : list (list N * obj))
    (km : list N) (vm : option N) : vl_result :=
  scan_versions pre delim km vm maxkeys (match km with [] => objs | _ => sm_seek km objs end) 0 [] [].

Definition vunpaged (pre : list N) (delim : option N) (objs : list (list N * obj)) : vl_result :=
  scan_versions pre delim [] None 0 objs 0 [] [].

Fixpoint vwalk (fuel : nat) (pre : list N) (delim : option N) (maxkeys : Z)
    (objs : list (list N * obj)) (km : list N) (vm : option N) : option (list vl_result) :=
  match fuel with
  | O => None
  | S f =>
      let r := vpage pre delim maxkeys objs km vm in
      if vl_truncated r then
        match vwalk f pre delim maxkeys objs (vl_next_key r) (Some (vl_next_vid r)) with
        | Some rs => Some (r :: rs)
        | None => None
        end
      else Some [r]
  end.
