(* Go int64 arithmetic: every + and - of the modelled code goes through wrap64. *)
From Coq Require Export ZArith Lia.
Open Scope Z_scope.

Definition min64 : Z := - 2 ^ 63.
Definition max64 : Z := 2 ^ 63 - 1.
Definition in64 (z : Z) : Prop := min64 <= z <= max64.
Definition in64b (z : Z) : bool := Z.leb min64 z && Z.leb z max64.
Definition wrap64 (z : Z) : Z := (z + 2 ^ 63) mod 2 ^ 64 - 2 ^ 63.
Definition add64 (a b : Z) : Z := wrap64 (a + b).
Definition sub64 (a b : Z) : Z := wrap64 (a - b).
