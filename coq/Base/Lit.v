(* Literals: Coq string notation -> bytes *)
From Coq Require Export String Ascii.
From GF Require Export Base.Bytes.
Definition B (s : string) : bytes := map N_of_ascii (list_ascii_of_string s).
