(* goskiplist.NewStringMap / bolt buckets: maps with byte-string keys iterated in
   ascending byte order, modelled as strictly sorted association lists. *)
From GF Require Export Base.Bytes.

Section SM.
Context {V : Type}.
Notation map_ := (list (list N * V)).

Fixpoint sm_get (k : list N) (m : map_) : option V :=
  match m with
  | [] => None
  | (k', v) :: m' => if beq k k' then Some v else sm_get k m'
  end.

(* SkipList.Set: insert or replace, keeping ascending order *)
Fixpoint sm_set (k : list N) (v : V) (m : map_) : map_ :=
  match m with
  | [] => [(k, v)]
  | (k', v') :: m' =>
      if beq k k' then (k, v) :: m'
      else if bltb k k' then (k, v) :: m
      else (k', v') :: sm_set k v m'
  end.

Fixpoint sm_del (k : list N) (m : map_) : map_ :=
  match m with
  | [] => []
  | (k', v') :: m' => if beq k k' then m' else (k', v') :: sm_del k m'
  end.

(* Iterator.Seek(k): the suffix starting at the first key >= k *)
Fixpoint sm_seek (k : list N) (m : map_) : map_ :=
  match m with
  | [] => []
  | (k', v') :: m' => if bltb k' k then sm_seek k m' else m
  end.

(* the suffix of keys strictly greater than k *)
Fixpoint sm_after (k : list N) (m : map_) : map_ :=
  match m with
  | [] => []
  | (k', v') :: m' => if bleb k' k then sm_after k m' else m
  end.

Definition sm_keys (m : map_) : list (list N) := map fst m.
End SM.
