(* GoLib: Gallina counterparts of the Go built-ins and library calls that the translator
   go2coq may emit.  HAND-WRITTEN and TRUSTED: the generated files (Gen/*.v) are produced
   from the Go AST, but each library call is mapped to the function of the same name below.
   Every function here is defined from the existing models (Base/Bytes.v, Model/ParseInt.v,
   Model/BucketName.v), so the theorems already proved about those apply.

   Conventions of the generated code
   - string, ErrorCode        -> bytes (list N)
   - int64 and int            -> Z, every + and - through add64 / sub64 (int is 64 bit)
   - []string                 -> list bytes
   - operations that can panic in Go (slice / index out of range) return [outcome];
     a generated function that uses one returns [outcome T] and the fixed proofs show it is
     [Val _] (never [Panic]). *)
From GF Require Export Base.Bytes Base.Int64 Model.ParseInt Model.BucketName.
From GF Require Import Base.Lit.
Open Scope Z_scope.

Inductive outcome (A : Type) : Type :=
| Val (a : A)
| Panic.
Arguments Val {A} a.
Arguments Panic {A}.

Definition outcome_get {A : Type} (d : A) (o : outcome A) : A :=
  match o with Val a => a | Panic => d end.

(* len(x) for a []string; len of a string is [blen] *)
Definition go_len_strs (l : list bytes) : Z := Z.of_nat (length l).

(* strings.HasPrefix(s, p) *)
Definition go_strings_has_prefix (s p : bytes) : bool := prefixb p s.

(* strings.Split(s, sep) for a constant one-byte separator (the translator rejects others) *)
Definition go_strings_split_byte (s : bytes) (d : N) : list bytes := split d s.

(* strings.TrimSpace(s): ASCII white space only (Model/ParseInt.v) *)
Definition go_strings_trim_space (s : bytes) : bytes := trim_space s.

(* strings.Index(s, sep) for a constant one-byte separator: -1 when absent *)
Definition go_strings_index_byte (s : bytes) (d : N) : Z :=
  match index_byte d s with Some i => Z.of_nat i | None => -1 end.

(* strings.TrimLeft(s, cutset) for a constant one-byte cutset *)
Definition go_strings_trim_left_byte (s : bytes) (d : N) : bytes := trim_left d s.

(* strings.Join(l, sep) for a constant one-byte separator *)
Definition go_strings_join_byte (l : list bytes) (d : N) : bytes := join d l.

(* strconv.ParseInt(s, 10, 64): Some v = (v, nil); None = (_, non-nil error).  The value
   returned next to an error is not modelled: the translator refuses code that reads it. *)
Definition go_strconv_parse_int64 (s : bytes) : option Z := parse_int64 s.

(* s[a:], s[:b], s[a:b] on strings, l[i] on []string: Go panics outside the bounds *)
Definition go_slice_from (s : bytes) (a : Z) : outcome bytes :=
  if (0 <=? a) && (a <=? blen s) then Val (skipn (Z.to_nat a) s) else Panic.
Definition go_slice_to (s : bytes) (b : Z) : outcome bytes :=
  if (0 <=? b) && (b <=? blen s) then Val (firstn (Z.to_nat b) s) else Panic.
Definition go_slice (s : bytes) (a b : Z) : outcome bytes :=
  if (0 <=? a) && (a <=? b) && (b <=? blen s)
  then Val (firstn (Z.to_nat (b - a)) (skipn (Z.to_nat a) s)) else Panic.
Definition go_index_strs (l : list bytes) (i : Z) : outcome bytes :=
  if 0 <=? i then match nth_error l (Z.to_nat i) with Some x => Val x | None => Panic end
  else Panic.

(* for _, x := range l { body } ; k   where the body either returns (Some r) or falls
   through to the next iteration (None) and changes no variable that outlives it *)
Fixpoint go_for_range {A R : Type} (body : A -> option R) (l : list A) (k : R) : R :=
  match l with
  | [] => k
  | x :: l' => match body x with Some r => r | None => go_for_range body l' k end
  end.

(* switch tag { case c1, c2: return v ... } ; d   on string constants, first match *)
Fixpoint go_switch_table {R : Type} (tag : bytes) (t : list (bytes * R)) (d : R) : R :=
  match t with
  | [] => d
  | (c, v) :: t' => if beq tag c then v else go_switch_table tag t' d
  end.

(* regexp.MustCompile(src).MatchString(s).  Regular expressions are NOT interpreted: the only
   source text known is the one [pattern] (Model/BucketName.v) was hand-compiled from; any
   other text matches nothing here, and Proofs/GenProofs.v requires the text found in the Go
   source to be this one. *)
Definition bucket_name_regexp_src : bytes := B "^[a-z0-9]([a-z0-9\.-]+)[a-z0-9]$".
Definition go_regexp_match_string (src s : bytes) : bool :=
  if beq src bucket_name_regexp_src then pattern s else false.

(* net.ParseIP(s) != nil: the dotted-quad branch only (see C17_only_ipv4_reachable) *)
Definition go_net_parse_ip_ok (s : bytes) : bool := is_ipv4 s.
