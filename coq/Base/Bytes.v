(* Bytes: Go strings / []byte are modelled as lists of byte values (N, each < 256 in
   every harness-generated case; no theorem needs the bound unless it says so). *)
From Coq Require Export List NArith ZArith Bool Lia.
Export ListNotations.

Notation byte := N (only parsing).
Notation bytes := (list N) (only parsing).

Fixpoint beq (a b : bytes) : bool :=
  match a, b with
  | [], [] => true
  | x :: a', y :: b' => N.eqb x y && beq a' b'
  | _, _ => false
  end.

(* Go's string < : lexicographic on bytes *)
Fixpoint bltb (a b : bytes) : bool :=
  match a, b with
  | _, [] => false
  | [], _ :: _ => true
  | x :: a', y :: b' => if N.ltb x y then true else if N.ltb y x then false else bltb a' b'
  end.

Definition bleb (a b : bytes) : bool := negb (bltb b a).

(* strings.HasPrefix s p *)
Fixpoint prefixb (p s : bytes) : bool :=
  match p, s with
  | [], _ => true
  | x :: p', y :: s' => N.eqb x y && prefixb p' s'
  | _ :: _, [] => false
  end.

Definition suffixb (p s : bytes) : bool := prefixb (rev p) (rev s).

Definition blen (s : bytes) : Z := Z.of_nat (length s).

(* strings.Split s [d] for a single-byte separator: structural, never empty *)
Fixpoint split (d : N) (s : bytes) : list bytes :=
  match s with
  | [] => [[]]
  | c :: s' =>
      if N.eqb c d then [] :: split d s'
      else match split d s' with
           | [] => [[c]]            (* unreachable: split is never empty *)
           | h :: t => (c :: h) :: t
           end
  end.

Fixpoint join (d : N) (l : list bytes) : bytes :=
  match l with
  | [] => []
  | [x] => x
  | x :: t => x ++ d :: join d t
  end.

(* strings.TrimLeft s [d] (single-byte cutset) *)
Fixpoint trim_left (d : N) (s : bytes) : bytes :=
  match s with
  | c :: s' => if N.eqb c d then trim_left d s' else s
  | [] => []
  end.

Definition trim_right (d : N) (s : bytes) : bytes := rev (trim_left d (rev s)).
Definition trim (d : N) (s : bytes) : bytes := trim_right d (trim_left d s).

(* index of first occurrence of byte d *)
Fixpoint index_byte (d : N) (s : bytes) : option nat :=
  match s with
  | [] => None
  | c :: s' => if N.eqb c d then Some 0%nat
               else match index_byte d s' with Some i => Some (S i) | None => None end
  end.

(* split at first d : (before, Some after) or (s, None) *)
Fixpoint cut (d : N) (s : bytes) : bytes * option bytes :=
  match s with
  | [] => ([], None)
  | c :: s' => if N.eqb c d then ([], Some s')
               else let '(a, b) := cut d s' in (c :: a, b)
  end.

Definition mem_byte (d : N) (s : bytes) : bool := existsb (N.eqb d) s.

(* decimal rendering of a non-negative Z, used for printers (fmt %d) *)
Definition digit_of (z : Z) : N := Z.to_N (48 + z).
Fixpoint dec_fuel (fuel : nat) (z : Z) (acc : bytes) : bytes :=
  match fuel with
  | O => acc
  | S f => if Z.ltb z 10 then digit_of z :: acc
           else dec_fuel f (z / 10) (digit_of (z mod 10) :: acc)
  end.
Definition dec_nonneg (z : Z) : bytes := dec_fuel (S (Z.to_nat (Z.log2 z))) z [].
Definition dec (z : Z) : bytes :=
  if Z.ltb z 0 then 45%N :: dec_nonneg (- z) else dec_nonneg z.
