package main

import (
	"fmt"
	"go/ast"
	"go/token"
	"math/big"
	"sort"
	"strconv"
	"strings"
)

// ---------------------------------------------------------------- environments

const (
	nilUnknown = 0
	nilYes     = 1
	nilNo      = 2
)

type binding struct {
	coq    string
	ty     string   // Go type: int64 int string bool []string error ErrorCode struct:T *T
	nilK   int      // error and pointer values: what is known about nil-ness
	poison string   // non-empty: the value must not be read (reason)
	depth  int      // loop depth of the declaration
	cStr   *string  // local string constant
	cInt   *big.Int // local integer constant
}

type env struct{ scopes []map[string]*binding }

func (e *env) clone() *env {
	n := &env{}
	for _, s := range e.scopes {
		m := map[string]*binding{}
		for k, v := range s {
			c := *v
			m[k] = &c
		}
		n.scopes = append(n.scopes, m)
	}
	return n
}
func (e *env) push() *env {
	n := e.clone()
	n.scopes = append(n.scopes, map[string]*binding{})
	return n
}
func (e *env) pop() *env {
	n := e.clone()
	n.scopes = n.scopes[:len(n.scopes)-1]
	return n
}
func (e *env) lookup(name string) *binding {
	for i := len(e.scopes) - 1; i >= 0; i-- {
		if b, ok := e.scopes[i][name]; ok {
			return b
		}
	}
	return nil
}
func (e *env) inCurrent(name string) bool {
	_, ok := e.scopes[len(e.scopes)-1][name]
	return ok
}
func (e *env) coqLive(coq string) bool {
	for _, s := range e.scopes {
		for _, b := range s {
			if b.coq == coq {
				return true
			}
		}
	}
	return false
}

// declare a new Go variable; returns the new env and its Coq name
func (e *env) declare(name, ty string, depth int) (*env, *binding) {
	n := e.clone()
	coq := "v_" + name
	for k := 2; n.coqLive(coq); k++ {
		coq = fmt.Sprintf("v_%s_%d", name, k)
	}
	b := &binding{coq: coq, ty: ty, depth: depth}
	n.scopes[len(n.scopes)-1][name] = b
	return n, b
}

// update the binding of an existing variable (same Coq name: a new let shadows the old one)
func (e *env) update(name string, f func(*binding)) *env {
	n := e.clone()
	f(n.lookup(name))
	return n
}

// ---------------------------------------------------------------- translator state

type val struct {
	term string
	ty   string // Go type or "untyped-int", "untyped-string", "untyped-bool"
	atom bool
	kb   *bool    // statically known boolean
	cInt *big.Int // constant integer
	cStr *string  // constant string
}

type bind struct{ name, term string }

type tr struct {
	p          *pkg
	sp         *funcSpec
	mayPanic   bool
	sawPartial bool
	pend       []bind
	ntmp       int
	depth      int
	aux        []string
	auxSeen    map[string]bool
}

func (t *tr) fail(n ast.Node, format string, args ...interface{}) {
	failAt(t.p.fset, n.Pos(), format, args...)
}

func paren(v val) string {
	if v.atom {
		return v.term
	}
	return "(" + v.term + ")"
}

func ind(s string) string {
	lines := strings.Split(s, "\n")
	for i, l := range lines {
		if l != "" {
			lines[i] = "  " + l
		}
	}
	return strings.Join(lines, "\n")
}

func zlit(n *big.Int) string {
	if n.Sign() < 0 {
		return "(" + n.String() + ")%Z"
	}
	return n.String() + "%Z"
}

func isInt(ty string) bool   { return ty == "int64" || ty == "int" || ty == "untyped-int" }
func isStr(ty string) bool   { return ty == "string" || ty == "ErrorCode" || ty == "untyped-string" }
func isBool(ty string) bool  { return ty == "bool" || ty == "untyped-bool" }
func untyped(ty string) bool { return strings.HasPrefix(ty, "untyped-") }
func boolp(b bool) *bool     { return &b }
func strp(s string) *string  { return &s }
func kbVal(b bool) val {
	if b {
		return val{term: "true", ty: "untyped-bool", atom: true, kb: boolp(true)}
	}
	return val{term: "false", ty: "untyped-bool", atom: true, kb: boolp(false)}
}

// the common type of two operands (untyped constants adapt)
func (t *tr) unify(n ast.Node, a, b val) string {
	switch {
	case a.ty == b.ty:
		return a.ty
	case untyped(a.ty) && !untyped(b.ty) && sameKind(a.ty, b.ty):
		return b.ty
	case untyped(b.ty) && !untyped(a.ty) && sameKind(a.ty, b.ty):
		return a.ty
	}
	t.fail(n, "operands of types %s and %s", a.ty, b.ty)
	return ""
}
func sameKind(a, b string) bool {
	return (isInt(a) && isInt(b)) || (isStr(a) && isStr(b)) || (isBool(a) && isBool(b))
}

func (t *tr) coqType(n ast.Node, goTy string) string {
	switch goTy {
	case "int64", "int":
		return "Z"
	case "string", "ErrorCode":
		return "bytes"
	case "bool":
		return "bool"
	case "[]string":
		return "list bytes"
	}
	if strings.HasPrefix(goTy, "*") {
		if sm, ok := structTable[goTy[1:]]; ok && sm.record != "" {
			return "option " + sm.record
		}
	}
	if strings.HasPrefix(goTy, "struct:") {
		if sm, ok := structTable[goTy[7:]]; ok && sm.record != "" {
			return sm.record
		}
	}
	t.fail(n, "type %s", goTy)
	return ""
}

func (t *tr) goType(x ast.Expr) string {
	switch x := x.(type) {
	case *ast.Ident:
		switch x.Name {
		case "int64", "int", "string", "bool", "error", "ErrorCode":
			return x.Name
		}
		if _, ok := structTable[x.Name]; ok {
			return "struct:" + x.Name
		}
	case *ast.StarExpr:
		if id, ok := x.X.(*ast.Ident); ok {
			if _, ok := structTable[id.Name]; ok {
				return "*" + id.Name
			}
		}
	case *ast.ArrayType:
		if x.Len == nil {
			if id, ok := x.Elt.(*ast.Ident); ok && id.Name == "string" {
				return "[]string"
			}
		}
	}
	t.fail(x, "type expression")
	return ""
}

func (t *tr) zero(n ast.Node, ty string) string {
	switch ty {
	case "int64", "int":
		return "0%Z"
	case "string":
		return "([] : bytes)"
	case "bool":
		return "false"
	}
	if strings.HasPrefix(ty, "struct:") {
		sm := structTable[ty[7:]]
		if sm.record != "" {
			var fs []string
			for _, f := range sm.fields {
				fs = append(fs, fmt.Sprintf("%s := %s", f.coq, t.zero(n, f.goTy)))
			}
			return "{| " + strings.Join(fs, "; ") + " |}"
		}
	}
	t.fail(n, "zero value of type %s", ty)
	return ""
}

// result of the whole function as seen from the current position
func (t *tr) wrapRet(term string) string {
	if t.mayPanic {
		term = "Val (" + term + ")"
	}
	return t.wrapDepth(term)
}
func (t *tr) wrapPanic() string { return t.wrapDepth("Panic") }
func (t *tr) wrapDepth(term string) string {
	for i := 0; i < t.depth; i++ {
		term = "Some (" + term + ")"
	}
	return term
}
func (t *tr) fullResTy() string {
	ty := t.sp.resTy
	if t.mayPanic {
		ty = "outcome (" + ty + ")"
	}
	for i := 0; i < t.depth; i++ {
		ty = "option (" + ty + ")"
	}
	return ty
}

func (t *tr) tmp() string {
	t.ntmp++
	return fmt.Sprintf("t%d", t.ntmp)
}

// a partial operation: bind its outcome, continue with the value
func (t *tr) partial(term string) string {
	t.sawPartial = true
	name := t.tmp()
	t.pend = append(t.pend, bind{name, term})
	return name
}

func (t *tr) wrapBinds(binds []bind, body string) string {
	for i := len(binds) - 1; i >= 0; i-- {
		body = fmt.Sprintf("match %s with\n| Panic => %s\n| Val %s =>\n%s\nend", binds[i].term, t.wrapPanic(), binds[i].name, ind(body))
	}
	return body
}

// evaluate x, then continue; operations that may panic are sequenced before the continuation
func (t *tr) eval(x ast.Expr, e *env, k func(val) string) string {
	saved := t.pend
	t.pend = nil
	v := t.expr(x, e)
	binds := t.pend
	t.pend = saved
	return t.wrapBinds(binds, k(v))
}

func (t *tr) evalAll(xs []ast.Expr, e *env, k func([]val) string) string {
	saved := t.pend
	t.pend = nil
	var vs []val
	for _, x := range xs {
		vs = append(vs, t.expr(x, e))
	}
	binds := t.pend
	t.pend = saved
	return t.wrapBinds(binds, k(vs))
}

// ---------------------------------------------------------------- expressions

func (t *tr) constOf(n ast.Node, name string) val {
	ci := t.p.consts[name]
	if ci.expr == nil {
		t.fail(n, "constant %s without an explicit value", name)
	}
	ty := ci.ty
	switch x := ci.expr.(type) {
	case *ast.BasicLit:
		switch x.Kind {
		case token.INT:
			z, ok := new(big.Int).SetString(x.Value, 0)
			if !ok {
				t.fail(n, "integer literal %s", x.Value)
			}
			if ty == "" {
				ty = "untyped-int"
			}
			return val{term: zlit(z), ty: ty, atom: true, cInt: z}
		case token.STRING:
			s, err := strconv.Unquote(x.Value)
			if err != nil {
				t.fail(n, "string literal %s", x.Value)
			}
			if ty == "" {
				ty = "untyped-string"
			}
			term := bytesLit(s)
			if ty == "ErrorCode" && t.sp.named {
				term = "code_" + name
			}
			return val{term: term, ty: ty, atom: true, cStr: strp(s)}
		}
	case *ast.UnaryExpr:
		if lit, ok := x.X.(*ast.BasicLit); ok && x.Op == token.SUB && lit.Kind == token.INT {
			z, ok := new(big.Int).SetString(lit.Value, 0)
			if !ok {
				t.fail(n, "integer literal %s", lit.Value)
			}
			z.Neg(z)
			if ty == "" {
				ty = "untyped-int"
			}
			return val{term: zlit(z), ty: ty, atom: true, cInt: z}
		}
	}
	t.fail(n, "constant %s has a value that is not a plain literal", name)
	return val{}
}

func checkInt64(t *tr, n ast.Node, z *big.Int) {
	min := new(big.Int).Lsh(big.NewInt(1), 63)
	min.Neg(min)
	max := new(big.Int).Lsh(big.NewInt(1), 63)
	max.Sub(max, big.NewInt(1))
	if z.Cmp(min) < 0 || z.Cmp(max) > 0 {
		t.fail(n, "integer constant %s outside int64", z.String())
	}
}

func (t *tr) expr(x ast.Expr, e *env) val {
	switch x := x.(type) {
	case *ast.ParenExpr:
		return t.expr(x.X, e)

	case *ast.BasicLit:
		switch x.Kind {
		case token.INT:
			z, ok := new(big.Int).SetString(x.Value, 0)
			if !ok {
				t.fail(x, "integer literal %s", x.Value)
			}
			checkInt64(t, x, z)
			return val{term: zlit(z), ty: "untyped-int", atom: true, cInt: z}
		case token.STRING:
			s, err := strconv.Unquote(x.Value)
			if err != nil {
				t.fail(x, "string literal %s", x.Value)
			}
			return val{term: bytesLit(s), ty: "untyped-string", atom: true, cStr: strp(s)}
		}
		t.fail(x, "literal %s", x.Value)

	case *ast.Ident:
		if b := e.lookup(x.Name); b != nil {
			if b.poison != "" {
				t.fail(x, "%s", b.poison)
			}
			if b.ty == "error" {
				t.fail(x, "error value %s used other than in a comparison with nil", x.Name)
			}
			if strings.HasPrefix(b.ty, "*") && b.nilK != nilNo {
				t.fail(x, "pointer %s used where it may be nil", x.Name)
			}
			return val{term: b.coq, ty: b.ty, atom: true, cStr: b.cStr, cInt: b.cInt}
		}
		switch x.Name {
		case "true":
			return kbVal(true)
		case "false":
			return kbVal(false)
		case "_":
			t.fail(x, "blank identifier as a value")
		}
		if _, ok := t.p.consts[x.Name]; ok {
			return t.constOf(x, x.Name)
		}
		t.fail(x, "identifier %s (not a local variable or a package constant)", x.Name)

	case *ast.UnaryExpr:
		switch x.Op {
		case token.NOT:
			v := t.expr(x.X, e)
			if !isBool(v.ty) {
				t.fail(x, "! on type %s", v.ty)
			}
			if v.kb != nil {
				return kbVal(!*v.kb)
			}
			return val{term: "negb " + paren(v), ty: "bool"}
		case token.SUB:
			v := t.expr(x.X, e)
			if v.cInt != nil {
				z := new(big.Int).Neg(v.cInt)
				checkInt64(t, x, z)
				return val{term: zlit(z), ty: v.ty, atom: true, cInt: z}
			}
			if v.ty == "int64" || v.ty == "int" {
				return val{term: "sub64 0%Z " + paren(v), ty: v.ty}
			}
			t.fail(x, "unary - on type %s", v.ty)
		case token.ADD:
			v := t.expr(x.X, e)
			if isInt(v.ty) {
				return v
			}
		}
		t.fail(x, "unary operator %s", x.Op)

	case *ast.BinaryExpr:
		return t.binary(x, e)

	case *ast.SelectorExpr:
		if id, ok := x.X.(*ast.Ident); ok {
			if id.Name == "http" && e.lookup("http") == nil {
				n, ok := httpStatus[x.Sel.Name]
				if !ok {
					t.fail(x, "http.%s is not in the table of status constants", x.Sel.Name)
				}
				z := big.NewInt(int64(n))
				return val{term: zlit(z), ty: "untyped-int", atom: true, cInt: z}
			}
			if b := e.lookup(id.Name); b != nil {
				sname := ""
				switch {
				case strings.HasPrefix(b.ty, "struct:"):
					sname = b.ty[7:]
				case strings.HasPrefix(b.ty, "*"):
					sname = b.ty[1:]
					if b.nilK == nilYes {
						t.fail(x, "field read through the nil pointer %s", id.Name)
					}
					if b.nilK != nilNo {
						t.fail(x, "field read through pointer %s before it is known to be non-nil", id.Name)
					}
				default:
					t.fail(x, "field selection on type %s", b.ty)
				}
				if b.poison != "" {
					t.fail(x, "%s", b.poison)
				}
				for _, f := range structTable[sname].fields {
					if f.goName == x.Sel.Name && f.coq != "" {
						return val{term: f.coq + " " + b.coq, ty: f.goTy}
					}
				}
				t.fail(x, "field %s of %s", x.Sel.Name, sname)
			}
		}
		t.fail(x, "selector expression")

	case *ast.CallExpr:
		return t.call(x, e)

	case *ast.SliceExpr:
		if x.Slice3 {
			t.fail(x, "three-index slice")
		}
		s := t.expr(x.X, e)
		if !isStr(s.ty) {
			t.fail(x, "slice of type %s", s.ty)
		}
		ty := s.ty
		if untyped(ty) {
			ty = "string"
		}
		switch {
		case x.Low != nil && x.High == nil:
			a := t.intExpr(x.Low, e)
			return val{term: t.partial(fmt.Sprintf("go_slice_from %s %s", paren(s), paren(a))), ty: ty, atom: true}
		case x.Low == nil && x.High != nil:
			b := t.intExpr(x.High, e)
			return val{term: t.partial(fmt.Sprintf("go_slice_to %s %s", paren(s), paren(b))), ty: ty, atom: true}
		case x.Low != nil && x.High != nil:
			a := t.intExpr(x.Low, e)
			b := t.intExpr(x.High, e)
			return val{term: t.partial(fmt.Sprintf("go_slice %s %s %s", paren(s), paren(a), paren(b))), ty: ty, atom: true}
		}
		return s

	case *ast.IndexExpr:
		l := t.expr(x.X, e)
		if l.ty != "[]string" {
			t.fail(x, "index into type %s", l.ty)
		}
		i := t.intExpr(x.Index, e)
		return val{term: t.partial(fmt.Sprintf("go_index_strs %s %s", paren(l), paren(i))), ty: "string", atom: true}
	}
	t.fail(x, "expression of kind %T", x)
	return val{}
}

func (t *tr) intExpr(x ast.Expr, e *env) val {
	v := t.expr(x, e)
	if !isInt(v.ty) {
		t.fail(x, "integer expected, got %s", v.ty)
	}
	return v
}

func isNilIdent(x ast.Expr, e *env) bool {
	id, ok := x.(*ast.Ident)
	return ok && id.Name == "nil" && e.lookup("nil") == nil
}

func pkgCall(x ast.Expr, e *env) (string, *ast.CallExpr) {
	c, ok := x.(*ast.CallExpr)
	if !ok {
		return "", nil
	}
	sel, ok := c.Fun.(*ast.SelectorExpr)
	if !ok {
		return "", nil
	}
	id, ok := sel.X.(*ast.Ident)
	if !ok || e.lookup(id.Name) != nil {
		return "", nil
	}
	return id.Name + "." + sel.Sel.Name, c
}

func (t *tr) binary(x *ast.BinaryExpr, e *env) val {
	// comparisons with nil
	if x.Op == token.EQL || x.Op == token.NEQ {
		other := ast.Expr(nil)
		if isNilIdent(x.Y, e) {
			other = x.X
		} else if isNilIdent(x.X, e) {
			other = x.Y
		}
		if other != nil {
			for {
				p, ok := other.(*ast.ParenExpr)
				if !ok {
					break
				}
				other = p.X
			}
			if name, c := pkgCall(other, e); name == "net.ParseIP" {
				if len(c.Args) != 1 {
					t.fail(c, "net.ParseIP with %d arguments", len(c.Args))
				}
				a := t.strExpr(c.Args[0], e)
				v := val{term: "go_net_parse_ip_ok " + paren(a), ty: "bool"}
				if x.Op == token.EQL {
					v = val{term: "negb (" + v.term + ")", ty: "bool"}
				}
				return v
			}
			if id, ok := other.(*ast.Ident); ok {
				if b := e.lookup(id.Name); b != nil && (b.ty == "error" || strings.HasPrefix(b.ty, "*")) {
					switch b.nilK {
					case nilYes:
						return kbVal(x.Op == token.EQL)
					case nilNo:
						return kbVal(x.Op == token.NEQ)
					}
					t.fail(x, "comparison of %s with nil inside a larger expression (only a whole if-condition is supported there)", id.Name)
				}
			}
			t.fail(x, "comparison with nil")
		}
	}

	switch x.Op {
	case token.LAND, token.LOR:
		l := t.expr(x.X, e)
		if !isBool(l.ty) {
			t.fail(x.X, "boolean expected, got %s", l.ty)
		}
		if l.kb != nil {
			if (*l.kb && x.Op == token.LOR) || (!*l.kb && x.Op == token.LAND) {
				return l // short circuit: the right operand is not evaluated
			}
			r := t.exprNoPartial(x.Y, e)
			if !isBool(r.ty) {
				t.fail(x.Y, "boolean expected, got %s", r.ty)
			}
			return r
		}
		r := t.exprNoPartial(x.Y, e)
		if !isBool(r.ty) {
			t.fail(x.Y, "boolean expected, got %s", r.ty)
		}
		op := "||"
		if x.Op == token.LAND {
			op = "&&"
		}
		if r.kb != nil {
			// x || false = x, x && true = x ; x || true and x && false keep x's evaluation (pure)
			if (*r.kb && x.Op == token.LAND) || (!*r.kb && x.Op == token.LOR) {
				return l
			}
		}
		return val{term: paren(l) + " " + op + " " + paren(r), ty: "bool"}

	case token.ADD, token.SUB:
		l := t.expr(x.X, e)
		r := t.expr(x.Y, e)
		ty := t.unify(x, l, r)
		if !isInt(ty) {
			t.fail(x, "operator %s on type %s", x.Op, ty)
		}
		if l.cInt != nil && r.cInt != nil {
			z := new(big.Int)
			if x.Op == token.ADD {
				z.Add(l.cInt, r.cInt)
			} else {
				z.Sub(l.cInt, r.cInt)
			}
			checkInt64(t, x, z)
			return val{term: zlit(z), ty: ty, atom: true, cInt: z}
		}
		f := "add64"
		if x.Op == token.SUB {
			f = "sub64"
		}
		return val{term: f + " " + paren(l) + " " + paren(r), ty: ty}

	case token.EQL, token.NEQ, token.LSS, token.LEQ, token.GTR, token.GEQ:
		l := t.expr(x.X, e)
		r := t.expr(x.Y, e)
		ty := t.unify(x, l, r)
		var term string
		switch {
		case isInt(ty):
			switch x.Op {
			case token.EQL:
				term = "Z.eqb " + paren(l) + " " + paren(r)
			case token.NEQ:
				term = "negb (Z.eqb " + paren(l) + " " + paren(r) + ")"
			case token.LSS:
				term = "Z.ltb " + paren(l) + " " + paren(r)
			case token.LEQ:
				term = "Z.leb " + paren(l) + " " + paren(r)
			case token.GTR:
				term = "Z.ltb " + paren(r) + " " + paren(l)
			case token.GEQ:
				term = "Z.leb " + paren(r) + " " + paren(l)
			}
		case isStr(ty):
			switch x.Op {
			case token.EQL:
				term = "beq " + paren(l) + " " + paren(r)
			case token.NEQ:
				term = "negb (beq " + paren(l) + " " + paren(r) + ")"
			default:
				t.fail(x, "ordering comparison of strings")
			}
		case isBool(ty):
			switch x.Op {
			case token.EQL:
				term = "Bool.eqb " + paren(l) + " " + paren(r)
			case token.NEQ:
				term = "negb (Bool.eqb " + paren(l) + " " + paren(r) + ")"
			default:
				t.fail(x, "ordering comparison of booleans")
			}
		default:
			t.fail(x, "comparison at type %s", ty)
		}
		return val{term: term, ty: "bool"}
	}
	t.fail(x, "binary operator %s", x.Op)
	return val{}
}

// the right operand of && and || is evaluated conditionally: it must not be able to panic
func (t *tr) exprNoPartial(x ast.Expr, e *env) val {
	n := len(t.pend)
	v := t.expr(x, e)
	if len(t.pend) != n {
		t.fail(x, "operation that can panic in the right operand of && or ||")
	}
	return v
}

func (t *tr) strExpr(x ast.Expr, e *env) val {
	v := t.expr(x, e)
	if !isStr(v.ty) {
		t.fail(x, "string expected, got %s", v.ty)
	}
	return v
}

// a constant one-byte string (separator / cutset)
func (t *tr) oneByte(x ast.Expr, e *env, what string) string {
	v := t.expr(x, e)
	if v.cStr == nil || len(*v.cStr) != 1 {
		t.fail(x, "%s: only a constant one-byte string is supported", what)
	}
	return strconv.Itoa(int((*v.cStr)[0])) + "%N"
}

func (t *tr) regexpSrc(x ast.Expr, e *env) string {
	// a package variable initialised with regexp.MustCompile(lit), or the call itself
	var call *ast.CallExpr
	name := ""
	switch x := x.(type) {
	case *ast.Ident:
		if e.lookup(x.Name) != nil {
			t.fail(x, "MatchString on a local variable")
		}
		vs, ok := t.p.vars[x.Name]
		if !ok {
			t.fail(x, "MatchString on %s, which is not a package variable", x.Name)
		}
		i := t.p.varIdx[x.Name]
		if len(vs.Values) != len(vs.Names) {
			t.fail(x, "package variable %s has no initialiser of its own", x.Name)
		}
		n, c := pkgCall(vs.Values[i], e)
		if n != "regexp.MustCompile" {
			t.fail(x, "package variable %s is not initialised with regexp.MustCompile", x.Name)
		}
		call = c
		name = x.Name + "_src"
	default:
		n, c := pkgCall(x, e)
		if n != "regexp.MustCompile" {
			t.fail(x, "MatchString on an expression that is not regexp.MustCompile(...)")
		}
		call = c
	}
	if len(call.Args) != 1 {
		t.fail(call, "regexp.MustCompile with %d arguments", len(call.Args))
	}
	lit, ok := call.Args[0].(*ast.BasicLit)
	if !ok || lit.Kind != token.STRING {
		t.fail(call, "regexp.MustCompile of something other than a string literal")
	}
	s, err := strconv.Unquote(lit.Value)
	if err != nil {
		t.fail(lit, "string literal")
	}
	if name == "" {
		name = fmt.Sprintf("%s_regexp_%d_src", t.sp.coq, len(t.aux)+1)
	}
	if !t.auxSeen[name] {
		t.auxSeen[name] = true
		t.aux = append(t.aux, fmt.Sprintf("(* regular expression source text: %s *)\nDefinition %s : bytes := %s.\n", coqComment(s), name, bytesLit(s)))
	}
	return name
}

func (t *tr) call(x *ast.CallExpr, e *env) val {
	// built-in len
	if id, ok := x.Fun.(*ast.Ident); ok && id.Name == "len" && e.lookup("len") == nil {
		if len(x.Args) != 1 {
			t.fail(x, "len with %d arguments", len(x.Args))
		}
		a := t.expr(x.Args[0], e)
		switch {
		case isStr(a.ty):
			if a.cStr != nil {
				z := big.NewInt(int64(len(*a.cStr)))
				return val{term: zlit(z), ty: "int", atom: true, cInt: z}
			}
			return val{term: "blen " + paren(a), ty: "int"}
		case a.ty == "[]string":
			return val{term: "go_len_strs " + paren(a), ty: "int"}
		}
		t.fail(x, "len of type %s", a.ty)
	}
	// method call X.MatchString(s)
	if sel, ok := x.Fun.(*ast.SelectorExpr); ok && sel.Sel.Name == "MatchString" {
		if len(x.Args) != 1 {
			t.fail(x, "MatchString with %d arguments", len(x.Args))
		}
		src := t.regexpSrc(sel.X, e)
		a := t.strExpr(x.Args[0], e)
		return val{term: "go_regexp_match_string " + src + " " + paren(a), ty: "bool"}
	}
	name, _ := pkgCall(x, e)
	argc := func(n int) {
		if len(x.Args) != n {
			t.fail(x, "%s with %d arguments", name, len(x.Args))
		}
	}
	switch name {
	case "strings.HasPrefix":
		argc(2)
		s := t.strExpr(x.Args[0], e)
		p := t.strExpr(x.Args[1], e)
		return val{term: "go_strings_has_prefix " + paren(s) + " " + paren(p), ty: "bool"}
	case "strings.Split":
		argc(2)
		s := t.strExpr(x.Args[0], e)
		d := t.oneByte(x.Args[1], e, "separator of strings.Split")
		return val{term: "go_strings_split_byte " + paren(s) + " " + d, ty: "[]string"}
	case "strings.TrimSpace":
		argc(1)
		s := t.strExpr(x.Args[0], e)
		return val{term: "go_strings_trim_space " + paren(s), ty: "string"}
	case "strings.Index":
		argc(2)
		s := t.strExpr(x.Args[0], e)
		d := t.oneByte(x.Args[1], e, "separator of strings.Index")
		return val{term: "go_strings_index_byte " + paren(s) + " " + d, ty: "int"}
	case "strings.TrimLeft":
		argc(2)
		s := t.strExpr(x.Args[0], e)
		d := t.oneByte(x.Args[1], e, "cutset of strings.TrimLeft")
		return val{term: "go_strings_trim_left_byte " + paren(s) + " " + d, ty: "string"}
	case "strings.Join":
		argc(2)
		l := t.expr(x.Args[0], e)
		if l.ty != "[]string" {
			t.fail(x, "strings.Join of type %s", l.ty)
		}
		d := t.oneByte(x.Args[1], e, "separator of strings.Join")
		return val{term: "go_strings_join_byte " + paren(l) + " " + d, ty: "string"}
	case "strconv.ParseInt":
		t.fail(x, "strconv.ParseInt outside `v, err := strconv.ParseInt(s, 10, 64)`")
	case "net.ParseIP":
		t.fail(x, "net.ParseIP outside a comparison with nil")
	}
	t.fail(x, "call of %s (not in the list of modelled library functions)", exprString(x.Fun))
	return val{}
}

func exprString(x ast.Expr) string {
	switch x := x.(type) {
	case *ast.Ident:
		return x.Name
	case *ast.SelectorExpr:
		return exprString(x.X) + "." + x.Sel.Name
	case *ast.CallExpr:
		return exprString(x.Fun) + "(...)"
	}
	return fmt.Sprintf("%T", x)
}

// ---------------------------------------------------------------- statements

type cont func(*env) string

func (t *tr) stmts(list []ast.Stmt, e *env, k cont) string {
	if len(list) == 0 {
		return k(e)
	}
	rest := func(e2 *env) string { return t.stmts(list[1:], e2, k) }
	switch s := list[0].(type) {
	case *ast.EmptyStmt:
		return rest(e)

	case *ast.ReturnStmt:
		return t.ret(s, e)

	case *ast.BlockStmt:
		return t.stmts(s.List, e.push(), func(e2 *env) string { return rest(e2.pop()) })

	case *ast.DeclStmt:
		return t.decl(s, e, rest)

	case *ast.AssignStmt:
		return t.assign(s, e, rest)

	case *ast.IfStmt:
		return t.ifStmt(s, e, rest)

	case *ast.SwitchStmt:
		return t.switchStmt(s, e, rest)

	case *ast.RangeStmt:
		return t.rangeStmt(s, e, rest)
	}
	t.fail(list[0], "statement of kind %T", list[0])
	return ""
}

func (t *tr) decl(s *ast.DeclStmt, e *env, rest cont) string {
	gd, ok := s.Decl.(*ast.GenDecl)
	if !ok || (gd.Tok != token.VAR && gd.Tok != token.CONST) {
		t.fail(s, "declaration statement")
	}
	type item struct {
		name *ast.Ident
		ty   string
		init ast.Expr
	}
	var items []item
	for _, sp := range gd.Specs {
		vs := sp.(*ast.ValueSpec)
		ty := ""
		if vs.Type != nil {
			ty = t.goType(vs.Type)
		}
		if len(vs.Values) != 0 && len(vs.Values) != len(vs.Names) {
			t.fail(vs, "declaration with a multi-valued initialiser")
		}
		for i, n := range vs.Names {
			it := item{name: n, ty: ty}
			if len(vs.Values) != 0 {
				it.init = vs.Values[i]
			} else if gd.Tok == token.CONST || ty == "" {
				t.fail(vs, "declaration without a value")
			}
			items = append(items, it)
		}
	}
	var step func(i int, e *env) string
	step = func(i int, e *env) string {
		if i == len(items) {
			return rest(e)
		}
		it := items[i]
		if it.name.Name == "_" {
			t.fail(it.name, "blank declaration")
		}
		if it.init == nil {
			e2, b := e.declare(it.name.Name, it.ty, t.depth)
			return fmt.Sprintf("let %s := %s in\n%s", b.coq, t.zero(it.name, it.ty), step(i+1, e2))
		}
		return t.eval(it.init, e, func(v val) string {
			ty := it.ty
			if ty == "" {
				ty = defaultType(v.ty)
			} else if !(v.ty == ty || (untyped(v.ty) && sameKind(v.ty, ty))) {
				t.fail(it.name, "initialiser of type %s for a variable of type %s", v.ty, ty)
			}
			e2, b := e.declare(it.name.Name, ty, t.depth)
			if gd.Tok == token.CONST {
				b.cStr, b.cInt = v.cStr, v.cInt
			}
			return fmt.Sprintf("let %s := %s in\n%s", b.coq, v.term, step(i+1, e2))
		})
	}
	return step(0, e)
}

func defaultType(ty string) string {
	switch ty {
	case "untyped-int":
		return "int"
	case "untyped-string":
		return "string"
	case "untyped-bool":
		return "bool"
	}
	return ty
}

func (t *tr) assign(s *ast.AssignStmt, e *env, rest cont) string {
	if s.Tok != token.DEFINE && s.Tok != token.ASSIGN {
		t.fail(s, "assignment operator %s", s.Tok)
	}
	// v, err := strconv.ParseInt(x, 10, 64)
	if len(s.Lhs) == 2 && len(s.Rhs) == 1 {
		name, c := pkgCall(s.Rhs[0], e)
		if name != "strconv.ParseInt" {
			t.fail(s, "two-valued assignment from something other than strconv.ParseInt")
		}
		if len(c.Args) != 3 {
			t.fail(c, "strconv.ParseInt with %d arguments", len(c.Args))
		}
		return t.evalAll(c.Args, e, func(vs []val) string {
			if !isStr(vs[0].ty) {
				t.fail(c.Args[0], "string expected, got %s", vs[0].ty)
			}
			if vs[1].cInt == nil || vs[1].cInt.Cmp(big.NewInt(10)) != 0 || vs[2].cInt == nil || vs[2].cInt.Cmp(big.NewInt(64)) != 0 {
				t.fail(c, "strconv.ParseInt with base/bitSize other than the constants 10, 64")
			}
			vid, ok1 := s.Lhs[0].(*ast.Ident)
			eid, ok2 := s.Lhs[1].(*ast.Ident)
			if !ok1 || !ok2 {
				t.fail(s, "assignment target")
			}
			bindTwo := func(e0 *env, failed bool) (*env, string) {
				e1 := e0
				coqV := "_"
				if vid.Name != "_" {
					var b *binding
					e1, b = t.target(s, vid, "int64", e1)
					coqV = b.coq
					reason := ""
					if failed {
						reason = "value of " + vid.Name + " read where strconv.ParseInt returned an error (that value is not modelled)"
					}
					e1 = e1.update(vid.Name, func(b *binding) { b.poison = reason })
				}
				if eid.Name != "_" {
					e1, _ = t.target(s, eid, "error", e1)
					k := nilYes
					if failed {
						k = nilNo
					}
					e1 = e1.update(eid.Name, func(b *binding) { b.nilK = k; b.poison = "" })
				}
				return e1, coqV
			}
			eFail, _ := bindTwo(e, true)
			eOk, coqV := bindTwo(e, false)
			return fmt.Sprintf("match go_strconv_parse_int64 %s with\n| None =>\n%s\n| Some %s =>\n%s\nend",
				paren(vs[0]), ind(rest(eFail)), coqV, ind(rest(eOk)))
		})
	}
	if len(s.Lhs) != len(s.Rhs) {
		t.fail(s, "assignment with %d targets and %d values", len(s.Lhs), len(s.Rhs))
	}
	return t.evalAll(s.Rhs, e, func(vs []val) string {
		e1 := e
		var names []string
		var terms []string
		for i, lhs := range s.Lhs {
			v := vs[i]
			switch l := lhs.(type) {
			case *ast.Ident:
				if l.Name == "_" {
					continue
				}
				ty := defaultType(v.ty)
				if ty == "nil" {
					t.fail(s, "assignment of nil")
				}
				var b *binding
				if ob := e1.lookup(l.Name); ob != nil && (s.Tok == token.ASSIGN || e1.inCurrent(l.Name)) {
					ty = ob.ty
					if !(v.ty == ty || (untyped(v.ty) && sameKind(v.ty, ty))) {
						t.fail(s, "value of type %s assigned to %s of type %s", v.ty, l.Name, ty)
					}
				}
				e1, b = t.target(s, l, ty, e1)
				e1 = e1.update(l.Name, func(b *binding) { b.poison = ""; b.cStr = nil; b.cInt = nil })
				names = append(names, b.coq)
				terms = append(terms, v.term)
			case *ast.SelectorExpr:
				if s.Tok != token.ASSIGN {
					t.fail(s, "field in a := declaration")
				}
				id, ok := l.X.(*ast.Ident)
				if !ok {
					t.fail(l, "assignment target")
				}
				b := e1.lookup(id.Name)
				if b == nil || !strings.HasPrefix(b.ty, "struct:") {
					t.fail(l, "field assignment to something other than a local struct value")
				}
				if b.depth < t.depth {
					t.fail(l, "assignment inside a loop to %s, declared outside it", id.Name)
				}
				sm := structTable[b.ty[7:]]
				found := false
				var fs []string
				for _, f := range sm.fields {
					if f.goName == l.Sel.Name {
						found = true
						if !(v.ty == f.goTy || (untyped(v.ty) && sameKind(v.ty, f.goTy))) {
							t.fail(s, "value of type %s assigned to field %s of type %s", v.ty, f.goName, f.goTy)
						}
						fs = append(fs, fmt.Sprintf("%s := %s", f.coq, v.term))
					} else {
						fs = append(fs, fmt.Sprintf("%s := %s %s", f.coq, f.coq, b.coq))
					}
				}
				if !found {
					t.fail(l, "field %s", l.Sel.Name)
				}
				names = append(names, b.coq)
				terms = append(terms, "{| "+strings.Join(fs, "; ")+" |}")
			default:
				t.fail(lhs, "assignment target of kind %T", lhs)
			}
		}
		// two assignments to the same variable in one statement would need an order
		seen := map[string]bool{}
		for _, n := range names {
			if seen[n] {
				t.fail(s, "the same variable assigned twice in one statement")
			}
			seen[n] = true
		}
		body := rest(e1)
		switch len(names) {
		case 0:
			return body
		case 1:
			return fmt.Sprintf("let %s := %s in\n%s", names[0], terms[0], body)
		}
		return fmt.Sprintf("let '(%s) := (%s) in\n%s", strings.Join(names, ", "), strings.Join(terms, ", "), body)
	})
}

// the variable an identifier on the left of := or = stands for
func (t *tr) target(s *ast.AssignStmt, id *ast.Ident, ty string, e *env) (*env, *binding) {
	if ob := e.lookup(id.Name); ob != nil && (s.Tok == token.ASSIGN || e.inCurrent(id.Name)) {
		if ob.depth < t.depth {
			t.fail(id, "assignment inside a loop to %s, declared outside it", id.Name)
		}
		if ob.cStr != nil || ob.cInt != nil {
			t.fail(id, "assignment to the constant %s", id.Name)
		}
		if ob.ty != ty {
			t.fail(id, "value of type %s assigned to %s of type %s", ty, id.Name, ob.ty)
		}
		return e, ob
	}
	if s.Tok == token.ASSIGN {
		t.fail(id, "assignment to %s, which is not a local variable", id.Name)
	}
	return e.declare(id.Name, ty, t.depth)
}

// `x == nil` / `x != nil` as a complete condition, x a pointer of unknown nil-ness
func nilTest(c ast.Expr, e *env) (name string, eq bool, ok bool) {
	for {
		p, isP := c.(*ast.ParenExpr)
		if !isP {
			break
		}
		c = p.X
	}
	if u, isU := c.(*ast.UnaryExpr); isU && u.Op == token.NOT {
		n, q, k := nilTest(u.X, e)
		return n, !q, k
	}
	b, isB := c.(*ast.BinaryExpr)
	if !isB || (b.Op != token.EQL && b.Op != token.NEQ) {
		return "", false, false
	}
	var other ast.Expr
	if isNilIdent(b.Y, e) {
		other = b.X
	} else if isNilIdent(b.X, e) {
		other = b.Y
	} else {
		return "", false, false
	}
	id, isId := other.(*ast.Ident)
	if !isId {
		return "", false, false
	}
	bd := e.lookup(id.Name)
	if bd == nil || !strings.HasPrefix(bd.ty, "*") || bd.nilK != nilUnknown {
		return "", false, false
	}
	return id.Name, b.Op == token.EQL, true
}

func (t *tr) ifStmt(s *ast.IfStmt, e *env, rest cont) string {
	var initList []ast.Stmt
	if s.Init != nil {
		initList = []ast.Stmt{s.Init}
	}
	afterIf := func(e3 *env) string { return rest(e3.pop()) } // leaves the scope of the init statement
	return t.stmts(initList, e.push(), func(e2 *env) string {
		thenB := func(e3 *env) string {
			return t.stmts(s.Body.List, e3.push(), func(e4 *env) string { return afterIf(e4.pop()) })
		}
		elseB := func(e3 *env) string {
			if s.Else == nil {
				return afterIf(e3)
			}
			return t.stmts([]ast.Stmt{s.Else}, e3, afterIf)
		}
		if name, eq, ok := nilTest(s.Cond, e2); ok {
			b := e2.lookup(name)
			eNil := e2.update(name, func(b *binding) { b.nilK = nilYes })
			eVal := e2.update(name, func(b *binding) { b.nilK = nilNo })
			var onNil, onVal string
			if eq {
				onNil, onVal = thenB(eNil), elseB(eVal)
			} else {
				onNil, onVal = elseB(eNil), thenB(eVal)
			}
			return fmt.Sprintf("match %s with\n| None =>\n%s\n| Some %s =>\n%s\nend", b.coq, ind(onNil), b.coq, ind(onVal))
		}
		return t.eval(s.Cond, e2, func(c val) string {
			if !isBool(c.ty) {
				t.fail(s.Cond, "condition of type %s", c.ty)
			}
			if c.kb != nil {
				if *c.kb {
					return thenB(e2)
				}
				return elseB(e2)
			}
			return fmt.Sprintf("if %s then\n%s\nelse\n%s", c.term, ind(thenB(e2)), ind(elseB(e2)))
		})
	})
}

func (t *tr) rangeStmt(s *ast.RangeStmt, e *env, rest cont) string {
	if s.Tok != token.DEFINE && !(s.Key == nil && s.Value == nil) {
		t.fail(s, "range loop that assigns to existing variables")
	}
	if s.Key != nil {
		if id, ok := s.Key.(*ast.Ident); !ok || id.Name != "_" {
			t.fail(s, "range loop that uses the index")
		}
	}
	return t.eval(s.X, e, func(l val) string {
		if l.ty != "[]string" {
			t.fail(s.X, "range over type %s", l.ty)
		}
		e1 := e.push()
		coq := "_"
		t.depth++
		if s.Value != nil {
			id, ok := s.Value.(*ast.Ident)
			if !ok {
				t.fail(s.Value, "range value")
			}
			if id.Name != "_" {
				var b *binding
				e1, b = e1.declare(id.Name, "string", t.depth)
				coq = b.coq
			}
		}
		body := t.stmts(s.Body.List, e1.push(), func(*env) string { return "None" })
		t.depth--
		k := rest(e)
		return fmt.Sprintf("go_for_range (fun %s =>\n%s)\n  %s\n  (%s)", coq, ind(ind(body)), paren(l), strings.TrimLeft(ind(k), " "))
	})
}

func (t *tr) switchStmt(s *ast.SwitchStmt, e *env, rest cont) string {
	if s.Tag == nil {
		t.fail(s, "switch without a tag")
	}
	var initList []ast.Stmt
	if s.Init != nil {
		initList = []ast.Stmt{s.Init}
	}
	afterSw := func(e3 *env) string { return rest(e3.pop()) }
	return t.stmts(initList, e.push(), func(e2 *env) string {
		return t.eval(s.Tag, e2, func(tag val) string {
			tagTy := defaultType(tag.ty)
			if !isInt(tagTy) && !isStr(tagTy) {
				t.fail(s.Tag, "switch on type %s", tagTy)
			}
			type clause struct {
				consts []val
				body   []ast.Stmt
				node   *ast.CaseClause
			}
			var clauses []clause
			var deflt *ast.CaseClause
			seen := map[string]bool{}
			for _, st := range s.Body.List {
				cc := st.(*ast.CaseClause)
				if cc.List == nil {
					deflt = cc
					continue
				}
				cl := clause{body: cc.Body, node: cc}
				for _, cx := range cc.List {
					v := t.exprNoPartial(cx, e2)
					if v.cInt == nil && v.cStr == nil {
						t.fail(cx, "case value that is not a constant")
					}
					if !sameKind(v.ty, tagTy) || (!untyped(v.ty) && v.ty != tagTy) {
						t.fail(cx, "case value of type %s in a switch on %s", v.ty, tagTy)
					}
					key := ""
					if v.cInt != nil {
						key = "i:" + v.cInt.String()
					} else {
						key = "s:" + *v.cStr
					}
					if seen[key] {
						t.fail(cx, "duplicate case value")
					}
					seen[key] = true
					cl.consts = append(cl.consts, v)
				}
				clauses = append(clauses, cl)
			}
			dfltBody := func(e3 *env) string {
				if deflt == nil {
					return afterSw(e3)
				}
				return t.stmts(deflt.Body, e3.push(), func(e4 *env) string { return afterSw(e4.pop()) })
			}
			// table form: a switch on a string whose clauses only return constants
			if isStr(tagTy) && t.sp.table != "" && !t.auxSeen[t.sp.table] {
				var rows []string
				ok := true
				for _, cl := range clauses {
					if len(cl.body) != 1 {
						ok = false
						break
					}
					r, isRet := cl.body[0].(*ast.ReturnStmt)
					if !isRet || !t.constReturn(r, e2) {
						ok = false
						break
					}
					term := t.ret(r, e2)
					for _, c := range cl.consts {
						rows = append(rows, fmt.Sprintf("(%s, %s)", c.term, term))
					}
				}
				if ok {
					t.auxSeen[t.sp.table] = true
					var b strings.Builder
					fmt.Fprintf(&b, "Definition %s : list (bytes * (%s)) :=\n  [ ", t.sp.table, t.fullResTy())
					b.WriteString(strings.Join(rows, ";\n    "))
					b.WriteString(" ].\n")
					t.aux = append(t.aux, b.String())
					return fmt.Sprintf("go_switch_table %s %s\n  (%s)", paren(tag), t.sp.table, strings.TrimLeft(ind(dfltBody(e2)), " "))
				}
			}
			// general form: a chain of tests, in source order
			tagTerm := paren(tag)
			prefix := ""
			if !tag.atom {
				name := t.tmp()
				prefix = fmt.Sprintf("let %s := %s in\n", name, tag.term)
				tagTerm = name
			}
			out := dfltBody(e2)
			for i := len(clauses) - 1; i >= 0; i-- {
				cl := clauses[i]
				var tests []string
				for _, c := range cl.consts {
					if isStr(tagTy) {
						tests = append(tests, fmt.Sprintf("beq %s %s", tagTerm, paren(c)))
					} else {
						tests = append(tests, fmt.Sprintf("Z.eqb %s %s", tagTerm, paren(c)))
					}
				}
				body := t.stmts(cl.body, e2.push(), func(e4 *env) string { return afterSw(e4.pop()) })
				out = fmt.Sprintf("if %s then\n%s\nelse\n%s", strings.Join(tests, " || "), ind(body), ind(out))
			}
			return prefix + out
		})
	})
}

// a return statement whose values mention no variable
func (t *tr) constReturn(r *ast.ReturnStmt, e *env) bool {
	closed := true
	for _, x := range r.Results {
		ast.Inspect(x, func(n ast.Node) bool {
			if id, ok := n.(*ast.Ident); ok && e.lookup(id.Name) != nil {
				closed = false
			}
			return true
		})
	}
	return closed
}

// ---------------------------------------------------------------- returns (result adapter)

func (t *tr) errCode(x ast.Expr, e *env) (string, bool) {
	switch x := x.(type) {
	case *ast.Ident:
		if e.lookup(x.Name) == nil {
			if ci, ok := t.p.consts[x.Name]; ok && ci.ty == "ErrorCode" {
				return x.Name, true
			}
		}
	case *ast.CallExpr:
		// ErrorMessage(code, text): an error with that code (the text is not modelled)
		if id, ok := x.Fun.(*ast.Ident); ok && id.Name == "ErrorMessage" && e.lookup(id.Name) == nil && len(x.Args) == 2 {
			return t.errCode(x.Args[0], e)
		}
	}
	return "", false
}

func (t *tr) ret(s *ast.ReturnStmt, e *env) string {
	saved := t.pend
	t.pend = nil
	var shapes []string
	args := map[string]string{}
	for _, x := range s.Results {
		if isNilIdent(x, e) {
			shapes = append(shapes, "nil")
			continue
		}
		if code, ok := t.errCode(x, e); ok {
			shapes = append(shapes, "err:"+code)
			continue
		}
		if u, ok := x.(*ast.UnaryExpr); ok && u.Op == token.AND {
			switch in := u.X.(type) {
			case *ast.CompositeLit:
				id, ok := in.Type.(*ast.Ident)
				if !ok {
					t.fail(x, "composite literal")
				}
				sm, ok := structTable[id.Name]
				if !ok {
					t.fail(x, "composite literal of type %s", id.Name)
				}
				for _, f := range sm.fields {
					args[f.goName] = t.zero(x, f.goTy)
				}
				given := map[string]bool{}
				for _, el := range in.Elts {
					kv, ok := el.(*ast.KeyValueExpr)
					if !ok {
						t.fail(el, "composite literal without field names")
					}
					key, ok := kv.Key.(*ast.Ident)
					if !ok {
						t.fail(el, "composite literal key")
					}
					var fm *fieldMap
					for i := range sm.fields {
						if sm.fields[i].goName == key.Name {
							fm = &sm.fields[i]
						}
					}
					if fm == nil || given[key.Name] {
						t.fail(el, "field %s of %s", key.Name, id.Name)
					}
					given[key.Name] = true
					v := t.expr(kv.Value, e)
					if !(v.ty == fm.goTy || (untyped(v.ty) && sameKind(v.ty, fm.goTy))) {
						t.fail(el, "value of type %s for field %s of type %s", v.ty, fm.goName, fm.goTy)
					}
					args[key.Name] = paren(v)
				}
				shapes = append(shapes, "&"+id.Name)
				continue
			case *ast.Ident:
				b := e.lookup(in.Name)
				if b == nil || !strings.HasPrefix(b.ty, "struct:") {
					t.fail(x, "address of something other than a local struct value")
				}
				if b.poison != "" {
					t.fail(x, "%s", b.poison)
				}
				args[strconv.Itoa(len(shapes))] = b.coq
				shapes = append(shapes, "&var:"+b.ty[7:])
				continue
			}
			t.fail(x, "address-of expression")
		}
		v := t.expr(x, e)
		args[strconv.Itoa(len(shapes))] = paren(v)
		shapes = append(shapes, "expr:"+defaultType(v.ty))
	}
	binds := t.pend
	t.pend = saved
	key := strings.Join(shapes, ",")
	tmpl, ok := t.sp.rets[key]
	if !ok {
		var known []string
		for k := range t.sp.rets {
			known = append(known, k)
		}
		sort.Strings(known)
		t.fail(s, "return of shape (%s) has no result adapter in %s (known: %s)", key, t.sp.key, strings.Join(known, " | "))
	}
	var names []string
	for k := range args {
		names = append(names, k)
	}
	sort.Strings(names)
	for _, k := range names {
		tmpl = strings.ReplaceAll(tmpl, "{"+k+"}", args[k])
	}
	return t.wrapBinds(binds, t.wrapRet(tmpl))
}

// ---------------------------------------------------------------- functions

func translateFunc(p *pkg, sp *funcSpec, fd *ast.FuncDecl) string {
	var body, header string
	var aux []string
	mayPanic := false
	for pass := 0; pass < 2; pass++ {
		t := &tr{p: p, sp: sp, mayPanic: mayPanic, auxSeen: map[string]bool{}}
		if fd.Body == nil {
			t.fail(fd, "function without a body")
		}
		if fd.Type.TypeParams != nil {
			t.fail(fd, "generic function")
		}
		e := (&env{}).push()
		var params []string
		addParam := func(id *ast.Ident, tyx ast.Expr) {
			ty := t.goType(tyx)
			if id.Name == "_" {
				t.fail(id, "blank parameter")
			}
			var b *binding
			e, b = e.declare(id.Name, ty, 0)
			params = append(params, fmt.Sprintf("(%s : %s)", b.coq, t.coqType(tyx, ty)))
		}
		if fd.Recv != nil {
			for _, f := range fd.Recv.List {
				if len(f.Names) != 1 {
					t.fail(fd, "receiver without a name")
				}
				addParam(f.Names[0], f.Type)
			}
		}
		for _, f := range fd.Type.Params.List {
			if len(f.Names) == 0 {
				t.fail(f, "parameter without a name")
			}
			for _, n := range f.Names {
				addParam(n, f.Type)
			}
		}
		if fd.Type.Results != nil {
			for _, f := range fd.Type.Results.List {
				if len(f.Names) != 0 {
					t.fail(f, "named results")
				}
			}
		}
		body = t.stmts(fd.Body.List, e.push(), func(*env) string {
			t.fail(fd.Body, "control reaches the end of %s without a return", fd.Name.Name)
			return ""
		})
		aux = t.aux
		if t.sawPartial && !mayPanic {
			mayPanic = true
			continue
		}
		// header and the companion definition
		var argNames []string
		for _, pr := range params {
			argNames = append(argNames, pr[1:strings.Index(pr, " ")])
		}
		ps := strings.Join(params, " ")
		as := strings.Join(argNames, " ")
		var b strings.Builder
		for _, a := range aux {
			b.WriteString(a + "\n")
		}
		fmt.Fprintf(&b, "(* %s *)\n", sp.key)
		if mayPanic {
			fmt.Fprintf(&b, "Definition %s_o %s : outcome (%s) :=\n%s.\n\n", sp.coq, ps, sp.resTy, ind(body))
			fmt.Fprintf(&b, "Definition %s %s : %s :=\n  outcome_get (%s) (%s_o %s).\n", sp.coq, ps, sp.resTy, sp.dflt, sp.coq, as)
		} else {
			fmt.Fprintf(&b, "Definition %s %s : %s :=\n%s.\n\n", sp.coq, ps, sp.resTy, ind(body))
			fmt.Fprintf(&b, "Definition %s_o %s : outcome (%s) :=\n  Val (%s %s).\n", sp.coq, ps, sp.resTy, sp.coq, as)
		}
		header = b.String()
		break
	}
	return header
}
