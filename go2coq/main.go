// go2coq regenerates Gallina definitions from a restricted subset of Go.
//
//	go2coq -src <dir with the .go files> -out <dir for Gen/*.v>
//
// Anything outside the supported subset is an error:
//
//	go2coq: unsupported: <file>:<line>: <what>
package main

import (
	"flag"
	"fmt"
	"go/ast"
	"go/parser"
	"go/token"
	"os"
	"path/filepath"
	"sort"
	"strconv"
	"strings"
)

// ---------------------------------------------------------------- errors

type unsupported struct {
	pos string
	msg string
}

func failAt(fset *token.FileSet, p token.Pos, format string, args ...interface{}) {
	where := "?:0"
	if fset != nil && p.IsValid() {
		pp := fset.Position(p)
		where = fmt.Sprintf("%s:%d", filepath.Base(pp.Filename), pp.Line)
	}
	panic(unsupported{where, fmt.Sprintf(format, args...)})
}

// ---------------------------------------------------------------- package facts

type constInfo struct {
	name string
	ty   string // "" = untyped
	expr ast.Expr
	pos  token.Pos
}

type pkg struct {
	fset    *token.FileSet
	consts  map[string]*constInfo
	corder  []string // const names in source order (file name, then position)
	vars    map[string]*ast.ValueSpec
	varIdx  map[string]int
	structs map[string]*ast.StructType
	funcs   map[string]*ast.FuncDecl // "Recv.Name" or "Name"
	fileOf  map[string]string
}

func load(dir string) *pkg {
	p := &pkg{fset: token.NewFileSet(), consts: map[string]*constInfo{}, vars: map[string]*ast.ValueSpec{},
		varIdx: map[string]int{}, structs: map[string]*ast.StructType{}, funcs: map[string]*ast.FuncDecl{}, fileOf: map[string]string{}}
	ents, err := os.ReadDir(dir)
	if err != nil {
		panic(unsupported{dir + ":0", "cannot read source directory: " + err.Error()})
	}
	var names []string
	for _, e := range ents {
		n := e.Name()
		if e.IsDir() || !strings.HasSuffix(n, ".go") || strings.HasSuffix(n, "_test.go") {
			continue
		}
		names = append(names, n)
	}
	sort.Strings(names)
	for _, n := range names {
		f, err := parser.ParseFile(p.fset, filepath.Join(dir, n), nil, parser.SkipObjectResolution)
		if err != nil {
			msg := strings.ReplaceAll(err.Error(), "\n", " ")
			panic(unsupported{n + ":0", "parse error: " + msg})
		}
		for _, d := range f.Decls {
			switch d := d.(type) {
			case *ast.FuncDecl:
				key := d.Name.Name
				if d.Recv != nil && len(d.Recv.List) == 1 {
					key = recvTypeName(d.Recv.List[0].Type) + "." + key
				}
				p.funcs[key] = d
				p.fileOf[key] = n
			case *ast.GenDecl:
				for _, s := range d.Specs {
					switch s := s.(type) {
					case *ast.ValueSpec:
						if d.Tok == token.CONST {
							ty := ""
							if id, ok := s.Type.(*ast.Ident); ok {
								ty = id.Name
							}
							for i, nm := range s.Names {
								ci := &constInfo{name: nm.Name, ty: ty, pos: nm.Pos()}
								if i < len(s.Values) {
									ci.expr = s.Values[i]
								}
								p.consts[nm.Name] = ci
								p.corder = append(p.corder, nm.Name)
							}
						} else {
							for i, nm := range s.Names {
								p.vars[nm.Name] = s
								p.varIdx[nm.Name] = i
							}
						}
					case *ast.TypeSpec:
						if st, ok := s.Type.(*ast.StructType); ok {
							p.structs[s.Name.Name] = st
						}
					}
				}
			}
		}
	}
	return p
}

func recvTypeName(e ast.Expr) string {
	switch e := e.(type) {
	case *ast.StarExpr:
		return recvTypeName(e.X)
	case *ast.Ident:
		return e.Name
	}
	return "?"
}

// ---------------------------------------------------------------- fixed tables

// net/http status constants (numeric values are part of the Go 1 API).
var httpStatus = map[string]int{
	"StatusContinue": 100, "StatusSwitchingProtocols": 101, "StatusProcessing": 102, "StatusEarlyHints": 103,
	"StatusOK": 200, "StatusCreated": 201, "StatusAccepted": 202, "StatusNonAuthoritativeInfo": 203,
	"StatusNoContent": 204, "StatusResetContent": 205, "StatusPartialContent": 206, "StatusMultiStatus": 207,
	"StatusAlreadyReported": 208, "StatusIMUsed": 226,
	"StatusMultipleChoices": 300, "StatusMovedPermanently": 301, "StatusFound": 302, "StatusSeeOther": 303,
	"StatusNotModified": 304, "StatusUseProxy": 305, "StatusTemporaryRedirect": 307, "StatusPermanentRedirect": 308,
	"StatusBadRequest": 400, "StatusUnauthorized": 401, "StatusPaymentRequired": 402, "StatusForbidden": 403,
	"StatusNotFound": 404, "StatusMethodNotAllowed": 405, "StatusNotAcceptable": 406, "StatusProxyAuthRequired": 407,
	"StatusRequestTimeout": 408, "StatusConflict": 409, "StatusGone": 410, "StatusLengthRequired": 411,
	"StatusPreconditionFailed": 412, "StatusRequestEntityTooLarge": 413, "StatusRequestURITooLong": 414,
	"StatusUnsupportedMediaType": 415, "StatusRequestedRangeNotSatisfiable": 416, "StatusExpectationFailed": 417,
	"StatusTeapot": 418, "StatusMisdirectedRequest": 421, "StatusUnprocessableEntity": 422, "StatusLocked": 423,
	"StatusFailedDependency": 424, "StatusTooEarly": 425, "StatusUpgradeRequired": 426, "StatusPreconditionRequired": 428,
	"StatusTooManyRequests": 429, "StatusRequestHeaderFieldsTooLarge": 431, "StatusUnavailableForLegalReasons": 451,
	"StatusInternalServerError": 500, "StatusNotImplemented": 501, "StatusBadGateway": 502, "StatusServiceUnavailable": 503,
	"StatusGatewayTimeout": 504, "StatusHTTPVersionNotSupported": 505, "StatusVariantAlsoNegotiates": 506,
	"StatusInsufficientStorage": 507, "StatusLoopDetected": 508, "StatusNotExtended": 510,
	"StatusNetworkAuthenticationRequired": 511,
}

// Go struct -> existing Coq record.  The Go declaration is checked against this table.
type fieldMap struct{ goName, goTy, coq string }
type structMap struct {
	record string // "" = only usable in a result adapter
	fields []fieldMap
}

var structTable = map[string]structMap{
	"ObjectRangeRequest": {"range_req", []fieldMap{{"Start", "int64", "rq_start"}, {"End", "int64", "rq_end"}, {"FromEnd", "bool", "rq_from_end"}}},
	"ObjectRange":        {"", []fieldMap{{"Start", "int64", ""}, {"Length", "int64", ""}}},
}

// one function to translate
type funcSpec struct {
	out     string            // output file (without .v)
	key     string            // "Recv.Name" or "Name"
	coq     string            // name of the generated definition
	resTy   string            // Coq result type
	dflt    string            // value of the plain variant if the outcome variant says Panic
	rets    map[string]string // result adapter: return shape -> Coq term template
	table   string            // name for a switch table, if one is produced
	named   bool              // refer to ErrorCode constants by their generated names
	post    string            // extra fixed definitions appended after the function
	imports string
}

var specs = []funcSpec{
	{out: "RangeGen", key: "ObjectRangeRequest.Range", coq: "range_go_gen_ptr", resTy: "option range_result", dflt: "None",
		rets: map[string]string{
			"nil,nil":                 "None",
			"nil,err:ErrInvalidRange": "Some RInvalid",
			"&ObjectRange,nil":        "Some (ROk {Start} {Length})",
		},
		post: "(* the receiver is known not to be nil *)\n" +
			"Definition range_go_gen (o : range_req) (size : Z) : range_result :=\n" +
			"  match range_go_gen_ptr (Some o) size with Some r => r | None => RInvalid end.\n",
		imports: "Model.Range"},
	{out: "RangeGen", key: "parseRangeHeader", coq: "parse_range_header_gen", resTy: "hdr_result", dflt: "HInvalid",
		rets: map[string]string{
			"nil,nil":                     "HNone",
			"nil,err:ErrInvalidRange":     "HInvalid",
			"nil,err:ErrNotImplemented":   "HNotImplemented",
			"&var:ObjectRangeRequest,nil": "HReq {0}",
		},
		imports: "Model.Range"},
	{out: "ErrorsGen", key: "ErrorCode.Status", coq: "status_of_code_gen", resTy: "Z", dflt: "500%Z",
		rets:  map[string]string{"expr:int": "{0}"},
		table: "status_table_gen", named: true},
	{out: "NameGen", key: "ValidateBucketName", coq: "validate_gen", resTy: "bool", dflt: "false",
		rets: map[string]string{
			"nil":                      "true",
			"err:ErrInvalidBucketName": "false",
		}},
}

// ---------------------------------------------------------------- driver

func main() {
	src := flag.String("src", "", "directory containing the .go files")
	out := flag.String("out", "", "output directory for the generated .v files")
	only := flag.String("only", "", "comma-separated output files to generate (RangeGen, ErrorsGen, NameGen); default all")
	flag.Parse()
	if *src == "" || *out == "" {
		fmt.Fprintln(os.Stderr, "usage: go2coq -src <dir containing the .go files> -out <dir>")
		os.Exit(2)
	}
	sel := map[string]bool{}
	for _, n := range strings.Split(*only, ",") {
		if n != "" {
			sel[n] = true
		}
	}
	code := run(*src, *out, sel)
	os.Exit(code)
}

func run(src, out string, sel map[string]bool) (code int) {
	defer func() {
		if r := recover(); r != nil {
			if u, ok := r.(unsupported); ok {
				fmt.Fprintf(os.Stderr, "go2coq: unsupported: %s: %s\n", u.pos, u.msg)
				code = 1
				return
			}
			panic(r)
		}
	}()
	p := load(src)
	if len(sel) == 0 || sel["RangeGen"] {
		checkStructs(p)
	}

	files := map[string]*strings.Builder{}
	var order []string
	srcs := map[string][]string{}
	for i := range specs {
		sp := &specs[i]
		if len(sel) > 0 && !sel[sp.out] {
			continue
		}
		fd, ok := p.funcs[sp.key]
		if !ok {
			panic(unsupported{filepath.Base(src) + ":0", "function " + sp.key + " not found"})
		}
		b, ok := files[sp.out]
		if !ok {
			b = &strings.Builder{}
			files[sp.out] = b
			order = append(order, sp.out)
		}
		srcs[sp.out] = append(srcs[sp.out], p.fileOf[sp.key]+":"+sp.key)
		if sp.named {
			b.WriteString(emitCodes(p))
		}
		b.WriteString(translateFunc(p, sp, fd))
		if sp.post != "" {
			b.WriteString("\n" + sp.post)
		}
		b.WriteString("\n")
	}
	if err := os.MkdirAll(out, 0o755); err != nil {
		panic(unsupported{out + ":0", err.Error()})
	}
	for _, name := range order {
		var h strings.Builder
		fmt.Fprintf(&h, "(* GENERATED by go2coq -- do not edit.  Source: %s *)\n", strings.Join(srcs[name], ", "))
		h.WriteString("From GF Require Import Base.Bytes Base.Int64 Base.GoLib")
		imps := map[string]bool{}
		for i := range specs {
			if specs[i].out == name && specs[i].imports != "" && !imps[specs[i].imports] {
				imps[specs[i].imports] = true
				h.WriteString(" " + specs[i].imports)
			}
		}
		h.WriteString(".\n\n")
		h.WriteString(files[name].String())
		if err := os.WriteFile(filepath.Join(out, name+".v"), []byte(h.String()), 0o644); err != nil {
			panic(unsupported{name + ".v:0", err.Error()})
		}
	}
	return 0
}

// the Go struct declarations must be exactly what the struct table was written for
func checkStructs(p *pkg) {
	var names []string
	for n := range structTable {
		names = append(names, n)
	}
	sort.Strings(names)
	for _, n := range names {
		st, ok := p.structs[n]
		if !ok {
			panic(unsupported{"?:0", "struct " + n + " not found"})
		}
		var got []string
		for _, f := range st.Fields.List {
			ty := "?"
			if id, ok := f.Type.(*ast.Ident); ok {
				ty = id.Name
			}
			if len(f.Names) == 0 {
				got = append(got, "<embedded> "+ty)
			}
			for _, nm := range f.Names {
				got = append(got, nm.Name+" "+ty)
			}
		}
		var want []string
		for _, f := range structTable[n].fields {
			want = append(want, f.goName+" "+f.goTy)
		}
		if strings.Join(got, "; ") != strings.Join(want, "; ") {
			failAt(p.fset, st.Pos(), "struct %s is {%s}, the translator knows it as {%s}", n, strings.Join(got, "; "), strings.Join(want, "; "))
		}
	}
}

// every ErrorCode constant as a named byte string, in source order
func emitCodes(p *pkg) string {
	var b strings.Builder
	b.WriteString("(* the ErrorCode constants *)\n")
	for _, n := range p.corder {
		ci := p.consts[n]
		if ci.ty != "ErrorCode" {
			continue
		}
		lit, ok := ci.expr.(*ast.BasicLit)
		if !ok || lit.Kind != token.STRING {
			failAt(p.fset, ci.pos, "ErrorCode constant %s is not a string literal", n)
		}
		s, err := strconv.Unquote(lit.Value)
		if err != nil {
			failAt(p.fset, ci.pos, "bad string literal for %s", n)
		}
		fmt.Fprintf(&b, "Definition code_%s : bytes := %s. (* %s *)\n", n, bytesLit(s), coqComment(s))
	}
	b.WriteString("\n")
	return b.String()
}

func bytesLit(s string) string {
	if len(s) == 0 {
		return "([] : bytes)"
	}
	parts := make([]string, len(s))
	for i := 0; i < len(s); i++ {
		parts[i] = strconv.Itoa(int(s[i]))
	}
	return "[" + strings.Join(parts, "; ") + "]%N"
}

// text safe inside a Coq comment (Coq lexes string quotes inside comments)
func coqComment(s string) string {
	q := strconv.Quote(s)
	q = q[1 : len(q)-1]
	q = strings.ReplaceAll(q, "\"", "'")
	q = strings.ReplaceAll(q, "(*", "( *")
	q = strings.ReplaceAll(q, "*)", "* )")
	return "'" + q + "'"
}
