(* error.go: ErrorCode.Status and the ErrorCode constants as regenerated = Model/Errors.v.
   HAND-WRITTEN, FIXED: this file is not regenerated; bin/check re-checks it against the definition
   that go2coq regenerates from /repo's Go source on every run (Gen/ErrorsGen.v).  If it stops compiling, the
   Go function no longer computes what the model says (or the translation changed shape beyond what
   the case-analysis tactics of Proofs/GenTactics.v absorb). *)
From GF Require Import Base.Bytes Base.Int64 Base.Lit Base.GoLib.
From GF Require Import Model.ParseInt Model.Range Model.Errors Model.BucketName.
From GF Require Import Spec.RangeSpec Spec.NameSpec.
From GF Require Import Proofs.BytesFacts Proofs.RangeProofs Proofs.NameProofs Proofs.PrefixProofs.
From Coq Require Import ZifyBool ZifyNat.
From GF Require Import Proofs.GenTactics Gen.ErrorsGen.
Open Scope Z_scope.

(* ------------------------------------------------------------------ (c) ErrorCode.Status *)

Lemma switch_table_status_for t c : go_switch_table c t 500 = status_for c t.
Proof.
  induction t as [|[k v] t IH]; [reflexivity|].
  cbn [go_switch_table status_for]. rewrite (beq_sym c k). rewrite IH. reflexivity.
Qed.

Lemma status_for_notin c t : ~ In c (map fst t) -> status_for c t = 500.
Proof.
  induction t as [|[k v] t IH]; [reflexivity|]. cbn [map fst In status_for]. intros H.
  destruct (beq k c) eqn:E.
  - apply beq_eq in E. exfalso. apply H. left. exact E.
  - apply IH. intros Hin. apply H. right. exact Hin.
Qed.

(* two tables that agree on every key of either agree everywhere (order is irrelevant) *)
Lemma status_for_ext t1 t2 :
  forallb (fun k => Z.eqb (status_for k t1) (status_for k t2)) (map fst t1 ++ map fst t2) = true ->
  forall c, status_for c t1 = status_for c t2.
Proof.
  intros H c. rewrite forallb_forall in H.
  destruct (in_dec (list_eq_dec N.eq_dec) c (map fst t1 ++ map fst t2)) as [Hin|Hout].
  - apply Z.eqb_eq. apply H. exact Hin.
  - rewrite !status_for_notin; [reflexivity| |]; intros Hin; apply Hout; apply in_or_app; auto.
Qed.

Theorem status_gen_eq : forall c, status_of_code_gen c = status_of_code c.
Proof.
  intros c. unfold status_of_code_gen, status_of_code.
  rewrite switch_table_status_for.
  apply status_for_ext. vm_compute. reflexivity.
Qed.

(* the ErrorCode constants the other models rely on, as read from error.go *)
Theorem codes_gen_eq :
  code_ErrInvalidRange = B "InvalidRange" /\ code_ErrNotImplemented = B "NotImplemented" /\
  code_ErrInvalidBucketName = B "InvalidBucketName" /\ code_ErrInternal = B "InternalError" /\
  code_ErrNoSuchBucket = B "NoSuchBucket" /\ code_ErrNoSuchKey = B "NoSuchKey".
Proof. repeat split; vm_compute; reflexivity. Qed.

(* ------------------------------------------------------------------ Status, C09 *)

Theorem gen_status_table_sane :
  forall c, 300 <= status_of_code_gen c <= 599.
Proof.
  intros c. rewrite status_gen_eq. unfold status_of_code.
  assert (H : forallb (fun cs => (300 <=? snd cs) && (snd cs <=? 599)) status_table = true)
    by (vm_compute; reflexivity).
  rewrite forallb_forall in H. revert H. generalize status_table as t.
  induction t as [|[k v] t IH]; intros H; cbn [status_for]; [lia|].
  destruct (beq k c).
  - specialize (H (k, v) (or_introl eq_refl)). cbn [snd] in H. lia.
  - apply IH. intros x Hx. apply H. right. exact Hx.
Qed.

Example status_gen_ex_416 : status_of_code_gen (B "InvalidRange") = 416.
Proof. vm_compute. reflexivity. Qed.
Example status_gen_ex_unknown : status_of_code_gen (B "NoSuchThing") = 500.
Proof. vm_compute. reflexivity. Qed.


Print Assumptions status_gen_eq.
