(* validation.go: ValidateBucketName as regenerated = Model/BucketName.v; the C17 theorems restated for the regenerated function.
   HAND-WRITTEN, FIXED: this file is not regenerated; bin/check re-checks it against the definition
   that go2coq regenerates from /repo's Go source on every run (Gen/NameGen.v).  If it stops compiling, the
   Go function no longer computes what the model says (or the translation changed shape beyond what
   the case-analysis tactics of Proofs/GenTactics.v absorb). *)
From GF Require Import Base.Bytes Base.Int64 Base.Lit Base.GoLib.
From GF Require Import Model.ParseInt Model.Range Model.Errors Model.BucketName.
From GF Require Import Spec.RangeSpec Spec.NameSpec.
From GF Require Import Proofs.BytesFacts Proofs.RangeProofs Proofs.NameProofs Proofs.PrefixProofs.
From Coq Require Import ZifyBool ZifyNat.
From GF Require Import Proofs.GenTactics Gen.NameGen.
Open Scope Z_scope.

(* ------------------------------------------------------------------ (d) ValidateBucketName *)

(* the regular expression in validation.go is the one [pattern] was hand-compiled from *)
Lemma bucketNamePattern_known : bucketNamePattern_src = bucket_name_regexp_src.
Proof. vm_compute. reflexivity. Qed.

Lemma bucketNamePattern_match s : go_regexp_match_string bucketNamePattern_src s = pattern s.
Proof.
  unfold go_regexp_match_string. rewrite bucketNamePattern_known, beq_refl. reflexivity.
Qed.

(* a loop that only looks for a reason to return false is a forallb *)
Lemma for_range_forallb {A : Type} (P : A -> bool) (body : A -> option bool) l :
  (forall x, body x = if P x then None else Some false) ->
  go_for_range body l true = forallb P l.
Proof.
  intros Hb. induction l as [|x l IH]; [reflexivity|].
  cbn [go_for_range forallb]. rewrite Hb. destruct (P x); [exact IH|reflexivity].
Qed.

Theorem validate_gen_eq : forall name, validate_gen name = validate name.
Proof.
  intros name. unfold validate_gen, validate, len_ok.
  unfold go_net_parse_ip_ok, go_strings_split_byte. cbv zeta.
  repeat rewrite bucketNamePattern_match.
  match goal with
  | |- context [go_for_range ?b ?l true] =>
      rewrite (for_range_forallb pattern b l)
        by (intros x; cbv beta; rewrite ?bucketNamePattern_match; destruct (pattern x); reflexivity)
  end.
  unfold dot. cases 8%nat.
Qed.

(* ------------------------------------------------------------------ the C17 theorems, for the
   generated validator *)

Theorem gen_validate_eq_valid : forall s, validate_gen s = valid s.
Proof. intros s. rewrite validate_gen_eq. apply validate_eq_valid. Qed.

Definition name_create_gen (existing : list (list N)) (name : list N) : list (list N) * bool :=
  if validate_gen name && negb (existsb (beq name) existing) then (name :: existing, true)
  else (existing, false).

Theorem gen_create_iff : forall existing name,
  snd (name_create_gen existing name) = true <->
  valid name = true /\ existsb (beq name) existing = false.
Proof.
  intros existing name. unfold name_create_gen. rewrite validate_gen_eq.
  exact (create_iff existing name).
Qed.

Theorem gen_create_refused_creates_nothing : forall existing name,
  snd (name_create_gen existing name) = false -> fst (name_create_gen existing name) = existing.
Proof.
  intros existing name. unfold name_create_gen. rewrite validate_gen_eq.
  exact (create_refused_creates_nothing existing name).
Qed.

Example C17_gen_ex_ok : validate_gen (B "my-bucket.v20.example") = true. Proof. reflexivity. Qed.
Example C17_gen_ex_ip : validate_gen (B "100.200.100.200") = false. Proof. reflexivity. Qed.
Example C17_gen_ex_short_label : validate_gen (B "abc.de") = false. Proof. reflexivity. Qed.
Example C17_gen_ex_len64 : validate_gen (repeat 97%N 64) = false. Proof. reflexivity. Qed.
Example C17_gen_ex_len63 : validate_gen (repeat 97%N 63) = true. Proof. reflexivity. Qed.


Print Assumptions validate_gen_eq.
