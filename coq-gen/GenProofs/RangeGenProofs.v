(* range.go: ObjectRangeRequest.Range and parseRangeHeader as regenerated = Model/Range.v; the C11 theorems restated for the regenerated functions.
   HAND-WRITTEN, FIXED: this file is not regenerated; bin/check re-checks it against the definition
   that go2coq regenerates from /repo's Go source on every run (Gen/RangeGen.v).  If it stops compiling, the
   Go function no longer computes what the model says (or the translation changed shape beyond what
   the case-analysis tactics of Proofs/GenTactics.v absorb). *)
From GF Require Import Base.Bytes Base.Int64 Base.Lit Base.GoLib.
From GF Require Import Model.ParseInt Model.Range Model.Errors Model.BucketName.
From GF Require Import Spec.RangeSpec Spec.NameSpec.
From GF Require Import Proofs.BytesFacts Proofs.RangeProofs Proofs.NameProofs Proofs.PrefixProofs.
From Coq Require Import ZifyBool ZifyNat.
From GF Require Import Proofs.GenTactics Gen.RangeGen.
Open Scope Z_scope.

(* ------------------------------------------------------------------ (a) Range *)

Theorem range_go_gen_ptr_eq : forall o size,
  range_go_gen_ptr o size = option_map (fun r => range_go r size) o.
Proof.
  intros [[st en fe]|] size; [|reflexivity].
  unfold range_go_gen_ptr, range_go, range_no_end, option_map.
  cbn [rq_start rq_end rq_from_end]. cbv zeta.
  cases 12%nat.
Qed.

Theorem range_go_gen_eq : forall o size, range_go_gen o size = range_go o size.
Proof.
  intros o size. unfold range_go_gen. rewrite range_go_gen_ptr_eq. reflexivity.
Qed.

(* a nil request gives no range *)
Theorem range_go_gen_nil : forall size, range_go_gen_ptr None size = None.
Proof. intros size. rewrite range_go_gen_ptr_eq. reflexivity. Qed.

(* ------------------------------------------------------------------ (b) parseRangeHeader *)

Lemma trim_space_left_length s : (length (trim_space_left s) <= length s)%nat.
Proof.
  induction s as [|c s IH]; [apply Nat.le_refl|]. cbn [trim_space_left].
  destruct (is_space c); cbn [length]; lia.
Qed.

Lemma trim_space_length s : (length (trim_space s) <= length s)%nat.
Proof.
  unfold trim_space. rewrite rev_length.
  pose proof (trim_space_left_length (rev (trim_space_left s))) as H1.
  rewrite rev_length in H1. pose proof (trim_space_left_length s). lia.
Qed.

Lemma split_single d s r : split d s = [r] -> r = s.
Proof. intros H. pose proof (join_split d s) as J. rewrite H in J. exact J. Qed.

Lemma prefixb_blen p s : prefixb p s = true -> blen p <= blen s.
Proof.
  unfold blen. revert s. induction p as [|x p IH]; intros s H; cbn [length]; [lia|].
  destruct s as [|y s]; cbn [prefixb] in H; [discriminate|].
  apply andb_prop in H as [_ H]. apply IH in H. cbn [length]. lia.
Qed.

(* strings.Index against the model's [cut] *)
Lemma cut_index d s :
  match index_byte d s with
  | None => cut d s = (s, None)
  | Some i => (i < length s)%nat /\ cut d s = (firstn i s, Some (skipn (S i) s))
  end.
Proof.
  induction s as [|c s IH]; [reflexivity|]. cbn [index_byte cut].
  destruct (N.eqb c d).
  - split; [cbn [length]; lia|reflexivity].
  - destruct (index_byte d s) as [i|].
    + destruct IH as [Hi Hc]. rewrite Hc. split; [cbn [length]; lia|reflexivity].
    + rewrite IH. reflexivity.
Qed.

Lemma go_slice_from_ok s a :
  0 <= a <= blen s -> go_slice_from s a = Val (skipn (Z.to_nat a) s).
Proof.
  intros H. unfold go_slice_from.
  destruct (0 <=? a) eqn:E1; [|lia]. destruct (a <=? blen s) eqn:E2; [|lia]. reflexivity.
Qed.

Lemma go_slice_to_ok s b :
  0 <= b <= blen s -> go_slice_to s b = Val (firstn (Z.to_nat b) s).
Proof.
  intros H. unfold go_slice_to.
  destruct (0 <=? b) eqn:E1; [|lia]. destruct (b <=? blen s) eqn:E2; [|lia]. reflexivity.
Qed.

Lemma go_index_strs_0 x l : go_index_strs (x :: l) 0 = Val x.
Proof. reflexivity. Qed.

Lemma add64_small a b : in64 (a + b) -> add64 a b = a + b.
Proof. intros H. unfold add64. apply wrap64_id. exact H. Qed.

(* rewrite every slice whose bounds follow from the facts at hand *)
Ltac slices :=
  repeat match goal with
  | |- context [add64 ?a ?b] =>
      rewrite (add64_small a b) by (unfold in64, min64, max64, blen in *; cbn [length] in *; lia)
  | |- context [go_slice_from ?s ?a] =>
      rewrite (go_slice_from_ok s a) by (unfold max64, blen in *; cbn [length] in *; lia)
  | |- context [go_slice_to ?s ?a] =>
      rewrite (go_slice_to_ok s a) by (unfold max64, blen in *; cbn [length] in *; lia)
  end.

(* The generated parser never panics and returns what the model returns.  The bound on the
   length is what Go guarantees for any string (len fits an int); it is needed for i+1. *)
Theorem parse_range_header_gen_o_eq : forall s,
  blen s <= max64 -> parse_range_header_gen_o s = Val (parse_range_header s).
Proof.
  intros s Hlen. unfold parse_range_header_gen_o, parse_range_header.
  unfold go_strings_has_prefix, go_strings_split_byte, go_strings_trim_space,
    go_strconv_parse_int64, go_strings_index_byte, bytes_eq_prefix, range_no_end.
  destruct s as [|c0 s0]; [reflexivity|]. cbn [beq]. cbv zeta.
  remember (c0 :: s0) as s eqn:Hs.
  assert (Hsz : blen s <> 0) by (subst s; unfold blen; cbn [length]; lia).
  match goal with |- context [prefixb ?p s] => destruct (prefixb p s) eqn:Hp end;
    cbn [negb]; [|clear Hs; cases 3%nat].
  assert (Hp6 : 6 <= blen s) by (apply (prefixb_blen _ _ Hp)).
  slices. change (Z.to_nat 6) with 6%nat.
  assert (Hrest : (length (skipn 6 s) <= length s)%nat) by (rewrite skipn_length; lia).
  destruct (split 44 (skipn 6 s)) as [|r0 [|r1 rs]] eqn:Hsp.
  - exfalso. exact (split_nonempty _ _ Hsp).
  - apply split_single in Hsp. unfold go_len_strs. cbn [length].
    rewrite go_index_strs_0.
    pose proof (trim_space_length r0) as Hr0.
    destruct (trim_space r0) as [|c1 s1] eqn:Hr; [clear Hs; cases 4%nat|].
    remember (c1 :: s1) as rnge eqn:Hrn.
    assert (Hne : (0 < length rnge)%nat) by (subst rnge; cbn [length]; lia).
    assert (Hrl : blen rnge <= max64) by (unfold blen in *; subst r0; lia).
    pose proof (cut_index 45 rnge) as Hc.
    destruct (index_byte 45 rnge) as [i|].
    + destruct Hc as [Hi Hc]. rewrite Hc.
      slices.
      rewrite ?Nat2Z.id.
      repeat match goal with
      | |- context [Z.to_nat (Z.of_nat i + 1)] => replace (Z.to_nat (Z.of_nat i + 1)) with (S i) by lia
      | |- context [Z.to_nat (1 + Z.of_nat i)] => replace (Z.to_nat (1 + Z.of_nat i)) with (S i) by lia
      end.
      cbv beta iota zeta.
      assert (Hz : blen rnge <> 0) by (unfold blen; lia).
      clear Hrn Hr Hc Hs. cases 14%nat.
    + rewrite Hc.
      assert (Hz : blen rnge <> 0) by (unfold blen; lia).
      clear Hrn Hr Hc Hs. cases 6%nat.
  - unfold go_len_strs. cbn [length]. clear Hsp Hs. cases 4%nat.
Qed.

Theorem parse_range_header_gen_no_panic : forall s,
  blen s <= max64 -> parse_range_header_gen_o s <> Panic.
Proof. intros s H. rewrite (parse_range_header_gen_o_eq s H). discriminate. Qed.

Theorem parse_range_header_gen_eq : forall s,
  blen s <= max64 -> parse_range_header_gen s = parse_range_header s.
Proof.
  intros s H. unfold parse_range_header_gen. rewrite (parse_range_header_gen_o_eq s H). reflexivity.
Qed.

(* ------------------------------------------------------------------ the C11 theorems, for the
   generated functions *)

(* Model/Range.v get_range, rebuilt on the generated parser and the generated arithmetic *)
Definition get_range_gen (hdr data : bytes) : get_range_answer :=
  match parse_range_header_gen hdr with
  | HNone => AWhole
  | HInvalid => A416
  | HNotImplemented => A501
  | HReq r =>
      match range_go_gen r (blen data) with
      | RInvalid => A416
      | ROk st len =>
          match slice data st len with
          | None => APanic
          | Some b => APartial st (add64 (add64 st len) (-1)) b
          end
      end
  end.

Definition header_answer_ok_gen (hdr data : bytes) : Prop :=
  match parse_range_header_gen hdr with
  | HNone => get_range_gen hdr data = AWhole
  | HInvalid => get_range_gen hdr data = A416
  | HNotImplemented => get_range_gen hdr data = A501
  | HReq r => to_spec (get_range_gen hdr data) = Some (answer (form_of_req r) data)
  end.

Theorem get_range_gen_eq : forall hdr data,
  blen hdr <= max64 -> get_range_gen hdr data = get_range hdr data.
Proof.
  intros hdr data H. unfold get_range_gen, get_range.
  rewrite (parse_range_header_gen_eq hdr H).
  destruct (parse_range_header hdr); try reflexivity.
  rewrite range_go_gen_eq. reflexivity.
Qed.

Theorem gen_get_range_correct : forall hdr data,
  blen hdr <= max64 -> blen data <= max64 -> header_answer_ok_gen hdr data.
Proof.
  intros hdr data Hh Hd. unfold header_answer_ok_gen.
  rewrite (get_range_gen_eq hdr data Hh), (parse_range_header_gen_eq hdr Hh).
  exact (get_range_correct hdr data Hd).
Qed.

Theorem gen_get_range_no_panic : forall hdr data,
  blen hdr <= max64 -> blen data <= max64 -> get_range_gen hdr data <> APanic.
Proof.
  intros hdr data Hh Hd. rewrite (get_range_gen_eq hdr data Hh).
  exact (get_range_no_panic hdr data Hd).
Qed.

Theorem gen_parse_range_header_wf : forall s r,
  blen s <= max64 -> parse_range_header_gen s = HReq r -> wf_req r.
Proof.
  intros s r H. rewrite (parse_range_header_gen_eq s H). apply parse_range_header_wf.
Qed.

(* the arithmetic kernel, directly on the generated Range *)
Theorem gen_range_req_correct : forall r data,
  wf_req r -> blen data <= max64 ->
  to_spec (match range_go_gen r (blen data) with
           | RInvalid => A416
           | ROk st len =>
               match slice data st len with
               | None => APanic
               | Some b => APartial st (add64 (add64 st len) (-1)) b
               end
           end) = Some (answer (form_of_req r) data).
Proof.
  intros r data Hr Hd. rewrite range_go_gen_eq. exact (range_req_correct r data Hr Hd).
Qed.

Example C11_gen_ex_clip :
  get_range_gen (B "bytes=5-9223372036854775807") (B "0123456789") = APartial 5 9 (B "56789").
Proof. vm_compute. reflexivity. Qed.
Example C11_gen_ex_suffix : get_range_gen (B "bytes=-3") (B "0123456789") = APartial 7 9 (B "789").
Proof. vm_compute. reflexivity. Qed.
Example C11_gen_ex_416 : get_range_gen (B "bytes=10-") (B "0123456789") = A416.
Proof. vm_compute. reflexivity. Qed.
Example C11_gen_ex_501 : get_range_gen (B "bytes=0-1,3-4") (B "0123456789") = A501.
Proof. vm_compute. reflexivity. Qed.


Print Assumptions range_go_gen_ptr_eq.
Print Assumptions range_go_gen_eq.
Print Assumptions parse_range_header_gen_o_eq.
Print Assumptions parse_range_header_gen_eq.
