(* C11, second tie: the same theorems for the definitions that go2coq regenerates from /repo's
   range.go on every run (Gen/RangeGen.v: parse_range_header_gen from parseRangeHeader,
   range_go_gen from ObjectRangeRequest.Range; control flow, comparisons, int64 arithmetic with
   explicit wrap-around, constants and slice bounds all come from the Go syntax tree).
   Only statements, each closed by an exact lemma of GenProofs/RangeGenProofs.v. *)
From GF Require Import Base.Bytes Base.Lit Base.Int64 Base.GoLib Model.Range Spec.RangeSpec Proofs.RangeProofs
  Gen.RangeGen GenProofs.RangeGenProofs.
Open Scope Z_scope.

(* what the code says now computes what the hand-written model computes: the arithmetic for every
   request and every size ... *)
Theorem C11_gen_range_is_model : forall o size, range_go_gen o size = range_go o size.
Proof. exact range_go_gen_eq. Qed.
Print Assumptions C11_gen_range_is_model.

(* ... and the parser for every header string a Go string can be (below 2^63 bytes; the Go code
   computes i+1 in int), including that none of its slice expressions s[a:b] is ever out of range *)
Theorem C11_gen_parser_is_model : forall s,
  blen s <= max64 -> parse_range_header_gen_o s = Val (parse_range_header s).
Proof. exact parse_range_header_gen_o_eq. Qed.
Print Assumptions C11_gen_parser_is_model.

(* hence C11 for the regenerated functions: exactly the requested bytes clipped to the object's
   end with the matching Content-Range, or 416, or 501 for several ranges, for every header and
   every object *)
Theorem C11_gen_range_correct : forall hdr data,
  blen hdr <= max64 -> blen data <= max64 -> header_answer_ok_gen hdr data.
Proof. exact gen_get_range_correct. Qed.
Print Assumptions C11_gen_range_correct.

Theorem C11_gen_no_other_failure : forall hdr data,
  blen hdr <= max64 -> blen data <= max64 -> get_range_gen hdr data <> APanic.
Proof. exact gen_get_range_no_panic. Qed.
Print Assumptions C11_gen_no_other_failure.

Theorem C11_gen_parser_output_wellformed : forall s r,
  blen s <= max64 -> parse_range_header_gen s = HReq r -> wf_req r.
Proof. exact gen_parse_range_header_wf. Qed.
Print Assumptions C11_gen_parser_output_wellformed.

(* non-vacuity: the regenerated code evaluated on the two inputs that failed before the fix *)
Example C11_gen_ex_clip_ :
  get_range_gen (B "bytes=5-9223372036854775807") (B "0123456789") = APartial 5 9 (B "56789").
Proof. vm_compute. reflexivity. Qed.
Example C11_gen_ex_full :
  get_range_gen (B "bytes=0-9223372036854775807") (B "0123456789") = APartial 0 9 (B "0123456789").
Proof. vm_compute. reflexivity. Qed.
