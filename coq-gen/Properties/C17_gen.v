(* C17, second tie: the same theorems for validate_gen, which go2coq regenerates from
   ValidateBucketName in /repo's validation.go on every run (length limits, order of the tests, the
   loop over the labels and the text of the regular expression come from the Go syntax tree; the
   regular expression itself is not interpreted: its text is pinned to the one the matcher [pattern]
   of Model/BucketName.v was written for, and net.ParseIP is the modelled [is_ipv4]).
   Only statements, each closed by an exact lemma of GenProofs/NameGenProofs.v. *)
From GF Require Import Base.Bytes Base.Lit Base.GoLib Model.BucketName Spec.NameSpec Proofs.NameProofs
  Gen.NameGen GenProofs.NameGenProofs.

Theorem C17_gen_validator_is_model : forall name, validate_gen name = validate name.
Proof. exact validate_gen_eq. Qed.
Print Assumptions C17_gen_validator_is_model.

(* the regular expression in the source is the one the hand-compiled matcher implements *)
Theorem C17_gen_regexp_text_pinned : bucketNamePattern_src = bucket_name_regexp_src.
Proof. exact bucketNamePattern_known. Qed.
Print Assumptions C17_gen_regexp_text_pinned.

(* the regenerated validator accepts exactly the documented names, on every byte string *)
Theorem C17_gen_validator_eq_spec : forall s, validate_gen s = valid s.
Proof. exact gen_validate_eq_valid. Qed.
Print Assumptions C17_gen_validator_eq_spec.

Theorem C17_gen_create_iff : forall existing name,
  snd (name_create_gen existing name) = true <->
  valid name = true /\ existsb (beq name) existing = false.
Proof. exact gen_create_iff. Qed.
Print Assumptions C17_gen_create_iff.

Theorem C17_gen_refused_creates_nothing : forall existing name,
  snd (name_create_gen existing name) = false -> fst (name_create_gen existing name) = existing.
Proof. exact gen_create_refused_creates_nothing. Qed.
Print Assumptions C17_gen_refused_creates_nothing.

Example C17_gen_ex_accept : validate_gen (B "my-bucket.v20.example") = true. Proof. reflexivity. Qed.
Example C17_gen_ex_refuse_ip : validate_gen (B "100.200.100.200") = false. Proof. reflexivity. Qed.
