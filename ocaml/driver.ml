(* Correspondence driver: reads trace lines written by the Go harness (tab-separated,
   strings hex-encoded, "-" = empty), evaluates the extracted Coq checks and prints one
   verdict per line:  OK | FAIL <lineno> model=<reasons> spec=<reasons> *)
module M = Model

let rec pos_of_int (i : int) : M.positive =
  if i = 1 then M.XH else if i land 1 = 0 then M.XO (pos_of_int (i lsr 1)) else M.XI (pos_of_int (i lsr 1))
let n_of_int (i : int) : M.n = if i = 0 then M.N0 else M.Npos (pos_of_int i)
let z_of_int (i : int) : M.z = if i = 0 then M.Z0 else if i > 0 then M.Zpos (pos_of_int i) else M.Zneg (pos_of_int (-i))
let rec int_of_pos = function M.XH -> 1 | M.XO p -> 2 * int_of_pos p | M.XI p -> 2 * int_of_pos p + 1
let int_of_n = function M.N0 -> 0 | M.Npos p -> int_of_pos p

let ntab = Array.init 256 n_of_int

let hexval c = match c with
  | '0'..'9' -> Char.code c - 48 | 'a'..'f' -> Char.code c - 87 | 'A'..'F' -> Char.code c - 55
  | _ -> failwith "bad hex"

let bytes_of_hex (s : string) : M.n list =
  if s = "-" then [] else begin
    let len = String.length s / 2 in
    let rec go i acc = if i < 0 then acc else
      go (i - 1) (ntab.(hexval s.[2*i] * 16 + hexval s.[2*i+1]) :: acc) in
    go (len - 1) []
  end

let string_of_bytes (b : M.n list) : string =
  let buf = Buffer.create 16 in
  List.iter (fun x -> Buffer.add_char buf (Char.chr ((int_of_n x) land 255))) b;
  Buffer.contents buf

let raw_of_hex (s : string) : string = string_of_bytes (bytes_of_hex s)

let reasons (l : M.n list list) : string =
  if l = [] then "-" else String.concat "," (List.map string_of_bytes l)

let split_tab (s : string) : string array = Array.of_list (String.split_on_char '\t' s)

let bool_of_field s = (s = "1")

let verdict lineno m s =
  if m = [] && s = [] then print_string "OK\n"
  else Printf.printf "FAIL\t%d\tmodel=%s\tspec=%s\n" lineno (reasons m) (reasons s)

(* c11 kind hdr data status code cr cl body panic *)
let c11 lineno (f : string array) =
  let hdr = bytes_of_hex f.(2) and data = bytes_of_hex f.(3) in
  let status = z_of_int (int_of_string f.(4)) in
  let code = bytes_of_hex f.(5) and cr = bytes_of_hex f.(6) and cl = bytes_of_hex f.(7)
  and body = bytes_of_hex f.(8) and p = bool_of_field f.(9) in
  verdict lineno (M.c11_model hdr data status code cr cl body p) (M.c11_spec hdr data status code cr cl body p)

(* c17 direct name accepted | reset kind | put kind name status code panic | list kind status names *)
let c17_state : (string, M.n list list) Hashtbl.t = Hashtbl.create 7
let c17 lineno (f : string array) =
  match f.(1) with
  | "direct" ->
    let name = bytes_of_hex f.(2) and acc = bool_of_field f.(3) in
    verdict lineno (M.c17_direct_model name acc) (M.c17_direct_spec name acc)
  | "reset" -> Hashtbl.replace c17_state f.(2) []; print_string "SKIP\n"
  | "put" ->
    let st = (try Hashtbl.find c17_state f.(2) with Not_found -> []) in
    let name = bytes_of_hex f.(3) and status = z_of_int (int_of_string f.(4)) and code = bytes_of_hex f.(5) in
    let p = bool_of_field f.(6) in
    let (st', m) = M.c17_put_model st name status code in
    let sp = M.c17_put_spec st name status code in
    Hashtbl.replace c17_state f.(2) st';
    let pm = if p then [bytes_of_hex "70616e6963"] else [] in
    verdict lineno (pm @ m) (pm @ sp)
  | "list" ->
    let st = (try Hashtbl.find c17_state f.(2) with Not_found -> []) in
    let names = if f.(4) = "" then [] else List.map bytes_of_hex (String.split_on_char ',' f.(4)) in
    let r = M.c17_list_check st names in
    verdict lineno r r
  | k -> failwith ("c17: unknown sub-kind " ^ k)

let () =
  let lineno = ref 0 in
  (try
    while true do
      let line = input_line stdin in
      incr lineno;
      let f = split_tab line in
      (match f.(0) with
       | "c11" -> c11 !lineno f
       | "c17" -> c17 !lineno f
       | "#" -> print_string "OK\n"
       | k -> failwith ("unknown case kind " ^ k))
    done
  with End_of_file -> ());
  flush stdout
