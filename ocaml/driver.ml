(* Correspondence driver: reads trace lines written by the Go harness (tab-separated,
   strings hex-encoded, "-" = empty), evaluates the extracted Coq checks and prints one
   verdict per line:  OK | FAIL <lineno> model=<reasons> spec=<reasons> *)
module M = Model

let rec pos_of_int (i : int) : M.positive =
  if i = 1 then M.XH else if i land 1 = 0 then M.XO (pos_of_int (i lsr 1)) else M.XI (pos_of_int (i lsr 1))
let n_of_int (i : int) : M.n = if i = 0 then M.N0 else M.Npos (pos_of_int i)
let z_of_int (i : int) : M.z = if i = 0 then M.Z0 else if i > 0 then M.Zpos (pos_of_int i) else M.Zneg (pos_of_int (-i))
let rec int_of_pos = function M.XH -> 1 | M.XO p -> 2 * int_of_pos p | M.XI p -> 2 * int_of_pos p + 1
let int_of_n = function M.N0 -> 0 | M.Npos p -> int_of_pos p

let ntab = Array.init 256 n_of_int

let hexval c = match c with
  | '0'..'9' -> Char.code c - 48 | 'a'..'f' -> Char.code c - 87 | 'A'..'F' -> Char.code c - 55
  | _ -> failwith "bad hex"

let bytes_of_hex (s : string) : M.n list =
  if s = "-" then [] else begin
    let len = String.length s / 2 in
    let rec go i acc = if i < 0 then acc else
      go (i - 1) (ntab.(hexval s.[2*i] * 16 + hexval s.[2*i+1]) :: acc) in
    go (len - 1) []
  end

let string_of_bytes (b : M.n list) : string =
  let buf = Buffer.create 16 in
  List.iter (fun x -> Buffer.add_char buf (Char.chr ((int_of_n x) land 255))) b;
  Buffer.contents buf

let raw_of_hex (s : string) : string = string_of_bytes (bytes_of_hex s)

let reasons (l : M.n list list) : string =
  if l = [] then "-" else String.concat "," (List.map string_of_bytes l)

let split_tab (s : string) : string array = Array.of_list (String.split_on_char '\t' s)

let bool_of_field s = (s = "1")

let verdict lineno m s =
  if m = [] && s = [] then print_string "OK\n"
  else Printf.printf "FAIL\t%d\tmodel=%s\tspec=%s\n" lineno (reasons m) (reasons s)

(* c11 kind hdr data status code cr cl body panic *)
let c11 lineno (f : string array) =
  let hdr = bytes_of_hex f.(2) and data = bytes_of_hex f.(3) in
  let status = z_of_int (int_of_string f.(4)) in
  let code = bytes_of_hex f.(5) and cr = bytes_of_hex f.(6) and cl = bytes_of_hex f.(7)
  and body = bytes_of_hex f.(8) and p = bool_of_field f.(9) in
  verdict lineno (M.c11_model hdr data status code cr cl body p) (M.c11_spec hdr data status code cr cl body p)

(* c17 direct name accepted | reset kind | put kind name status code panic | touch kind name status code panic | list kind status names *)
let c17_state : (string, M.n list list) Hashtbl.t = Hashtbl.create 7
let c17 lineno (f : string array) =
  match f.(1) with
  | "direct" ->
    let name = bytes_of_hex f.(2) and acc = bool_of_field f.(3) in
    verdict lineno (M.c17_direct_model name acc) (M.c17_direct_spec name acc)
  | "reset" -> Hashtbl.replace c17_state f.(2) []; print_string "SKIP\n"
  | "put" ->
    let st = (try Hashtbl.find c17_state f.(2) with Not_found -> []) in
    let name = bytes_of_hex f.(3) and status = z_of_int (int_of_string f.(4)) and code = bytes_of_hex f.(5) in
    let p = bool_of_field f.(6) in
    let (st', m) = M.c17_put_model st name status code in
    let sp = M.c17_put_spec st name status code in
    Hashtbl.replace c17_state f.(2) st';
    let pm = if p then [bytes_of_hex "70616e6963"] else [] in
    verdict lineno (pm @ m) (pm @ sp)
  | "touch" ->
    let st = (try Hashtbl.find c17_state f.(2) with Not_found -> []) in
    let name = bytes_of_hex f.(3) and status = z_of_int (int_of_string f.(4)) and code = bytes_of_hex f.(5) in
    let p = bool_of_field f.(6) in
    let (st', m) = M.c17_touch_model st name status code in
    let sp = M.c17_touch_spec st name status code in
    Hashtbl.replace c17_state f.(2) st';
    let pm = if p then [bytes_of_hex "70616e6963"] else [] in
    verdict lineno (pm @ m) (pm @ sp)
  | "list" ->
    let st = (try Hashtbl.find c17_state f.(2) with Not_found -> []) in
    let names = if f.(4) = "" then [] else List.map bytes_of_hex (String.split_on_char ',' f.(4)) in
    let r = M.c17_list_check st names in
    verdict lineno r r
  | k -> failwith ("c17: unknown sub-kind " ^ k)

(* ---- histories ---------------------------------------------------------------- *)
let md5 (b : M.n list) : M.n list =
  let d = Digest.string (string_of_bytes b) in
  List.init 16 (fun i -> ntab.(Char.code d.[i]))

let split_on c s = if s = "-" || s = "" then [] else String.split_on_char c s

let rec nat_of_int (i : int) : M.nat = if i <= 0 then M.O else M.S (nat_of_int (i - 1))
let sched_of s = List.map (fun x -> z_of_int (int_of_string x)) (split_on ',' s)

let pair_of s = match String.split_on_char ':' s with
  | [a; b] -> (bytes_of_hex (if a = "" then "-" else a), bytes_of_hex (if b = "" then "-" else b))
  | _ -> failwith ("bad pair " ^ s)

let hist_cfg : M.config ref = ref { M.cfg_auto_bucket = false; cfg_versioned = true; cfg_pages = true; cfg_fail_unimpl_page = false }
let hist_state : M.hstate ref = ref M.hinit
let hist_nomodel = ref false
let walk_pages : M.page_obs list ref = ref []
let walk_full : M.page_obs option ref = ref None
let walk_mode = ref 0 (* 0 none, 1 collecting pages, 2 next list is the full listing *)
let walk_max = ref 0

let ew_pages : M.n list list list ref = ref []
let ew_pre : M.n list list list ref = ref []
let ew_full : (M.n list list * M.n list list) option ref = ref None
let ew_mode = ref 0
let ew_limit = ref 0

let parse_cfg (s : string) =
  let get k = List.exists (fun kv -> kv = k ^ "=1") (String.split_on_char ',' s) in
  { M.cfg_auto_bucket = get "auto"; cfg_versioned = get "versioned"; cfg_pages = get "pages";
    cfg_fail_unimpl_page = get "failpage" }

let parse_obs (f : string array) (i : int) : M.obs =
  { M.ob_status = z_of_int (int_of_string f.(i)); ob_code = bytes_of_hex f.(i+1); ob_panic = bool_of_field f.(i+2);
    ob_body = bytes_of_hex f.(i+3); ob_etag = bytes_of_hex f.(i+4); ob_cl = bytes_of_hex f.(i+5);
    ob_vid = bytes_of_hex f.(i+6); ob_delmarker = bytes_of_hex f.(i+7);
    ob_meta = List.map pair_of (split_on ',' f.(i+8));
    ob_names = List.map bytes_of_hex (split_on ',' f.(i+9));
    ob_contents = List.map (fun c -> match String.split_on_char ':' c with
        | [k; sz; et] -> (bytes_of_hex k, (z_of_int (int_of_string sz), bytes_of_hex et))
        | _ -> failwith "bad content") (split_on ',' f.(i+10));
    ob_truncated = bool_of_field f.(i+11); ob_next = bytes_of_hex f.(i+12);
    ob_versions = (if Array.length f > i + 13 then List.map (fun v -> match String.split_on_char ':' v with
        | [id; mk; lt] -> (bytes_of_hex (if id = "" then "-" else id), (mk = "1", lt = "1"))
        | _ -> failwith "bad version entry") (split_on ',' f.(i+13)) else []) }

let arrow_index (f : string array) : int =
  let r = ref (-1) in Array.iteri (fun i x -> if x = "=>" && !r < 0 then r := i) f; !r

let parse_hop (f : string array) : M.hop =
  let h i = bytes_of_hex f.(i) in
  match f.(2) with
  | "mkb" -> M.HCreateBucket (h 3) | "rmb" -> M.HDeleteBucket (h 3) | "hdb" -> M.HHeadBucket (h 3)
  | "lsb" -> M.HListBuckets
  | "put" -> M.HPut (h 3, h 4, h 5, List.map pair_of (split_on ',' f.(6)))
  | "get" -> M.HGet (h 3, h 4, h 5) | "head" -> M.HHead (h 3, h 4, h 5)
  | "del" -> M.HDelete (h 3, h 4) | "delv" -> M.HDeleteVersion (h 3, h 4, h 5)
  | "mdel" -> M.HMultiDelete (h 3, List.map pair_of (split_on ',' f.(4)))
  | "copy" -> M.HCopy (h 3, h 4, h 5, h 6, (if Array.length f > 7 && f.(7) <> "=>" then List.map pair_of (split_on ',' f.(7)) else []))
  | "ver" -> M.HSetVersioning (h 3, bool_of_field f.(4))
  | "list" ->
    let d = if f.(5) = "-" then None else (match bytes_of_hex f.(5) with [c] -> Some c | _ -> failwith "multi-byte delimiter") in
    M.HList (h 3, h 4, d, h 6, bool_of_field f.(7), z_of_int (int_of_string f.(8)), bool_of_field f.(9))
  | "init" -> M.HInitiate (h 3, h 4, List.map pair_of (split_on ',' f.(5)))
  | "part" -> M.HUploadPart (h 3, h 4, h 5, z_of_int (int_of_string f.(6)), h 7)
  | "done" -> M.HComplete (h 3, h 4, h 5, List.map (fun p -> match String.split_on_char ':' p with
      | [n; e] -> (z_of_int (int_of_string n), bytes_of_hex (if e = "" then "-" else e))
      | _ -> failwith "bad part") (split_on ',' f.(6)))
  | "abort" -> M.HAbort (h 3, h 4, h 5)
  | "lsp" -> M.HListParts (h 3, h 4, h 5, z_of_int (int_of_string f.(6)), z_of_int (int_of_string f.(7)))
  | "rput" ->
    let fa = int_of_string f.(7) in
    M.HPutRaw (h 3, h 4, List.map pair_of (split_on ',' f.(5)), h 6, (if fa < 0 then None else Some (z_of_int fa)),
               bool_of_field f.(8), z_of_int (int_of_string f.(9)))
  | "rpart" ->
    let fa = int_of_string f.(9) in
    M.HPartRaw (h 3, h 4, h 5, h 6, List.map pair_of (split_on ',' f.(7)), h 8, (if fa < 0 then None else Some (z_of_int fa)),
                bool_of_field f.(10))
  | "lsv" ->
    let d = if f.(5) = "-" then None else (match bytes_of_hex f.(5) with [c] -> Some c | _ -> failwith "multi-byte delimiter") in
    M.HListVersions (h 3, h 4, d, h 6, h 7, z_of_int (int_of_string f.(8)))
  | "cput" -> M.HChunkedPut (h 3, h 4, h 5, sched_of f.(6), bool_of_field f.(7), z_of_int (int_of_string f.(8)), h 9,
                              (if Array.length f > 10 && f.(10) <> "=>" then List.map pair_of (split_on ',' f.(10)) else []))
  | "lsu" ->
    let d = if f.(5) = "-" then None else (match bytes_of_hex f.(5) with [c] -> Some c | _ -> failwith "multi-byte delimiter") in
    M.HListUploads (h 3, h 4, d, h 6, h 7, z_of_int (int_of_string f.(8)))
  | k -> failwith ("unknown op " ^ k)

let split_tags (l : M.n list list) =
  let strs = List.map string_of_bytes l in
  let m = List.filter (fun s -> String.length s >= 2 && String.sub s 0 2 = "M:") strs in
  let sp = List.filter (fun s -> not (String.length s >= 2 && String.sub s 0 2 = "M:")) strs in
  (m, sp)

let verdict_tagged lineno (l : M.n list list) =
  if l = [] then print_string "OK\n" else begin
    let (m, sp) = split_tags l in
    let j x = if x = [] then "-" else String.concat "," x in
    (* a spec failure is also a model mismatch *)
    Printf.printf "FAIL\t%d\tmodel=%s\tspec=%s\n" lineno (j (m @ sp)) (j sp)
  end

let hist lineno (f : string array) =
  match f.(1) with
  | "H" ->
    ew_mode := 0; hist_nomodel := false;
    hist_cfg := parse_cfg f.(3);
    let pre = if Array.length f > 4 then List.map bytes_of_hex (split_on ',' f.(4)) else [] in
    let fs = (String.length f.(2) >= 2 && (String.sub f.(2) 0 2 = "fs" || String.sub f.(2) 0 2 = "sf")) in
    hist_state := List.fold_left (fun hs b ->
        { hs with M.hs_model = fst (M.create_bucket hs.M.hs_model b) }) (M.hinit_fs fs) pre;
    walk_mode := 0; print_string "SKIP\n"
  | "E" -> print_string "SKIP\n"
  | "REOPEN" ->
    (* a restart keeps the backend state and drops the (in-memory) multipart uploads *)
    hist_state := { !hist_state with M.hs_up = M.uinit; M.hs_utbl = [] }; print_string "SKIP\n"
  | "REOPENFAIL" -> Printf.printf "FAIL\t%d\tmodel=-\tspec=store-does-not-reopen\t%s\n" lineno (raw_of_hex f.(2))
  | "NOMODEL" -> hist_nomodel := true; print_string "SKIP\n"
  | "NOTE" -> print_string "SKIP\n"
  (* verdicts of oracles evaluated in the harness (clauses that need no model state) *)
  | "GOOD" -> print_string "OK\n"
  | "BAD" -> Printf.printf "FAIL\t%d\tmodel=-\tspec=%s\n" lineno (String.map (fun c -> if c = ' ' || c = '\t' then '-' else c) (raw_of_hex f.(2)))
  | "HANG" -> Printf.printf "FAIL\t%d\tmodel=-\tspec=hang:%s\n" lineno (String.map (fun c -> if c = ' ' || c = '\t' then '-' else c) (raw_of_hex f.(2)))
  | "FRAME" ->
    let allowed = List.map bytes_of_hex (split_on ',' f.(2)) in
    let refused = bool_of_field f.(3) in
    let snap s = List.map pair_of (split_on ',' s) in
    let r = M.frame_check allowed refused (snap f.(4)) (snap f.(5)) in
    let strs = List.map string_of_bytes r in
    if strs = [] then print_string "OK\n"
    else Printf.printf "FAIL\t%d\tmodel=-\tspec=%s\t%s\n" lineno (String.concat "," strs) (raw_of_hex f.(6))
  | "O" when !hist_nomodel -> print_string "SKIP\n"
  | "O" ->
    let ai = arrow_index f in
    let o = parse_hop f and ob = parse_obs f (ai + 1) in
    let (st', l) = M.hist_step md5 !hist_cfg !hist_state o ob in
    hist_state := st';
    (match o with
     | (M.HListParts _ | M.HListUploads _ | M.HListVersions _) when !ew_mode > 0 ->
       (* entry identity: key/part-number + id string *)
       let ents = (match o with
         | M.HListVersions _ -> List.map2 (fun (k, _) (id, _) -> k @ [ntab.(0)] @ id) ob.M.ob_contents ob.M.ob_versions
         | _ -> List.map (fun (k, (_, e)) -> (match o with M.HListParts _ -> k | _ -> k @ [ntab.(0)] @ e)) ob.M.ob_contents) in
       if !ew_mode = 2 then (ew_full := Some (ents, ob.M.ob_names); ew_mode := 1)
       else (ew_pages := !ew_pages @ [ents]; ew_pre := !ew_pre @ [ob.M.ob_names])
     | M.HList _ when !walk_mode > 0 ->
       let pg = { M.pg_keys = List.map fst ob.M.ob_contents; pg_prefixes = ob.M.ob_names; pg_truncated = ob.M.ob_truncated } in
       if !walk_mode = 2 then (walk_full := Some pg; walk_mode := 1) else walk_pages := !walk_pages @ [pg]
     | _ -> ());
    verdict_tagged lineno l
  | "PB" -> ew_mode := 1; ew_pages := []; ew_pre := []; ew_full := None; ew_limit := int_of_string f.(2); print_string "SKIP\n"
  | "PF" -> ew_mode := 2; print_string "SKIP\n"
  | "PE" ->
    let (full, fpre) = (match !ew_full with Some p -> p | None -> ([], [])) in
    let r = M.entries_walk_check (z_of_int !ew_limit) !ew_pages !ew_pre full fpre (bool_of_field f.(2)) in
    ew_mode := 0;
    let strs = List.map string_of_bytes r in
    if strs = [] then print_string "OK\n"
    else Printf.printf "FAIL\t%d\tmodel=-\tspec=%s\n" lineno (String.concat "," strs)
  | "WB" -> walk_mode := 1; walk_pages := []; walk_full := None; walk_max := int_of_string f.(2); print_string "SKIP\n"
  | "WF" -> walk_mode := 2; print_string "SKIP\n"
  | "WE" ->
    let full = (match !walk_full with Some p -> p | None -> { M.pg_keys = []; pg_prefixes = []; pg_truncated = false }) in
    let r = M.walk_check (z_of_int !walk_max) !walk_pages full (bool_of_field f.(2)) in
    walk_mode := 0;
    let strs = List.map string_of_bytes r in
    if strs = [] then print_string "OK\n"
    else Printf.printf "FAIL\t%d\tmodel=-\tspec=%s\n" lineno (String.concat "," strs)
  | k -> failwith ("hist: unknown line kind " ^ k)


(* c12 RA stream sched eofw size payload ok got | CP stream sched eofw buf payload got | RM stream sched eofw size ok got *)
let c12 lineno (f : string array) =
  match f.(1) with
  | "RA" ->
    let stream = bytes_of_hex f.(2) and sched = sched_of f.(3) and eofw = bool_of_field f.(4) in
    let size = z_of_int (int_of_string f.(5)) and payload = bytes_of_hex f.(6) in
    let ok = bool_of_field f.(7) and got = bytes_of_hex f.(8) in
    verdict lineno (M.c12_readall_model stream sched eofw size ok got) (M.c12_readall_spec payload size ok got)
  | "CP" ->
    let stream = bytes_of_hex f.(2) and sched = sched_of f.(3) and eofw = bool_of_field f.(4) in
    let bs = z_of_int (int_of_string f.(5)) and payload = bytes_of_hex f.(6) and got = bytes_of_hex f.(7) in
    verdict lineno (M.c12_copy_model stream sched eofw bs got) (M.c12_copy_spec payload got)
  | "RM" ->
    let stream = bytes_of_hex f.(2) and sched = sched_of f.(3) and eofw = bool_of_field f.(4) in
    let size = z_of_int (int_of_string f.(5)) in
    let ok = bool_of_field f.(6) and got = bytes_of_hex f.(7) in
    let m = M.c12_readall_model stream sched eofw size ok got in
    verdict lineno m (if bool_of_field f.(8) then [bytes_of_hex "6d616c666f726d65642d73747265616d2d6163636570746564"] else [])
  | _ -> hist lineno f

(* c16 X name mode bases host path lbucket lkey same rbuckets rkeys desc *)
let c16 lineno (f : string array) =
  if f.(1) = "GOOD" then print_string "OK\n"
  else if f.(1) = "BAD" then Printf.printf "FAIL\t%d\tmodel=-\tspec=%s\n" lineno (String.map (fun c -> if c = ' ' || c = '\t' then '-' else c) (raw_of_hex f.(2)))
  else
  let bases = List.map bytes_of_hex (split_on ',' f.(4)) in
  let mode = (match f.(3) with "none" -> M.HostNone | "host" -> M.HostBucket | _ -> M.HostBases bases) in
  let host = bytes_of_hex f.(5) and path = bytes_of_hex f.(6) and lb = bytes_of_hex f.(7) and lk = bytes_of_hex f.(8) in
  let same = bool_of_field f.(9) in
  let rb = List.map bytes_of_hex (split_on ',' f.(10)) and rk = List.map bytes_of_hex (split_on ',' f.(11)) in
  verdict lineno (M.c16_model mode host path lb lk rb rk) (M.c16_spec lb lk same rb rk)

(* c09 R kind cfg status code panic hung ishead bodylen iserrdoc desc hdrs body panicmsg *)
let c09 lineno (f : string array) =
  match f.(1) with
  | "R" ->
    let r = M.c09_response_ok (z_of_int (int_of_string f.(4))) (bytes_of_hex f.(5)) (bool_of_field f.(6)) (bool_of_field f.(7))
        (bool_of_field f.(8)) (z_of_int (int_of_string f.(9))) (bool_of_field f.(10)) in
    let strs = List.map string_of_bytes r in
    if strs = [] then print_string "OK\n"
    else Printf.printf "FAIL\t%d\tmodel=-\tspec=%s\n" lineno (String.concat "," strs)
  | _ -> hist lineno f

(* ---- c07: rounds of concurrent requests; a round is linearizable iff some sequential order
   of its requests reproduces every observed response on the model ------------------------ *)
let c07_cands : M.hstate list ref = ref [M.hinit]
let c07_round : (M.hop * M.obs) list ref = ref []
let c07_in_round = ref false
let c07_probes : (M.hop * M.obs) list ref = ref []
let c07_in_probe = ref false
let c07_desync = ref false   (* after a non-linearizable round the model state is unknown: skip the rest of the history *)

let c15_crash : (int * bool * string list) option ref = ref None
let c15_crash_dirs : (int * string list) option ref = ref None   (* directory-changing calls logged, how many happened *)
let c15_pred : M.hstate option ref = ref None
let c15_dirpred : string list option ref = ref None   (* common prefixes without a key the directory model predicts *)

let is_spec_tag (r : M.n list) = let s = string_of_bytes r in String.length s >= 2 && String.sub s 0 2 = "S:"
let spec_clean l = not (List.exists is_spec_tag l)

let dedupe (l : M.hstate list) : M.hstate list =
  let rec go acc = function [] -> List.rev acc | x :: r -> if List.exists (fun y -> y = x) acc then go acc r else go (x :: acc) r in
  let d = go [] l in
  if List.length d > 64 then List.filteri (fun i _ -> i < 64) d else d

let rec remove_nth i = function [] -> [] | x :: r -> if i = 0 then r else x :: remove_nth (i - 1) r

(* level-wise search over (set of requests already linearized, model state), deduplicated *)
let search cfg (hs : M.hstate) (ops : (M.hop * M.obs) list) : M.hstate list =
  let n = List.length ops in
  let arr = Array.of_list ops in
  let level = ref [(0, hs)] in
  for _ = 1 to n do
    let next = ref [] in
    List.iter (fun (mask, st) ->
        for i = 0 to n - 1 do
          if mask land (1 lsl i) = 0 then begin
            let (o, ob) = arr.(i) in
            let (st', l) = M.hist_step md5 cfg st o ob in
            if spec_clean l then begin
              let m' = mask lor (1 lsl i) in
              if not (List.exists (fun (m2, s2) -> m2 = m' && s2 = st') !next) then next := (m', st') :: !next
            end
          end
        done) !level;
    level := !next
  done;
  dedupe (List.map snd !level)

let key_of (o : M.hop) : (M.n list * M.n list) option =
  match o with
  | M.HPut (b, k, _, _) | M.HGet (b, k, _) | M.HHead (b, k, _) | M.HDelete (b, k) -> Some (b, k)
  | _ -> None

let c07 lineno (f : string array) =
  match f.(1) with
  | "H" ->
    hist lineno f;  (* parses the config and resets the single-state machinery *)
    c07_cands := [!hist_state]; c07_in_round := false; c07_desync := false; c15_crash := None; c15_pred := None;
    c15_crash_dirs := None; c15_dirpred := None
  | "E" -> print_string "SKIP\n"
  | _ when !c07_desync -> print_string "SKIP\n"
  | "HANG" -> Printf.printf "FAIL\t%d\tmodel=-\tspec=hang:%s\n" lineno (String.map (fun c -> if c = ' ' then '-' else c) (raw_of_hex f.(2)))
  | "REOPEN" ->
    (* a restart keeps the backend state and drops the (in-memory) multipart uploads *)
    c07_cands := dedupe (List.map (fun hs -> { hs with M.hs_up = M.uinit; M.hs_utbl = [] }) !c07_cands); print_string "SKIP\n"
  | "NOTE" -> print_string "SKIP\n"
  | "CRASH" ->
    (* label, position in the model's call sequence, died inside that call?, calls logged by the harness *)
    c15_crash := (if Array.length f > 5 then Some (int_of_string f.(3), bool_of_field f.(4), List.map raw_of_hex (split_on ',' f.(5))) else None);
    (* ... and the same for the directory side: how many directory-changing calls happened, their names *)
    c15_crash_dirs := (if Array.length f > 7 then Some (int_of_string f.(6), (if f.(7) = "-" || f.(7) = "" then [] else List.map raw_of_hex (split_on ',' f.(7)))) else None);
    c15_dirpred := None;
    print_string "SKIP\n"
  | "GOOD" -> print_string "OK\n"
  | "BAD" -> Printf.printf "FAIL\t%d\tmodel=-\tspec=%s\n" lineno (String.map (fun c -> if c = ' ' || c = '\t' then '-' else c) (raw_of_hex f.(2)))
  | "MAYBE" ->
    (* a write that was in flight when the server was killed: afterwards the state is the one
       before it or the one after it *)
    let o = parse_hop f in
    let ob = { M.ob_status = z_of_int 200; ob_code = []; ob_panic = false; ob_body = []; ob_etag = []; ob_cl = [];
               ob_vid = []; ob_delmarker = []; ob_meta = []; ob_names = []; ob_contents = []; ob_truncated = false;
               ob_next = []; ob_versions = [] } in
    let before = !c07_cands in
    c07_cands := dedupe (!c07_cands @ List.map (fun hs -> fst (M.hist_step md5 !hist_cfg hs o ob)) !c07_cands);
    let target = (match o with
        | M.HPut (b, k, _, _) | M.HDelete (b, k) | M.HCopy (_, _, b, k, _) -> Some (b, k)
        | M.HMultiDelete (b, (k, _) :: _) -> Some (b, k)
        | _ -> None) in
    (match !c15_crash, before, target with
     | Some (n, partial, calls), [hs], Some (b, k) ->
       (* crash model of the filesystem backends: the exact state a kill at that call leaves *)
       let after = fst (M.hist_step md5 !hist_cfg hs o ob) in
       let mcalls = List.map string_of_bytes (M.crash_calls md5 hs.M.hs_model after.M.hs_model b k) in
       c15_pred := Some (M.with_model hs (M.crash_state md5 hs.M.hs_model after.M.hs_model b k (nat_of_int n) partial));
       (* the directory model: its call sequence, and the common prefixes without a key it predicts *)
       let dir_bad = (match !c15_crash_dirs with
           | Some (nd, dcalls) ->
             let mdcalls = List.map string_of_bytes (M.crash_dir_calls hs.M.hs_model after.M.hs_model b k) in
             c15_dirpred := Some (List.sort compare (List.map string_of_bytes (M.crash_phantoms hs.M.hs_model after.M.hs_model b k (nat_of_int nd))));
             if mdcalls = dcalls then None else Some (Printf.sprintf "M:crash-model-directory-call-sequence:code=%s:model=%s" (String.concat "+" dcalls) (String.concat "+" mdcalls))
           | None -> None) in
       let obj_bad = if mcalls = calls then None
         else Some (Printf.sprintf "M:crash-model-call-sequence:code=%s:model=%s" (String.concat "+" calls) (String.concat "+" mcalls)) in
       (match obj_bad, dir_bad with
        | None, None -> print_string "OK\n"
        | _ -> Printf.printf "FAIL\t%d\tmodel=%s\tspec=-\n" lineno
                 (String.concat "," (List.filter_map (fun x -> x) [obj_bad; dir_bad])))
     | _ -> c15_pred := None; print_string "SKIP\n");
    c15_crash := None; c15_crash_dirs := None
  | "DIRS" ->
    (* the common prefixes of the next process's delimiter listing that have no key: the property wants
       none; the directory model says which ones a kill at that call leaves *)
    let obs = List.sort compare (if f.(2) = "-" || f.(2) = "" then [] else List.map raw_of_hex (split_on ',' f.(2))) in
    let msg = String.map (fun c -> if c = ' ' || c = '\t' then '-' else c) (raw_of_hex f.(3)) in
    let m = (match !c15_dirpred with
        | Some pred when pred <> obs -> Printf.sprintf "crash-model:directories-without-a-key:predicted=[%s]:found=[%s]" (String.concat "+" pred) (String.concat "+" obs)
        | _ -> "-") in
    c15_dirpred := None;
    if obs = [] && m = "-" then print_string "OK\n"
    else Printf.printf "FAIL\t%d\tmodel=%s\tspec=%s\n" lineno m (if obs = [] then "-" else "S:common-prefix-without-a-key-" ^ msg)
  | "RB" -> c07_in_round := true; c07_in_probe := false; c07_round := []; c07_probes := []; print_string "SKIP\n"
  | "RP" -> c07_in_probe := true; print_string "SKIP\n"
  | "RE" ->
    c07_in_round := false;
    let ops = List.rev !c07_round in
    let probes = List.rev !c07_probes in
    let apply_probes cands prs =
      List.fold_left (fun cs (o, ob) ->
          dedupe (List.concat (List.map (fun hs -> let (hs', l) = M.hist_step md5 !hist_cfg hs o ob in
                                          if spec_clean l then [hs'] else []) cs))) cands prs in
    let single = List.for_all (fun (o, _) -> key_of o <> None) ops in
    let next =
      if single then begin
        let keys = List.sort_uniq compare (List.map (fun (o, _) -> key_of o) (ops @ probes)) in
        List.fold_left (fun cands k ->
            let grp = List.filter (fun (o, _) -> key_of o = k) ops in
            let prs = List.filter (fun (o, _) -> key_of o = k) probes in
            apply_probes (dedupe (List.concat (List.map (fun hs -> search !hist_cfg hs grp) cands))) prs) !c07_cands keys
      end else apply_probes (dedupe (List.concat (List.map (fun hs -> search !hist_cfg hs ops) !c07_cands))) probes in
    if next = [] then begin
      if Sys.getenv_opt "VERIF_DEBUG" <> None then begin
        Printf.eprintf "round at line %d: %d candidates\n" lineno (List.length !c07_cands);
        List.iteri (fun ci hs -> if ci < 4 then
          List.iter (fun (o, _) -> match key_of o with
            | Some (b, k) -> (match M.get_object hs.M.hs_model b k with
                | M.OObj (v, _) -> Printf.eprintf "  cand %d: %s = %S\n" ci (string_of_bytes k) (string_of_bytes v.M.vd_body)
                | M.OErr _ -> Printf.eprintf "  cand %d: %s = <none>\n" ci (string_of_bytes k))
            | None -> ()) ops) !c07_cands
      end;
      (* keep going from the state reached by the recorded order, to report later rounds sensibly *)
      let hs = List.fold_left (fun hs (o, ob) -> fst (M.hist_step md5 !hist_cfg hs o ob)) (List.hd !c07_cands) ops in
      c07_cands := [hs]; c07_desync := true;
      let names = String.concat "," (List.map (fun (o, _) -> match o with
          | M.HPut _ -> "put" | M.HGet _ -> "get" | M.HHead _ -> "head" | M.HDelete _ -> "delete" | M.HCopy _ -> "copy" | _ -> "other") ops) in
      Printf.printf "FAIL\t%d\tmodel=-\tspec=not-linearizable:no-sequential-order-of-the-%d-concurrent-requests-explains-the-responses:ops=%s\n" lineno (List.length ops) names
    end else (c07_cands := next; print_string "OK\n")
  | "O" when !c07_in_round ->
    let ai = arrow_index f in
    if !c07_in_probe then c07_probes := (parse_hop f, parse_obs f (ai + 1)) :: !c07_probes
    else c07_round := (parse_hop f, parse_obs f (ai + 1)) :: !c07_round;
    print_string "SKIP\n"
  | "O" ->
    let ai = arrow_index f in
    let o = parse_hop f and ob = parse_obs f (ai + 1) in
    (* the probes after a crash point have been checked against {before, after} (the property) and
       against the crash model's prediction; the history continues from the predicted state, which
       is the one the store is in *)
    (match !c15_pred, o with
     | Some _, (M.HGet _ | M.HHead _ | M.HList _ | M.HListBuckets | M.HHeadBucket _) -> ()
     | Some p, _ -> c07_cands := [p]
     | None, _ -> ());
    let stepped = List.map (fun hs -> M.hist_step md5 !hist_cfg hs o ob) !c07_cands in
    let good = List.filter (fun (_, l) -> spec_clean l) stepped in
    let tags = (match good with
     | [] -> c07_cands := dedupe (List.map fst stepped); snd (List.hd stepped)
     | _ -> c07_cands := dedupe (List.map fst good);
       (* model-only mismatches are reported only if every candidate has them *)
       let ls = List.map snd good in
       if List.exists (fun l -> l = []) ls then [] else List.hd ls) in
    (match !c15_pred with
     | None -> verdict_tagged lineno tags
     | Some p ->
       (* with a crash model the correspondence is against the predicted state; the spec verdict
          (is the store in the state before or after the in-flight write?) stays as it is *)
       let (p', lp) = M.hist_step md5 !hist_cfg p o ob in
       c15_pred := Some p';
       let (_, sp) = split_tags tags in
       let pm = List.map (fun t -> "crash-model:" ^ string_of_bytes t) lp in
       if sp = [] && pm = [] then print_string "OK\n"
       else Printf.printf "FAIL\t%d\tmodel=%s\tspec=%s\n" lineno
           (if pm = [] then "-" else String.concat "," pm) (if sp = [] then "-" else String.concat "," sp))
  | _ -> hist lineno f

let () =
  let lineno = ref 0 in
  (try
    while true do
      let line = input_line stdin in
      incr lineno;
      let f = split_tab line in
      (match f.(0) with
       | "c11" -> c11 !lineno f
       | "c17" -> c17 !lineno f
       | "c12" -> c12 !lineno f
       | "c16" -> c16 !lineno f
       | "c09" -> c09 !lineno f
       | "c07" | "c15" -> c07 !lineno f
       | "c01" | "c02" | "c03" | "c04" | "c05" | "c06" | "c08" | "c10" | "c13" | "c14" -> hist !lineno f
       | "#" -> print_string "OK\n"
       | k -> failwith ("unknown case kind " ^ k))
    done
  with End_of_file -> ());
  flush stdout
