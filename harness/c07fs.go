package main

import (
	"fmt"
	"strings"
	"sync"
	"time"

	"github.com/johannesboyne/gofakes3/backend/s3afero"
	"github.com/spf13/afero"
)

// gateFs holds one chosen Remove call open (the removal of an emptied directory) until released
type gateFs struct {
	afero.Fs
	mu      sync.Mutex
	armed   bool
	suffix  string
	entered chan struct{}
	release chan struct{}
}

func (g *gateFs) Remove(name string) error {
	g.mu.Lock()
	hit := g.armed && strings.HasSuffix(strings.ReplaceAll(name, "\\", "/"), g.suffix)
	if hit {
		g.armed = false
	}
	g.mu.Unlock()
	if hit {
		close(g.entered)
		<-g.release
	}
	return g.Fs.Remove(name)
}

// c07PruneRace: the multi-bucket fs backend removes the directories a DELETE leaves empty. While the removal
// of directory d (emptied by DELETE d/k1) is held open, another client uploads d/k2. Whatever the order the
// two take effect in, an acknowledged upload is served AND listed afterwards (on MemMapFs a directory removed
// after the upload went in takes the object out of every listing).
func c07PruneRace() {
	gfs := &gateFs{Fs: afero.NewMemMapFs(), suffix: "/d", entered: make(chan struct{}), release: make(chan struct{})}
	be, err := s3afero.MultiBucket(gfs)
	if err != nil {
		return
	}
	h := newServer(be)
	b := singleBucketName
	do(h, Req{Method: "PUT", Path: "/" + b})
	do(h, Req{Method: "PUT", Path: "/" + b + "/d/k1", Body: []byte("one")})
	do(h, Req{Method: "PUT", Path: "/" + b + "/other", Body: []byte("other")})
	gfs.mu.Lock()
	gfs.armed = true
	gfs.mu.Unlock()
	delDone := make(chan Resp, 1)
	go func() { delDone <- do(h, Req{Method: "DELETE", Path: "/" + b + "/d/k1"}) }()
	if !waitOr(gfs.entered, 3*time.Second) {
		// the backend did not remove the emptied directory (or not through Remove): nothing to interleave
		gfs.mu.Lock()
		gfs.armed = false
		gfs.mu.Unlock()
		select {
		case <-delDone:
		case <-time.After(5 * time.Second):
			emit("c07", "HANG", hs("DELETE of the last key of a directory on the multi-bucket fs backend never completed"))
		}
		return
	}
	putDone := make(chan Resp, 1)
	go func() { putDone <- do(h, Req{Method: "PUT", Path: "/" + b + "/d/k2", Body: []byte("two")}) }()
	var pr Resp
	early := false
	select {
	case pr = <-putDone:
		early = true
	case <-time.After(300 * time.Millisecond):
	}
	close(gfs.release)
	if !early {
		select {
		case pr = <-putDone:
		case <-time.After(5 * time.Second):
			emit("c07", "HANG", hs("an upload next to a key being deleted never completed (multi-bucket fs backend)"))
			return
		}
	}
	var dr Resp
	select {
	case dr = <-delDone:
	case <-time.After(5 * time.Second):
		emit("c07", "HANG", hs("DELETE of the last key of a directory never completed (multi-bucket fs backend)"))
		return
	}
	g := do(h, Req{Method: "GET", Path: "/" + b + "/d/k2"})
	l := do(h, Req{Method: "GET", Path: "/" + b})
	listed := false
	for _, k := range xmlAll(string(l.Body), "Key") {
		listed = listed || k == "d/k2"
	}
	msg := fmt.Sprintf("fsmem: DELETE d/k1 (the last key below d/; answers %d) held inside the removal of the emptied directory while PUT d/k2 arrives (answers %d, %s the removal went on): GET d/k2 answers %d %q, the bucket listing (%d) shows d/k2: %v",
		dr.Status, pr.Status, map[bool]string{true: "before", false: "after"}[early], g.Status, truncate(g.Body, 20), l.Status, listed)
	if dr.Status == 204 && pr.Status == 200 && g.Status == 200 && string(g.Body) == "two" && l.Status == 200 && listed {
		emit("c07", "GOOD", hs(msg))
	} else {
		emit("c07", "BAD", hs("S:acknowledged-upload-lost-to-a-concurrent-delete-of-its-neighbour "+msg))
	}
	nontrivial("fsmem|prune-race")
}
